import NA.Proofs.C03PlanFlags
/-
C03, whole-vsys theorems, part 17: where the flags come from.  For a target without
address-groups and service-groups a `needed` / `edit` flag is only ever set for a name that a
rule of the target uses.  Core Lean only.
-/
namespace NA.PanOs

theorem mem_modAt {α : Type} {l : List α} {i : Nat} {f : α → α} {x : α} (h : x ∈ modAt l i f) :
    x ∈ l ∨ ∃ y, l[i]? = some y ∧ x = f y := by
  obtain ⟨j, hj⟩ := List.getElem?_of_mem h
  rw [modAt_getElem?] at hj
  split at hj
  · rename_i hji
    subst hji
    cases hy : l[j]? with
    | none => simp [hy] at hj
    | some y =>
      simp only [hy, Option.map_some, Option.some.injEq] at hj
      exact Or.inr ⟨y, rfl, hj.symm⟩
  · exact Or.inl (List.mem_of_getElem? hj)

/-- Flags of addresses are only set for names with property `R`. -/
def ProvA (R : String → Prop) (st : St) : Prop :=
  (∀ ob ∈ st.bAddr, (ob.needed = true ∨ ob.edit = true) → R ob.o.name) ∧
  (∀ oa ∈ st.aAddr, oa.needed = true → R oa.o.name)

/-- Flags of services are only set for names with property `R`. -/
def ProvS (R : String → Prop) (st : St) : Prop :=
  (∀ ob ∈ st.bSvc, (ob.needed = true ∨ ob.edit = true) → R ob.o.name) ∧
  (∀ oa ∈ st.aSvc, oa.needed = true → R oa.o.name)

theorem bAddr_name_of_idx {st : St} {x : String} {bi : Nat} {y : BObj} (h : st.bAddrIdx x = some bi)
    (hy : st.bAddr[bi]? = some y) : y.o.name = x := by
  have := lastIdx_spec h
  simpa [List.getElem?_map, hy] using this

theorem aAddr_name_of_idx {st : St} {x : String} {ai : Nat} {y : AObj} (h : st.aAddrIdx x = some ai)
    (hy : st.aAddr[ai]? = some y) : y.o.name = x := by
  have := lastIdx_spec h
  simpa [List.getElem?_map, hy] using this

theorem bSvc_name_of_idx {st : St} {x : String} {bi : Nat} {y : BObj} (h : st.bSvcIdx x = some bi)
    (hy : st.bSvc[bi]? = some y) : y.o.name = x := by
  have := lastIdx_spec h
  simpa [List.getElem?_map, hy] using this

theorem aSvc_name_of_idx {st : St} {x : String} {ai : Nat} {y : AObj} (h : st.aSvcIdx x = some ai)
    (hy : st.aSvc[ai]? = some y) : y.o.name = x := by
  have := lastIdx_spec h
  simpa [List.getElem?_map, hy] using this

theorem markAddrStep_prov (R : String → Prop) (fuel : Nat) (st : St) (x : String) (hg : st.bGrp = [])
    (hx : R x) (hp : ProvA R st) :
    ProvA R (markAddrStep fuel st x) ∧ (markAddrStep fuel st x).bGrp = [] := by
  have hidx : st.bGrpIdx x = none := by simp [St.bGrpIdx, hg, lastIdx, lastIdxFrom]
  unfold markAddrStep
  rw [hidx]
  simp only
  split
  · exact ⟨hp, hg⟩
  · rename_i bi hbi
    split
    · rename_i ai hai
      have hA : ∀ oa ∈ modAt st.aAddr ai (fun o => { o with needed := true }), oa.needed = true → R oa.o.name := by
        intro oa hoa hn
        rcases mem_modAt hoa with h | ⟨y, hy, he⟩
        · exact hp.2 oa h hn
        · subst he
          simp only
          rw [aAddr_name_of_idx hai hy]; exact hx
      split
      · refine ⟨⟨?_, hA⟩, hg⟩
        intro ob hob hf
        rcases mem_modAt hob with h | ⟨y, hy, he⟩
        · exact hp.1 ob h hf
        · subst he
          simp only
          rw [bAddr_name_of_idx hbi hy]; exact hx
      · exact ⟨⟨hp.1, hA⟩, hg⟩
    · refine ⟨⟨?_, hp.2⟩, hg⟩
      intro ob hob hf
      rcases mem_modAt hob with h | ⟨y, hy, he⟩
      · exact hp.1 ob h hf
      · subst he
        simp only
        rw [bAddr_name_of_idx hbi hy]; exact hx

theorem markAddrs_prov (R : String → Prop) : ∀ (fuel : Nat) (st : St) (l : List String), st.bGrp = [] →
    (∀ x ∈ l, R x) → ProvA R st → ProvA R (markAddrs fuel st l) ∧ (markAddrs fuel st l).bGrp = [] := by
  intro fuel
  cases fuel with
  | zero => intro st l hg _ hp; exact ⟨hp, hg⟩
  | succ fuel =>
    intro st l
    rw [markAddrs_succ]
    induction l generalizing st with
    | nil => intro hg _ hp; exact ⟨hp, hg⟩
    | cons x xs ih =>
      intro hg hl hp
      simp only [List.foldl_cons]
      obtain ⟨h1, h2⟩ := markAddrStep_prov R fuel st x hg (hl x (by simp)) hp
      exact ih _ h2 (fun y hy => hl y (List.mem_cons_of_mem _ hy)) h1

theorem markSrvStep_prov (R : String → Prop) (fuel : Nat) (st : St) (x : String) (hg : st.bSG = [])
    (hx : R x) (hp : ProvS R st) :
    ProvS R (markSrvStep fuel st x) ∧ (markSrvStep fuel st x).bSG = [] := by
  have hidx : st.bSGIdx x = none := by simp [St.bSGIdx, hg, lastIdx, lastIdxFrom]
  unfold markSrvStep
  rw [hidx]
  simp only
  split
  · exact ⟨hp, hg⟩
  · rename_i bi hbi
    split
    · rename_i ai hai
      have hA : ∀ oa ∈ modAt st.aSvc ai (fun o => { o with needed := true }), oa.needed = true → R oa.o.name := by
        intro oa hoa hn
        rcases mem_modAt hoa with h | ⟨y, hy, he⟩
        · exact hp.2 oa h hn
        · subst he
          simp only
          rw [aSvc_name_of_idx hai hy]; exact hx
      split
      · refine ⟨⟨?_, hA⟩, hg⟩
        intro ob hob hf
        rcases mem_modAt hob with h | ⟨y, hy, he⟩
        · exact hp.1 ob h hf
        · subst he
          simp only
          rw [bSvc_name_of_idx hbi hy]; exact hx
      · exact ⟨⟨hp.1, hA⟩, hg⟩
    · refine ⟨⟨?_, hp.2⟩, hg⟩
      intro ob hob hf
      rcases mem_modAt hob with h | ⟨y, hy, he⟩
      · exact hp.1 ob h hf
      · subst he
        simp only
        rw [bSvc_name_of_idx hbi hy]; exact hx

theorem markSrvs_prov (R : String → Prop) : ∀ (fuel : Nat) (st : St) (l : List String), st.bSG = [] →
    (∀ x ∈ l, R x) → ProvS R st → ProvS R (markSrvs fuel st l) ∧ (markSrvs fuel st l).bSG = [] := by
  intro fuel
  cases fuel with
  | zero => intro st l hg _ hp; exact ⟨hp, hg⟩
  | succ fuel =>
    intro st l
    rw [markSrvs_succ]
    induction l generalizing st with
    | nil => intro hg _ hp; exact ⟨hp, hg⟩
    | cons x xs ih =>
      intro hg hl hp
      simp only [List.foldl_cons]
      obtain ⟨h1, h2⟩ := markSrvStep_prov R fuel st x hg (hl x (by simp)) hp
      exact ih _ h2 (fun y hy => hl y (List.mem_cons_of_mem _ hy)) h1

theorem ProvA.of_eq {R : String → Prop} {st st' : St} (h1 : st'.aAddr = st.aAddr) (h2 : st'.bAddr = st.bAddr)
    (hp : ProvA R st) : ProvA R st' := by
  unfold ProvA; rw [h1, h2]; exact hp

theorem ProvS.of_eq {R : String → Prop} {st st' : St} (h1 : st'.aSvc = st.aSvc) (h2 : st'.bSvc = st.bSvc)
    (hp : ProvS R st) : ProvS R st' := by
  unfold ProvS; rw [h1, h2]; exact hp

/-- `markObjects` over rules whose address names all have `RA` and whose service names all have `RS`. -/
theorem markObjects_prov (RA RS : String → Prop) (fuel : Nat) : ∀ (rules : List Rule) (st : St),
    st.bGrp = [] → st.bSG = [] →
    (∀ r ∈ rules, (∀ x, (x ∈ r.src ∨ x ∈ r.dst) → RA x) ∧ (∀ x ∈ r.srv, RS x)) →
    ProvA RA st → ProvS RS st →
    ProvA RA (markObjects fuel st rules) ∧ ProvS RS (markObjects fuel st rules) := by
  intro rules
  induction rules with
  | nil => intro st _ _ _ h1 h2; exact ⟨h1, h2⟩
  | cons r rs ih =>
    intro st hg hsg hr h1 h2
    unfold markObjects at ih ⊢
    simp only [List.foldl_cons]
    obtain ⟨ra, rsv⟩ := hr r (by simp)
    obtain ⟨p1, g1⟩ := markAddrs_prov RA fuel st r.src hg (fun x hx => ra x (Or.inl hx)) h1
    obtain ⟨p2, g2⟩ := markAddrs_prov RA fuel _ r.dst g1 (fun x hx => ra x (Or.inr hx)) p1
    have s1 := markAddrs_svc fuel st r.src
    have s2 := markAddrs_svc fuel (markAddrs fuel st r.src) r.dst
    have q2 : ProvS RS (markAddrs fuel (markAddrs fuel st r.src) r.dst) :=
      ProvS.of_eq (s2.1.trans s1.1) (s2.2.1.trans s1.2.1) h2
    have hsg2 : (markAddrs fuel (markAddrs fuel st r.src) r.dst).bSG = [] := by
      rw [s2.2.2, s1.2.2]; exact hsg
    obtain ⟨q3, g3⟩ := markSrvs_prov RS fuel _ r.srv hsg2 rsv q2
    have a3 := markSrvs_addr fuel (markAddrs fuel (markAddrs fuel st r.src) r.dst) r.srv
    have p3 : ProvA RA (markSrvs fuel (markAddrs fuel (markAddrs fuel st r.src) r.dst) r.srv) :=
      ProvA.of_eq a3.1 a3.2.1 p2
    exact ih _ (by rw [a3.2.2]; exact g2) g3 (fun r' hr' => hr r' (List.mem_cons_of_mem _ hr')) p3 q3

/-- **Where the flags of the final planner state come from.** -/
theorem planState_prov (diff : Differ) (a b : Vsys) (hbg : b.groups = []) (hbs : b.sgroups = []) :
    ProvA (fun x => ∃ r ∈ b.rules, x ∈ r.src ∨ x ∈ r.dst) (planState diff a b) ∧
    ProvS (fun x => ∃ r ∈ b.rules, x ∈ r.srv) (planState diff a b) := by
  unfold planState
  simp only
  generalize planFuel (sortVsys a) (sortVsys b) = fuel
  generalize hnames : groupNamesFor (sortVsys a) (sortVsys b) = names
  generalize hbr : ((sortVsys b).rules.zip (uniqNames (ruleNames (sortVsys a).rules)
    (ruleNames (sortVsys b).rules))).map (fun (r, n) => { r with name := n }) = bRules
  have hobjs := diffRules_objs diff fuel
    (markObjects fuel (initSt (sortVsys a) (sortVsys b) names) (sortVsys b).rules)
    (sortVsys a) (sortVsys b) (sortVsys a).rules bRules
  obtain ⟨e1, e2, e3, e4, _, _⟩ := objs_fields hobjs
  have h0A : ProvA (fun x => ∃ r ∈ b.rules, x ∈ r.src ∨ x ∈ r.dst) (initSt (sortVsys a) (sortVsys b) names) := by
    constructor
    · intro ob hob hf
      simp only [initSt, List.mem_map] at hob
      obtain ⟨o, _, rfl⟩ := hob
      simp at hf
    · intro oa hoa hf
      simp only [initSt, List.mem_map] at hoa
      obtain ⟨o, _, rfl⟩ := hoa
      simp at hf
  have h0S : ProvS (fun x => ∃ r ∈ b.rules, x ∈ r.srv) (initSt (sortVsys a) (sortVsys b) names) := by
    constructor
    · intro ob hob hf
      simp only [initSt, List.mem_map] at hob
      obtain ⟨o, _, rfl⟩ := hob
      simp at hf
    · intro oa hoa hf
      simp only [initSt, List.mem_map] at hoa
      obtain ⟨o, _, rfl⟩ := hoa
      simp at hf
  obtain ⟨p, q⟩ := markObjects_prov _ _ fuel (sortVsys b).rules _
    (by simp [initSt, sortVsys, hbg]) (by simp [initSt, sortVsys, hbs])
    (by
      intro r hr
      simp only [sortVsys, List.mem_map] at hr
      obtain ⟨r0, hr0, rfl⟩ := hr
      refine ⟨fun x hx => ⟨r0, hr0, by simpa [mem_sortStrings] using hx⟩,
        fun x hx => ⟨r0, hr0, by simpa [mem_sortStrings] using hx⟩⟩)
    h0A h0S
  exact ⟨ProvA.of_eq e1 e2 p, ProvS.of_eq e3 e4 q⟩

end NA.PanOs
