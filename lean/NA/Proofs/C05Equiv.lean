import NA.Proofs.C05Sound2
import NA.Proofs.C05Whole
/-!
C05 (round 3): "no change is reported ONLY for an equivalent device", for whole rule sets.
-/
namespace NA.C05
open NA.Linux NA.Linux.Spec

theorem semEqRules_of (cfg : KCfg) (cn : Str) : ∀ (ra rb : List ARule), (∀ r ∈ ra, RuleOK cfg r) → (∀ r ∈ rb, RuleOK cfg r) →
    RulesEq (ra.map (mkRule (kernelOpts cfg) cn)) (rb.map (mkRule userOpts cn)) → semEqRules cfg ra rb = true := by
  intro ra
  induction ra with
  | nil => intro rb _ _ h; cases rb with
    | nil => rfl
    | cons b bs => simp [RulesEq] at h
  | cons a as ih =>
    intro rb h1 h2 h
    cases rb with
    | nil => simp [RulesEq] at h
    | cons b bs =>
      simp only [List.map_cons, RulesEq] at h
      simp only [semEqRules, Bool.and_eq_true]
      exact ⟨normalize_sound_device cfg a b (h1 a (by simp)) (h2 b (by simp)) h.1,
        ih bs (fun r hr => h1 r (by simp [hr])) (fun r hr => h2 r (by simp [hr])) h.2⟩

theorem find_of_getA_mkChains (sp : ARule → List OptW) (tbl : ATable) (c : Str) (ch : Chain)
    (h : getA c (mkChains sp tbl) = some ch) :
    ∃ ac, tbl.chains.find? (fun x => x.name = c) = some ac ∧ ac ∈ tbl.chains ∧ ac.name = c ∧
      ch = { policy := ac.policy, rules := ac.rules.map (mkRule sp ac.name) } := by
  simp only [mkChains] at h
  rw [getA_map_key (fun x : AChain => x.name) _ tbl.chains c] at h
  cases hf : tbl.chains.find? (fun x => x.name = c) with
  | none => simp [hf] at h
  | some ac =>
    simp only [hf, Option.map_some, Option.some.injEq] at h
    exact ⟨ac, rfl, List.mem_of_find?_eq_some hf, by simpa using List.find?_some hf, h.symm⟩

theorem find_of_getA_mkTables (sp : ARule → List OptW) (a : AState) (t : Str) (cm : Chains)
    (h : getA t (mkTables sp a) = some cm) :
    ∃ tbl, a.find? (fun x => x.name = t) = some tbl ∧ tbl ∈ a ∧ tbl.name = t ∧ cm = mkChains sp tbl := by
  simp only [mkTables] at h
  rw [getA_map_key (fun x : ATable => x.name) (mkChains sp) a t] at h
  cases hf : a.find? (fun x => x.name = t) with
  | none => simp [hf] at h
  | some tbl =>
    simp only [hf, Option.map_some, Option.some.injEq] at h
    exact ⟨tbl, rfl, List.mem_of_find?_eq_some hf, by simpa using List.find?_some hf, h.symm⟩

theorem getA_mkChains (sp : ARule → List OptW) (tbl : ATable) (hn : (tbl.chains.map (·.name)).Nodup)
    (c : AChain) (hc : c ∈ tbl.chains) :
    getA c.name (mkChains sp tbl) = some { policy := c.policy, rules := c.rules.map (mkRule sp c.name) } := by
  simp only [mkChains]
  rw [getA_map_key (fun x : AChain => x.name) _ tbl.chains c.name,
    (find?_key_iff (fun x : AChain => x.name) tbl.chains hn c.name c).mpr ⟨hc, rfl⟩]
  rfl

/-- **No change only for an equivalent device.**  If comparing what a device inside the class prints
(kernel spelling) with a target inside the class reports nothing, the device's rule set is
equivalent to the target's: the same tables and chains, equal policies, and rule by rule the same
meaning. -/
theorem same_only_if_equiv (cfg : KCfg) (dev tgt : AState) (hd : AStateOK cfg dev) (ht : AStateOK cfg tgt)
    (h : diffIPTables (mkTables (kernelOpts cfg) dev) (mkTables userOpts tgt) = .same) :
    semEq cfg dev tgt = true := by
  have hT := (diffIPTables_same _ _ (neTables_mk cfg dev hd (kernelOpts cfg) (spell_kernel cfg))
    (neTables_mk cfg tgt ht userOpts (spell_user cfg))).mp h
  unfold semEq
  rw [Bool.and_eq_true, List.all_eq_true, List.all_eq_true]
  constructor
  · intro ta hta
    have hga := getA_mkTables (kernelOpts cfg) dev hd.tnodup ta hta
    have hTt := hT ta.name
    rw [hga] at hTt
    cases hgb : getA ta.name (mkTables userOpts tgt) with
    | none => simp [hgb] at hTt
    | some cmb =>
      simp only [hgb] at hTt
      obtain ⟨tb, hfb, htb, _, ecm⟩ := find_of_getA_mkTables userOpts tgt ta.name cmb hgb
      subst ecm
      simp only [hfb]
      unfold semEqChains
      rw [Bool.and_eq_true, List.all_eq_true, List.all_eq_true]
      constructor
      · intro ca hca
        have hgca := getA_mkChains (kernelOpts cfg) ta (hd.cnodup ta hta) ca hca
        have hC := hTt ca.name
        rw [hgca] at hC
        cases hgcb : getA ca.name (mkChains userOpts tb) with
        | none => simp [hgcb] at hC
        | some chb =>
          simp only [hgcb] at hC
          obtain ⟨cb, hfcb, hcb, hnm, ech⟩ := find_of_getA_mkChains userOpts tb ca.name chb hgcb
          subst ech
          simp only [hfcb, Bool.and_eq_true, beq_iff_eq]
          refine ⟨hC.1, ?_⟩
          have hr := hC.2
          simp only [hnm] at hr
          exact semEqRules_of cfg ca.name ca.rules cb.rules (hd.rules ta hta ca hca) (ht.rules tb htb cb hcb) hr
      · intro cb hcb
        have hgcb := getA_mkChains userOpts tb (ht.cnodup tb htb) cb hcb
        have hC := hTt cb.name
        rw [hgcb] at hC
        cases hgca : getA cb.name (mkChains (kernelOpts cfg) ta) with
        | none => simp [hgca] at hC
        | some cha =>
          obtain ⟨ca, hfca, _, _, _⟩ := find_of_getA_mkChains (kernelOpts cfg) ta cb.name cha hgca
          simp [hfca]
  · intro tb htb
    have hgb := getA_mkTables userOpts tgt ht.tnodup tb htb
    have hTt := hT tb.name
    rw [hgb] at hTt
    cases hga : getA tb.name (mkTables (kernelOpts cfg) dev) with
    | none => simp [hga] at hTt
    | some cma =>
      obtain ⟨ta, hfa, _, _, _⟩ := find_of_getA_mkTables (kernelOpts cfg) dev tb.name cma hga
      simp [hfa]

end NA.C05
