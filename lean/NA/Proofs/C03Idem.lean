import NA.Proofs.C03Resume
import NA.Proofs.C03Sort
/-
C03, whole-vsys theorems, part 18: a device that already says what the target says gets an
empty plan (`plain_fixpoint`); the device reached by executing a plan is such a device
(`plain_idempotent`).  Core Lean only.
-/
namespace NA.PanOs

/-! ### Service lists without repetition are kept so -/

def SrvOk (v : Vsys) : Prop := ∀ r ∈ v.rules, r.srv.Nodup

def CmdSrvOk : Cmd → Prop
  | .editList _ f ms => f = .srv → ms.Nodup
  | .setRule r => r.srv.Nodup
  | _ => True

theorem Rule.set_srv (r : Rule) (f : Fld) (l : List String) (h : r.srv.Nodup) (hl : f = .srv → l.Nodup) :
    (r.set f l).srv.Nodup := by
  cases f with
  | src => exact h
  | dst => exact h
  | srv => exact hl rfl

theorem exec_srvOk {sh : Shared} {v v' : Vsys} {c : Cmd} (hv : SrvOk v) (hc : CmdSrvOk c)
    (h : exec sh v c = .ok v') : SrvOk v' := by
  unfold SrvOk at hv ⊢
  cases c with
  | setAddr n val =>
    simp only [exec] at h
    split at h
    · split at h
      · cases h; exact hv
      · cases h
    · cases h; exact hv
  | setSvc n val =>
    simp only [exec] at h
    split at h
    · split at h
      · cases h; exact hv
      · cases h
    · cases h; exact hv
  | editAddr n val =>
    simp only [exec] at h
    split at h
    · cases h; exact hv
    · cases h
  | editSvc n val =>
    simp only [exec] at h
    split at h
    · cases h; exact hv
    · cases h
  | delAddr n =>
    simp only [exec] at h
    split at h
    · cases h
    · split at h
      · cases h
      · cases h; exact hv
  | delSvc n =>
    simp only [exec] at h
    split at h
    · cases h
    · split at h
      · cases h
      · cases h; exact hv
  | setGrp n ms =>
    simp only [exec] at h
    repeat (first | (cases h; exact hv) | cases h | split at h)
  | setSGrp n ms =>
    simp only [exec] at h
    repeat (first | (cases h; exact hv) | cases h | split at h)
  | delGMem n m =>
    simp only [exec] at h
    repeat (first | (cases h; exact hv) | cases h | split at h)
  | delGrp n =>
    simp only [exec] at h
    repeat (first | (cases h; exact hv) | cases h | split at h)
  | delSGrp n =>
    simp only [exec] at h
    repeat (first | (cases h; exact hv) | cases h | split at h)
  | bad s => simp [exec] at h
  | delRule n =>
    simp only [exec] at h
    split at h
    · cases h
      intro r' hr'
      exact hv r' (List.mem_filter.mp hr').1
    · cases h
  | setRule r =>
    simp only [exec] at h
    split at h
    · cases h
    · split at h
      · cases h
      · split at h
        · cases h
        · cases h
          intro r' hr'
          rcases List.mem_append.mp hr' with hr' | hr'
          · exact hv r' hr'
          · simp at hr'; subst hr'; exact hc
  | move n d =>
    simp only [exec] at h
    split at h
    · cases h
    · rename_i r hf
      split at h
      · cases h
      · split at h
        · cases h
        · cases h
          intro r' hr'
          rcases mem_insertBefore hr' with hr' | hr'
          · subst hr'
            exact hv _ (List.mem_of_find?_eq_some hf)
          · exact hv r' (List.mem_filter.mp hr').1
  | delMem n f m =>
    simp only [exec] at h
    split at h
    · cases h
    · split at h
      · cases h
        intro r' hr'
        obtain ⟨r0, hr0, he⟩ := mem_modifyRule hr'
        rcases he with he | he
        · subst he; exact hv _ hr0
        · subst he
          refine Rule.set_srv r0 f _ (hv _ hr0) ?_
          intro hf; subst hf
          exact (List.filter_sublist).nodup (hv _ hr0)
      · cases h
  | addMem n f ms =>
    simp only [exec] at h
    split at h
    · cases h
    · split at h
      · cases h
      · cases h
        intro r' hr'
        obtain ⟨r0, hr0, he⟩ := mem_modifyRule hr'
        rcases he with he | he
        · subst he; exact hv _ hr0
        · subst he
          refine Rule.set_srv r0 f _ (hv _ hr0) ?_
          intro hf; subst hf
          exact mergeMembers_nodup _ _ (hv _ hr0)
  | editList n f ms =>
    simp only [exec] at h
    split at h
    · cases h
    · split at h
      · cases h
      · cases h
        intro r' hr'
        obtain ⟨r0, hr0, he⟩ := mem_modifyRule hr'
        rcases he with he | he
        · subst he; exact hv _ hr0
        · subst he
          exact Rule.set_srv r0 f _ (hv _ hr0) hc

theorem runs_srvOk {sh : Shared} : ∀ (cs : List Cmd) (v w : Vsys), SrvOk v → (∀ c ∈ cs, CmdSrvOk c) →
    Runs sh v cs w → SrvOk w := by
  intro cs
  induction cs with
  | nil =>
    intro v w hv _ hr
    unfold Runs at hr
    simp only [execAll, Prod.mk.injEq] at hr
    rw [← hr.1]; exact hv
  | cons c cs ih =>
    intro v w hv hc hr
    cases hx : exec sh v c with
    | error e =>
      unfold Runs at hr
      rw [execAll_cons_err hx] at hr
      simp at hr
    | ok v' =>
      obtain ⟨w', h1, h2⟩ := Runs.of_append [c] cs v w hr
      have : w' = v' := by
        unfold Runs at h1
        rw [execAll_cons_ok hx] at h1
        simp only [execAll, Prod.mk.injEq] at h1
        exact h1.1.symm
      subst this
      exact ih w' w (exec_srvOk hv (hc c (by simp)) hx) (fun c' h' => hc c' (List.mem_cons_of_mem _ h')) h2

/-! ### Equal lists give no request -/

theorem fieldCmds_same (diff : Differ) (hid : IdentityDiffer diff) (n : String) (f : Fld) (l : List String) :
    fieldCmds diff n f l l = [] := by
  have hd : diff l.length l.length (nameEq l l) = [⟨0, l.length, 0, l.length⟩] :=
    hid _ _ (fun i _ => by simp [nameEq])
  obtain ⟨h1, h2⟩ := identity_listCmds (.rule n f) l
  unfold fieldCmds
  rw [hd, h2, h1]
  simp [replaceInstead]

theorem eqCmds_same (diff : Differ) (hid : IdentityDiffer diff) (ra rb : Rule)
    (h1 : ra.src = rb.src) (h2 : ra.dst = rb.dst) (h3 : ra.srv = rb.srv) : eqCmds diff ra rb = [] := by
  unfold eqCmds
  rw [h1, h2, h3, fieldCmds_same diff hid, fieldCmds_same diff hid]
  simp

theorem plainRuleCmds_identity (diff : Differ) (A B : List Rule) (n : Nat)
    (h : ∀ k, k < n → eqCmds diff (A.getD k default) (B.getD k default) = []) :
    plainRuleCmds diff A B [⟨0, n, 0, n⟩] = [] := by
  cases n with
  | zero =>
    simp [plainRuleCmds, phase1Cmds, insGroupsFrom, phase2Cmds, Range.kind, Range.isDelete, List.extract]
  | succ n =>
    have hk : (⟨0, n + 1, 0, n + 1⟩ : Range).kind = .eq := by
      simp [Range.kind, Range.isDelete, Range.isInsert]
    simp only [plainRuleCmds, phase1Cmds, insGroupsFrom, phase2Cmds, hk, List.flatMap_nil, List.append_nil,
      Nat.sub_zero, Nat.zero_add]
    rw [List.flatMap_eq_nil_iff]
    intro k hk'
    exact h k (List.mem_range.mp hk')

/-! ### `rulesPair.Equal` on equal rules -/

theorem servicesEq_same (A B : List Obj) : ∀ (l : List String), servicesEq A B l l = true := by
  intro l
  induction l with
  | nil => rfl
  | cons x xs ih => simp [servicesEq, ih]

theorem all_congr' {l : List String} {f g : String → Bool} (h : ∀ x ∈ l, f x = g x) : l.all f = l.all g := by
  induction l with
  | nil => rfl
  | cons x xs ih =>
    simp only [List.all_cons]
    rw [h x (by simp), ih (fun y hy => h y (List.mem_cons_of_mem _ hy))]

theorem objMap_isSome (os : List Obj) (n : String) : (objMap os n).isSome = true ↔ n ∈ os.map (·.name) := by
  unfold objMap
  constructor
  · intro h
    cases hi : lastIdx (os.map (·.name)) n with
    | none => simp [hi] at h
    | some i => exact List.mem_of_getElem? (lastIdx_spec hi)
  · intro h
    have hs := lastIdx_isSome_of_mem h
    cases hi : lastIdx (os.map (·.name)) n with
    | none => simp [hi] at hs
    | some i =>
      have := lastIdx_spec hi
      simp only [Option.bind_some]
      cases ho : os[i]? with
      | none => simp [List.getElem?_map, ho] at this
      | some o => rfl

theorem vsysListType_same (v v' : Vsys) (hg : v.groups = []) (hg' : v'.groups = []) (l : List String)
    (h : ∀ x ∈ l, x ∈ v.addrs.map (·.name) ↔ x ∈ v'.addrs.map (·.name)) :
    vsysListType v l = vsysListType v' l := by
  have hall : l.all (fun n => (objMap v.addrs n).isSome) = l.all (fun n => (objMap v'.addrs n).isSome) := by
    apply all_congr'
    intro x hx
    rw [Bool.eq_iff_iff, objMap_isSome, objMap_isSome]
    exact h x hx
  have hgm : ∀ e, grpMap v.groups e = none := by intro e; simp [grpMap, hg, lastIdx, lastIdxFrom]
  have hgm' : ∀ e, grpMap v'.groups e = none := by intro e; simp [grpMap, hg', lastIdx, lastIdxFrom]
  unfold vsysListType
  rw [hg, hg']
  unfold objListType
  simp only [hall]
  split
  · rename_i e
    split
    · rfl
    · first | rfl | simp [hgm, hgm']
  · rfl

/-! ### The fixpoint -/

/-- The device already says what the target says. -/
structure Settled (w b : Vsys) : Prop where
  len : w.rules.length = b.rules.length
  like : ∀ t, t < b.rules.length → RuleLike (w.rules.getD t default) (b.rules.getD t default)
  srvW : ∀ r ∈ w.rules, r.srv.Nodup
  srvB : ∀ r ∈ b.rules, r.srv.Nodup
  addrSame : ∀ x, RefAddr b x → x ∈ b.addrs.map (·.name) → lookupObj w.addrs x = lookupObj b.addrs x
  addrRef : ∀ x ∈ w.addrs.map (·.name), RefAddr b x
  svcSame : ∀ x, RefSvc b x → x ∈ b.svcs.map (·.name) → lookupObj w.svcs x = lookupObj b.svcs x
  svcRef : ∀ x ∈ w.svcs.map (·.name), RefSvc b x

theorem filterMap_eq_nil_of {α β : Type} {l : List α} {f : α → Option β} (h : ∀ x ∈ l, f x = none) :
    l.filterMap f = [] := by
  induction l with
  | nil => rfl
  | cons x xs ih =>
    simp only [List.filterMap_cons, h x (by simp)]
    exact ih (fun y hy => h y (List.mem_cons_of_mem _ hy))

/-- **A settled device gets an empty plan.** -/
theorem plain_fixpoint (sh : Shared) (diff : Differ) (hd : GoodDiffer diff) (hid : IdentityDiffer diff)
    (w b : Vsys) (hP : PlainPair sh w b) (hS : Settled w b) : planVsys diff w b = [] := by
  obtain ⟨hag, hbg, hasg, hbsg, han, hbn, haan, hban, hasn, hbsn, hal, hbl, hbr, hres, hsres⟩ := hP
  obtain ⟨q1, q2, q3, q4, hout⟩ := planState_plain diff hd w b hag hbg hasg hbsg
  have hflags := planState_planFlags diff w b hbg hbsg
  have hA := addrSummary_of_planFlags hflags haan
  have hSv := svcSummary_of_planFlags hflags hasn
  obtain ⟨provA, provS⟩ := planState_prov diff w b hbg hbsg
  -- the two sorted copies agree position by position
  have hlists : ∀ t, t < b.rules.length →
      ((sortVsys w).rules.getD t default).hdr = ((bRulesOf w b).getD t default).hdr ∧
      ((sortVsys w).rules.getD t default).src = ((bRulesOf w b).getD t default).src ∧
      ((sortVsys w).rules.getD t default).dst = ((bRulesOf w b).getD t default).dst ∧
      ((sortVsys w).rules.getD t default).srv = ((bRulesOf w b).getD t default).srv := by
    intro t ht
    obtain ⟨e1, e2, e3, e4⟩ := bRulesOf_getD w b t ht
    have htw : t < w.rules.length := by rw [hS.len]; exact ht
    rw [sortVsys_rules_getD w t htw, e1, e2, e3, e4]
    obtain ⟨l0, l1, l2, l3⟩ := hS.like t ht
    have hmw : w.rules.getD t default ∈ w.rules := List.mem_of_getElem? (getElem?_of_lt w.rules t htw)
    have hmb : b.rules.getD t default ∈ b.rules := List.mem_of_getElem? (getElem?_of_lt b.rules t ht)
    refine ⟨l0, ?_, ?_, ?_⟩
    · exact sortStrings_canonical (hal _ hmw).1 (hbl _ hmb).1 l1
    · exact sortStrings_canonical (hal _ hmw).2 (hbl _ hmb).2 l2
    · exact sortStrings_canonical (hS.srvW _ hmw) (hS.srvB _ hmb) l3
  -- names of addresses: on the device iff in the target, for what the rules use
  have hnamesIff : ∀ x, RefAddr b x → (x ∈ w.addrs.map (·.name) ↔ x ∈ b.addrs.map (·.name)) := by
    intro x href
    constructor
    · intro hx
      obtain ⟨r, hr, hxr⟩ := href
      rcases (hbr r hr).1 x (by simpa using hxr) with h | h | h
      · exact absurd h (hres x hx).1
      · exact absurd h (hres x hx).2
      · exact h
    · intro hx
      have := hS.addrSame x href hx
      apply Decidable.byContradiction
      intro hn
      rw [(lookupObj_none_iff _ _).mpr hn] at this
      exact (lookupObj_none_iff _ _).mp this.symm hx
  -- the rule script is the identity
  have hscript : ruleScript diff w b = [⟨0, b.rules.length, 0, b.rules.length⟩] := by
    rw [ruleScript_eq diff w b, bRulesOf_length]
    have hlw : (sortVsys w).rules.length = b.rules.length := by simp [sortVsys, hS.len]
    rw [hlw]
    apply hid
    intro t ht
    obtain ⟨e0, e1, e2, e3⟩ := hlists t ht
    have hmb : b.rules.getD t default ∈ b.rules := List.mem_of_getElem? (getElem?_of_lt b.rules t ht)
    obtain ⟨_, b1, b2, _⟩ := bRulesOf_getD w b t ht
    unfold ruleEqual
    rw [e0, e1, e2, e3, servicesEq_same]
    have t1 : vsysListType (sortVsys w) ((bRulesOf w b).getD t default).src =
        vsysListType (sortVsys b) ((bRulesOf w b).getD t default).src := by
      apply vsysListType_same _ _ (by simp [sortVsys, hag]) (by simp [sortVsys, hbg])
      intro x hx
      rw [b1, mem_sortStrings] at hx
      exact hnamesIff x ⟨_, hmb, Or.inl hx⟩
    have t2 : vsysListType (sortVsys w) ((bRulesOf w b).getD t default).dst =
        vsysListType (sortVsys b) ((bRulesOf w b).getD t default).dst := by
      apply vsysListType_same _ _ (by simp [sortVsys, hag]) (by simp [sortVsys, hbg])
      intro x hx
      rw [b2, mem_sortStrings] at hx
      exact hnamesIff x ⟨_, hmb, Or.inr hx⟩
    rw [t1, t2]
    simp
  -- no rule request
  have hrules : (planState diff w b).out = [] := by
    rw [hout]
    rw [show (((sortVsys b).rules.zip (uniqNames (ruleNames (sortVsys w).rules)
      (ruleNames (sortVsys b).rules))).map (fun (r, n) => { r with name := n })) = bRulesOf w b from rfl, hscript]
    apply plainRuleCmds_identity
    intro k hk
    obtain ⟨_, e1, e2, e3⟩ := hlists k hk
    exact eqCmds_same diff hid _ _ e1 e2 e3
  -- no transfer
  have hbnames := map_o_name hA.bdefs
  have hsnames := map_o_name hSv.bdefs
  have noA : ∀ ob ∈ (planState diff w b).bAddr, ob.edit = false ∧ ob.needed = false := by
    intro ob hob
    have hmem : ob.o ∈ b.addrs := by rw [← hA.bdefs]; exact List.mem_map_of_mem hob
    have hname : ob.o.name ∈ b.addrs.map (·.name) := List.mem_map_of_mem hmem
    have hval := lookupObj_of_mem hban hmem
    constructor
    · cases he : ob.edit with
      | false => rfl
      | true =>
        exfalso
        have href : RefAddr b ob.o.name := provA.1 ob hob (Or.inr he)
        obtain ⟨bi, hbi⟩ := List.getElem?_of_mem hob
        obtain ⟨ai, oa, hai, hoa, hne⟩ := (hflags.sound bi ob hbi).2 he
        have hoaw : oa.o ∈ w.addrs := by rw [← hA.adefs]; exact List.mem_map_of_mem (List.mem_of_getElem? hoa)
        have h1 := lookupObj_of_mem haan hoaw
        rw [aAddr_name_of_idx hai hoa, hS.addrSame _ href hname, hval] at h1
        exact hne (Option.some.inj h1).symm
    · cases hn : ob.needed with
      | false => rfl
      | true =>
        exfalso
        have href : RefAddr b ob.o.name := provA.1 ob hob (Or.inl hn)
        have hlack := hA.setLacks ob hob hn
        have := hS.addrSame _ href hname
        rw [(lookupObj_none_iff _ _).mpr hlack, hval] at this
        cases this
  have noS : ∀ ob ∈ (planState diff w b).bSvc, ob.edit = false ∧ ob.needed = false := by
    intro ob hob
    have hmem : ob.o ∈ b.svcs := by rw [← hSv.bdefs]; exact List.mem_map_of_mem hob
    have hname : ob.o.name ∈ b.svcs.map (·.name) := List.mem_map_of_mem hmem
    have hval := lookupObj_of_mem hbsn hmem
    constructor
    · cases he : ob.edit with
      | false => rfl
      | true =>
        exfalso
        have href : RefSvc b ob.o.name := provS.1 ob hob (Or.inr he)
        obtain ⟨bi, hbi⟩ := List.getElem?_of_mem hob
        obtain ⟨ai, oa, hai, hoa, hne⟩ := (hflags.ssound bi ob hbi).2 he
        have hoaw : oa.o ∈ w.svcs := by rw [← hSv.adefs]; exact List.mem_map_of_mem (List.mem_of_getElem? hoa)
        have h1 := lookupObj_of_mem hasn hoaw
        rw [aSvc_name_of_idx hai hoa, hS.svcSame _ href hname, hval] at h1
        exact hne (Option.some.inj h1).symm
    · cases hn : ob.needed with
      | false => rfl
      | true =>
        exfalso
        have href : RefSvc b ob.o.name := provS.1 ob hob (Or.inl hn)
        have hlack := hSv.setLacks ob hob hn
        have := hS.svcSame _ href hname
        rw [(lookupObj_none_iff _ _).mpr hlack, hval] at this
        cases this
  have htransfer : transferCmds (planState diff w b) = [] := by
    rw [transferCmds_plain _ q2 q4]
    unfold addrTransfer svcTransfer
    rw [filterMap_eq_nil_of (fun ob hob => by simp [(noA ob hob).1, (noA ob hob).2]),
      filterMap_eq_nil_of (fun ob hob => by simp [(noS ob hob).1, (noS ob hob).2])]
    rfl
  -- no removal
  have hremove : removeCmds (planState diff w b) = [] := by
    rw [removeCmds_plain _ q1 q3]
    have fa : (planState diff w b).aAddr.filter (fun o => !o.needed) = [] := by
      rw [List.filter_eq_nil_iff]
      intro oa hoa
      have hmem : oa.o ∈ w.addrs := by rw [← hA.adefs]; exact List.mem_map_of_mem hoa
      have hname : oa.o.name ∈ w.addrs.map (·.name) := List.mem_map_of_mem hmem
      have href := hS.addrRef _ hname
      have := hA.marked _ href ((hnamesIff _ href).mp hname) oa hoa rfl
      simp [this]
    have fs : (planState diff w b).aSvc.filter (fun o => !o.needed) = [] := by
      rw [List.filter_eq_nil_iff]
      intro oa hoa
      have hmem : oa.o ∈ w.svcs := by rw [← hSv.adefs]; exact List.mem_map_of_mem hoa
      have hname : oa.o.name ∈ w.svcs.map (·.name) := List.mem_map_of_mem hmem
      have href := hS.svcRef _ hname
      have hb : oa.o.name ∈ b.svcs.map (·.name) := by
        obtain ⟨r, hr, hxr⟩ := href
        rcases (hbr r hr).2 _ hxr with h | h | h | h
        · exact absurd h (hsres _ hname).1
        · exact absurd h (hsres _ hname).2.1
        · exact absurd h (hsres _ hname).2.2
        · exact h
      have := hSv.marked _ href hb oa hoa rfl
      simp [this]
    rw [fa, fs]
    rfl
  unfold planVsys
  simp only
  rw [htransfer, hrules, hremove]
  rfl

/-! ### The device reached by a plan is settled -/


theorem listCmds_cmdSrvOk (n : String) (f : Fld) (la lb : List String) (rs : List Range) :
    ∀ c ∈ listCmds (.rule n f) la lb rs, CmdSrvOk c := by
  intro c hc
  unfold listCmds at hc
  rcases List.mem_append.mp hc with hc | hc
  · obtain ⟨x, _, rfl⟩ := List.mem_map.mp hc
    exact True.intro
  · split at hc
    · cases hc
    · simp only [List.mem_cons, List.not_mem_nil, or_false] at hc
      subst hc
      exact True.intro

theorem eqCmds_cmdSrvOk (diff : Differ) (ra rb : Rule) (h : rb.srv.Nodup) :
    ∀ c ∈ eqCmds diff ra rb, CmdSrvOk c := by
  intro c hc
  unfold eqCmds at hc
  have hfield : ∀ (f : Fld) (la lb : List String), f ≠ .srv → ∀ c ∈ fieldCmds diff ra.name f la lb, CmdSrvOk c := by
    intro f la lb hf c hc
    unfold fieldCmds at hc
    split at hc
    · simp only [List.mem_cons, List.not_mem_nil, or_false] at hc
      subst hc
      exact fun e => absurd e hf
    · exact listCmds_cmdSrvOk _ _ _ _ _ c hc
  rcases List.mem_append.mp hc with hc | hc
  · rcases List.mem_append.mp hc with hc | hc
    · exact hfield .src _ _ (by simp) c hc
    · exact hfield .dst _ _ (by simp) c hc
  · split at hc
    · simp only [List.mem_cons, List.not_mem_nil, or_false] at hc
      subst hc
      exact fun _ => h
    · cases hc

theorem plainRuleCmds_cmdSrvOk (diff : Differ) (A B : List Rule)
    (hB : ∀ j, (B.getD j default).srv.Nodup) (rs : List Range) :
    ∀ c ∈ plainRuleCmds diff A B rs, CmdSrvOk c := by
  have h1 : ∀ (rs : List Range), ∀ c ∈ phase1Cmds diff A B rs, CmdSrvOk c := by
    intro rs
    induction rs with
    | nil => intro c hc; cases hc
    | cons r rs ih =>
      intro c hc
      simp only [phase1Cmds] at hc
      rcases List.mem_append.mp hc with hc | hc
      · split at hc
        · obtain ⟨ru, _, rfl⟩ := List.mem_map.mp hc
          exact True.intro
        · cases hc
        · obtain ⟨k, _, hk⟩ := List.mem_flatMap.mp hc
          exact eqCmds_cmdSrvOk diff _ _ (hB _) c hk
      · exact ih c hc
  intro c hc
  unfold plainRuleCmds at hc
  rcases List.mem_append.mp hc with hc | hc
  · exact h1 rs c hc
  · unfold phase2Cmds at hc
    obtain ⟨g, _, hc⟩ := List.mem_flatMap.mp hc
    obtain ⟨ru, hru, hc⟩ := List.mem_flatMap.mp hc
    have hruB : ru ∈ B := by
      simp only [List.extract] at hru
      exact List.mem_of_mem_drop (List.mem_of_mem_take hru)
    obtain ⟨j, hj, hje⟩ := List.getElem_of_mem hruB
    have hnd : ru.srv.Nodup := by
      have := hB j
      rw [List.getD_eq_getElem?_getD, List.getElem?_eq_getElem hj, Option.getD_some, hje] at this
      exact this
    rcases List.mem_cons.mp hc with hc | hc
    · subst hc; exact hnd
    · split at hc
      · simp only [List.mem_cons, List.not_mem_nil, or_false] at hc
        subst hc; exact True.intro
      · cases hc

theorem plan_cmdSrvOk (sh : Shared) (diff : Differ) (hd : GoodDiffer diff) (a b : Vsys)
    (hP : PlainPair sh a b) (hsb : ∀ r ∈ b.rules, r.srv.Nodup) : ∀ c ∈ planVsys diff a b, CmdSrvOk c := by
  obtain ⟨hag, hbg, hasg, hbsg, _⟩ := hP
  obtain ⟨q1, q2, q3, q4, hout⟩ := planState_plain diff hd a b hag hbg hasg hbsg
  have hB : ∀ j, ((bRulesOf a b).getD j default).srv.Nodup := by
    intro j
    by_cases hj : j < b.rules.length
    · obtain ⟨_, _, _, h3⟩ := bRulesOf_getD a b j hj
      rw [h3]
      exact sortStrings_nodup (hsb _ (List.mem_of_getElem? (getElem?_of_lt b.rules j hj)))
    · have : (bRulesOf a b).getD j default = default := by
        rw [List.getD_eq_getElem?_getD, List.getElem?_eq_none (by rw [bRulesOf_length]; omega)]
        rfl
      rw [this]
      exact List.nodup_nil
  intro c hc
  unfold planVsys at hc
  simp only at hc
  rw [transferCmds_plain _ q2 q4, removeCmds_plain _ q1 q3, hout] at hc
  rcases List.mem_append.mp hc with hc | hc
  · rcases List.mem_append.mp hc with hc | hc
    · rcases List.mem_append.mp hc with hc | hc
      · unfold addrTransfer at hc
        obtain ⟨o, _, he⟩ := List.mem_filterMap.mp hc
        split at he
        · cases he; exact True.intro
        · split at he
          · cases he; exact True.intro
          · cases he
      · unfold svcTransfer at hc
        obtain ⟨o, _, he⟩ := List.mem_filterMap.mp hc
        split at he
        · cases he; exact True.intro
        · split at he
          · cases he; exact True.intro
          · cases he
    · exact plainRuleCmds_cmdSrvOk diff _ _ hB _ c hc
  · rcases List.mem_append.mp hc with hc | hc
    · obtain ⟨o, _, rfl⟩ := List.mem_map.mp hc
      exact True.intro
    · obtain ⟨o, _, rfl⟩ := List.mem_map.mp hc
      exact True.intro

/-- **Idempotence on the group-free fragment**: the plan for the device reached by executing a
plan is empty. -/
theorem plain_idempotent (sh : Shared) (diff : Differ) (hd : GoodDiffer diff) (hid : IdentityDiffer diff)
    (a b : Vsys) (hP : PlainPair sh a b) (hN : TgtNames sh b)
    (hsa : ∀ r ∈ a.rules, r.srv.Nodup) (hsb : ∀ r ∈ b.rules, r.srv.Nodup) :
    ∃ w, Runs sh a (planVsys diff a b) w ∧ equiv w b = true ∧ planVsys diff w b = [] := by
  obtain ⟨w, hw, heq, _, _, _, hlen, _, hlike, lookA, lookS, refA, refS⟩ := plain_converges_full sh diff hd a b hP
  refine ⟨w, hw, heq, ?_⟩
  have hPw : PlainPair sh w b := by
    rw [plainPair_iff] at hP ⊢
    exact ⟨runs_devOk _ a w hP.1 (plan_cmdOk sh diff hd a b ((plainPair_iff sh a b).mpr hP) hN) hw, hP.2⟩
  apply plain_fixpoint sh diff hd hid w b hPw
  refine ⟨hlen, ?_, runs_srvOk _ a w hsa (plan_cmdSrvOk sh diff hd a b hP hsb) hw, hsb,
    fun x hr hx => lookA x hr (Or.inr (Or.inr hx)), refA,
    fun x hr hx => lookS x hr (Or.inr (Or.inr (Or.inr hx))), refS⟩
  intro t ht
  have htw : t < w.rules.length := by rw [hlen]; exact ht
  have := getElem?_of_lt w.rules t htw
  exact hlike t _ this

end NA.PanOs
