import NA.Proofs.AsaConv1
/-
ASA `line N` planner, part 2: mask-level runs and the strict device.

`MaskRun M μ ops μ'`: the command list `ops` is what one obtains by switching cells of `M`
on / off one after the other, starting with presence mask `μ` and ending with `μ'`, where
EVERY command addresses exactly the index `cnt ν idx` that the touched cell has in the
then-current list `masked M ν`, an added line is absent before and clashes with no present
line (`mkey`), and a deleted line is present.  Such a run is accepted by the strict device
(`asaExec1`) step by step, and every intermediate device state is `masked M ν`.
-/
namespace NA.Acl

inductive MaskRun (M : List Cell) : List Bool → List Op → List Bool → Prop
  | nil (μ : List Bool) : MaskRun M μ [] μ
  | add (μ : List Bool) (j : Nat) (ops : List Op) (μ' : List Bool) :
      j < M.length → μ.length = M.length → μ.getD j false = false →
      (M.getD j default).new = true →
      (∀ x, x < M.length → μ.getD x false = true →
        (M.getD x default).line.mkey ≠ (M.getD j default).line.mkey) →
      MaskRun M (μ.set j true) ops μ' →
      MaskRun M μ (Op.add (cnt μ j) (M.getD j default).line :: ops) μ'
  | del (μ : List Bool) (i : Nat) (ops : List Op) (μ' : List Bool) :
      i < M.length → μ.length = M.length → μ.getD i false = true →
      MaskRun M (μ.set i false) ops μ' →
      MaskRun M μ (Op.del (cnt μ i) (M.getD i default).line :: ops) μ'
  | move (μ : List Bool) (i j : Nat) (ops : List Op) (μ' : List Bool) :
      i < M.length → j < M.length → μ.length = M.length → μ.getD i false = true →
      (μ.set i false).getD j false = false →
      (M.getD j default).new = true →
      (∀ x, x < M.length → (μ.set i false).getD x false = true →
        (M.getD x default).line.mkey ≠ (M.getD j default).line.mkey) →
      MaskRun M ((μ.set i false).set j true) ops μ' →
      MaskRun M μ (Op.move (cnt μ i) (M.getD i default).line
                     (cnt (μ.set i false) j) (M.getD j default).line :: ops) μ'

theorem MaskRun.append {M : List Cell} {μ μ1 μ2 : List Bool} {ops1 ops2 : List Op}
    (h1 : MaskRun M μ ops1 μ1) (h2 : MaskRun M μ1 ops2 μ2) : MaskRun M μ (ops1 ++ ops2) μ2 := by
  induction h1 with
  | nil μ => simpa using h2
  | add μ j ops μ' a b c d e _ ih => exact MaskRun.add μ j _ μ2 a b c d e (ih h2)
  | del μ i ops μ' a b c _ ih => exact MaskRun.del μ i _ μ2 a b c (ih h2)
  | move μ i j ops μ' a b c d e f g _ ih => exact MaskRun.move μ i j _ μ2 a b c d e f g (ih h2)

/-! ### One device step -/

theorem exec1_add (M : List Cell) (μ : List Bool) (j : Nat)
    (hj : j < M.length) (hl : μ.length = M.length) (hμ : μ.getD j false = false)
    (hk : ∀ x, x < M.length → μ.getD x false = true →
        (M.getD x default).line.mkey ≠ (M.getD j default).line.mkey) :
    asaExec1 (masked M μ) (Op.add (cnt μ j) (M.getD j default).line)
      = some (masked M (μ.set j true)) := by
  have h1 : cnt μ j ≤ (masked M μ).length := cnt_le_length M μ j (by omega)
  have h2 : (masked M μ).any (fun x => x.mkey == (M.getD j default).line.mkey) = false := by
    cases h : (masked M μ).any (fun x => x.mkey == (M.getD j default).line.mkey) with
    | false => rfl
    | true =>
      exfalso
      obtain ⟨l, hm, he⟩ := List.any_eq_true.1 h
      obtain ⟨x, hx, hp, hline⟩ := masked_mem M μ l hm
      apply hk x hx hp
      rw [hline]; simpa using he
  simp only [asaExec1, h2]
  rw [← masked_insert M μ j hj hμ (by omega)]
  simp [h1]

theorem exec1_del (M : List Cell) (μ : List Bool) (i : Nat)
    (hi : i < M.length) (hμ : μ.getD i false = true) :
    asaExec1 (masked M μ) (Op.del (cnt μ i) (M.getD i default).line)
      = some (masked M (μ.set i false)) := by
  simp only [asaExec1]
  rw [masked_get M μ i hi hμ, masked_erase M μ i hi hμ]
  simp

theorem exec1_move (M : List Cell) (μ : List Bool) (i j : Nat)
    (hi : i < M.length) (hj : j < M.length) (hl : μ.length = M.length)
    (hμi : μ.getD i false = true) (hμj : (μ.set i false).getD j false = false)
    (hk : ∀ x, x < M.length → (μ.set i false).getD x false = true →
        (M.getD x default).line.mkey ≠ (M.getD j default).line.mkey) :
    asaExec1 (masked M μ) (Op.move (cnt μ i) (M.getD i default).line
        (cnt (μ.set i false) j) (M.getD j default).line)
      = some (masked M ((μ.set i false).set j true)) := by
  have ha := exec1_add M (μ.set i false) j hj (by simpa using hl) hμj hk
  simp only [asaExec1] at ha ⊢
  rw [masked_get M μ i hi hμi, masked_erase M μ i hi hμi]
  simp only [beq_self_eq_true, if_true]
  exact ha

/-! ### Runs on the device -/

/-- `ν` is a presence mask of `M` in which only cells present in `μ` or new cells are present. -/
def Below (M : List Cell) (μ ν : List Bool) : Prop :=
  ν.length = M.length ∧
    ∀ x, x < M.length → ν.getD x false = true → μ.getD x false = true ∨ (M.getD x default).new = true

theorem Below.refl (M : List Cell) (μ : List Bool) (h : μ.length = M.length) : Below M μ μ :=
  ⟨h, fun _ _ hx => Or.inl hx⟩

theorem Below.of_set_true {M : List Cell} {μ ν : List Bool} {j : Nat} (hj : j < μ.length)
    (hn : (M.getD j default).new = true) (h : Below M (μ.set j true) ν) : Below M μ ν := by
  refine ⟨h.1, fun x hx hν => ?_⟩
  rcases h.2 x hx hν with h' | h'
  · rw [getD_set_bool μ j x true hj] at h'
    by_cases e : x = j
    · subst e; exact Or.inr hn
    · simp [e] at h'; exact Or.inl h'
  · exact Or.inr h'

theorem Below.of_set_false {M : List Cell} {μ ν : List Bool} {i : Nat} (hi : i < μ.length)
    (h : Below M (μ.set i false) ν) : Below M μ ν := by
  refine ⟨h.1, fun x hx hν => ?_⟩
  rcases h.2 x hx hν with h' | h'
  · rw [getD_set_bool μ i x false hi] at h'
    by_cases e : x = i
    · simp [e] at h'
    · simp [e] at h'; exact Or.inl h'
  · exact Or.inr h'

theorem MaskRun.length_eq {M : List Cell} {μ μ' : List Bool} {ops : List Op}
    (h : MaskRun M μ ops μ') (hl : μ.length = M.length) : μ'.length = M.length := by
  induction h with
  | nil μ => exact hl
  | add μ j ops μ' _ _ _ _ _ _ ih => exact ih (by simpa using hl)
  | del μ i ops μ' _ _ _ _ ih => exact ih (by simpa using hl)
  | move μ i j ops μ' _ _ _ _ _ _ _ _ ih => exact ih (by simpa using hl)

/-- A mask-level run is accepted by the strict device; all states are masked forms. -/
theorem MaskRun.trace {M : List Cell} {μ μ' : List Bool} {ops : List Op}
    (h : MaskRun M μ ops μ') :
    ∃ tr, asaTrace (masked M μ) ops = some tr ∧
      ∀ s, s ∈ tr → ∃ ν, Below M μ ν ∧ s = masked M ν := by
  induction h with
  | nil μ => exact ⟨[], rfl, by simp⟩
  | add μ j ops μ' hj hl hμ hn hk _ ih =>
    obtain ⟨tr, htr, hall⟩ := ih
    refine ⟨masked M (μ.set j true) :: tr, ?_, ?_⟩
    · simp only [asaTrace, exec1_add M μ j hj hl hμ hk]
      simp [htr]
    · intro s hs
      rcases List.mem_cons.1 hs with e | hs
      · exact ⟨μ.set j true,
          Below.of_set_true (by omega) hn (Below.refl M _ (by simpa using hl)), e⟩
      · obtain ⟨ν, hb, e⟩ := hall s hs
        exact ⟨ν, Below.of_set_true (by omega) hn hb, e⟩
  | del μ i ops μ' hi hl hμ _ ih =>
    obtain ⟨tr, htr, hall⟩ := ih
    refine ⟨masked M (μ.set i false) :: tr, ?_, ?_⟩
    · simp only [asaTrace, exec1_del M μ i hi hμ]
      simp [htr]
    · intro s hs
      rcases List.mem_cons.1 hs with e | hs
      · exact ⟨μ.set i false,
          Below.of_set_false (by omega) (Below.refl M _ (by simpa using hl)), e⟩
      · obtain ⟨ν, hb, e⟩ := hall s hs
        exact ⟨ν, Below.of_set_false (by omega) hb, e⟩
  | move μ i j ops μ' hi hj hl hμi hμj hn hk _ ih =>
    obtain ⟨tr, htr, hall⟩ := ih
    refine ⟨masked M ((μ.set i false).set j true) :: tr, ?_, ?_⟩
    · simp only [asaTrace, exec1_move M μ i j hi hj hl hμi hμj hk]
      simp [htr]
    · have hj' : j < (μ.set i false).length := by simp; omega
      intro s hs
      rcases List.mem_cons.1 hs with e | hs
      · exact ⟨(μ.set i false).set j true,
          Below.of_set_false (by omega)
            (Below.of_set_true hj' hn (Below.refl M _ (by simpa using hl))), e⟩
      · obtain ⟨ν, hb, e⟩ := hall s hs
        exact ⟨ν, Below.of_set_false (by omega) (Below.of_set_true hj' hn hb), e⟩

/-- A mask-level run executed on the strict device ends in the final mask's list. -/
theorem MaskRun.exec {M : List Cell} {μ μ' : List Bool} {ops : List Op}
    (h : MaskRun M μ ops μ') : asaExec (masked M μ) ops = some (masked M μ') := by
  induction h with
  | nil μ => simp [asaExec]
  | add μ j ops μ' hj hl hμ hn hk _ ih =>
    simp only [asaExec, List.foldlM_cons, exec1_add M μ j hj hl hμ hk] at ih ⊢
    simpa using ih
  | del μ i ops μ' hi hl hμ _ ih =>
    simp only [asaExec, List.foldlM_cons, exec1_del M μ i hi hμ] at ih ⊢
    simpa using ih
  | move μ i j ops μ' hi hj hl hμi hμj hn hk _ ih =>
    simp only [asaExec, List.foldlM_cons, exec1_move M μ i j hi hj hl hμi hμj hk] at ih ⊢
    simpa using ih

/-! ### Generic facts about the strict device -/

/-- The trace and the fold agree: the result is the last state of the trace. -/
theorem asaExec_of_trace (s : List Line) (ops : List Op) (tr : List (List Line))
    (h : asaTrace s ops = some tr) : asaExec s ops = some (tr.getLast?.getD s) := by
  induction ops generalizing s tr with
  | nil => simp [asaTrace] at h; subst h; simp [asaExec]
  | cons op ops ih =>
    cases h1 : asaExec1 s op with
    | none => simp [asaTrace, h1] at h
    | some s' =>
      cases h2 : asaTrace s' ops with
      | none => simp [asaTrace, h1, h2] at h
      | some rest =>
        simp [asaTrace, h1, h2] at h
        have := ih s' rest h2
        simp only [asaExec, List.foldlM_cons, h1] at this ⊢
        subst h
        cases rest with
        | nil => simpa using this
        | cons r rest =>
          rw [List.getLast?_cons_cons]
          cases hz : (r :: rest).getLast? with
          | none => simp at hz
          | some z => simpa [hz] using this

end NA.Acl
