import NA.Proofs.F2Acl
import NA.Proofs.F2Equiv
/-!
# F2: when the IOS line planner `planIOS` is quiet

* `planIOS_all_both`: a script that keeps every line (all cells both) gives the empty plan.
* `planIOS_empty_blockEquiv`: an empty plan for a valid script that keeps a line (no remark lines, lines
  pairwise different modulo `log`) means the device ACL is block-equivalent modulo `log` to the target.
* `plan_second_script_counterexample`: for block-equivalent lists the plan depends on WHICH valid script
  is passed: one valid script gives the empty plan, another valid script a move — so "planning again is
  quiet" cannot hold for all valid second scripts; the Myers result stays a parameter.
-/
namespace NA.F2
open NA.Acl

theorem insertRuns_all_both (M : List Cell) (h : ∀ c ∈ M, c.old = true ∧ c.new = true) (idx before : Nat) :
    insertRuns M idx before = [] := by
  induction M generalizing idx before with
  | nil => rfl
  | cons c M ih =>
    obtain ⟨ho, hn⟩ := h c (List.mem_cons_self ..)
    simp only [insertRuns, ho, hn, Bool.not_true, Bool.and_false, Bool.false_eq_true, ↓reduceIte]
    exact ih (fun c' hc' => h c' (List.mem_cons_of_mem _ hc')) _ _

theorem delIdx_all_both (M : List Cell) (h : ∀ c ∈ M, c.old = true ∧ c.new = true) : delIdx M = [] := by
  unfold delIdx
  rw [List.filter_eq_nil_iff]
  intro i hi
  have hlt : i < M.length := List.mem_range.mp hi
  have hm : M.getD i default ∈ M := getD_mem_of_lt M i hlt
  rw [(h _ hm).1, (h _ hm).2]; simp

/-- A script that keeps every line: nothing is planned. -/
theorem planIOS_all_both (M : List Cell) (h : ∀ c ∈ M, c.old = true ∧ c.new = true) : planIOS M = [] := by
  unfold planIOS planIOS'
  cases M with
  | nil => rfl
  | cons c M' =>
    have hany : ((c :: M').any fun c => c.old && c.new) = true := by
      simp [(h c (List.mem_cons_self ..)).1, (h c (List.mem_cons_self ..)).2]
    simp only [hany, Bool.not_true, Bool.false_eq_true, ↓reduceIte, insertRuns_all_both (c :: M') h 0 0,
      delIdx_all_both (c :: M') h]
    rfl

theorem iosLines_iosReseq (dev : IosAcl) (a b : Nat) : iosLines (iosReseq dev a b) = iosLines dev := by
  simp only [iosLines, iosReseq, List.map_map]
  have : ((fun x : Nat × Line => x.2) ∘ fun p : Nat × Nat × Line => (a + p.1 * b, p.2.2)) =
      (fun x : Nat × Line => x.2) ∘ Prod.snd := rfl
  rw [this, ← List.map_map, List.map_snd_zip]
  simp

/-- An empty plan means: already block-equivalent modulo `log` (for the class of
`ios_plan_block_equiv_partial`). -/
theorem planIOS_empty_blockEquiv (M : List Cell)
    (hboth : (M.any fun c => c.old && c.new) = true) (hjunk : noJunk M = true) (hruns : runsShort M)
    (hno : ((olds M).map (·.mkey)).Nodup) (hnn : ((news M).map (·.mkey)).Nodup)
    (hnr : ∀ c ∈ M, c.line.remark = false)
    (hwf : ∀ i ∈ delIdx M, ∀ j ∈ addIdx M,
      (M.getD i default).line.mkey = (M.getD j default).line.mkey →
      LineEqv (M.getD i default).line (M.getD j default).line)
    (hplan : planIOS M = []) : BlockEqG LineEqv (olds M) (news M) := by
  obtain ⟨tr, s, htr, hlast, hbe, _⟩ :=
    NA.Acl.IosAclProps.ios_plan_block_equiv_partial M hboth hjunk hruns hno hnn hnr hwf
      ((olds M).map fun l => (0, l)) (by simp [iosLines, List.map_map, Function.comp_def])
  rw [hplan] at htr
  simp only [iosTrace, Option.some.injEq] at htr
  subst htr
  simp only [List.getLast?_singleton, Option.some.injEq] at hlast
  subst hlast
  rw [iosLines_iosReseq] at hbe
  simpa [iosLines, List.map_map, Function.comp_def] using hbe

/-! ## the plan depends on the script -/

namespace PW
def p1 : Line := { key := 1, mkey := 1, permit := true }
def p2 : Line := { key := 2, mkey := 2, permit := true }
def d1 : Line := { key := 3, mkey := 3, permit := false }
def d2 : Line := { key := 4, mkey := 4, permit := false }
/-- device `[p1, p2, d1, d2]`, target `[p2, p1, d2, d1]`: block-equivalent -/
def devP : List Line := [p1, p2, d1, d2]
def tgtP : List Line := [p2, p1, d2, d1]
/-- valid script keeping `p1` and `d1` -/
def rsA : List Range := [⟨0,0,0,1⟩, ⟨0,1,1,2⟩, ⟨1,2,2,2⟩, ⟨2,2,2,3⟩, ⟨2,3,3,4⟩, ⟨3,4,4,4⟩]
/-- valid script keeping `p2` and `d1` -/
def rsB : List Range := [⟨0,1,0,0⟩, ⟨1,2,0,1⟩, ⟨2,2,1,3⟩, ⟨2,3,3,4⟩, ⟨3,4,4,4⟩]
end PW

open PW in
/-- Two valid, normalised scripts for the same block-equivalent pair: the first is planned as "nothing to
do" (both moves suppressed), the second as a move of `d2` (its insert run mixes permit and deny, so
`moveOK` is off).  "A second compare is empty" therefore cannot be a theorem about all valid scripts. -/
theorem plan_second_script_counterexample :
    blockEquiv devP tgtP = true ∧
    (cellsOf devP tgtP rsA).map (fun M => (normalised M, planIOS M)) = some (true, []) ∧
    (cellsOf devP tgtP rsB).map (fun M => (normalised M, planIOS M)) =
      some (true, [IOp.move 40000 20002 d2]) := by
  refine ⟨by decide, by decide, by decide⟩


/-! ## on the configuration-level lines -/

open NA.IosDev2 in
/-- A quiet line planner on a pair of the class `incrOK` (valid script keeping a line, no remark
lines, lines pairwise different modulo `log`) means: already block-equivalent modulo `log`. -/
theorem quietLines_blockEquivA (al bl : List ALine) (rs : List Range) (hok : incrOK al bl rs = true)
    (hq : quietLines al bl rs = true) : BlockEquivA al bl := by
  simp only [incrOK, Bool.and_eq_true] at hok
  obtain ⟨⟨htf, hnf⟩, hM⟩ := hok
  cases hcells : pairCells al bl rs with
  | none => rw [hcells] at hM; cases hM
  | some M =>
    rw [hcells] at hM
    simp only [Bool.and_eq_true, decide_eq_true_eq, List.all_eq_true, Bool.not_eq_true'] at hM
    obtain ⟨⟨⟨⟨⟨hboth, hjunk⟩, hruns⟩, hno⟩, hnn⟩, hnr⟩ := hM
    have hruns' := (runsShortB_iff M).mp hruns
    obtain ⟨ho, hn⟩ := cellsOf_sound _ _ rs M hcells
    have hal : al.isEmpty = false := by
      cases al with
      | nil =>
        simp only [List.map_nil] at ho
        obtain ⟨c, hc, hcb⟩ := List.any_eq_true.mp hboth
        simp only [Bool.and_eq_true] at hcb
        have : c.line ∈ olds M := List.mem_map.mpr ⟨c, List.mem_filter.mpr ⟨hc, hcb.1⟩, rfl⟩
        rw [ho] at this
        cases this
      | cons a as => rfl
    have hwf : ∀ i ∈ delIdx M, ∀ j ∈ addIdx M,
        (M.getD i default).line.mkey = (M.getD j default).line.mkey →
        LineEqv (M.getD i default).line (M.getD j default).line := by
      intro i hi j hj hk
      obtain ⟨hil, hio⟩ := mem_delIdxI.mp hi
      obtain ⟨hjl, hjn⟩ := mem_addIdxI.mp hj
      simp only [Cell.oldOnly, Cell.newOnly, Bool.and_eq_true] at hio hjn
      have h1 : (M.getD i default).line ∈ olds M :=
        List.mem_map.mpr ⟨_, List.mem_filter.mpr ⟨getD_mem_of_lt M i hil, hio.1⟩, rfl⟩
      have h2 : (M.getD j default).line ∈ news M :=
        List.mem_map.mpr ⟨_, List.mem_filter.mpr ⟨getD_mem_of_lt M j hjl, hjn.1⟩, rfl⟩
      rw [ho] at h1
      rw [hn] at h2
      obtain ⟨x, hx, hxe⟩ := List.mem_map.mp h1
      obtain ⟨y, hy, hye⟩ := List.mem_map.mp h2
      rw [← hxe, ← hye] at hk ⊢
      have hxm : x ∈ al ++ bl := List.mem_append_left _ hx
      have hym : y ∈ al ++ bl := List.mem_append_right _ hy
      have hnl : x.nolog = y.nolog :=
        idxOf_inj (l := mkOf al bl) (List.mem_map_of_mem hxm) (List.mem_map_of_mem hym) hk
      have hact := nologFun_of hnf hxm hym hnl
      simp only [LineEqv, encLine, hnl, hact, and_self]
    have hplan : planIOS M = [] := by
      simp only [quietLines, hal, Bool.false_and, Bool.false_or, Bool.not_false, Bool.true_and, hcells,
        Bool.and_eq_true, List.isEmpty_iff] at hq
      exact hq.2
    have hbe := planIOS_empty_blockEquiv M hboth hjunk hruns' hno hnn hnr hwf hplan
    have hbe' : BlockEqG LineEqv (al.map (encP al bl)) (bl.map (encP al bl)) := by
      have h1 : olds M = al.map (encP al bl) := ho
      have h2 : news M = bl.map (encP al bl) := hn
      rw [← h1, ← h2]; exact hbe
    exact (show AclEqv al bl from ⟨al, hbe'⟩).blockEquivA

/-- The identity script is quiet: no hypothesis on the planner's answer is left. -/
theorem identityOn_quiet (al bl : List ALine) (rs : List Range) (h : identityOn al bl rs = true) :
    quietLines al bl rs = true := by
  unfold identityOn at h
  unfold quietLines
  rcases Bool.or_eq_true_iff.mp h with h1 | h1
  · rw [h1]; rfl
  · simp only [Bool.and_eq_true] at h1
    obtain ⟨hne, hm⟩ := h1
    rw [Bool.or_eq_true_iff]
    right
    simp only [Bool.and_eq_true]
    refine ⟨hne, ?_⟩
    cases hc : pairCells al bl rs with
    | none => rw [hc] at hm; cases hm
    | some M =>
      rw [hc] at hm
      simp only at hm ⊢
      have hall : ∀ c ∈ M, c.old = true ∧ c.new = true := by
        intro c hcm
        have := List.all_eq_true.mp hm c hcm
        simpa using this
      have hplan := planIOS_all_both M hall
      -- `M` is not empty: it carries the lines of the non-empty device list
      have hMne : M ≠ [] := by
        intro hM
        have ho := (NA.Acl.cellsOf_sound _ _ rs M hc).1
        rw [hM] at ho
        have : al = [] := by
          cases al with
          | nil => rfl
          | cons x xs => simp [NA.Acl.olds] at ho
        rw [this] at hne; simp at hne
      rw [Bool.and_eq_true]
      refine ⟨?_, by rw [hplan]; rfl⟩
      cases M with
      | nil => exact absurd rfl hMne
      | cons c M' =>
        obtain ⟨k1, k2⟩ := hall c (List.mem_cons_self ..)
        simp [k1, k2]

/-- … and it exists only for lists that are equal line by line (under the numeric encoding of the pair). -/
theorem identityOn_equal (al bl : List ALine) (rs : List Range) (h : identityOn al bl rs = true) :
    al.map (encLine ((al ++ bl).map (·.text)) ((al ++ bl).map (·.nolog))) =
      bl.map (encLine ((al ++ bl).map (·.text)) ((al ++ bl).map (·.nolog))) := by
  unfold identityOn at h
  rcases Bool.or_eq_true_iff.mp h with h1 | h1
  · simp only [Bool.and_eq_true, List.isEmpty_iff] at h1
    rw [h1.1, h1.2]
  · simp only [Bool.and_eq_true] at h1
    obtain ⟨_, hm⟩ := h1
    cases hc : pairCells al bl rs with
    | none => rw [hc] at hm; cases hm
    | some M =>
      rw [hc] at hm
      obtain ⟨ho, hn⟩ := NA.Acl.cellsOf_sound _ _ rs M hc
      have hall : ∀ c ∈ M, c.old = true ∧ c.new = true := by
        intro c hcm
        have := List.all_eq_true.mp hm c hcm
        simpa using this
      have e1 : NA.Acl.olds M = M.map (·.line) := by
        unfold NA.Acl.olds
        rw [List.filter_eq_self.mpr (fun c hcm => (hall c hcm).1)]
      have e2 : NA.Acl.news M = M.map (·.line) := by
        unfold NA.Acl.news
        rw [List.filter_eq_self.mpr (fun c hcm => (hall c hcm).2)]
      rw [← ho, ← hn, e1, e2]

end NA.F2
