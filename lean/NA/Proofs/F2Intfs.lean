import NA.Proofs.F2Binds
/-!
# F2: all interface pairs (`diffIntfs`) on the strict device
-/
namespace NA.F2
open NA.IosDev2
open NA.F1 (diffUnordered slice lastIdx)
open NA.Acl (Range)

/-- The status of the directions of interface `x` after its pair has been processed. -/
structure Done (σ : String → String → Status) (x : String) (al bl : List Bind) : Prop where
  settled : ∀ b ∈ bl, σ x b.dir = .settled b.acl
  cleared : ∀ a ∈ al, a.dir ∉ bl.map (·.dir) → σ x a.dir = .cleared
  orig : ∀ dir, dir ∉ al.map (·.dir) → dir ∉ bl.map (·.dir) → σ x dir = .orig

/-- Static facts about the interfaces of both sides. -/
structure WFI (e : Env) (d0 : Dev) : Prop where
  aNames : (e.a.intfs.map (·.name)).Nodup
  bNames : (e.b.intfs.map (·.name)).Nodup
  aIntf : ∀ ai ∈ e.a.intfs, BindsA e d0 ai.name ai.binds
  bIntf : ∀ bi ∈ e.b.intfs, BindsB e bi.binds

theorem sem_iNeeded {e : Env} {P : List Name} {d0 : Dev} {st : St} {d : Dev} {σ : String → String → Status} {π : List (Nat × Nat)}
    (h : Sem e P d0 st d σ π) (l : List Nat) : Sem e P d0 { st with iNeeded := l } d σ π :=
  ⟨h.run, h.prot, h.mode, h.namesNd, h.intfs, h.routes, h.aHas, h.aKeep, h.ready, h.fresh, h.slots, h.bNeeded⟩

theorem name_ne_of_ne {al : List Intf} (hnd : (al.map (·.name)).Nodup) {k k' : Nat} (hk : k < al.length)
    (hk' : k' < al.length) (hne : k' ≠ k) : (al.getD k' default).name ≠ (al.getD k default).name := by
  intro hc
  have h1' : (al.map (·.name))[k']'(by simpa using hk') = (al.map (·.name))[k]'(by simpa using hk) := by
    simp only [List.getElem_map]
    rw [List.getD_eq_getElem?_getD, List.getElem?_eq_getElem hk', Option.getD_some] at hc
    rw [List.getD_eq_getElem?_getD, List.getElem?_eq_getElem hk, Option.getD_some] at hc
    exact hc
  exact hne ((List.getElem_inj hnd).mp h1')

/-- Processing the interface pairs `ps` (index of the device interface, target interface). -/
theorem sem_pairs {e : Env} (hwf : WFE e) {P : List Name} {d0 : Dev} (hwi : WFI e d0)
    (ps : List (Nat × Intf)) (hps : ∀ p ∈ ps, p.1 < e.a.intfs.length ∧ p.2 ∈ e.b.intfs ∧
      (e.a.intfs.getD p.1 default).name = p.2.name) (hnd : (ps.map (·.1)).Nodup)
    {st : St} {d : Dev} {σ : String → String → Status} {π : List (Nat × Nat)} (h : Sem e P d0 st d σ π)
    (hπ : ∀ q ∈ π, q.1 ∉ ps.map (·.1))
    (hσ : ∀ p ∈ ps, ∀ dir, σ (e.a.intfs.getD p.1 default).name dir = .orig) :
    ∃ d' σ' π', Sem e P d0 (ps.foldl (pairStep e e.a.intfs) st) d' σ' π' ∧
      (∀ p ∈ ps, Done σ' (e.a.intfs.getD p.1 default).name (e.a.intfs.getD p.1 default).binds p.2.binds) ∧
      (∀ y, (∀ p ∈ ps, y ≠ (e.a.intfs.getD p.1 default).name) → ∀ dir, σ' y dir = σ y dir) ∧
      (∀ q ∈ π', q ∈ π ∨ q.1 ∈ ps.map (·.1)) := by
  induction ps generalizing st d σ π with
  | nil => exact ⟨d, σ, π, h, by simp, fun _ _ _ => rfl, fun q hq => Or.inl hq⟩
  | cons p ps ih =>
    obtain ⟨hk, hb, hnm⟩ := hps p (List.mem_cons_self ..)
    have hmem := getD_mem e.a.intfs p.1 hk
    simp only [List.map_cons, List.nodup_cons] at hnd
    have h0 : Sem e P d0 ({ st with iNeeded := p.1 :: st.iNeeded }.hit "intf:pair") d σ π := sem_hit (sem_iNeeded h _) _
    obtain ⟨d1, σ1, π1, h1, hoth, hset, hclr, horig, hπ1⟩ := sem_diffBinds hwf p.1 (e.a.intfs.getD p.1 default).name
      (e.a.intfs.getD p.1 default).binds p.2.binds (hwi.aIntf _ hmem) (hwi.bIntf _ hb)
      (fun a ha b' hb' hd => ⟨_, hmem, _, hb, hnm, a, ha, b', hb', hd, rfl, rfl⟩) h0
      (fun k hc => hπ _ hc (by simp)) (hσ p (List.mem_cons_self ..))
    have hne : ∀ p' ∈ ps, (e.a.intfs.getD p'.1 default).name ≠ (e.a.intfs.getD p.1 default).name := by
      intro p' hp'
      have hk' := (hps p' (List.mem_cons_of_mem _ hp')).1
      exact name_ne_of_ne hwi.aNames hk hk' (fun hc => hnd.1 (hc ▸ List.mem_map_of_mem (f := (·.1)) hp'))
    obtain ⟨d', σ', π', h', hdone, hoth', hπ'⟩ := ih (fun p' hp' => hps p' (List.mem_cons_of_mem _ hp')) hnd.2 h1
      (by
        intro q hq hc
        rcases hπ1 q hq with h2 | h2
        · exact hπ q h2 (by simp [hc])
        · exact hnd.1 (h2 ▸ hc))
      (by
        intro p' hp' dir
        rw [hoth _ (hne p' hp')]
        exact hσ p' (List.mem_cons_of_mem _ hp') dir)
    refine ⟨d', σ', π', by simpa [pairStep] using h', ?_, ?_, ?_⟩
    · intro q hq
      rcases List.mem_cons.mp hq with rfl | hq'
      · -- the later pairs do not touch this interface
        have hsame : ∀ dir, σ' (e.a.intfs.getD q.1 default).name dir = σ1 (e.a.intfs.getD q.1 default).name dir :=
          hoth' _ (fun p' hp' => (hne p' hp').symm)
        exact ⟨fun b hb' => by rw [hsame]; exact hset b hb', fun a ha hn => by rw [hsame]; exact hclr a ha hn,
          fun dir h1' h2' => by rw [hsame]; exact horig dir h1' h2'⟩
      · exact hdone q hq'
    · intro y hy dir
      rw [hoth' y (fun p' hp' => hy p' (List.mem_cons_of_mem _ hp')) dir, hoth y (hy p (List.mem_cons_self ..)) dir]
    · intro q hq
      rcases hπ' q hq with h2 | h2
      · rcases hπ1 q h2 with h3 | h3
        · exact Or.inl h3
        · exact Or.inr (by simp [h3])
      · exact Or.inr (by simp [h2])


/-- The first fold of `diffIntfs` is a fold over the flattened pairs. -/
theorem intf_fold (e : Env) (al bl : List Intf) (rsA rsB : List Range)
    (hkA : ∀ r ∈ rsA, kindOf al.length bl.length r = some .del ∨ kindOf al.length bl.length r = some .eq)
    (hkB : ∀ r ∈ rsB, kindOf al.length bl.length r = some .ins) (st : St) :
    (rsA ++ rsB).foldl (fun st r =>
        if r.isInsert then st
        else if r.isEqual then
          ((slice (List.range al.length) r.lowA r.highA).zip (slice bl r.lowB r.highB)).foldl (pairStep e al) st
        else st) st =
      ((fEq rsA).map fun p => (p.1, bl.getD p.2 default)).foldl (pairStep e al) st := by
  rw [List.foldl_append]
  have hB : ∀ (rs : List Range) (st : St), (∀ r ∈ rs, kindOf al.length bl.length r = some .ins) →
      rs.foldl (fun st r =>
        if r.isInsert then st
        else if r.isEqual then
          ((slice (List.range al.length) r.lowA r.highA).zip (slice bl r.lowB r.highB)).foldl (pairStep e al) st
        else st) st = st := by
    intro rs
    induction rs with
    | nil => intro st _; rfl
    | cons r rs ih =>
      intro st hk
      simp only [List.foldl_cons, (tests_ins (hk r (List.mem_cons_self ..))).2.1, ↓reduceIte]
      exact ih st (fun r' h' => hk r' (List.mem_cons_of_mem _ h'))
  rw [hB rsB _ hkB]
  clear hB hkB
  induction rsA generalizing st with
  | nil => rfl
  | cons r rs ih =>
    have hr := hkA r (List.mem_cons_self ..)
    have hcons : fEq (r :: rs) = gEq r ++ fEq rs := rfl
    rw [List.foldl_cons, hcons, List.map_append, List.foldl_append, ih (fun r' h' => hkA r' (List.mem_cons_of_mem _ h'))]
    congr 1
    rcases hr with h | h
    · obtain ⟨_, h2, h3⟩ := tests_del h
      simp [gEq, h2, h3]
    · obtain ⟨_, h2, h3⟩ := tests_eq h
      obtain ⟨_, q2, _, q4, _⟩ := kind_eq h
      simp only [gEq, h2, Bool.false_eq_true, ↓reduceIte, h3, slice_range _ _ _ q2, slice_eq_idxs bl _ _ q4,
        List.zip_map_right]
      rfl

theorem sem_hits_fold {e : Env} {P : List Name} {d0 : Dev} {d : Dev} {σ : String → String → Status} {π : List (Nat × Nat)}
    {α : Type} (F : St → α → St) (hF : ∀ st a, F st a = st ∨ ∃ s, F st a = st.hit s) (l : List α) (st : St)
    (h : Sem e P d0 st d σ π) : Sem e P d0 (l.foldl F st) d σ π := by
  induction l generalizing st with
  | nil => exact h
  | cons a l ih =>
    simp only [List.foldl_cons]
    apply ih
    rcases hF st a with h1 | ⟨s, h1⟩
    · rw [h1]; exact h
    · rw [h1]; exact sem_hit h s

/-- `diffCmds` for the interface anchors: afterwards every target interface is bound as the target
says; interfaces without partner are not touched. -/
theorem sem_diffIntfs {e : Env} (hwf : WFE e) {P : List Name} {d0 : Dev} (hwi : WFI e d0)
    (hcov : ∀ bi ∈ e.b.intfs, ∃ ai ∈ e.a.intfs, ai.name = bi.name)
    {st : St} {d : Dev} {σ : String → String → Status} (h : Sem e P d0 st d σ [])
    (hσ : ∀ x dir, σ x dir = .orig) :
    ∃ d' σ' π', Sem e P d0 (diffIntfs e st e.a.intfs e.b.intfs) d' σ' π' ∧
      (∀ bi ∈ e.b.intfs, ∃ ai ∈ e.a.intfs, ai.name = bi.name ∧ Done σ' bi.name ai.binds bi.binds) ∧
      (∀ y, y ∉ e.b.intfs.map (·.name) → ∀ dir, σ' y dir = .orig) := by
  obtain ⟨al, hal⟩ : ∃ al, al = e.a.intfs := ⟨_, rfl⟩
  obtain ⟨bl, hbl⟩ : ∃ bl, bl = e.b.intfs := ⟨_, rfl⟩
  obtain ⟨ka, hka⟩ : ∃ ka, ka = al.map (·.name) := ⟨_, rfl⟩
  obtain ⟨kb, hkb⟩ : ∃ kb, kb = bl.map (·.name) := ⟨_, rfl⟩
  have hkaL : ka.length = al.length := by simp [hka]
  have hkbL : kb.length = bl.length := by simp [hkb]
  have hkaNd : ka.Nodup := by rw [hka, hal]; exact hwi.aNames
  have hkbNd : kb.Nodup := by rw [hkb, hbl]; exact hwi.bNames
  have hkaG : ∀ k, k < al.length → ka.getD k "" = (al.getD k default).name := by
    intro k hk; rw [hka, getD_map_str al _ k hk]
  have hkbG : ∀ j, j < bl.length → kb.getD j "" = (bl.getD j default).name := by
    intro j hj; rw [hkb, getD_map_str bl _ j hj]
  obtain ⟨rsA, rsB, hrs, hkA, hkB, _, hfE, _⟩ := diffUnordered_spec ka kb hkaNd
  rw [hkaL, hkbL] at hkA hkB
  obtain ⟨E, hE⟩ : ∃ E, E = sEq kb 0 ka := ⟨_, rfl⟩
  have hEmem : ∀ p ∈ E, p.1 < al.length ∧ p.2 < bl.length ∧ (al.getD p.1 default).name = (bl.getD p.2 default).name := by
    intro p hp
    rw [hE] at hp
    obtain ⟨t, ht, h1, hl⟩ := mem_sEq.mp (show (p.1, p.2) ∈ sEq kb 0 ka from hp)
    rw [hkaL] at ht
    simp only [Nat.zero_add] at h1
    obtain ⟨hj, hjk⟩ := lastIdx_some hl
    rw [hkbL] at hj
    rw [h1]
    refine ⟨ht, hj, ?_⟩
    rw [hkbG _ hj, hkaG t ht] at hjk
    exact hjk.symm
  obtain ⟨ps, hps⟩ : ∃ ps, ps = E.map fun p => (p.1, bl.getD p.2 default) := ⟨_, rfl⟩
  have hpsfst : ps.map (·.1) = E.map (·.1) := by
    rw [hps, List.map_map]; rfl
  -- the pairs
  obtain ⟨d', σ', π', h', hdone, hoth, _⟩ := sem_pairs hwf hwi ps
    (by
      intro p hp
      rw [hps] at hp
      obtain ⟨q, hq, rfl⟩ := List.mem_map.mp hp
      obtain ⟨h1, h2, h3⟩ := hEmem q hq
      exact ⟨by rw [← hal]; exact h1, by rw [← hbl]; exact getD_mem bl _ h2, by rw [← hal]; exact h3⟩)
    (by rw [hpsfst, hE]; exact nodup_sEq_fst ..) h (by intro q hq; cases hq) (fun p _ dir => hσ _ dir)
  have hname : ∀ p ∈ ps, (e.a.intfs.getD p.1 default).name = p.2.name := by
    intro p hp
    rw [hps] at hp
    obtain ⟨q, hq, rfl⟩ := List.mem_map.mp hp
    rw [← hal]
    exact (hEmem q hq).2.2
  refine ⟨d', σ', π', ?_, ?_, ?_⟩
  · unfold diffIntfs
    simp only [← hal, ← hbl, ← hka, ← hkb, hrs]
    apply sem_hits_fold
    · intro st r
      split
      · split
        · exact Or.inl rfl
        · exact Or.inr ⟨_, rfl⟩
      · split
        · exact Or.inl rfl
        · exact Or.inr ⟨_, rfl⟩
    · have hfold := intf_fold e al bl rsA rsB hkA hkB st
      rw [hfE, ← hE, ← hps] at hfold
      have h'' : Sem e P d0 (ps.foldl (pairStep e al) st) d' σ' π' := by rw [hal]; exact h'
      split
      · rw [hfold]; exact sem_hit h'' _
      · rw [hfold]; exact h''
  · intro bi hbi
    obtain ⟨ai, hai, hname'⟩ := hcov bi hbi
    rw [← hbl] at hbi
    obtain ⟨j, hj, hjb⟩ := List.getElem_of_mem hbi
    have hgj : bl.getD j default = bi := by
      rw [List.getD_eq_getElem?_getD, List.getElem?_eq_getElem hj, Option.getD_some, hjb]
    rw [← hal] at hai
    obtain ⟨k, hk, hka'⟩ := List.getElem_of_mem hai
    have hgk : al.getD k default = ai := by
      rw [List.getD_eq_getElem?_getD, List.getElem?_eq_getElem hk, Option.getD_some, hka']
    have hkey : ka.getD k "" ∈ kb := by
      rw [hkaG k hk, hgk, hname', hkb]; exact List.mem_map_of_mem hbi
    cases hl : lastIdx (ka.getD k "") kb with
    | none => exact absurd hkey (lastIdx_none.mp hl)
    | some j' =>
      obtain ⟨hj', hjk'⟩ := lastIdx_some hl
      rw [hkbL] at hj'
      have hjj : j' = j := by
        rw [hkbG j' hj', hkaG k hk, hgk, hname', ← hgj] at hjk'
        by_cases hc : j' = j
        · exact hc
        · exact absurd hjk' (name_ne_of_ne (by rw [hbl]; exact hwi.bNames) hj hj' hc)
      subst hjj
      have hmemE : (k, j') ∈ E := by
        rw [hE]; exact mem_sEq.mpr ⟨k, by rw [hkaL]; exact hk, by omega, hl⟩
      have hmemP : (k, bi) ∈ ps := by
        rw [hps]; exact List.mem_map.mpr ⟨(k, j'), hmemE, by simp only [hgj]⟩
      have := hdone (k, bi) hmemP
      simp only at this
      rw [← hal, hgk, hname'] at this
      exact ⟨ai, by rw [← hal]; exact hai, hname', this⟩
  · intro y hy dir
    rw [hoth y _ dir]
    · exact hσ y dir
    · intro p hp hc
      apply hy
      rw [hc, hname p hp]
      have : p.2 ∈ e.b.intfs := by
        rw [hps] at hp
        obtain ⟨q, hq, rfl⟩ := List.mem_map.mp hp
        rw [← hbl]; exact getD_mem bl _ (hEmem q hq).2.1
      exact List.mem_map_of_mem this

end NA.F2
