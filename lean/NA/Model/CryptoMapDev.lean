import NA.Model.CryptoMapEngine
/-!
# A device for the crypto-map-only fragment (specification side)

`applyAll` executes the structured change list of `NA.Vpn.engine` on a configuration of the same
shape as the engine's input, so that the result can be compared with the target and fed to a second
run.  A change a device would refuse yields `none`: a referenced transform-set that does not exist,
a sequence number outside 1..65535, `set peer` for an entry that has another peer, `no` for a line that is not there, defining a transform-set twice, deleting a transform-set that is
still referenced, binding a crypto map that does not exist, removing the last line of a bound map.
One value per attribute (`attr`) of an entry: a second `crypto map M N <attr> …` replaces the first.
-/
namespace NA.Vpn

def reid (l : List (Cmd × String)) : List (Cmd × String) :=
  l.zipIdx.map fun p => ({ p.1.1 with id := p.2 }, p.1.2)

/-- insert behind the last line with sequence number `s` (or at the end) -/
def insertAfterSeq (c : Cmd) (text : String) (l : List (Cmd × String)) : List (Cmd × String) :=
  match (l.reverse.dropWhile fun x => x.1.seq != c.seq) with
  | [] => l ++ [(c, text)]
  | keep => keep.reverse ++ [(c, text)] ++ l.drop keep.length

/-- One value per attribute and entry: a line for an attribute the entry already has replaces that line;
otherwise the new line goes behind the entry's last line. -/
def upsert (c : Cmd) (text : String) (l : List (Cmd × String)) : List (Cmd × String) :=
  if l.any (fun x => x.1.seq == c.seq && x.1.attr == c.attr) then
    l.map fun x => if x.1.seq == c.seq && x.1.attr == c.attr then (c, text) else x
  else insertAfterSeq c text l

/-- the entry with that sequence number belongs to another peer (a real device would append the new peer to its list) -/
def occupied (c : Cmd) (l : List (Cmd × String)) : Bool :=
  c.attr == "set peer" && l.any fun x => x.1.seq == c.seq && x.1.attr == "set peer" && x.1.key != c.key

def tsReferenced (cf : Config) (n : String) : Bool :=
  cf.maps.any fun m => m.2.2.any fun c => c.1.refs.contains n

def applyChg (cf : Config) : Chg → Option Config
  | .add c names =>
    if names.all (fun n => cf.ts.any fun t => t.1 == n) && decide (1 ≤ c.seq) && decide (c.seq ≤ 65535) &&
        !(cf.maps.any fun m => m.1 == c.name && occupied c m.2.2) then
      let nc : Cmd := { c with refs := names }
      let text := interleave c.body names
      if cf.maps.any (fun m => m.1 == c.name) then
        some { cf with maps := cf.maps.map fun m =>
          if m.1 == c.name then (m.1, m.2.1, reid (upsert nc text m.2.2)) else m }
      else some { cf with maps := cf.maps ++ [(c.name, false, reid [(nc, text)])] }
    else none
  | .del c orig =>
    match cf.maps.find? (fun m => m.1 == c.name) with
    | none => none
    | some m =>
      if m.2.2.any (fun x => x.1.seq == c.seq && x.2 == orig) then
        let rest := m.2.2.filter fun x => !(x.1.seq == c.seq && x.2 == orig)
        if rest.isEmpty then
          if cf.binds.any (fun b => b.1 == c.name) then none
          else some { cf with maps := cf.maps.filter fun m => m.1 != c.name }
        else some { cf with maps := cf.maps.map fun m => if m.1 == c.name then (m.1, m.2.1, reid rest) else m }
      else none
  | .ts false n content =>
    if cf.ts.any (fun t => t.1 == n) then none
    else some { cf with ts := cf.ts ++ [(n, content, decide ((n.splitOn "-DRC-").length > 1))] }
  | .ts true n content =>
    if cf.ts.any (fun t => t.1 == n && t.2.1 == content) && !tsReferenced cf n then
      some { cf with ts := cf.ts.filter fun t => t.1 != n }
    else none
  | .bind false m i =>
    if cf.maps.any (fun x => x.1 == m) && cf.intfs.contains i then
      if cf.binds.any (fun b => b.2 == i) then
        some { cf with binds := cf.binds.map fun b => if b.2 == i then (m, i) else b }
      else some { cf with binds := cf.binds ++ [(m, i)] }
    else none
  | .bind true m i =>
    if cf.binds.contains (m, i) then some { cf with binds := cf.binds.filter fun b => b != (m, i) } else none

def applyAll : Config → List Chg → Option Config
  | cf, [] => some cf
  | cf, c :: cs => (applyChg cf c).bind fun cf' => applyAll cf' cs

/-- the managed view: per binding the entries as (peer, sorted attribute texts with transform-sets by content) -/
def entryView (cf : Config) (cmds : List (Cmd × String)) (s : Int) : Option Peer × List String :=
  let l := cmds.filter fun c => c.1.seq == s
  (getPeer (l.map (·.1)),
   sortS (l.map fun c => interleave c.1.body (c.1.refs.map fun r =>
     match cf.ts.find? (fun t => t.1 == r) with
     | some t => "{" ++ t.2.1 ++ "}"
     | none => "<missing>")))

def view (cf : Config) : List (String × List (Option Peer × List String)) :=
  cf.binds.map fun b =>
    match cf.maps.find? (fun m => m.1 == b.1) with
    | some m => (b.2, (seqKeys (m.2.2.map (·.1))).map (entryView cf m.2.2))
    | none => (b.2, [])

/-- interfaces the target mentions -/
def managedIntfs (b : Config) : List String := b.binds.map (·.2)

/-- the view restricted to the managed interfaces, ordered by interface name, entries ordered by content -/
def viewOn (intfs : List String) (cf : Config) : List (String × List String) :=
  (sortS intfs).map fun i =>
    match (view cf).find? (fun v => v.1 == i) with
    | some v => (i, sortS (v.2.map fun e =>
        (match e.1 with | some (.static p) => "S:" ++ p | some (.dyn p) => "D:" ++ p | none => "?") ++ " " ++ ";".intercalate e.2))
    | none => (i, ["<unbound>"])

end NA.Vpn
