import NA.Model.MapSites
/-!
# C16, round 3 — tables for the transitive tie and the other sources of nondeterminism

`NA.Gen.MapRangesDeep` (regenerated on every run by the deep pass of translate/mapranges) gives,
for every `range` over a map of the module, the hash `chash` of the loop text **plus the text of
every module function and bound closure transitively referenced from its body**, and the
order-relevant effect kinds found in that closure:

* `abort` — `errlog.Abort`, `panic`, `os.Exit` reachable: which entry aborts first shows in the message;
* `out`   — an output sink (`fmt.Fprint*` …, hence `errlog.Warning/Info`) reachable: order of messages;
* `chg`   — appends to `State.Changes`: order of the change script;
* `dyn`   — a call the translator cannot resolve (function-typed parameter, interface method);
* `src`   — another source of nondeterminism (time, environment, goroutine, …) reachable;
* `glob`  — writes a package level variable.

A loop whose closure has one of these kinds is not covered by the shape theorems (they model
bodies without output), unless the kind is listed in `allow` with the regenerated fact that
makes it unreachable.
-/
namespace NA.C16

structure DeepExpect where
  file : String
  fn : String
  mapExpr : String
  ord : Nat
  chash : String          -- loop text + transitive callees
  allow : List String     -- kinds admitted for this loop (justified below)
  deriving DecidableEq, Repr

/-- One line per unsorted `range` over a map. A loop whose own text **or whose callees** changed
matches no line. -/
def deepExpected : List DeepExpect := [
  ⟨"asa/device.go", "isValidOutput", "validOutput", 0, "ba44d3138e82a0b9", []⟩,
  ⟨"cisco/config.go", "Config.MergeSpoc", "b.lookup", 0, "8a9f2ef744181606", []⟩,
  ⟨"cisco/config.go", "Config.MergeSpoc", "isReferenced", 0, "dbe338dad97cceb6", []⟩,
  ⟨"cisco/diff.go", "State.diffConfig", "comb[prefix]", 0, "ad238789429f2e0c", []⟩,
  ⟨"cisco/diff.go", "State.diffSomeAnchors/onlyAnchorNames", "m", 0, "3e84955dce9f0b53", []⟩,
  ⟨"cisco/diff.go", "State.diffASAACLs/addACL", "pos", 0, "8f3d15f401b7a4ce", []⟩,
  ⟨"cisco/diff.go", "State.diffASAACLs/delACL", "pos", 0, "0aa4f68e5f3893d6", []⟩,
  ⟨"cisco/diff.go", "State.deleteUnused", "s.a.lookup", 0, "7218f44ce29f39be", []⟩,
  ⟨"cisco/diff.go", "State.deleteUnused", "m", 0, "4ba04269d4f21275", []⟩,
  ⟨"cisco/diff.go", "State.deleteUnused", "toDelete", 0, "068c339dcc26e65f", []⟩,
  ⟨"cisco/diff.go", "State.deleteUnused", "toDelete", 1, "f65b87b04586b6e9", []⟩,
  ⟨"cisco/diff.go", "State.generateNamesForTransfer", "s.b.lookup", 0, "8c3996041247907e", []⟩,
  ⟨"cisco/diff.go", "State.generateNamesForTransfer", "m", 0, "8c23f225a0b4b7cb", []⟩,
  ⟨"cisco/diff.go", "sortGroups", "cf.lookup[\"object-group\"]", 0, "6395d1ea26ee3486", []⟩,
  ⟨"cisco/diff.go", "State.ignoreCryptoGDOI", "rm", 0, "c5f575c32be34800", []⟩,
  -- addDefaults → addDefaultObject → lookupCmd → matchCmd: `panic("Incomplete string …")` sits under the
  -- template token `"`, which no toplevel command type has (`quote_token_only_in_subcommands`).
  ⟨"cisco/parse.go", "parser.addDefaults", "defaultObjects", 0, "bc776bef5b5bd9d0", ["abort"]⟩,
  ⟨"cisco/parse.go", "postprocessParsed/stripPFSDefault", "lookup[prefix]", 0, "abb0f3481b8c7d0e", []⟩,
  ⟨"cisco/parse.go", "postprocessParsed/stripMetric", "lookup[prefix]", 0, "27656f5f09f31db5", []⟩,
  ⟨"cisco/parse.go", "postprocessParsed", "lookup[\"crypto ca certificate map\"]", 0, "e7303b37b46ec64b", []⟩,
  ⟨"cisco/parse.go", "postprocessParsed", "lookup[\"username\"]", 0, "7c85c3e0b52cb470", []⟩,
  ⟨"cisco/parse.go", "postprocessParsed", "lookup[\"tunnel-group\"]", 0, "5e788ebeab593e3c", []⟩,
  ⟨"linux/parse.go", "normalizeIPTables", "pairs", 0, "647b114a2d7c7eaf", []⟩,
  ⟨"nsx/diff.go", "genUniqGroupNames", "a", 0, "b68557b2bac816d8", []⟩,
  -- LoadConfig → insert → `warn("Ignoring key …")` only in the default case of `switch key`; every key
  -- of the literal defaultVals is a case of that switch (`default_keys_known`).
  ⟨"program/config.go", "LoadConfig", "defaultVals", 0, "60dbc02a258996b0", ["out"]⟩
]

/-! ## `setName` of generateNamesForTransfer: the first free `-DRC-<index>` of the command's own kind -/

/-- `for index := 0; ; index++ { if devNames[name-DRC-index] not found { break } }` with the set of
indexes occupied on the device (for this name and this command kind); `fuel` bounds the search. -/
def firstFreeFrom (used : List Nat) : Nat → Nat → Nat
  | 0, i => i
  | fuel + 1, i => if used.contains i then firstFreeFrom used fuel (i + 1) else i

def firstFree (used : List Nat) : Nat := firstFreeFrom used (used.length + 1) 0

/-- How a source of nondeterminism that is reachable from the planning roots is dealt with. -/
inductive SourceClass
  | totalOrderOnMapKeys   -- comparator sort of map keys: the comparator is a linear order on distinct keys (theorem)
  | deterministicInput    -- comparator sort (ties possible) of a slice in file order: Go's pdqsort is a function of the
                          -- input sequence (trusted), tie-rich inputs run N times by the oracle
  | input                 -- part of the input (HOME selects the configuration file)
  | logFileNameOnly       -- only names a rotated log file; CompareFiles passes no log file name
  deriving DecidableEq, Repr

structure SourceExpect where
  file : String
  fn : String
  kind : String
  hash : String     -- of the call text (for a sort: including its comparator)
  cls : SourceClass
  deriving DecidableEq, Repr

/-- The sources of nondeterminism (other than map iteration) in functions reachable from the
planning roots. A new one (a goroutine, time.Now, os.ReadDir, a new comparator sort, …) matches no line. -/
def planningSources : List SourceExpect := [
  ⟨"cisco/diff.go", "(*cisco.State).deleteUnused", "sort-unstable-cmp-frommap", "7d1857be19f78493", .totalOrderOnMapKeys⟩,
  ⟨"cisco/diff.go", "cisco.sortGroups", "sort-unstable-cmp", "809eb629bf15deb7", .deterministicInput⟩,
  ⟨"cisco/diff.go", "cisco.sortRoutes", "sort-unstable-cmp", "3922a2e2688ec78f", .deterministicInput⟩,
  ⟨"linux/diff.go", "linux.diffRoutes", "sort-unstable-cmp", "da9e661a672f60a3", .deterministicInput⟩,
  ⟨"nsx/diff.go", "nsx.sortRules", "sort-unstable-cmp", "7b07ff34f945d8d6", .deterministicInput⟩,
  ⟨"mytime/now.go", "mytime.Now", "env", "93de79ab01dc32a8", .logFileNameOnly⟩,
  ⟨"mytime/now.go", "mytime.Now", "time", "7b328aec13d4d7ab", .logFileNameOnly⟩,
  ⟨"program/config.go", "program.LoadConfig", "env", "c3323886ceb36501", .input⟩
]

/-- Kinds of sources that must not be reachable from the planning roots at all. -/
def forbiddenKinds : List String :=
  ["go", "select", "chan", "rand", "sync", "ptrfmt", "reflectmap", "dirlist", "tempname", "runtime"]

end NA.C16
