import NA.Model.MapSites
/-!
# C16, round 3 — tables for the transitive tie and the other sources of nondeterminism

`NA.Gen.MapRangesDeep` (regenerated on every run by the deep pass of translate/mapranges) gives,
for every `range` over a map of the module, the hash `chash` of the loop text **plus the text of
every module function and bound closure transitively referenced from its body**, and the
order-relevant effect kinds found in that closure:

* `abort` — `errlog.Abort`, `panic`, `os.Exit` reachable: which entry aborts first shows in the message;
* `out`   — an output sink (`fmt.Fprint*` …, hence `errlog.Warning/Info`) reachable: order of messages;
* `chg`   — appends to `State.Changes`: order of the change script;
* `dyn`   — a call the translator cannot resolve (function-typed parameter, interface method);
* `src`   — another source of nondeterminism (time, environment, goroutine, …) reachable;
* `glob`  — writes a package level variable.

A loop whose closure has one of these kinds is not covered by the shape theorems (they model
bodies without output), unless the kind is listed in `allow` with the regenerated fact that
makes it unreachable.
-/
namespace NA.C16

structure DeepExpect where
  file : String
  fn : String
  mapExpr : String
  ord : Nat
  chash : String          -- loop text + transitive callees
  allow : List String     -- kinds admitted for this loop (justified below)
  deriving DecidableEq, Repr

/-- Rows for the loops whose body the translator cannot describe: the hash of the alpha-normalised
loop text plus the normalised text of every module function it transitively calls (callees numbered in
discovery order, so renaming a helper does not matter), and the effect kinds admitted. A described
loop needs no row: the descriptor pass makes a loop opaque as soon as its closure has one of the kinds.
Currently empty: every loop of the repository is described (see `hash_tied_sites`). -/
def deepExpected : List DeepExpect := []

/-! ## `setName` of generateNamesForTransfer: the first free `-DRC-<index>` of the command's own kind -/

/-- `for index := 0; ; index++ { if devNames[name-DRC-index] not found { break } }` with the set of
indexes occupied on the device (for this name and this command kind); `fuel` bounds the search. -/
def firstFreeFrom (used : List Nat) : Nat → Nat → Nat
  | 0, i => i
  | fuel + 1, i => if used.contains i then firstFreeFrom used fuel (i + 1) else i

def firstFree (used : List Nat) : Nat := firstFreeFrom used (used.length + 1) 0

/-- How a source of nondeterminism that is reachable from the planning roots is dealt with. -/
inductive SourceClass
  | totalOrderOnMapKeys   -- comparator sort of map keys: the comparator is a linear order on distinct keys (theorem)
  | deterministicInput    -- comparator sort (ties possible) of a slice in file order: Go's pdqsort is a function of the
                          -- input sequence (trusted), tie-rich inputs run N times by the oracle
  | input                 -- part of the input (HOME selects the configuration file)
  | logFileNameOnly       -- only names a rotated log file; CompareFiles passes no log file name
  deriving DecidableEq, Repr

structure SourceExpect where
  file : String
  fn : String
  kind : String
  hash : String     -- of the call text (for a sort: including its comparator)
  cls : SourceClass
  deriving DecidableEq, Repr

/-- The sources of nondeterminism (other than map iteration) in functions reachable from the
planning roots. A new one (a goroutine, time.Now, os.ReadDir, a new comparator sort, …) matches no line. -/
def planningSources : List SourceExpect := [
  ⟨"cisco/diff.go", "(*cisco.State).deleteUnused", "sort-unstable-cmp-frommap", "efd714d158b37f17", .totalOrderOnMapKeys⟩,
  ⟨"cisco/diff.go", "cisco.sortGroups", "sort-unstable-cmp", "e93a55b43f412a92", .deterministicInput⟩,
  ⟨"cisco/diff.go", "cisco.sortRoutes", "sort-unstable-cmp", "07e093bbb3fd0cd9", .deterministicInput⟩,
  ⟨"linux/diff.go", "linux.diffRoutes", "sort-unstable-cmp", "3415ba614b467be2", .deterministicInput⟩,
  ⟨"nsx/diff.go", "nsx.sortRules", "sort-unstable-cmp", "ab710dddfe67c019", .deterministicInput⟩,
  ⟨"mytime/now.go", "mytime.Now", "env", "93de79ab01dc32a8", .logFileNameOnly⟩,
  ⟨"mytime/now.go", "mytime.Now", "time", "7b328aec13d4d7ab", .logFileNameOnly⟩,
  ⟨"program/config.go", "program.LoadConfig", "env", "c3323886ceb36501", .input⟩
]

/-- Kinds of sources that must not be reachable from the planning roots at all. -/
def forbiddenKinds : List String :=
  ["go", "select", "chan", "rand", "sync", "ptrfmt", "reflectmap", "dirlist", "tempname", "runtime"]

end NA.C16
