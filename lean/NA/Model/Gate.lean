/-
Session model shared by C06 ("approve never changes a wrong, unmanaged or passive device")
and C11 ("compare never changes the device").  Core Lean only; executable.

The client side of one `drc` / `do-approve` run is a program `Prog` (deep embedding, so that
its *skeleton* can be compared with the call skeleton regenerated from the Go source).
It talks to an arbitrary device `Dev : history → request → reply`; a reply may be a fault
(time-out, closed connection, HTTP error, malformed answer) at any point.

What the constructors can touch is fixed by their types, so that frame properties are
syntactic:
* only `send` and `forPlan` extend the trace (what is put on the wire);
* only `record` changes `errU` (Go: `s.errUnmanaged`);
* only `collect` extends `banner` (Go: `bannerLines += out`), and only with device output;
* only `setName` changes `devName`; only `crash` can panic.
-/
namespace NA.Gate

inductive Backend | asa | ios | linux | panos | nsx
  deriving DecidableEq, Repr, Inhabited

def Backend.all : List Backend := [.asa, .ios, .linux, .panos, .nsx]

def Backend.toString : Backend → String
  | .asa => "ASA" | .ios => "IOS" | .linux => "Linux" | .panos => "PAN-OS" | .nsx => "NSX"

/-- What the client puts on the wire. -/
inductive Out
  | connect                          -- spawn ssh / create the HTTP client
  | wait                             -- wait for the first prompt without sending (WaitLogin)
  | pass                             -- the password (non-literal)
  | lit (s : String)                 -- a command / request that is a literal in the Go source
  | litArg (s : String) (arg : String) -- literal prefix + run-time argument
  | plan (c : String)                -- one of the computed change commands
  deriving DecidableEq, Repr, Inhabited

/-- What comes back.  HTTP bodies are given in parsed form (XML/JSON decoding is not modelled);
an undecodable body, a bad status, a time-out or a closed connection is a `fault`. -/
inductive Reply
  | text (s : String)
  | ha (enabled mode state : String)
  | conf (hostname : String) (vsys : List (String × String))   -- (vsys name, display-name)
  | ids (l : List String)
  | fault (why : String)
  deriving DecidableEq, Repr, Inhabited

/-- An arbitrary (adversarial) device: reply as a function of everything sent so far
(oldest first) and the current request. -/
abbrev Dev := List Out → Out → Reply

structure Cfg where
  /-- expected device name: base name of the code file (CLI backends) -/
  name : String := "router"
  /-- `name_list` of the info file (HTTP backends) -/
  names : List String := ["router"]
  /-- `checkbanner`: `none` = not configured; `some m` = regexp match on the collected login output -/
  banner : Option (List String → Bool) := none
  /-- source text of the regexp (argument of `grep` on Linux) -/
  bannerSrc : String := ""
  /-- PAN-OS: names of the vsys in the Netspoc configuration -/
  targetVsys : List String := []
  /-- PAN-OS: `strings.Contains(strings.ToLower(displayName), "netspoc")` -/
  isMarked : String → Bool := fun _ => false
  user : String := "admin"
  /-- `-C` / `compare` -/
  isCompare : Bool := false
  /-- the backend's ParseConfig accepts the device's configuration text -/
  parses : String → Bool := fun _ => true
  /-- error of GetChanges that depends on the device configuration (ASA/IOS checkInterfaces …) -/
  changesErr : Reply → Option String := fun _ => none

inductive Status
  | running
  | aborted (msg : String)    -- errlog.Abort
  | failed (msg : String)     -- an error value travelling up to ApproveOrCompare
  | panicked (msg : String)   -- Go run-time panic (not a bailout)
  deriving DecidableEq, Repr, Inhabited

def Status.isRunning : Status → Bool
  | .running => true
  | _ => false

def Status.isFailed : Status → Bool
  | .failed _ => true
  | _ => false

@[simp] theorem Status.isRunning_running : Status.running.isRunning = true := rfl
@[simp] theorem Status.isRunning_aborted (m : String) : (Status.aborted m).isRunning = false := rfl
@[simp] theorem Status.isRunning_failed (m : String) : (Status.failed m).isRunning = false := rfl
@[simp] theorem Status.isRunning_panicked (m : String) : (Status.panicked m).isRunning = false := rfl

theorem Status.isRunning_iff {s : Status} : s.isRunning = true ↔ s = .running := by
  cases s <;> simp [Status.isRunning]

structure St where
  trace : List Out := []          -- oldest first
  reply : Reply := .fault "no reply yet"
  banner : List String := []
  errU : List String := []
  devName : String := ""
  warnings : List String := []
  connected : Bool := false
  status : Status := .running
  deriving Repr, Inhabited

structure Env where
  cfg : Cfg
  dev : Dev
  plan : List String

/-- How a failing check ends the run. -/
inductive Fail
  | abort (msg : String)
  | fail (msg : String)

inductive RecMode | set | append
  deriving DecidableEq, Repr

/-- What a fault (time-out, closed connection, HTTP error, undecodable body) does to the run:
`abort` = errlog.Abort (CLI waitPrompt), `fail` = an error value is returned, `ignore` = the
caller only sees an unusable reply (PAN-OS checkHA returns false). -/
inductive FaultMode | abort | fail | ignore
  deriving DecidableEq, Repr

inductive Prog
  | nop
  | seq (p q : Prog)
  /-- `prim`/`arg` name the Go primitive and its argument text (skeleton only) -/
  | send (prim arg : String) (o : Out) (fm : FaultMode)
  | collect (label : String)
  | setName (n : String)
  | check (label ikind itext : String) (c : Cfg → Reply → String → Option Fail)
  | record (label atext : String) (m : RecMode) (c : Cfg → Reply → List String → List String)
  | crash (label : String) (c : Cfg → Bool)
  | ite (label : String) (c : Cfg → Reply → Bool) (t e : Prog)
  /-- `if c { return }` followed by the rest of the function -/
  | early (label itext : String) (c : Cfg → Reply → Bool) (rest : Prog)
  /-- `if !s.HasChanges() { return nil }` followed by the rest -/
  | ifChanges (rest : Prog)
  | call (fn : String) (body : Prog)
  /-- definition of a local closure: executes nothing, shows up in the skeleton -/
  | defn (name : String) (body : Prog)
  /-- skeleton-only item (a statement of the Go function without effect in the model) -/
  | note (kind text : String)
  /-- nesting (body of a `for`, `defer`, `case` noted before) -/
  | block (p : Prog)
  | attempt (body els : Prog)
  | gate (consult : Bool)
  | warnU
  | forPlan (fm : FaultMode) (body : Prog)

infixr:60 " ;; " => Prog.seq

def faultStatus (fm : FaultMode) (why : String) : Status :=
  match fm with
  | .abort => .aborted ("while waiting for prompt: " ++ why)
  | .fail => .failed why
  | .ignore => .running

/-- `Conn.Send` + wait for the answer. -/
def sendStep (env : Env) (o : Out) (fm : FaultMode) (st : St) : St :=
  if st.status.isRunning then
    let r := env.dev st.trace o
    let st' := { st with trace := st.trace ++ [o], reply := r }
    match r with
    | .fault why => { st' with status := faultStatus fm why }
    | _ => { st' with connected := st.connected || o == .connect }
  else st

def textOf : Reply → Option String
  | .text s => some s
  | _ => none

def exec (env : Env) : Prog → St → St
  | .nop, st => st
  | .seq p q, st => exec env q (exec env p st)
  | .send _ _ o fm, st => sendStep env o fm st
  | .collect _, st =>
    if st.status.isRunning then
      match st.reply with
      | .text s => { st with banner := st.banner ++ [s] }
      | _ => st
    else st
  | .setName n, st => if st.status.isRunning then { st with devName := n } else st
  | .check _ _ _ c, st =>
    if st.status.isRunning then
      match c env.cfg st.reply st.devName with
      | none => st
      | some (.abort m) => { st with status := .aborted m }
      | some (.fail m) => { st with status := .failed m }
    else st
  | .record _ _ m c, st =>
    if st.status.isRunning then
      match c env.cfg st.reply st.banner with
      | [] => st
      | l => { st with errU := match m with | .set => l | .append => st.errU ++ l }
    else st
  | .crash label c, st =>
    if st.status.isRunning && c env.cfg then { st with status := .panicked label } else st
  | .ite _ c t e, st =>
    if st.status.isRunning then
      (if c env.cfg st.reply then exec env t st else exec env e st)
    else st
  | .early _ _ c rest, st =>
    if st.status.isRunning then (if c env.cfg st.reply then st else exec env rest st) else st
  | .ifChanges rest, st =>
    if st.status.isRunning then (if env.plan.isEmpty then st else exec env rest st) else st
  | .call _ b, st => exec env b st
  | .defn _ _, st => st
  | .note _ _, st => st
  | .block p, st => exec env p st
  | .attempt b e, st =>
    if st.status.isRunning then
      let s1 := exec env b st
      match s1.status with
      | .failed m => exec env e { s1 with status := .running, warnings := s1.warnings ++ [m] }
      | _ => s1
    else st
  | .gate consult, st =>
    if st.status.isRunning && consult then
      match st.errU with
      | [] => st
      | m :: _ => { st with status := .failed m }
    else st
  | .warnU, st => if st.status.isRunning then { st with warnings := st.warnings ++ st.errU } else st
  | .forPlan fm b, st => env.plan.foldl (fun s c => exec env b (sendStep env (.plan c) fm s)) st

def run (env : Env) (p : Prog) : St := exec env p {}

/-- `s.CloseConnection()` in ApproveOrCompare: runs after approve/compare *returned* (also with
an error value), is skipped after errlog.Abort; ASA/IOS send `exit` if the connection exists. -/
def closeStep (o : Option Out) (st : St) : St :=
  match o with
  | none => st
  | some x =>
    if st.connected && (st.status.isRunning || st.status.isFailed) then
      { st with trace := st.trace ++ [x] }
    else st

/-- Exit status of `drc`: 0, 1 after `ERROR>>>`, 2 after a Go panic. -/
def St.exit (st : St) : Nat :=
  match st.status with
  | .running => 0
  | .aborted _ | .failed _ => 1
  | .panicked _ => 2

/-- The `ERROR>>>` line. -/
def St.diagnostic (st : St) : Option String :=
  match st.status with
  | .aborted m | .failed m => some m
  | _ => none

/-! ## Skeleton: what is compared with the facts regenerated from the Go source -/

/-- (depth, kind, text) -/
abbrev Item := Nat × String × String

def skel (d : Nat) : Prog → List Item
  | .nop => []
  | .seq p q => skel d p ++ skel d q
  | .send prim arg _ _ => [(d, "send", if arg == "" then prim else prim ++ " " ++ arg)]
  | .collect label => [(d, "assign", label)]
  | .setName _ => [(d, "assign", "devName = name")]
  | .check label ik it _ => [(d, "if", label), (d + 1, ik, it)]
  | .record label atxt _ _ => [(d, "if", label), (d + 1, "assign", atxt)]
  | .crash _ _ => []
  | .ite label _ t e =>
    (d, "if", label) :: skel (d + 1) t ++
      (match skel (d + 1) e with | [] => [] | l => (d, "else", "") :: l)
  | .early label it _ rest => (d, "if", label) :: (d + 1, "ret", it) :: skel d rest
  | .ifChanges rest =>
    (d, "call", "HasChanges") :: (d, "if", "!s.HasChanges()") :: (d + 1, "ret", "nil") :: skel d rest
  | .call fn _ => [(d, "call", fn)]
  | .defn name body => (d, "closure", name) :: skel (d + 1) body
  | .note k t => [(d, k, t)]
  | .block p => skel (d + 1) p
  | .attempt b e => skel d b ++ skel d e
  | .gate _ => [(d, "call", "GetErrUnmanaged"), (d, "if", "l != nil"), (d + 1, "ret", "l[0]")]
  | .warnU => [(d, "call", "GetErrUnmanaged"), (d, "for", "range s.GetErrUnmanaged()"),
               (d + 1, "call", "Warning")]
  | .forPlan _ _ => []

/-! ## Text helpers (kernel-reducible: via `String.toList`) -/

def hasSuffix (s suf : String) : Bool := suf.toList.isSuffixOf s.toList
def hasPrefix (s pre : String) : Bool := pre.toList.isPrefixOf s.toList

def infixL : List Char → List Char → Bool
  | [], p => p.isEmpty
  | c :: cs, p => p.isPrefixOf (c :: cs) || infixL cs p

def contains (s sub : String) : Bool := infixL s.toList sub.toList

def isSpaceC (c : Char) : Bool := c == ' ' || c == '\n' || c == '\t' || c == '\r'

def trimSuffixL (l suf : List Char) : List Char :=
  if suf.isSuffixOf l then l.take (l.length - suf.length) else l

def trimSpaceL (l : List Char) : List Char :=
  ((l.dropWhile isSpaceC).reverse.dropWhile isSpaceC).reverse

end NA.Gate
