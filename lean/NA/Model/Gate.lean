import NA.Model.GateText
/-
Session model shared by C06 ("approve never changes a wrong, unmanaged or passive device")
and C11 ("compare never changes the device").  Core Lean only; executable.

The client side of one `drc` / `do-approve` run is a program `Prog` (deep embedding, so that
its *skeleton* can be compared with the call skeleton regenerated from the Go source).
It talks to an arbitrary device `Dev : history → request → reply`; a reply may be a fault
(time-out, closed connection, HTTP error, malformed answer) at any point.

Conditions on text are DATA (`Pred` over string expressions `TExp`: strings.HasSuffix,
Contains, TrimSuffix, TrimSpace, ToLower, `!=`, `len(x) == 0`, the `checkbanner` regexp) with an
evaluator and a printer; the printed form is the Go source text of the guard and is compared
with the regenerated skeleton, so the meaning of a guard is tied to its source.

What the constructors can touch is fixed by their types, so that frame properties are
syntactic:
* only `send`, `sendCur` and `forPlan` extend the trace (what is put on the wire);
* only `record` changes `errU` (Go: `s.errUnmanaged`);
* only `collect` extends `banner` (Go: `bannerLines += out`), and only with device output;
* only `setName` changes `devName`; only `crash` can panic; only `loop` can be left unfinished.
-/
namespace NA.Gate

inductive Backend | asa | ios | linux | panos | nsx
  deriving DecidableEq, Repr, Inhabited

def Backend.all : List Backend := [.asa, .ios, .linux, .panos, .nsx]

def Backend.toString : Backend → String
  | .asa => "ASA" | .ios => "IOS" | .linux => "Linux" | .panos => "PAN-OS" | .nsx => "NSX"

/-- What the client puts on the wire. -/
inductive Out
  | connect                          -- spawn ssh / create the HTTP client
  | wait                             -- wait for the first prompt without sending (WaitLogin)
  | pass                             -- the password (non-literal)
  | lit (s : String)                 -- a command / request that is a literal in the Go source
  | litArg (s : String) (arg : String) -- literal prefix + run-time argument
  | plan (c : String)                -- one of the computed change commands
  deriving DecidableEq, Repr, Inhabited

/-- What comes back.  HTTP bodies are given in parsed form (XML/JSON decoding is not modelled);
an undecodable body, a bad status, a time-out or a closed connection is a `fault`. -/
inductive Reply
  | text (s : String)
  | ha (enabled mode state : String)
  | conf (hostname : String) (vsys : List (String × String))   -- (vsys name, display-name)
  /-- one page of a listing: the ids of the results and the cursor of the next page ("" = last) -/
  | page (ids : List String) (cursor : String)
  | fault (why : String)
  deriving DecidableEq, Repr, Inhabited

/-- An arbitrary (adversarial) device: reply as a function of everything sent so far
(oldest first) and the current request. -/
abbrev Dev := List Out → Out → Reply

structure Cfg where
  /-- expected device name: base name of the code file (CLI backends) -/
  name : String := "router"
  /-- `name_list` of the info file (HTTP backends) -/
  names : List String := ["router"]
  /-- `checkbanner`: `none` = not configured; `some r` = the compiled regexp -/
  banner : Option Rx := none
  /-- source text of the regexp (argument of `grep` on Linux) -/
  bannerSrc : String := ""
  /-- PAN-OS: names of the vsys in the Netspoc configuration -/
  targetVsys : List String := []
  user : String := "admin"
  /-- `-C` / `compare` -/
  isCompare : Bool := false
  /-- the backend's ParseConfig accepts the device's configuration text -/
  parses : String → Bool := fun _ => true
  /-- error of GetChanges that depends on the device configuration (ASA/IOS checkInterfaces …) -/
  changesErr : Reply → Option String := fun _ => none
  /-- how many iterations of an unbounded loop (NSX paging, PAN-OS job polling) are observed; the
  Go loops have no bound, every theorem holds for every value -/
  fuel : Nat := 8

inductive Status
  | running
  | aborted (msg : String)    -- errlog.Abort
  | failed (msg : String)     -- an error value travelling up to ApproveOrCompare
  | panicked (msg : String)   -- Go run-time panic (not a bailout)
  | unfinished                -- an unbounded loop was still going when the observation ended
  deriving DecidableEq, Repr, Inhabited

def Status.isRunning : Status → Bool
  | .running => true
  | _ => false

def Status.isFailed : Status → Bool
  | .failed _ => true
  | _ => false

@[simp] theorem Status.isRunning_running : Status.running.isRunning = true := rfl
@[simp] theorem Status.isRunning_aborted (m : String) : (Status.aborted m).isRunning = false := rfl
@[simp] theorem Status.isRunning_failed (m : String) : (Status.failed m).isRunning = false := rfl
@[simp] theorem Status.isRunning_panicked (m : String) : (Status.panicked m).isRunning = false := rfl
@[simp] theorem Status.isRunning_unfinished : Status.unfinished.isRunning = false := rfl

theorem Status.isRunning_iff {s : Status} : s.isRunning = true ↔ s = .running := by
  cases s <;> simp [Status.isRunning]

structure St where
  trace : List Out := []          -- oldest first
  reply : Reply := .fault "no reply yet"
  /-- Go variables `out`, `lines` (text), the pieces of `bannerLines`, the loop variable -/
  out : List Char := []
  lines : List Char := []
  cursor : String := ""
  banner : List String := []
  errU : List String := []
  devName : String := ""
  warnings : List String := []
  connected : Bool := false
  status : Status := .running
  deriving Repr, Inhabited

structure Env where
  cfg : Cfg
  dev : Dev
  plan : List String

/-- How a failing check ends the run. -/
inductive Fail
  | abort (msg : String)
  | fail (msg : String)

inductive RecMode | set | append
  deriving DecidableEq, Repr

/-- What a fault (time-out, closed connection, HTTP error, undecodable body) does to the run:
`abort` = errlog.Abort (CLI waitPrompt), `fail` = an error value is returned, `ignore` = the
caller only sees an unusable reply (PAN-OS checkHA returns false). -/
inductive FaultMode | abort | fail | ignore
  deriving DecidableEq, Repr

/-! ## text expressions and predicates (data, with evaluator and Go printer) -/

inductive Var | out | lines
  deriving DecidableEq, Repr

/-- string expressions of the guards -/
inductive TExp
  | v (x : Var)
  | name          -- parameter `name` of checkDeviceName: the expected device name
  | bannerLines   -- everything collected during login, concatenated
  | re            -- `cfg.CheckBanner.String()`
  | reply         -- the text just received (`<reply>` in the printed form)
  | lit (s : String)
  | trimSuffix (e : TExp) (suf : String)
  | trimSpace (e : TExp)
  | toLower (e : TExp)
  | cat (a b : TExp)

/-- what guards can see -/
structure PEnv where
  cfg : Cfg
  reply : Reply
  devName : String
  out : List Char
  lines : List Char
  cursor : String
  banner : List String

def textOf : Reply → Option String
  | .text s => some s
  | _ => none

def TExp.eval (pe : PEnv) : TExp → List Char
  | .v .out => pe.out
  | .v .lines => pe.lines
  | .name => pe.cfg.name.toList
  | .bannerLines => (String.join pe.banner).toList
  | .re => pe.cfg.bannerSrc.toList
  | .reply => match pe.reply with | .text s => s.toList | _ => []
  | .lit s => s.toList
  | .trimSuffix e suf => trimSuffixL (e.eval pe) suf.toList
  | .trimSpace e => trimSpaceL (e.eval pe)
  | .toLower e => lowerL (e.eval pe)
  | .cat a b => a.eval pe ++ b.eval pe

def goQuoteC (c : Char) : String :=
  if c == '\n' then "\\n" else if c == '\t' then "\\t" else if c == '\r' then "\\r"
  else if c == '"' then "\\\"" else if c == '\\' then "\\\\" else c.toString

/-- a Go interpreted string literal -/
def goQuote (s : String) : String := "\"" ++ String.join (s.toList.map goQuoteC) ++ "\""

/-- Names are those of the normal form of `translate/gateskel`: `r1` = the (first) local that
receives replies, `p1` = first parameter, `v1` = first other local. -/
def Var.show : Var → String
  | .out => "r1" | .lines => "p1"

def TExp.show : TExp → String
  | .v x => x.show
  | .name => "p1"
  | .bannerLines => "v1"
  | .re => "p1.CheckBanner.String()"
  | .reply => "<reply>"
  | .lit s => goQuote s
  | .trimSuffix e suf => "strings.TrimSuffix(" ++ e.show ++ ", " ++ goQuote suf ++ ")"
  | .trimSpace e => "strings.TrimSpace(" ++ e.show ++ ")"
  | .toLower e => "strings.ToLower(" ++ e.show ++ ")"
  | .cat a b => a.show ++ " + " ++ b.show

inductive Pred
  | hasSuffix (e : TExp) (s : String)
  | contains (e : TExp) (s : String)
  | ne (a b : TExp)
  | isEmpty (e : TExp)                 -- len(e) == 0
  | not (p : Pred)
  | and (p q : Pred)
  | or (p q : Pred)
  | bannerSet                          -- rx != nil            (rx := cfg.CheckBanner)
  | bannerUnset                        -- cfg.CheckBanner == nil
  | bannerNoMatch (e : TExp)           -- rx.FindStringIndex(e) == nil
  | cursorSet                          -- cursor != ""
  | idHasPrefix (pre : String)         -- strings.HasPrefix(result.Id, pre)   (loop variable of forIds)
  /-- a named Boolean (result of a local closure); printed as its name -/
  | val (label : String) (p : Pred)
  /-- a condition on decoded (non-text) data; printed as its label -/
  | opaque (label : String) (f : Cfg → Reply → String → Bool)

def Pred.eval (pe : PEnv) : Pred → Bool
  | .hasSuffix e s => s.toList.isSuffixOf (e.eval pe)
  | .contains e s => infixL (e.eval pe) s.toList
  | .ne a b => a.eval pe != b.eval pe
  | .isEmpty e => (e.eval pe).isEmpty
  | .not p => !p.eval pe
  | .and p q => p.eval pe && q.eval pe
  | .or p q => p.eval pe || q.eval pe
  | .bannerSet => pe.cfg.banner.isSome
  | .bannerUnset => pe.cfg.banner.isNone
  | .bannerNoMatch e => match pe.cfg.banner with
    | some r => !r.search (e.eval pe)
    | none => false
  | .cursorSet => pe.cursor != ""
  | .idHasPrefix pre => pre.toList.isPrefixOf pe.cursor.toList
  | .val _ p => p.eval pe
  | .opaque _ f => f pe.cfg pe.reply pe.devName

def Pred.show : Pred → String
  | .hasSuffix e s => "strings.HasSuffix(" ++ e.show ++ ", " ++ goQuote s ++ ")"
  | .contains e s => "strings.Contains(" ++ e.show ++ ", " ++ goQuote s ++ ")"
  | .ne a b => a.show ++ " != " ++ b.show
  | .isEmpty e => e.show ++ " == \"\""
  | .not p => "!" ++ p.show
  | .and p q => p.show ++ " && " ++ q.show
  | .or p q => p.show ++ " || " ++ q.show
  | .bannerSet => "p2.CheckBanner != nil"
  | .bannerUnset => "p1.CheckBanner == nil"
  | .bannerNoMatch e => "p2.CheckBanner.FindStringIndex(" ++ e.show ++ ") == nil"
  | .cursorSet => "v1 != \"\""
  | .idHasPrefix pre => "strings.HasPrefix(v4.Id, " ++ goQuote pre ++ ")"
  | .val label _ => label
  | .opaque label _ => label

/-- printed form of the negation (comparisons flip, as in the normal form of the translator) -/
def Pred.showNeg : Pred → String
  | .cursorSet => "v1 == \"\""
  | .ne a b => a.show ++ " == " ++ b.show
  | .not p => p.show
  | .bannerSet => "p2.CheckBanner == nil"
  | .bannerUnset => "p1.CheckBanner != nil"
  | p => "!" ++ p.show

inductive Prog
  | nop
  | seq (p q : Prog)
  /-- `prim`/`arg` name the Go primitive and its argument text (skeleton only) -/
  | send (prim arg : String) (o : Out) (fm : FaultMode)
  /-- request whose argument is the loop variable: `litArg pre cursor` -/
  | sendCur (prim arg pre : String) (fm : FaultMode)
  /-- `x := e` / `x = e`; `silent`: parameter passing, not a statement of the function -/
  | assign (x : Var) (decl silent : Bool) (e : TExp)
  | collect (label : String)
  | setName (n : String)
  /-- loop variable := function of the last reply (not shown in the skeleton) -/
  | setCur (f : Reply → String)
  /-- `if p { Abort / return err }` -/
  | check (p : Pred) (ikind itext : String) (fl : Fail)
  /-- `if p { s.errUnmanaged = … }` -/
  | record (p : Pred) (atext : String) (m : RecMode) (msgs : Cfg → Reply → List String)
  | crash (label : String) (c : Cfg → Bool)
  | ite (p : Pred) (t e : Prog)
  /-- `if p { return }` followed by the rest of the function -/
  | early (p : Pred) (itext : String) (rest : Prog)
  /-- `if !s.HasChanges() { return nil }` followed by the rest -/
  | ifChanges (rest : Prog)
  | call (fn : String) (body : Prog)
  /-- definition of a local closure: executes nothing, shows up in the skeleton -/
  | defn (name : String) (body : Prog)
  /-- skeleton-only item (a statement of the Go function without effect in the model) -/
  | note (kind text : String)
  /-- nesting (body of a `for`, `defer`, `case` noted before) -/
  | block (p : Prog)
  | attempt (body els : Prog)
  | gate (consult : Bool)
  | warnU
  | forPlan (fm : FaultMode) (body : Prog)
  /-- `for { body; if !again { break } }` — unbounded in Go; observed for `cfg.fuel` rounds -/
  | loop (label : String) (body : Prog) (again : Pred)
  /-- `for _, r := range results { if keep r.Id { cursor := r.Id; body } }` over the ids of the page just received -/
  | forIds (label : String) (keep : String → Bool) (body : Prog)

infixr:60 " ;; " => Prog.seq

def faultStatus (fm : FaultMode) (why : String) : Status :=
  match fm with
  | .abort => .aborted ("while waiting for prompt: " ++ why)
  | .fail => .failed why
  | .ignore => .running

/-- `Conn.Send` + wait for the answer. -/
def sendStep (env : Env) (o : Out) (fm : FaultMode) (st : St) : St :=
  if st.status.isRunning then
    let r := env.dev st.trace o
    let st' := { st with trace := st.trace ++ [o], reply := r }
    match r with
    | .fault why => { st' with status := faultStatus fm why }
    | _ => { st' with connected := st.connected || o == .connect }
  else st

def penv (env : Env) (st : St) : PEnv :=
  ⟨env.cfg, st.reply, st.devName, st.out, st.lines, st.cursor, st.banner⟩

/-- bounded observation of an unbounded loop -/
def iter (f : St → St) (again : St → Bool) : Nat → St → St
  | 0, st => if st.status.isRunning then { st with status := .unfinished } else st
  | n + 1, st =>
    let s := f st
    if s.status.isRunning && again s then iter f again n s else s

def exec (env : Env) : Prog → St → St
  | .nop, st => st
  | .seq p q, st => exec env q (exec env p st)
  | .send _ _ o fm, st => sendStep env o fm st
  | .sendCur _ _ pre fm, st => sendStep env (.litArg pre st.cursor) fm st
  | .assign x _ _ e, st =>
    if st.status.isRunning then
      match x with
      | .out => { st with out := e.eval (penv env st) }
      | .lines => { st with lines := e.eval (penv env st) }
    else st
  | .collect _, st =>
    if st.status.isRunning then
      match st.reply with
      | .text s => { st with banner := st.banner ++ [s] }
      | _ => st
    else st
  | .setName n, st => if st.status.isRunning then { st with devName := n } else st
  | .setCur f, st => if st.status.isRunning then { st with cursor := f st.reply } else st
  | .check p _ _ fl, st =>
    if st.status.isRunning && p.eval (penv env st) then
      match fl with
      | .abort m => { st with status := .aborted m }
      | .fail m => { st with status := .failed m }
    else st
  | .record p _ m msgs, st =>
    if st.status.isRunning && p.eval (penv env st) then
      match m with
      | .set => { st with errU := msgs env.cfg st.reply }
      | .append => { st with errU := st.errU ++ msgs env.cfg st.reply }
    else st
  | .crash label c, st =>
    if st.status.isRunning && c env.cfg then { st with status := .panicked label } else st
  | .ite p t e, st =>
    if st.status.isRunning then
      (if p.eval (penv env st) then exec env t st else exec env e st)
    else st
  | .early p _ rest, st =>
    if st.status.isRunning then (if p.eval (penv env st) then st else exec env rest st) else st
  | .ifChanges rest, st =>
    if st.status.isRunning then (if env.plan.isEmpty then st else exec env rest st) else st
  | .call _ b, st => exec env b st
  | .defn _ _, st => st
  | .note _ _, st => st
  | .block p, st => exec env p st
  | .attempt b e, st =>
    if st.status.isRunning then
      let s1 := exec env b st
      match s1.status with
      | .failed m => exec env e { s1 with status := .running, warnings := s1.warnings ++ [m] }
      | _ => s1
    else st
  | .gate consult, st =>
    if st.status.isRunning && consult then
      match st.errU with
      | [] => st
      | m :: _ => { st with status := .failed m }
    else st
  | .warnU, st => if st.status.isRunning then { st with warnings := st.warnings ++ st.errU } else st
  | .forPlan fm b, st => env.plan.foldl (fun s c => exec env b (sendStep env (.plan c) fm s)) st
  | .loop _ b again, st =>
    if st.status.isRunning then
      iter (exec env b) (fun s => again.eval (penv env s)) env.cfg.fuel st
    else st
  | .forIds _ keep b, st =>
    match st.reply with
    | .page ids _ =>
      (ids.filter keep).foldl
        (fun s id => if s.status.isRunning then exec env b { s with cursor := id } else s) st
    | _ => st

def run (env : Env) (p : Prog) : St := exec env p {}

/-- `s.CloseConnection()` in ApproveOrCompare: runs after approve/compare *returned* (also with
an error value), is skipped after errlog.Abort; ASA/IOS send `exit` if the connection exists. -/
def closeStep (o : Option Out) (st : St) : St :=
  match o with
  | none => st
  | some x =>
    if st.connected && (st.status.isRunning || st.status.isFailed) then
      { st with trace := st.trace ++ [x] }
    else st

/-- Exit status of `drc`: 0, 1 after `ERROR>>>`, 2 after a Go panic; 3 stands for "the program
was still in an unbounded loop when the observation ended". -/
def St.exit (st : St) : Nat :=
  match st.status with
  | .running => 0
  | .aborted _ | .failed _ => 1
  | .panicked _ => 2
  | .unfinished => 3

/-- The `ERROR>>>` line. -/
def St.diagnostic (st : St) : Option String :=
  match st.status with
  | .aborted m | .failed m => some m
  | _ => none

/-! ## Skeleton: what is compared with the facts regenerated from the Go source -/

/-- (depth, kind, text) -/
abbrev Item := Nat × String × String

def skel (d : Nat) : Prog → List Item
  | .nop => []
  | .seq p q => skel d p ++ skel d q
  | .send prim arg _ _ => [(d, "send", if arg == "" then prim else prim ++ " " ++ arg)]
  | .sendCur prim arg _ _ => [(d, "send", if arg == "" then prim else prim ++ " " ++ arg)]
  | .assign x decl silent e =>
    if silent then [] else [(d, "assign", x.show ++ (if decl then " := " else " = ") ++ e.show)]
  | .collect label => [(d, "assign", label)]
  | .setName _ => [(d, "assign", "v1 = c1p1")]
  | .setCur _ => []
  | .check p ik it _ => [(d, "guard", p.show), (d + 1, ik, it)]
  | .record p atxt _ _ => [(d, "if", p.show), (d + 1, "assign", atxt)]
  | .crash _ _ => []
  | .ite p t e =>
    (d, "if", p.show) :: skel (d + 1) t ++
      (match skel (d + 1) e with | [] => [] | l => (d, "else", "") :: l)
  | .early p it rest =>
    -- a bare `return` that only skips the rest is the complementary `if` around the rest
    if it == "" then (d, "if", p.showNeg) :: skel (d + 1) rest
    else (d, "guard", p.show) :: (d + 1, "ret", it) :: skel d rest
  | .ifChanges rest => (d, "guard", "!recv.HasChanges()") :: (d + 1, "ret", "nil") :: skel d rest
  | .call fn _ => if fn == "" then [] else [(d, "call", fn)]
  | .defn name body => (d, "closure", name) :: skel (d + 1) body
  | .note k t => [(d, k, t)]
  | .block p => skel (d + 1) p
  | .attempt b e => skel d b ++ skel d e
  | .gate _ => [(d, "call", "GetErrUnmanaged"), (d, "guard", "v1 != nil"), (d + 1, "ret", "v1[0]")]
  | .warnU => [(d, "call", "GetErrUnmanaged"), (d, "for", "range recv.GetErrUnmanaged()"),
               (d + 1, "warn", "")]
  | .forPlan _ _ => []
  | .loop label b again =>
    (d, "for", label) :: skel (d + 1) b ++ [(d + 1, "guard", again.showNeg), (d + 2, "break", "")]
  | .forIds label _ b => (d, "for", label) :: skel (d + 1) b

end NA.Gate
