/-!
# Session language (C09)

A deep embedding of the client side of a device dialogue as the Go code conducts it:
`send`, `recv` (goexpect `Expect` / one HTTP round trip), tests on the last reply, `abort`
(errlog.Abort = log `ERROR>>>` + panic(bailout)), Go's `defer`, error values returned and
tested with `if err != nil`, loops, function boundaries.

Semantics: against an arbitrary (adversarial) device `Dev := List Ev → Reply`, a function of the
whole history.  Abort-by-panic unwinds through `defer` scopes, running the deferred code (which
may itself talk to the device and may itself abort).

Core Lean only.
-/
namespace NA.Sess

/-- Role of an exchange, assigned at the call site. -/
inductive Role
  | login    -- password / enable / key generation / session creation
  | setup    -- terminal set-up, `configure terminal`, `end`, reload bracket, prompt changes
  | read     -- show commands, configuration retrieval
  | change   -- a command of the change script
  | probe    -- Linux `echo $?`
  | save     -- `write memory`, commit, job poll, scp of the start-up files
  | cleanup  -- `exit`
  deriving DecidableEq, Repr, Inhabited

/-- Transport outcome of a reply. -/
inductive Arr
  | full      -- everything up to and including the expected final prompt / the complete HTTP reply
  | noPrompt  -- output arrives, the final prompt does not (then silence)
  | silent    -- nothing within the timeout
  | closed    -- connection closed / EOF
  deriving DecidableEq, Repr, Inhabited

/-- What a console reply contains besides echo and prompt. -/
inductive Out
  | none   -- nothing
  | info   -- only `INFO:` lines (or lines the ASA table declares valid)
  | warning -- valid, but with `WARNING:` lines that are reported
  | text   -- anything else: error text, unexpected output
  deriving DecidableEq, Repr, Inhabited

/-- Features of a reply the client looks for. -/
inductive Flag
  | yesNo | password | gt | hash            -- login prompts
  | noPager | w511 | nameOk | okMark | confirm | saveAsk | overwrite | openFailed | aborted
  | status0 | restorePath | cfgGenuine | cfgParses | bannerOk
  | keyOk | haActive | noChanges | msgEmpty | pend | jobOk | wellFormed
  deriving DecidableEq, Repr, Inhabited

structure Reply where
  arr : Arr := .full
  echoOk : Bool := true
  out : Out := .none
  status200 : Bool := true      -- HTTP only
  parses : Bool := true         -- HTTP only: body is well-formed and says success
  flags : List Flag := []
  deriving DecidableEq, Repr, Inhabited

/-- Observable events of a run, in order. -/
inductive Ev
  | sent (role : Role) (lines : List String)   -- one packet (1 or 2 lines) / one HTTP request
  | got (role : Role) (r : Reply)              -- one reply read
  | skipped (r : Reply)                        -- a stale reply passed over while waiting for a special prompt
  | logErr                                      -- an `ERROR>>>` line in the log
  | logWarn                                     -- a `WARNING>>>` line
  | logChanged                                  -- `comp: *** device changed ***`
  | scp (what : String)                         -- Linux: start-up file copied to the device
  deriving DecidableEq, Repr, Inhabited

abbrev Dev := List Ev → Reply

/-- What a `recv` waits for. -/
inductive Pat
  | std                      -- the standard prompt
  | special (fs : List Flag) -- one of several special prompts (password:, [confirm], banner, ...)
  | stdOr (fs : List Flag)   -- standard prompt or a special one
  | http                     -- a complete HTTP reply
  deriving DecidableEq, Repr, Inhabited

def Pat.matches (p : Pat) (r : Reply) : Bool :=
  match p with
  | .std => r.arr == .full
  | .special fs => (r.arr == .full || r.arr == .noPrompt) && fs.any (r.flags.contains ·)
  | .stdOr fs => r.arr == .full || (r.arr == .noPrompt && fs.any (r.flags.contains ·))
  | .http => r.arr == .full

inductive Txt
  | lit (s : String)
  | litNl (s : String)   -- a literal that carries its own line end in the source ("exit\n")
  | cur            -- the current element of the change script (1 or 2 lines)
  | secret         -- the password
  deriving DecidableEq, Repr, Inhabited

inductive Cond
  | err                 -- `err != nil`
  | flag (f : Flag)     -- the last reply has the feature
  | echoBad             -- StripEcho fails
  | outNonEmpty         -- `out != ""`
  | outInvalid          -- `!isValidOutput`
  | outWarn             -- output has WARNING: lines that are reported
  | not200 | parseFails
  | joined              -- the current script element has a second line
  | hasChanges
  | planNonEmpty        -- Linux: `len(ch.routes) != 0`
  | ipt                 -- Linux: `ch.iptables != ""`
  | simulated           -- `os.Getenv("SIMULATE_ROUTER") != ""`
  | never               -- a test that cannot succeed under the stated assumptions
  | unmanaged           -- the banner check of the gate recorded an error (`errUnmanaged != nil`)
  | isCompare
  | ctrPos              -- `retries > 0`
  | not (c : Cond)
  | or (a b : Cond)
  deriving DecidableEq, Repr, Inhabited

inductive RetV | none | nil | err | keep
  deriving DecidableEq, Repr, Inhabited

inductive Sess
  | skip
  | send (role : Role) (t : Txt)
  | recv (role : Role) (p : Pat)
  | recvMore (p : Pat)
  | roundTrip (role : Role) (t : Txt) (replayable : Bool)
    -- one `http.Client` request: send + receive; net/http replays a replayable request once when a
    -- reused keep-alive connection is closed before any byte of the reply
  | ite (c : Cond) (label : String) (t e : Sess)
  | abort (lits : List String)
  | warn (lits : List String)
  | mark (e : Ev)
  | seq (a b : Sess)
  | forEach (body : Sess)
  | defer (cleanup body : Sess)
  | loopN (n : Nat) (body : Sess)      -- `for { … }` that provably ends within n rounds
  | loopFuel (body : Sess)             -- `for { … }` whose termination depends on the device
  | cont
  | ret (v : RetV) (lits : List String)
  | setCtr (n : Nat)
  | decCtr
  | setPlan                            -- the diff is computed from what was retrieved
  | call (name : String) (lits : List String) (body : Sess)
  | scope (ctx : String) (body : Sess) -- an enclosing construct without semantics of its own (second `range`, `func`)
  | when (c : Cond) (body : Sess)      -- guarded code whose guard is not a syntactic `if` of the function (loop over a possibly empty list)
  | assumeBanner                       -- the gate's banner check is taken to succeed (Linux; C06 owns it)
  deriving Repr, Inhabited, DecidableEq

infixr:60 " ;; " => Sess.seq

inductive Mode | run | panic | ret | cont | diverge
  deriving DecidableEq, Repr, Inhabited

structure Env where
  dev : Dev
  /-- the change script the real diff engine would produce, as a function of whether the
  retrieved text was the genuine configuration -/
  plan : Bool → List (List String)
  planIpt : Bool → Bool := fun _ => false
  compare : Bool := false
  simulated : Bool := true
  fuel : Nat := 0
  cur : List String := []

structure St where
  tr : List Ev := []
  mode : Mode := .run
  last : Reply := {}
  errv : Bool := false
  ctr : Nat := 0
  plan : List (List String) := []
  ipt : Bool := false
  banner : Bool := false
  deriving Repr, Inhabited

def Txt.lines (t : Txt) (env : Env) : List String :=
  match t with
  | .lit s => [s]
  | .litNl s => [s]
  | .cur => env.cur
  | .secret => ["<secret>"]

def evalCond (c : Cond) (env : Env) (s : St) : Bool :=
  match c with
  | .err => s.errv
  | .flag f => s.last.flags.contains f
  | .echoBad => !s.last.echoOk
  | .outNonEmpty => s.last.out != .none
  | .outInvalid => s.last.out == .text
  | .outWarn => s.last.out == .warning
  | .not200 => !s.last.status200
  | .parseFails => !s.last.parses
  | .joined => env.cur.length > 1
  | .hasChanges => !s.plan.isEmpty || s.ipt
  | .planNonEmpty => !s.plan.isEmpty
  | .ipt => s.ipt
  | .simulated => env.simulated
  | .never => false
  | .unmanaged => !s.banner
  | .isCompare => env.compare
  | .ctrPos => s.ctr > 0
  | .not c => !evalCond c env s
  | .or a b => evalCond a env s || evalCond b env s

def linesSent (tr : List Ev) : Nat :=
  tr.foldl (fun n e => match e with | .sent _ ls => n + ls.length | _ => n) 0

def repliesRead (tr : List Ev) : Nat :=
  tr.foldl (fun n e => match e with | .got _ _ => n + 1 | .skipped _ => n + 1 | _ => n) 0

def Pat.skips : Pat → Bool
  | .special _ => true
  | _ => false

/-- goexpect's `Expect`: read up to the first match.  The device has produced one reply per
line on the wire (plus the preamble); `n` of them are unread.  A wait for a special prompt
passes over complete stale replies (they are only left over after an abort during a joined
two-command packet); the last unread reply decides. -/
def recvLoop (dev : Dev) (ρ : Role) (p : Pat) : Nat → St → St
  | 0, s => { s with errv := true }
  | n+1, s =>
    let r := dev s.tr
    if p.matches r then
      { s with tr := s.tr ++ [.got ρ r], last := r, errv := false,
               banner := s.banner || (ρ == .login && r.flags.contains .bannerOk) }
    else if p.skips && r.arr == .full && n != 0 then
      recvLoop dev ρ p n { s with tr := s.tr ++ [.skipped r] }
    else
      { s with tr := s.tr ++ [.got ρ r], last := r, errv := true }

/-- a complete reply has been received before: the connection is a reused keep-alive connection -/
def connReused (tr : List Ev) : Bool :=
  tr.any fun e => match e with | .got _ r => r.arr == .full | _ => false

/-- Bounded iteration of a loop body given as a state transformer. -/
def iter : Nat → (St → St) → St → St
  | 0, _, s => if s.mode = .run then { s with mode := .diverge } else s
  | n+1, f, s =>
    if s.mode = .run then
      let s1 := f s
      match s1.mode with
      | .cont => iter n f { s1 with mode := .run }
      | .run => iter n f s1
      | _ => s1
    else s

/-- Run the elements of the script through a body given as a state transformer. -/
def each (f : List String → St → St) : List (List String) → St → St
  | [], s => s
  | pk :: rest, s => each f rest (f pk s)

def exec : Sess → Env → St → St
  | .skip, _, s => s
  | .send role t, env, s =>
    if s.mode = .run then { s with tr := s.tr ++ [.sent role (t.lines env)] } else s
  | .recv role p, env, s =>
    if s.mode = .run then recvLoop env.dev role p (linesSent s.tr + 1 - repliesRead s.tr) s else s
  | .roundTrip role t replay, env, s =>
    if s.mode = .run then
      let s1 := recvLoop env.dev role .http 1 { s with tr := s.tr ++ [.sent role (t.lines env)] }
      if replay && s1.last.arr == .closed && connReused s.tr then
        recvLoop env.dev role .http 1 { s1 with tr := s1.tr ++ [.sent role (t.lines env)] }
      else s1
    else s
  | .recvMore p, _, s =>
    if s.mode = .run then { s with errv := !(p.matches s.last && s.last.arr == .full) } else s
  | .ite c _ t e, env, s =>
    if s.mode = .run then (if evalCond c env s then exec t env s else exec e env s) else s
  | .abort _, _, s =>
    if s.mode = .run then { s with tr := s.tr ++ [.logErr], mode := .panic } else s
  | .warn _, _, s =>
    if s.mode = .run then { s with tr := s.tr ++ [.logWarn] } else s
  | .mark e, _, s =>
    if s.mode = .run then { s with tr := s.tr ++ [e] } else s
  | .seq a b, env, s => exec b env (exec a env s)
  | .forEach body, env, s =>
    if s.mode = .run then each (fun pk st => exec body { env with cur := pk } st) s.plan s else s
  | .defer cleanup body, env, s =>
    if s.mode = .run then
      let s1 := exec body env s
      if s1.mode = .diverge then s1 else
      let s2 := exec cleanup env { s1 with mode := .run }
      if s2.mode = .run then { s2 with mode := s1.mode } else s2
    else s
  | .loopN n body, env, s => iter n (exec body env) s
  | .loopFuel body, env, s => iter env.fuel (exec body env) s
  | .cont, _, s => if s.mode = .run then { s with mode := .cont } else s
  | .ret v _, _, s =>
    if s.mode = .run then
      { s with mode := .ret,
               errv := match v with | .none => s.errv | .nil => false | .err => true | .keep => s.errv }
    else s
  | .setCtr n, _, s => if s.mode = .run then { s with ctr := n } else s
  | .decCtr, _, s => if s.mode = .run then { s with ctr := s.ctr - 1 } else s
  | .setPlan, env, s =>
    if s.mode = .run then
      let g := s.last.flags.contains .cfgGenuine && s.last.arr == .full
      { s with plan := env.plan g, ipt := env.planIpt g } else s
  | .call _ _ body, env, s =>
    if s.mode = .run then
      let s1 := exec body env s
      if s1.mode = .ret then { s1 with mode := .run } else s1
    else s
  | .scope _ body, env, s => exec body env s
  | .when c body, env, s =>
    if s.mode = .run then (if evalCond c env s then exec body env s else s) else s
  | .assumeBanner, _, s => if s.mode = .run then { s with banner := true } else s

/-- Every construct is the identity once the run has left normal mode. -/
theorem exec_nonrun (p : Sess) (env : Env) (s : St) (h : s.mode ≠ .run) : exec p env s = s := by
  induction p generalizing env s with
  | seq a b iha ihb => simp [exec, iha env s h, ihb env s h]
  | loopN n body _ => cases n <;> simp [exec, iter, h]
  | loopFuel body _ => simp only [exec]; cases env.fuel <;> simp [iter, h]
  | scope c body ih => simp [exec, ih env s h]
  | _ => simp [exec, h]

/-! ## Skeleton: the ordered list of call sites of a function body -/

structure Site where
  callee : String
  lits : List String
  ctx : List String      -- enclosing constructs, outermost first: "defer", "loop", "if:<cond>", "else:<cond>"
  deriving DecidableEq, Repr, Inhabited

/-- A construct that leaves no site (and does not leave the statement list). -/
def silent : Sess → Bool
  | .skip | .mark _ | .setCtr _ | .decCtr | .setPlan | .assumeBanner => true
  | _ => false

/-- `leaves p`: the program text always leaves the enclosing statement list (ends in `return`,
`continue`, `Abort`, `panic`); the counterpart of `terminates` in `translate/skeleton`. -/
def leaves : Sess → Bool
  | .abort _ => true
  | .ret _ _ => true
  | .cont => true
  | .call n _ _ => n == "panic"
  | .seq a b => leaves a || leaves b
  | .ite _ _ t e => leaves t && leaves e
  | .defer _ b => leaves b
  | .scope c b => c != "loop" && c != "func" && c != "defer" && leaves b
  | .when _ b => leaves b
  | _ => false

/-- Polarity of a label: a leading `¬` says that the Go source tests the negation of the
(positive) condition text that follows. -/
def labelPol (l : String) : Bool × String :=
  match l.toList with
  | '¬' :: r => (true, String.ofList r)
  | _ => (false, l)

/-- Tail position: last statement of a function body (falling through returns) or of a loop
body (falling through continues). -/
inductive Tail | none | fn | loop
  deriving DecidableEq, Repr

def Tail.any : Tail → Bool
  | .none => false
  | _ => true

/-- contexts of the then- and else-branch of a conditional and whether the else-branch is listed
first -/
structure IteCtx where
  ct : List String
  ce : List String
  eFirst : Bool

/-- Normal form of a conditional (same rules as `ifStmt` of the translator): the label is the
positive condition text; the branch taken when it holds is recorded under `if:`, the other under
`else:`; if the positive branch always leaves (`lt`/`le`: then/else leaves; in tail position every
branch does) the negative branch is recorded flat after it; if only the negative branch leaves it
comes first and the positive branch is flat. -/
def iteCtx (label : String) (lt le : Bool) (ctx : List String) : IteCtx :=
  let neg := (labelPol label).1
  let l := (labelPol label).2
  let lp := if neg then le else lt
  let ln := if neg then lt else le
  let cp := if lp || !ln then ctx ++ ["if:" ++ l] else ctx
  let cn := if lp then ctx else ctx ++ ["else:" ++ l]
  ⟨if neg then cn else cp, if neg then cp else cn, (neg && (lp || !ln)) || (!neg && !lp && ln)⟩

def scopeTail (c : String) (tl : Tail) : Tail :=
  if c == "loop" then .loop else if c == "func" || c == "defer" then .fn else tl

/-- Calls that the skeleton looks through: closures and small wrappers of the Go source that are
not units of the tie (`check` of the three console back ends, the IOS reload wrappers, the writer
of the status file).  The translator decides by what a callee is (module-local, not a unit,
talks to the device), so turning `check` into a method, inlining a wrapper or renaming
`write` changes nothing. -/
def inlineNames : List String := ["check", "scheduleReload", "extendReload", "write"]

/-- `skelT p ctx tl`: call sites of `p` in the normal form of `translate/skeleton`, `p` standing
in tail position `tl`.  A `call` is one site (its body belongs to the callee's own skeleton);
primitives are the sites `<send>` / `<recv>`.  The normal form makes `if c {A} else {B}`,
`if !c {B} else {A}`, `if c {A; return}; B`, `if !c {return}; A` (end of function) coincide:
* conditionals: `iteCtx`;
* `if c {T}; K` where `T` always leaves is `if c {T} else {K}`;
* what follows a statement that always leaves is unreachable and not recorded;
* a bare `return` at the end of a function and a `continue` at the end of a loop body are not
  recorded (falling through does the same). -/
def skelT : Sess → List String → Tail → List Site
  | .skip, _, _ => []
  | .send _ t, ctx, _ => [⟨"<send>", (match t with | .lit s => [s] | .litNl s => [s ++ "\n"] | _ => ["_"]), ctx⟩]
  | .recv _ _, ctx, _ => [⟨"<recv>", [], ctx⟩]
  | .recvMore _, ctx, _ => [⟨"<recv>", [], ctx⟩]
  | .roundTrip _ _ _, ctx, _ => [⟨"<send>", ["_"], ctx⟩, ⟨"<recv>", [], ctx⟩]
  | .ite _ label t e, ctx, tl =>
    let k := iteCtx label (leaves t || tl.any) (leaves e || tl.any) ctx
    if k.eFirst then skelT e k.ce tl ++ skelT t k.ct tl else skelT t k.ct tl ++ skelT e k.ce tl
  | .abort lits, ctx, _ => [⟨"Abort", lits, ctx⟩]
  | .warn lits, ctx, _ => [⟨"Warning", lits, ctx⟩]
  | .mark _, _, _ => []
  | .seq (.ite _ label t e) b, ctx, tl =>
    if leaves t && silent e then
      -- `if c {T}; K` = `if c {T} else {K}`
      let k := iteCtx label true (leaves b || tl.any) ctx
      if k.eFirst then skelT b k.ce tl ++ skelT t k.ct tl else skelT t k.ct tl ++ skelT b k.ce tl
    else if silent t && leaves e then
      let k := iteCtx label (leaves b || tl.any) true ctx
      if k.eFirst then skelT e k.ce tl ++ skelT b k.ct tl else skelT b k.ct tl ++ skelT e k.ce tl
    else
      let tl' := if silent b then tl else .none
      let k := iteCtx label (leaves t || tl'.any) (leaves e || tl'.any) ctx
      (if k.eFirst then skelT e k.ce tl' ++ skelT t k.ct tl' else skelT t k.ct tl' ++ skelT e k.ce tl') ++
      (if leaves t && leaves e then [] else skelT b ctx tl)
  | .seq a b, ctx, tl =>
    skelT a ctx (if silent b then tl else .none) ++ (if leaves a then [] else skelT b ctx tl)
  | .forEach body, ctx, _ => skelT body (ctx ++ ["loop"]) .loop
  | .defer cleanup body, ctx, tl => skelT cleanup (ctx ++ ["defer"]) .fn ++ skelT body ctx tl
  | .loopN _ body, ctx, _ => skelT body (ctx ++ ["loop"]) .loop
  | .loopFuel body, ctx, _ => skelT body (ctx ++ ["loop"]) .loop
  | .cont, ctx, tl => if tl = .loop then [] else [⟨"continue", [], ctx⟩]
  | .ret _ lits, ctx, tl => if lits.isEmpty && tl = .fn then [] else [⟨"return", lits, ctx⟩]
  | .setCtr _, _, _ => []
  | .decCtr, _, _ => []
  | .setPlan, _, _ => []
  | .call name lits body, ctx, _ =>
    -- helpers outside the vocabulary of the tie are inlined (the translator inlines every
    -- module-local helper that talks to the device and is not a unit of its own)
    if inlineNames.contains name then skelT body ctx .fn else [⟨name, lits, ctx⟩]
  | .scope c body, ctx, tl => skelT body (ctx ++ [c]) (scopeTail c tl)
  | .when _ body, ctx, tl => skelT body ctx tl
  | .assumeBanner, _, _ => []

/-- `a ;; c` for a right-nested `a` -/
def seqApp : Sess → Sess → Sess
  | .seq x y, c => .seq x (seqApp y c)
  | x, c => .seq x c

/-- the same program with every sequence nested to the right (`(a ;; b) ;; c` as `a ;; b ;; c`):
a statement list, as the translator sees it -/
def rassoc : Sess → Sess
  | .seq a b => seqApp (rassoc a) (rassoc b)
  | .ite c l t e => .ite c l (rassoc t) (rassoc e)
  | .forEach body => .forEach (rassoc body)
  | .defer cleanup body => .defer (rassoc cleanup) (rassoc body)
  | .loopN n body => .loopN n (rassoc body)
  | .loopFuel body => .loopFuel (rassoc body)
  | .scope c body => .scope c (rassoc body)
  | .when c body => .when c (rassoc body)
  | p => p

/-- `rassoc`, also inside the bodies of calls (they are looked through for `inlineNames`) -/
def rassocAll : Sess → Sess
  | .seq a b => seqApp (rassocAll a) (rassocAll b)
  | .ite c l t e => .ite c l (rassocAll t) (rassocAll e)
  | .forEach body => .forEach (rassocAll body)
  | .defer cleanup body => .defer (rassocAll cleanup) (rassocAll body)
  | .loopN n body => .loopN n (rassocAll body)
  | .loopFuel body => .loopFuel (rassocAll body)
  | .scope c body => .scope c (rassocAll body)
  | .when c body => .when c (rassocAll body)
  | .call name lits body => .call name lits (rassocAll body)
  | p => p

/-- `if c {T} else {E}; K` where exactly one branch always leaves: `K` belongs to the other branch
(`switch x {case a: return …}; return y` is the chain with `return y` as its else).  Applied to a
right-nested program, with fuel for the nesting depth. -/
def absorbN : Nat → Sess → Sess
  | 0, p => p
  | n + 1, .seq (.ite c l t e) b =>
    if leaves t && !leaves e then .ite c l (absorbN n t) (absorbN n (seqApp e b))
    else if leaves e && !leaves t then .ite c l (absorbN n (seqApp t b)) (absorbN n e)
    else .seq (.ite c l (absorbN n t) (absorbN n e)) (absorbN n b)
  | n + 1, .seq a b => .seq (absorbN n a) (absorbN n b)
  | n + 1, .ite c l t e => .ite c l (absorbN n t) (absorbN n e)
  | n + 1, .forEach body => .forEach (absorbN n body)
  | n + 1, .defer cleanup body => .defer (absorbN n cleanup) (absorbN n body)
  | n + 1, .loopN k body => .loopN k (absorbN n body)
  | n + 1, .loopFuel body => .loopFuel (absorbN n body)
  | n + 1, .scope c body => .scope c (absorbN n body)
  | n + 1, .when c body => .when c (absorbN n body)
  | n + 1, .call name lits body => .call name lits (absorbN n body)
  | _ + 1, p => p

/-- the skeleton of a function body -/
def skel (p : Sess) (ctx : List String) : List Site := skelT (absorbN 200 (rassocAll p)) ctx .fn

end NA.Sess
