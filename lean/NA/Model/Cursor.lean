/-
C20 — models of the token-cursor functions of `pkg/cisco` as total functions into `Res`
(`ok` / `diag` = errlog.Abort or returned error, exit status 1 with a message / `panic` = Go
runtime panic).  Every place where the Go code indexes, slices or dereferences has an explicit
bounds check here, and the check fails exactly where Go would panic.

Each function that was repaired in /repo has ONE definition with a flag `fixed`:
`fixed = false` is the code of the snapshot (guard absent: the failing check is a `panic`),
`fixed = true` is the code after the `fix:` commit (the failing check is a diagnostic).

Strings are `List Char` (`Str`); literals are written `lit "…"`.  Core Lean only; executable.
-/
namespace NA.C20

abbrev Str := List Char

/-- A string literal as a character list. -/
def lit (s : String) : Str := s.toList

/-- Kinds of Go run-time failures; `site` is the Go expression that fails. -/
inductive Panic
  | index (site : String)      -- index out of range
  | slice (site : String)      -- slice bounds out of range
  | nilDeref (site : String)   -- nil pointer dereference
  | explicit (site : String)   -- panic(…) that is not errlog's bailout
  deriving DecidableEq, Repr

/-- Outcome of a function of the implementation. -/
inductive Res (α : Type)
  | ok (a : α)
  | diag (msg : Str)
  | panic (p : Panic)
  deriving Repr

namespace Res
def bind {α β : Type} (x : Res α) (f : α → Res β) : Res β :=
  match x with
  | .ok a => f a
  | .diag m => .diag m
  | .panic p => .panic p

def map {α β : Type} (f : α → β) (x : Res α) : Res β := x.bind (fun a => .ok (f a))

instance : Monad Res where
  pure := .ok
  bind := Res.bind

/-- The property of C20 for one call: whatever happens, it is not a Go panic. -/
def NoPanic {α : Type} (r : Res α) : Prop := ∀ p, r ≠ .panic p

/-- Weaker form for functions with a defect that is listed as known: the only panic allowed
is the listed one. -/
def PanicOnly {α : Type} (q : Panic) (r : Res α) : Prop := ∀ p, r = .panic p → p = q

def isPanic {α : Type} : Res α → Bool
  | .panic _ => true
  | _ => false
end Res

open Res

/-- What a failing bounds check yields: the guard of the fixed code reports the input
(`errlog.Abort("Incomplete command: %s", c.orig)`), the snapshot panics. -/
def failAt {α : Type} (fixed : Bool) (p : Panic) (msg : Str) : Res α :=
  if fixed then .diag msg else .panic p

/-! ### Strings: the functions of package `strings` that the code uses -/

/-- ASCII white space (`unicode.IsSpace` restricted to ASCII; inputs are assumed ASCII). -/
def isSpace (c : Char) : Bool :=
  c = ' ' || c = '\t' || c = '\n' || c = '\r' || c = '\x0b' || c = '\x0c'

/-- `strings.Fields`. -/
def fields : Str → List Str
  | [] => []
  | c :: cs =>
    if isSpace c then fields cs
    else match cs with
      | [] => [[c]]
      | d :: _ =>
        if isSpace d then [c] :: fields cs
        else match fields cs with
          | w :: ws => (c :: w) :: ws
          | [] => [[c]]

/-- `strings.Split(s, " ")` (never empty; `Split("", " ") = [""]`). -/
def splitSp : Str → List Str
  | [] => [[]]
  | c :: cs =>
    if c = ' ' then [] :: splitSp cs
    else match splitSp cs with
      | w :: ws => (c :: w) :: ws
      | [] => [[c]]

/-- `strings.Join(l, " ")`. -/
def join : List Str → Str
  | [] => []
  | [w] => w
  | w :: ws => w ++ ' ' :: join ws

/-- `strings.TrimRightFunc(s, unicode.IsSpace)`. -/
def trimRight (s : Str) : Str := (s.reverse.dropWhile isSpace).reverse

/-- `strings.Cut(s, string(sep))`. -/
def cut (sep : Char) : Str → Option (Str × Str)
  | [] => none
  | c :: cs =>
    if c = sep then some ([], cs)
    else match cut sep cs with
      | some (a, b) => some (c :: a, b)
      | none => none

/-- lines of a file: `bytes.Cut(data, "\n")` until the data is used up. -/
def splitLines : Str → List Str
  | [] => []
  | c :: cs =>
    if c = '\n' then [] :: splitLines cs
    else match splitLines cs with
      | l :: ls => (c :: l) :: ls
      | [] => [[c]]

def isDigit (c : Char) : Bool := '0' ≤ c && c ≤ '9'

def digitsVal (s : Str) : Nat := s.foldl (fun n c => 10 * n + (c.toNat - '0'.toNat)) 0

/-- `strconv.ParseUint(s, 10, bits)` succeeds (digits only, not empty, in range). -/
def parseUint (bits : Nat) (s : Str) : Option Nat :=
  if s ≠ [] ∧ s.all isDigit ∧ digitsVal s < 2 ^ bits then some (digitsVal s) else none

def hasSuffix (s suf : Str) : Bool := suf.reverse.isPrefixOf s.reverse
def hasPrefix (s pre : Str) : Bool := pre.isPrefixOf s

/-! ### postprocessACLParts (cisco/parse.go) -/

/-- The name tables used by `postprocessACLParts` (regenerated from the Go map literals for the
driver; the theorems hold for arbitrary tables). -/
structure Tables where
  protoNonNumeric : Str → Option Str
  protoNames : Str → Option Str
  tcpNames : Str → Option Str
  udpNames : Str → Option Str
  icmpTypeCodes : Str → Option Str
  icmp6Types : Str → Option Str
  logNames : Str → Option Str

/-- Cursor state: `done` = tokens already passed (reversed, possibly rewritten),
`parts` = the Go slice `parts`, `proto`, `refs` = names appended to `c.ref` (reversed). -/
structure AclSt where
  done : List Str
  parts : List Str
  proto : Str
  refs : List Str
  deriving Repr

def incomplete (orig : Str) : Str := lit "Incomplete command: " ++ orig

/-- `convNamed(m)`: replace a named value by its number and step over it (if any). -/
def convNamed (m : Str → Option Str) (done parts : List Str) : List Str × List Str :=
  match parts with
  | [] => (done, [])
  | p :: rest => ((m p).getD p :: done, rest)

def convNamedPort (tb : Tables) (proto : Str) (done parts : List Str) : List Str × List Str :=
  if proto = lit "tcp" then convNamed tb.tcpNames done parts
  else if proto = lit "udp" then convNamed tb.udpNames done parts
  else (done, parts)

/-- `convObjectGroup`: `name := parts[1]; parts[1] = "$REF"; parts = parts[2:]`. -/
def convObjectGroup (fixed : Bool) (orig : Str) (s : AclSt) : Res AclSt :=
  match s.parts with
  | kw :: name :: rest =>
    .ok { done := lit "$REF" :: kw :: s.done, parts := rest, proto := s.proto, refs := name :: s.refs }
  | _ => failAt fixed (.index "parts[1]") (incomplete orig)

/-- `convProto`. -/
def convProto (fixed : Bool) (tb : Tables) (orig : Str) (s : AclSt) : Res AclSt :=
  match s.parts with
  | [] => failAt fixed (.index "parts[0]") (incomplete orig)
  | p :: rest =>
    if p = lit "object-group" then convObjectGroup fixed orig s
    else if p = lit "object" then
      match rest with
      | a :: rest' => .ok { done := a :: p :: s.done, parts := rest', proto := s.proto, refs := s.refs }
      | [] => failAt fixed (.slice "parts[2:]") (incomplete orig)
    else
      let p' := (tb.protoNonNumeric p).getD p
      let (d, r) := convNamed tb.protoNames s.done (p' :: rest)
      .ok { done := d, parts := r, proto := p', refs := s.refs }

def twoWordKeywords : List Str :=
  [lit "host", lit "object", lit "object-group-security", lit "object-group-user",
   lit "security-group", lit "user", lit "user-group"]

def oneWordKeywords : List Str := [lit "any", lit "any4", lit "any6", lit "interface"]

/-- `convObject`. -/
def convObject (fixed : Bool) (tb : Tables) (orig : Str) (s : AclSt) : Res AclSt :=
  match s.parts with
  | [] => .ok s
  | p :: rest =>
    if p = lit "object-group" then convObjectGroup fixed orig s
    else if p = lit "log" ∨ p = lit "log-input" then
      match rest with
      | [] => .ok { done := p :: s.done, parts := [], proto := s.proto, refs := s.refs }
      | q :: rest' =>
        let q1 := (tb.logNames q).getD q
        let q2 := if q1 = lit "6" then [] else q1
        let (d, r) := convNamed tb.logNames (q2 :: p :: s.done) rest'
        .ok { done := d, parts := r, proto := s.proto, refs := s.refs }
    else if p ∈ twoWordKeywords then
      match rest with
      | a :: rest' => .ok { done := a :: p :: s.done, parts := rest', proto := s.proto, refs := s.refs }
      | [] => failAt fixed (.slice "parts[2:]") (incomplete orig)
    else if p ∈ oneWordKeywords then
      .ok { done := p :: s.done, parts := rest, proto := s.proto, refs := s.refs }
    else
      match cut '/' p with
      | some (ip, bits) =>
        let p' := if bits = lit "0" then lit "any6"
                  else if bits = lit "128" then lit "host " ++ ip else p
        .ok { done := p' :: s.done, parts := rest, proto := s.proto, refs := s.refs }
      | none =>
        match rest with
        | [] => .ok s
        | m :: rest' =>
          let (p', m') :=
            if m = lit "0.0.0.0" then (lit "any4", [])
            else if m = lit "255.255.255.255" then (lit "host", p)
            else (p, m)
          .ok { done := m' :: p' :: s.done, parts := rest', proto := s.proto, refs := s.refs }

def opKeywords : List Str := [lit "eq", lit "gt", lit "lt", lit "neq"]

/-- `convPortOrObject`. -/
def convPortOrObject (fixed : Bool) (tb : Tables) (orig : Str) (s : AclSt) : Res AclSt :=
  match s.parts with
  | [] => .ok s
  | p :: rest =>
    if p ∈ opKeywords then
      let (d, r) := convNamedPort tb s.proto (p :: s.done) rest
      .ok { done := d, parts := r, proto := s.proto, refs := s.refs }
    else if p = lit "range" then
      let (d, r) := convNamedPort tb s.proto (p :: s.done) rest
      let (d', r') := convNamedPort tb s.proto d r
      .ok { done := d', parts := r', proto := s.proto, refs := s.refs }
    else convObject fixed tb orig s

/-- `convICMP`. -/
def convICMP (tb : Tables) (s : AclSt) : AclSt :=
  match s.parts with
  | [] => s
  | p :: rest =>
    if s.proto = lit "icmp" then
      match tb.icmpTypeCodes p with
      | some r => { done := r :: s.done, parts := rest, proto := s.proto, refs := s.refs }
      | none => s
    else if s.proto = lit "icmp6" then
      let (d, r) := convNamed tb.icmp6Types s.done s.parts
      { done := d, parts := r, proto := s.proto, refs := s.refs }
    else s

/-- `skipNumber`. -/
def skipNumber (s : AclSt) : AclSt :=
  match s.parts with
  | [] => s
  | p :: rest =>
    match parseUint 8 p with
    | some _ => { done := p :: s.done, parts := rest, proto := s.proto, refs := s.refs }
    | none => s

/-- `postprocessACLParts(c, parts)`; the result is the rewritten token list and the names
appended to `c.ref`. -/
def aclParts (fixed : Bool) (tb : Tables) (orig : Str) (parts : List Str) : Res (List Str × List Str) :=
  (convProto fixed tb orig { done := [], parts := parts, proto := [], refs := [] }).bind fun s1 =>
  (convObject fixed tb orig s1).bind fun s2 =>
  (if s2.proto = lit "tcp" ∨ s2.proto = lit "udp" then
      (convPortOrObject fixed tb orig s2).bind fun a =>
      (convPortOrObject fixed tb orig a).bind fun b =>
      convPortOrObject fixed tb orig b
    else if s2.proto = lit "icmp" ∨ s2.proto = lit "icmp6" then
      (convObject fixed tb orig s2).bind fun a => .ok (skipNumber (convICMP tb a))
    else convObject fixed tb orig s2).bind fun s3 =>
  (convObject fixed tb orig s3).bind fun s4 =>
  .ok (s4.done.reverse ++ s4.parts, s4.refs.reverse)

/-- `slices.DeleteFunc(tokens, w == "")` followed by `strings.Join`. -/
def joinNonEmpty (tokens : List Str) : Str := join (tokens.filter (· ≠ []))

/-- `postprocessASAACL`: returns the new `c.parsed` and the appended references
(`none` = line left alone: not an `extended` ACL line). -/
def asaACL (fixed : Bool) (tb : Tables) (orig parsed : Str) : Res (Option (Str × List Str)) :=
  let tokens := fields parsed
  match tokens with
  | t0 :: t1 :: t2 :: rest =>
    if t2 ≠ lit "extended" then .ok none
    else match rest with
      | t3 :: parts =>
        (aclParts fixed tb orig parts).bind fun (ps, refs) =>
          .ok (some (joinNonEmpty (t0 :: t1 :: t2 :: t3 :: ps), refs))
      | [] => .panic (.slice "tokens[4:]")
  | _ => .panic (.index "tokens[2]")

/-- `postprocessIOSACL`: returns new `parsed`, new `orig`, appended references. -/
def iosACL (fixed : Bool) (tb : Tables) (orig parsed : Str) : Res (Str × Str × List Str) :=
  match fields parsed with
  | [] => .panic (.index "tokens[0]")
  | t0 :: rest0 =>
    let stripped := t0 = lit "$SEQ"
    let tokens := if stripped then rest0 else t0 :: rest0
    let parsed1 := if stripped then join tokens else parsed
    let orig1 := if stripped then ((cut ' ' orig).map (·.2)).getD [] else orig
    match tokens with
    | [] => .panic (.index "tokens[0]")
    | a :: parts =>
      if a = lit "remark" then .ok (parsed1, orig1, [])
      else (aclParts fixed tb orig1 parts).bind fun (ps, refs) =>
        .ok (joinNonEmpty (a :: ps), orig1, refs)

/-! ### matchCmd (cisco/parse.go) -/

structure Descr where
  pre : Str              -- prefix, "" for sub commands
  template : List Str
  ignore : Bool
  sub : List (List Str × Bool) := []   -- sub command templates with their ignore flag
  refs : List Str := []                -- referenced prefixes, one per `$REF` of the template
  subRefs : List (List Str) := []      -- the same for every sub command template
  deriving Repr

structure Cmd where
  descr : Nat            -- index of the matching description
  orig : Str
  parsed : Str
  name : Str
  seq : Nat
  ref : List Str
  sub : List Cmd
  app : Bool             -- found after [APPEND]
  deriving Repr

structure MatchAcc where
  parsed : List Str      -- reversed
  name : Str
  seq : Nat
  ref : List Str         -- reversed
  deriving Repr

/-- index of the first word that closes the string: ends with `"` but not with `\"`. -/
def findClose : List Str → Nat → Option Nat
  | [], _ => none
  | w :: ws, j =>
    if hasSuffix w (lit "\"") && !hasSuffix w (lit "\\\"") then some j else findClose ws (j + 1)

/-- The `TEMPLATE` loop of `matchCmd` for one description.
`ok none` = `continue DESCR` (no match); `ok (some (acc, rest))` = loop left with `rest` args. -/
def matchTemplate : List Str → List Str → MatchAcc → Res (Option (MatchAcc × List Str))
  | [], args, acc => .ok (some (acc, args))
  | tok :: ts, args, acc =>
    match args with
    | [] => .ok none
    | w :: rest =>
      if tok = lit "$NAME" then
        matchTemplate ts rest { acc with name := w, parsed := tok :: acc.parsed }
      else if tok = lit "$SEQ" then
        match parseUint 64 w with
        | none => .ok none
        | some n => matchTemplate ts rest { acc with seq := n, parsed := tok :: acc.parsed }
      else if tok = lit "$REF" then
        matchTemplate ts rest { acc with ref := w :: acc.ref, parsed := tok :: acc.parsed }
      else if tok = lit "\"" then
        match w with
        | [] => .panic (.index "w[0]")
        | c :: _ =>
          if c = '"' then
            match findClose args 0 with
            | none => .panic (.explicit "Incomplete string")
            | some j =>
              matchTemplate ts (args.drop (j + 1)) { acc with parsed := join (args.take (j + 1)) :: acc.parsed }
          else
            matchTemplate ts rest { acc with parsed := ('"' :: w ++ ['"']) :: acc.parsed }
      else if tok = lit "*" then
        .ok (some ({ acc with parsed := join args :: acc.parsed }, []))
      else if tok ≠ w then .ok none
      else matchTemplate ts rest { acc with parsed := w :: acc.parsed }

/-- `matchCmd(prefix, words, l)`; descriptions are (index, prefix, template, ignore). -/
def matchCmd (pre : Str) (words : List Str) : List (Nat × List Str × Bool) → Res (Option Cmd)
  | [] => .ok none
  | (i, tmpl, ign) :: ds =>
    match matchTemplate tmpl words { parsed := [], name := [], seq := 0, ref := [] } with
    | .panic p => .panic p
    | .diag m => .diag m
    | .ok none => matchCmd pre words ds
    | .ok (some (acc, rest)) =>
      if rest ≠ [] then matchCmd pre words ds
      else if ign then .ok none
      else
        let ws := if pre ≠ [] then pre :: words else words
        let ps := if pre ≠ [] then pre :: acc.parsed.reverse else acc.parsed.reverse
        .ok (some { descr := i, orig := join ws, parsed := join ps, name := acc.name, seq := acc.seq,
                    ref := acc.ref.reverse, sub := [], app := false })

/-! ### lookupCmd and the line loop of ParseConfig -/

def indexed {α : Type} (l : List α) : List (Nat × α) := (List.range l.length).zip l

/-- `lookupCmd`: walk the words along the prefix tree; `pre` are the prefix words seen. -/
def lookupAux (ds : List (Nat × Descr)) : List Str → List Str → Res (Option Cmd)
  | _, [] => .ok none
  | pre, w :: rest =>
    let pre' := pre ++ [w]
    if ¬ ds.any (fun d => pre'.isPrefixOf (splitSp d.2.pre)) then .ok none
    else
      let l := ds.filter (fun d => splitSp d.2.pre = pre')
      if l ≠ [] then matchCmd (join pre') rest (l.map fun d => (d.1, d.2.template, d.2.ignore))
      else lookupAux ds pre' rest

def lookupCmd (ds : List Descr) (line : Str) : Res (Option Cmd) :=
  lookupAux (indexed ds) [] (splitSp line)

/-- `strings.IndexFunc(line, c != ' ')` (`none` = -1). -/
def getIndent : Str → Option Nat
  | [] => none
  | c :: cs => if c ≠ ' ' then some 0 else (getIndent cs).map (· + 1)

/-- State of the line loop. `cmds` = top-level commands so far, most recent first; `prev` says
whether the most recent one collects sub commands (`prev != nil`). -/
structure LoopSt where
  cmds : List Cmd
  prev : Bool
  isFirstSub : Bool
  indent : Nat
  firstSub : Str
  isAppend : Bool
  deriving Repr

def badIndent (first line : Str) : Str :=
  lit "Bad indentation in subcommands:\n>>" ++ first ++ lit "<<\n>>" ++ line ++ lit "<<"

def addSub (c : Cmd) (s : Cmd) : Cmd := { c with sub := c.sub ++ [s] }

/-- Indentation bookkeeping of a sub command line: the indentation to strip and the remembered
first sub command line.  The snapshot prints `prev.sub[0].parsed` in the error message. -/
def subIndent (fixed : Bool) (st : LoopSt) (pc : Cmd) (line : Str) : Res (Nat × Str) :=
  if st.isFirstSub then
    match getIndent line with
    | some k => .ok (k, line)
    | none => .panic (.slice "line[indent:]")      -- indent = -1
  else
    let bad := match getIndent line with
      | some k => decide (k < st.indent)
      | none => true
    if bad then
      if fixed then .diag (badIndent st.firstSub line)
      else match pc.sub with
        | s0 :: _ => .diag (badIndent (List.replicate st.indent ' ' ++ s0.parsed) line)
        | [] => .panic (.index "prev.sub[0]")
    else .ok (st.indent, st.firstSub)

/-- `line = line[indent:]`, `line[0] == ' '`, `strings.Fields`, `matchCmd` on the sub templates. -/
def subBody (ds : List Descr) (st : LoopSt) (pc : Cmd) (others : List Cmd) (line : Str)
    (indent : Nat) (firstSub : Str) : Res LoopSt :=
  if indent ≤ line.length then
    match line.drop indent with
    | [] => .panic (.index "line[0]")
    | d :: body =>
      let st' := { st with isFirstSub := false, indent := indent, firstSub := firstSub }
      if d = ' ' then .ok st'
      else
        let descr := (ds.getD pc.descr { pre := [], template := [], ignore := false }).sub
        (matchCmd [] (fields (d :: body))
            ((indexed descr).map fun x => (x.1, x.2.1, x.2.2))).bind fun oc =>
          match oc with
          | none => .ok st'
          | some sc => .ok { st' with cmds := addSub pc { sc with app := st.isAppend } :: others }
  else .panic (.slice "line[indent:]")

/-- One iteration of the `for len(data) > 0` loop of `ParseConfig`, after `bytes.Cut`. -/
def parseLine (fixed : Bool) (ds : List Descr) (isRaw : Bool) (st : LoopSt) (raw : Str) : Res LoopSt :=
  let line := trimRight raw
  match line with
  | [] => .ok st
  | c0 :: _ =>
    if c0 = '!' then .ok st
    else if line = lit "[APPEND]" then .ok { st with isAppend := true }
    else if c0 ≠ ' ' then
      (lookupCmd ds line).bind fun oc =>
        match oc with
        | none =>
          if isRaw then .diag (lit "Unexpected command:\n>>" ++ line ++ lit "<<")
          else .ok { st with prev := false, isFirstSub := true }
        | some c => .ok { st with cmds := { c with app := st.isAppend } :: st.cmds, prev := true, isFirstSub := true }
    else if ¬ st.prev then .ok st
    else
      match st.cmds with
      | [] => .ok st      -- unreachable: prev = true only after a push
      | pc :: others =>
        (subIndent fixed st pc line).bind fun (indent, firstSub) =>
          subBody ds st pc others line indent firstSub

/-- The whole loop. -/
def parseLines (fixed : Bool) (ds : List Descr) (isRaw : Bool) : LoopSt → List Str → Res LoopSt
  | st, [] => .ok st
  | st, l :: ls => (parseLine fixed ds isRaw st l).bind fun st' => parseLines fixed ds isRaw st' ls

def initSt : LoopSt :=
  { cmds := [], prev := false, isFirstSub := false, indent := 1, firstSub := [], isAppend := false }

/-- `ParseConfig` up to `postprocessParsed`: the top-level commands in file order. -/
def parseConfig (fixed : Bool) (ds : List Descr) (isRaw : Bool) (data : Str) : Res (List Cmd) :=
  (parseLines fixed ds isRaw initSt (splitLines data)).bind fun st => .ok st.cmds.reverse

/-! ### postprocessParsed: aaa-server, transform-set, metric -/

/-- The body of the `for _, c := range l[1:]` loop of the aaa-server part: returns the new
`parsed` (`none`: line unchanged, it is not a `host` line).  The snapshot splits at single
spaces, the fixed code at white space. -/
def aaaHost (fixed : Bool) (orig parsed : Str) : Res (Option Str) :=
  let words := if fixed then fields parsed else splitSp parsed
  match words with
  | w0 :: w1 :: w2 :: rest =>
    match w2 with
    | [] => .panic (.index "words[2][0]")
    | c :: _ =>
      -- copy(words[2:], words[3:]) : shift left, the last word stays twice
      let ws : List Str :=
        if c = '(' then
          match rest with
          | [] => [w2]
          | _ => rest ++ [rest.getLast?.getD []]
        else w2 :: rest
      match ws with
      | h :: tl =>
        if h = lit "host" then
          match tl with
          | [] => failAt fixed (.index "words[3]") (incomplete orig)
          | _ :: _ => .ok (some (join [w0, w1, lit "host", lit "x"]))
        else .ok none
      | [] => .panic (.index "words[2]")
  | _ => .panic (.index "words[2]")

/-- `c.sub[0].ref[0]` under `if len(c.sub) != 0`. -/
def subRef (c : Cmd) : Res Str :=
  match c.sub with
  | [] => .ok []
  | s0 :: _ =>
    match s0.ref with
    | r :: _ => .ok r
    | [] => .panic (.index "c.sub[0].ref[0]")

/-- the loop `for _, c := range l[1:]` of the aaa-server part; `ldapMap` starts as " ". -/
def aaaRest (fixed : Bool) (name : Str) : Str → List Cmd → Res (List Cmd)
  | _, [] => .ok []
  | ldapMap, c :: cs =>
    (aaaHost fixed c.orig c.parsed).bind fun o =>
      match o with
      | none => (aaaRest fixed name ldapMap cs).bind fun r => .ok (c :: r)
      | some p =>
        (subRef c).bind fun ref =>
          if ldapMap ≠ lit " " ∧ ldapMap ≠ ref then
            .diag (lit "aaa-server " ++ name ++ lit " must not use different values in 'ldap-attribute-map'")
          else (aaaRest fixed name ref cs).bind fun r => .ok ({ c with parsed := p } :: r)

/-- the body of `for name, l := range lookup["aaa-server"]`: `l[0]`, `l[1:]`, `l[0:2]`. -/
def aaaGroup (fixed : Bool) (name : Str) (l : List Cmd) : Res (List Cmd) :=
  match l with
  | [] => .panic (.index "l[0]")
  | c0 :: rest =>
    if ¬ hasSuffix c0.parsed (lit "protocol ldap") then .ok l
    else if rest = [] then .ok l
    else (aaaRest fixed name (lit " ") rest).bind fun r => .ok (c0 :: r.take 1)

/-- `setTransRef` for one command whose `parsed` contains `cmdPart`: `names` is what follows
`cmdPart`.  `strings.Repeat("$REF ", len(nl)-1)` panics for a negative count. -/
def transRefs (fixed : Bool) (orig names : Str) : Res (List Str × Str) :=
  match fields names with
  | [] => .panic (.explicit "strings: negative Repeat count")
  | n :: ns =>
    -- guard added by the fix: only 11 referenced prefixes are registered in `c.typ.ref`
    if fixed ∧ 11 < (n :: ns).length then .diag (lit "Too many names (max. 11) in: " ++ orig)
    else .ok (n :: ns, join ((n :: ns).map fun _ => lit "$REF"))

/-- `stripMetric`: `if len(tokens) == 6 && tokens[2] != "vrf" { tokens[:5] }` (upstream 3341f0d: the IOS form
`ipv6 route vrf NAME destination next_hop` has six words without a metric). -/
def stripMetric (parsed : Str) : Res Str :=
  let tokens := splitSp parsed
  if tokens.length = 6 then
    match tokens[2]? with
    | none => .panic (.index "tokens[2]")
    | some t2 =>
      if t2 ≠ lit "vrf" then
        (if 5 ≤ tokens.length then .ok (join (tokens.take 5)) else .panic (.slice "tokens[:5]"))
      else .ok parsed
  else .ok parsed

/-! ### dstOfRoute, routeVRF (cisco/diff.go) -/

/-- What `dstOfRoute` reads: the words holding vrf, and either the prefix word (IPv6) or the
address and mask words (IPv4). -/
structure RouteWords where
  vrf : Str
  a : Str
  b : Str
  deriving Repr, DecidableEq

def containsChar (c : Char) (s : Str) : Bool := s.any (· = c)

def dstOfRoute (fixed : Bool) (isV6 : Bool) (orig parsed : Str) : Res RouteWords :=
  let l := splitSp parsed
  if isV6 then
    match l.find? (containsChar '/') with
    | none => failAt fixed (.index "l[i] (i = -1)") (lit "Missing IPv6 prefix in: " ++ orig)
    | some w =>
      let vrf := if 6 ≤ l.length ∧ l.getD 2 [] = lit "vrf" then l.getD 3 [] else []
      .ok { vrf := vrf, a := w, b := [] }
  else
    match l with
    | l0 :: _ :: l2 :: rest =>
      if l0 = lit "ip" ∧ l2 = lit "vrf" then
        match rest with
        | v :: x :: y :: _ => .ok { vrf := v, a := x, b := y }
        | [] => failAt fixed (.index "l[3]") (incomplete orig)
        | [_] => failAt fixed (.index "l[4]") (incomplete orig)
        | [_, _] => failAt fixed (.index "l[5]") (incomplete orig)
      else
        match rest with
        | y :: _ => .ok { vrf := [], a := l2, b := y }
        | [] => failAt fixed (.index "l[3]") (incomplete orig)
    | _ => failAt fixed (.index "l[2]") (incomplete orig)

/-- `routeVRF` of `alignVRFs`. -/
def routeVRF (fixed : Bool) (orig parsed : Str) : Res Str :=
  match fields parsed with
  | _ :: _ :: t2 :: rest =>
    if t2 = lit "vrf" then
      match rest with
      | v :: _ => .ok v
      | [] => failAt fixed (.index "tokens[3]") (incomplete orig)
    else .ok []
  | _ => .panic (.index "tokens[2]")

end NA.C20
