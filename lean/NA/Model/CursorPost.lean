import NA.Model.CursorRefs
/-!
C20 — `postprocessParsed` (cisco/parse.go) over the WHOLE lookup map, for the steps that change
references (`c.ref`) or the registered prefixes (`c.typ.ref`):
`postprocessASAACL` for every command under `access-list`, `postprocessIOSACL` for the sub commands of
the FIRST command of every name under `ip access-list extended`, the aaa-server step
(`aaaGroup`, rewrites `parsed`, drops commands), and the four `setTransRef` passes (`crypto map` /
`crypto dynamic-map` × `ikev1 transform-set` / `ikev2 ipsec-proposal`).  Not modelled here (they rewrite
`parsed` of commands that carry no transform-set and change no reference): the move of
`crypto map ""` to `crypto map interface`, `stripPFSDefault`, `stripMetric`, lower-casing.
-/
namespace NA.C20
open Res

/-- `strings.Cut(s, pat)` for a non-empty `pat`. -/
def cutStr (pat : Str) : Str → Option (Str × Str)
  | [] => none
  | c :: cs =>
    if pat.isPrefixOf (c :: cs) then some ([], (c :: cs).drop pat.length)
    else (cutStr pat cs).map fun r => (c :: r.1, r.2)

def postASA (tb : Tables) (c : Cmd) : Res Cmd :=
  (asaACL true tb c.orig c.parsed).bind fun o =>
    match o with
    | none => .ok c
    | some (p, refs) => .ok { c with parsed := p, ref := c.ref ++ refs }

def postIOSSub (tb : Tables) (sc : Cmd) : Res Cmd :=
  (iosACL true tb sc.orig sc.parsed).bind fun r =>
    .ok { sc with parsed := r.1, orig := r.2.1, ref := sc.ref ++ r.2.2 }

def mapRes {α β : Type} (f : α → Res β) : List α → Res (List β)
  | [] => .ok []
  | x :: xs => (f x).bind fun y => (mapRes f xs).bind fun ys => .ok (y :: ys)

/-- `acls[name][0].sub`: only the first command of the list. -/
def postIOSGroup (tb : Tables) : List Cmd → Res (List Cmd)
  | [] => .panic (.index "acls[name][0]")
  | c :: rest => (mapRes (postIOSSub tb) c.sub).bind fun subs => .ok ({ c with sub := subs } :: rest)

def ikev1Part : Str := lit " set ikev1 transform-set "
def ikev2Part : Str := lit " set ikev2 ipsec-proposal "

/-- one `setTransRef` pass on one command. -/
def transPass (part : Str) (c : Cmd) : Res Cmd :=
  match cutStr part c.parsed with
  | none => .ok c
  | some (d, names) =>
    (transRefs true c.orig names).bind fun r => .ok { c with ref := r.1, parsed := d ++ part ++ r.2 }

def postTrans (c : Cmd) : Res Cmd := (transPass ikev1Part c).bind (transPass ikev2Part)

/-- one entry `(prefix, name) ↦ commands` of the lookup map. -/
def postGroup (tb : Tables) (g : (Str × Str) × List Cmd) : Res ((Str × Str) × List Cmd) :=
  if g.1.1 = lit "access-list" then (mapRes (postASA tb) g.2).bind fun l => .ok (g.1, l)
  else if g.1.1 = lit "ip access-list extended" then (postIOSGroup tb g.2).bind fun l => .ok (g.1, l)
  else if g.1.1 = lit "aaa-server" then (aaaGroup true g.1.2 g.2).bind fun l => .ok (g.1, l)
  else if g.1.1 = lit "crypto map" ∨ g.1.1 = lit "crypto dynamic-map" then
    (mapRes postTrans g.2).bind fun l => .ok (g.1, l)
  else .ok g

def postLookup (tb : Tables) (lk : Lookup) : Res Lookup := mapRes (postGroup tb) lk

end NA.C20
