import NA.Model.IosEngine
import NA.Model.Routes
/-!
# F2: the route commands of a script in the vocabulary of `NA.Route` (C14)

Executable: used by the proofs (NA/Proofs/F2RouteSteps.lean) and by the driver, which evaluates
`NA.Route.phaseA` / `NA.Route.phaseB` on the route commands of every script (`routeShape`).
-/
namespace NA.F2
open NA.Route (ROp phaseA phaseB)

/-- The route decision a printed command stands for. -/
def chgRouteOp : Chg → List MA
  | .route r => [.route r]
  | .noRoute r => [.noRoute r]
  | .replRoute o n => [.replRoute o n]
  | _ => []

/-- Numeric identity of a route line: VRF and destination as the parser reads them (`keyOf`), the
line itself as "hop"; all three as indices into the universe `U` of the lines involved. -/
def encRoute (keyOf : String → String × String) (U : List String) (t : String) : NA.Route.Route :=
  { vrf := (U.map fun u => (keyOf u).1).idxOf (keyOf t).1,
    dst := (U.map fun u => (keyOf u).2).idxOf (keyOf t).2,
    hop := U.idxOf t }

def encOp (keyOf : String → String × String) (U : List String) : MA → ROp
  | .route r => .add (encRoute keyOf U r)
  | .replRoute o n => .repl (encRoute keyOf U o) (encRoute keyOf U n)
  | .noRoute r => .del (encRoute keyOf U r)
  | _ => .del (encRoute keyOf U "")

/-- (VRF, destination) of a route line, looked up in the parsed routes `refs`. -/
def keyOfRefs (refs : List Route) (t : String) : String × String :=
  ((refs.find? fun r => r.text == t).map Route.key).getD ("", "")

/-- Equal route lines of the two sides have equal parsed attributes (always so for parsed
configurations): `keyOfRefs` agrees with every route. -/
def routeKeysOK (a b : Config) : Bool :=
  (a.routes ++ b.routes).all fun r => keyOfRefs (a.routes ++ b.routes) r.text == r.key

def isNoRoute : MA → Bool
  | .noRoute _ => true
  | _ => false

/-- The route commands of `script` have the shape of `NA.Route.routes_covered`: a first phase of
additions and same-destination replacements, then removals of lines that are not target routes. -/
def routeShape (a b : Config) (script : List Chg) : Bool :=
  let ops := script.flatMap chgRouteOp
  let pa := ops.takeWhile fun o => !isNoRoute o
  let pb := ops.dropWhile fun o => !isNoRoute o
  let U := a.routes.map (·.text) ++ b.routes.map (·.text)
  let keyOf := keyOfRefs (a.routes ++ b.routes)
  phaseA (pa.map (encOp keyOf U)) && phaseB ((b.routes.map (·.text)).map (encRoute keyOf U)) (pb.map (encOp keyOf U))

end NA.F2
