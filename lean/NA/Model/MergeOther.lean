import NA.Model.MergeCisco
/-
Ports of the merge code of the three other backends (round 3 follow-up of C18), on the structures
their parsers produce (what the hooks `linux/panos/nsx.VerifC18Dump` show):

* `L`  linux: `parseIPTables` (table / chain / rule assembly with the `[APPEND]` mark) and `MergeSpoc`,
* `P`  panos: `checkRaw`, `MergeSpoc` with `processVsysPairs` (matching of vsys by name through a map,
       device names, objects, rules with `<APPEND/>`),
* `N`  nsx:   `checkRaw`, `MergeSpoc`.

`Gen.old` is the code as found, `Gen.new` the code after the `fix:` commits.  Core Lean only; executable.
-/
namespace NA.C18

inductive Gen2 | old | new
  deriving DecidableEq, Repr, Inhabited

/-! ## Linux -/
namespace L

structure Rule where
  text   : String
  target : String := ""      -- `pairs["-j"]`
  app    : Bool := false
  deriving DecidableEq, Repr, Inhabited

structure Chain where
  table  : String
  name   : String
  policy : String
  rules  : List Rule := []
  deriving DecidableEq, Repr, Inhabited

structure Conf where
  routes : List String := []
  tables : List String := []
  chains : List Chain := []
  deriving DecidableEq, Repr, Inhabited

inductive Err
  | redefChain (table chain : String)   -- "Must not redefine chain … from rawdata"
  | dupTable (table : String)           -- "Duplicate definition of table" (repaired code)
  | dupChain (chain : String)           -- "Duplicate definition of chain" (repaired code)
  | noPolicy (chain : String)           -- "Must define policy before adding rules of chain"
  | outside                             -- "Found rule / chain policy outside of table"
  | unknownCmd                          -- "Unknown command" / "Unsupported command"
  deriving DecidableEq, Repr, Inhabited

/-- A line of an iptables-save file as `parseIPTables` classifies it by its first character. -/
inductive Line
  | table (name : String)
  | chain (name policy : String)
  | chainShort                 -- ":NAME" without policy: ignored
  | rule (chain text target : String)
  | append
  | commit
  | other
  deriving DecidableEq, Repr, Inhabited

structure PSt where
  tables : List String := []
  chains : List Chain := []
  cur    : Option String := none
  app    : Bool := false
  deriving DecidableEq, Repr, Inhabited

def sameChain (t n : String) (c : Chain) : Bool := c.table == t && c.name == n

/-- One line.  Code as found: a repeated `*TABLE` replaces the table (`tb[name] = cMap`), a repeated
`:CHAIN` replaces the chain. -/
def parseStep (g : Gen2) (st : PSt) : Line → Except Err PSt
  | .table n =>
    if st.tables.contains n then
      match g with
      | .new => .error (.dupTable n)
      | .old => .ok { st with chains := st.chains.filter (fun c => c.table != n), cur := some n, app := false }
    else .ok { st with tables := st.tables ++ [n], cur := some n, app := false }
  | .chain n p =>
    match st.cur with
    | none => .error .outside
    | some t =>
      if st.chains.any (sameChain t n) then
        match g with
        | .new => .error (.dupChain n)
        | .old => .ok { st with chains := st.chains.filter (fun c => !sameChain t n c) ++ [{ table := t, name := n, policy := p }] }
      else .ok { st with chains := st.chains ++ [{ table := t, name := n, policy := p }] }
  | .chainShort =>
    match st.cur with
    | none => .error .outside
    | some _ => .ok st
  | .rule c text target =>
    match st.cur with
    | none => .error .outside
    | some t =>
      if st.chains.any (sameChain t c) then
        .ok { st with chains := st.chains.map (fun ch =>
          if sameChain t c ch then { ch with rules := ch.rules ++ [{ text, target, app := st.app }] } else ch) }
      else .error (.noPolicy c)
  | .append => .ok { st with app := true }
  | .commit => .ok st
  | .other => .error .unknownCmd

def foldX {σ β ε : Type} (f : σ → β → Except ε σ) : σ → List β → Except ε σ
  | s, [] => .ok s
  | s, x :: xs => match f s x with
    | .ok s' => foldX f s' xs
    | .error e => .error e

/-- `parseIPTables`. -/
def parseLines (g : Gen2) (lines : List Line) : Except Err PSt := foldX (parseStep g) {} lines

def ruleKind (r : Rule) : Kind := if r.target == "DROP" then .deny else .other

/-- Rules of a builtin chain: `Merge.mergeLinux` on position tags. -/
def mergeRules (a b : List Rule) : List Rule := G.mergeVia mergeLinux ruleKind (·.app) a b

def chainStep (a0tables : List String) (acc : Conf) (cb : Chain) : Except Err Conf :=
  if !a0tables.contains cb.table then
    -- "Adding all chains of table": the table is new, its chains are taken as they are
    .ok { acc with tables := if acc.tables.contains cb.table then acc.tables else acc.tables ++ [cb.table],
                   chains := acc.chains ++ [cb] }
  else match acc.chains.find? (sameChain cb.table cb.name) with
    | none => .ok { acc with chains := acc.chains ++ [cb] }     -- "Adding chain"
    | some ca =>
      if ca.policy == "-" || ca.policy == "" then .error (.redefChain cb.table cb.name)
      else .ok { acc with chains := acc.chains.map (fun c =>
        if sameChain cb.table cb.name c then { c with rules := mergeRules c.rules cb.rules } else c) }

def chainLe (x y : Chain) : Bool := x.table < y.table || (x.table == y.table && x.name ≤ y.name)

def insertChain (c : Chain) : List Chain → List Chain
  | [] => [c]
  | x :: xs => if chainLe c x then c :: x :: xs else x :: insertChain c xs

/-- Tables sorted, chains of a table sorted (`slices.Sorted(maps.Keys(…))`). -/
def sortChains (l : List Chain) : List Chain := l.foldr insertChain []

/-- `linux.MergeSpoc`: the chains of `b` are visited table by table and chain by chain in sorted order. -/
def mergeConf (a b : Conf) : Except Err Conf :=
  let newTables := b.tables.filter (fun t => !a.tables.contains t)
  foldX (chainStep a.tables) { a with routes := a.routes ++ b.routes, tables := a.tables ++ newTables }
    (sortChains b.chains)

def toConf (routes : List String) (st : PSt) : Conf := { routes, tables := st.tables, chains := st.chains }

end L

/-! ## PAN-OS -/
namespace P

structure Rule where
  name : String
  app  : Bool := false
  deriving DecidableEq, Repr, Inhabited

structure Obj where
  name : String
  val  : String := ""
  deriving DecidableEq, Repr, Inhabited

structure Vsys where
  name          : String
  rules         : List Rule := []
  addresses     : List Obj := []
  addressGroups : List Obj := []
  services      : List Obj := []
  serviceGroups : List Obj := []
  deriving DecidableEq, Repr, Inhabited

structure Conf where
  hasEntry : Bool := false     -- `Devices != nil && len(Devices.Entries) > 0`
  devName  : String := ""
  vsys     : List Vsys := []
  deriving DecidableEq, Repr, Inhabited

inductive Err
  | reservedName (rule : String)             -- "Must not use rule name starting with 'r<NUM>'"
  | devName (n1 n2 : String)                 -- "Different names in <device> of XML"
  | clash (typ name vsys : String)           -- "Name clash for … in vsys …" (repaired code)
  deriving DecidableEq, Repr, Inhabited

def isDigit (c : Char) : Bool := '0' ≤ c && c ≤ '9'

/-- `^r\d`. -/
def reserved (name : String) : Bool :=
  match name.toList with
  | 'r' :: d :: _ => isDigit d
  | _ => false

/-- `checkRaw` (all device entries are checked; the model sees the first). -/
def checkRaw (c : Conf) : Option Err :=
  (c.vsys.flatMap (·.rules)).findSome? (fun r => if reserved r.name then some (.reservedName r.name) else none)

/-- `m2[name]`: the last vsys with this name. -/
def lookupLast (l : List Vsys) (n : String) : Option Vsys := (l.filter (fun v => v.name == n)).getLast?

def clashIn (typ vn : String) (l1 l2 : List Obj) : Option Err :=
  l2.findSome? (fun o2 => if l1.any (fun o1 => o1.name == o2.name && o1.val != o2.val) then some (.clash typ o2.name vn) else none)

/-- `checkNameClash` (repaired code). -/
def checkNameClash (v1 v2 : Vsys) : Option Err :=
  (clashIn "address" v2.name v1.addresses v2.addresses).orElse fun _ =>
  (clashIn "address-group" v2.name v1.addressGroups v2.addressGroups).orElse fun _ =>
  (clashIn "service" v2.name v1.services v2.services).orElse fun _ =>
  clashIn "service-group" v2.name v1.serviceGroups v2.serviceGroups

def clearApp (r : Rule) : Rule := { r with app := false }

/-- The callback of `MergeSpoc` for a pair of vsys (`v2 != nil`). -/
def mergeVsys (g : Gen2) (v1 v2 : Vsys) : Except Err Vsys :=
  match (if g == .new then checkNameClash v1 v2 else none) with
  | some e => .error e
  | none => .ok { v1 with
      addresses := v1.addresses ++ v2.addresses
      addressGroups := v1.addressGroups ++ v2.addressGroups
      services := v1.services ++ v2.services
      serviceGroups := v1.serviceGroups ++ v2.serviceGroups
      rules := (v2.rules.filter (fun r => !r.app)) ++ v1.rules ++ (v2.rules.filter (·.app)).map clearApp }

def mapE {α β ε : Type} (f : α → Except ε β) : List α → Except ε (List β)
  | [] => .ok []
  | x :: xs => match f x with
    | .error e => .error e
    | .ok y => match mapE f xs with
      | .error e => .error e
      | .ok ys => .ok (y :: ys)

/-- `MergeSpoc` with `processVsysPairs`. -/
def mergeSpoc (g : Gen2) (p1 p2 : Conf) : Except Err Conf :=
  let n1 := if p1.hasEntry then p1.devName else ""
  let n2 := if p2.hasEntry then p2.devName else ""
  let vs1 := if p1.hasEntry then p1.vsys else []
  let vs2 := if p2.hasEntry then p2.vsys else []
  if n1 != "" && n2 != "" && n1 != n2 then
    match g with
    | .new => .error (.devName n1 n2)
    | .old => .ok p1            -- the error of processVsysPairs was ignored: nothing is merged
  else
    -- vsys of p1, each with the LAST vsys of p2 that has its name
    match mapE (fun v1 => match lookupLast vs2 v1.name with
        | some v2 => mergeVsys g v1 v2
        | none => .ok v1) vs1 with
    | .error e => .error e
    | .ok merged =>
      -- vsys of p2 whose name p1 does not have: merged into an empty vsys
      match mapE (fun v2 => mergeVsys g { name := v2.name } v2) (vs2.filter (fun v2 => !vs1.any (fun v1 => v1.name == v2.name))) with
      | .error e => .error e
      | .ok added =>
        if p1.hasEntry then .ok { p1 with vsys := merged ++ added }
        else if added.isEmpty then .ok p1
        else .ok { hasEntry := true, devName := "", vsys := added }

end P

/-! ## NSX -/
namespace N

structure Policy where
  id    : String
  rules : List String := []
  deriving DecidableEq, Repr, Inhabited

structure Conf where
  policies : List Policy := []
  groups   : List String := []
  services : List String := []
  deriving DecidableEq, Repr, Inhabited

inductive Err
  | reservedRule (id : String)        -- "Must not use rule name starting with 'r<NUM>'"
  | groupPrefix (id : String)         -- "Must only define group where name has prefix 'Netspoc'"
  | reservedGroup (id : String)       -- "Must not use group name starting with 'Netspoc-g<NUM>'"
  | servicePrefix (id : String)       -- "Must only define service where name has prefix 'Netspoc-raw'"
  deriving DecidableEq, Repr, Inhabited

def hasPrefix (s p : String) : Bool := G.isPrefixL p.toList s.toList

/-- `^Netspoc-g\d`. -/
def reservedGroup (id : String) : Bool :=
  hasPrefix id "Netspoc-g" && ((id.toList.drop 9).head?.map P.isDigit).getD false

/-- `checkRaw`. -/
def checkRaw (c : Conf) : Option Err :=
  ((c.policies.flatMap (·.rules)).findSome? (fun r => if P.reserved r then some (.reservedRule r) else none)).orElse fun _ =>
  (c.groups.findSome? (fun g =>
    if !hasPrefix g "Netspoc" then some (.groupPrefix g)
    else if reservedGroup g then some (.reservedGroup g) else none)).orElse fun _ =>
  c.services.findSome? (fun s => if !hasPrefix s "Netspoc-raw" then some (.servicePrefix s) else none)

/-- Append the rules to the first policy with this id, or add the policy. -/
def addPolicy : List Policy → Policy → List Policy
  | [], p2 => [p2]
  | p1 :: ps, p2 => if p2.id == p1.id then { p1 with rules := p1.rules ++ p2.rules } :: ps else p1 :: addPolicy ps p2

/-- `nsx.MergeSpoc`. -/
def mergeSpoc (n1 n2 : Conf) : Conf :=
  { policies := n2.policies.foldl addPolicy n1.policies
    groups := n1.groups ++ n2.groups
    services := n1.services ++ n2.services }

end N

end NA.C18
