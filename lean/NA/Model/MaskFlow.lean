import NA.Model.Mask
/-!
# Runs derived from the regenerated steps (property C17, round 3 follow-up)

`translate/sinks` emits, for every function, its steps in source order: writes to sinks and
transmissions to the device, each with the set of labelled values the written / sent value depends
on (`NA.Gen.Sinks.events`).  Here a run is *derived* from such a step list without writing down by
hand where a secret goes: what a sink receives at a step is an ARBITRARY function `F site` of the
values the step depends on — nothing else is assumed about the code.

Labels: `0` everything that is not a secret of the run (configuration, device output, the result of
a redaction step — that those are secret independent is what the masking theorems and the device
hypotheses say); `1` password, `2` API key, `3` session token, `4` session cookie.
-/
namespace NA.Mask

abbrev LEnv := Nat → Str

structure Step where
  isSink : Bool
  site : Nat
  deps : List Nat
  deriving Repr, DecidableEq

/-- The values a step may look at. -/
def restrictEnv (deps : List Nat) (env : LEnv) : LEnv := fun l => if deps.contains l then env l else []

/-- What the sinks receive, step by step. -/
def runSteps (F : Nat → LEnv → Str) (env : LEnv) : List Step → List (Nat × Str)
  | [] => []
  | s :: r =>
    if s.isSink then (s.site, F s.site (restrictEnv s.deps env)) :: runSteps F env r
    else runSteps F env r

/-- No sink step depends on a secret label. -/
def secretFree (steps : List Step) : Bool := steps.all fun s => !s.isSink || s.deps.all (· == 0)

/-- Sink steps that depend on a secret. -/
def secretSinks (steps : List Step) : List Nat :=
  (steps.filter fun s => s.isSink && !s.deps.all (· == 0)).map (·.site)

end NA.Mask
