import NA.Spec.NsxStore
import NA.Model.NsxMyers
/-
Executable model of the NSX planner of /repo (`go/pkg/nsx/diff.go`, `config.go`, the checks of
`parse.go`): what the code DOES, quirks included.  Core Lean only, total functions.

* `mergeSpoc`, `checkRaw`                       — `NsxConfig.MergeSpoc`, `checkRaw`
* `planServices`                                — `addNewServices` (+ the `needed` marks)
* `genUniqRules`, `genUniqGroups`, `freshId`     — `genUniqRuleNames`, `genUniqGroupNames`
* `cmpRules`, `sortRules`, `ruleEqual`           — `sortRules`, `rulesPair.Equal`
* `adaptGroup`, `findOnDevice`, `equalize`       — `adaptGroup`, `findGroupOnDevice`, `equalizeGroups`
* `stepItem`, `diffRules`, `createPolicy`, `plan`— `diffRules`, `diffPolicies`, `diffConfig`

The edit-script function (`myers.Diff`) is a parameter `diff`; the driver instantiates it with
the port `NA.Nsx.myers`, the theorems quantify over every `diff` that returns valid scripts.

Mirrored repairs in /repo (the model follows the repaired code):
* a3659de `checkRaw` rejects raw policies whose id lacks the prefix;
* f4446e1 `genUniq*Names` avoid the other names of the target (`renameIds`);
* 08ed954 `sortRules` breaks ties by the whole address lists (`groupCmp`);
* f403263 (C16) `findOnDevice` visits the device groups in ascending id order;
* e753b80 (C20) an empty address list sorts as "" (`firstAddr`);
* 45199d8 (C20) a target rule naming a managed group the target does not define aborts (`abort`);
* ef10b0b `equalizeGroups` PATCHes the whole list when all old addresses would be removed.
Sorting is a stable insertion sort (`isort`), as Go's `slices.SortFunc` for up to 12 elements.
-/
namespace NA.Nsx

/-! ### Parse-time checks and merging of the Netspoc files -/

/-- `^r\d` -/
def startsRDigit (s : String) : Bool :=
  match s.toList with
  | 'r' :: c :: _ => c.isDigit
  | _ => false

/-- `^Netspoc-g\d` -/
def startsNetspocGDigit (s : String) : Bool :=
  match cutPrefix "Netspoc-g" s with
  | some rest =>
    match rest.toList with
    | c :: _ => c.isDigit
    | [] => false
  | none => false

/-- `checkRaw`: the first complaint, or `none`. -/
def checkRaw (c : Config) : Option String :=
  match (c.policies.flatMap (·.rules)).find? (startsRDigit ·.id) with
  | some r => some s!"Must not use rule name starting with 'r<NUM>': {r.id}"
  | none =>
  match c.policies.find? (!hasPrefix netspoc ·.id) with
  | some p => some s!"Must only define policy where name has prefix 'Netspoc': {p.id}"
  | none =>
    let rec groups : List Group → Option String
      | [] => none
      | g :: rest =>
        if !hasPrefix netspoc g.id then
          some s!"Must only define group where name has prefix 'Netspoc': {g.id}"
        else if startsNetspocGDigit g.id then
          some s!"Must not use group name starting with 'Netspoc-g<NUM>': {g.id}"
        else groups rest
    match groups c.groups with
    | some e => some e
    | none =>
      match c.services.find? (!hasPrefix "Netspoc-raw" ·.id) with
      | some s => some s!"Must only define service where name has prefix 'Netspoc-raw': {s.id}"
      | none => none

/-- Append `rs` to the first policy named `id`; `none` if there is none. -/
def appendRulesFirst (ps : List Policy) (id : String) (rs : List Rule) : Option (List Policy) :=
  match ps with
  | [] => none
  | p :: rest =>
    if p.id == id then some ({ p with rules := p.rules ++ rs } :: rest)
    else (appendRulesFirst rest id rs).map (p :: ·)

/-- `NsxConfig.MergeSpoc`. -/
def mergeSpoc (n1 n2 : Config) : Config :=
  { groups := n1.groups ++ n2.groups
    services := n1.services ++ n2.services
    policies := n2.policies.foldl (fun ps p2 =>
      match appendRulesFirst ps p2.id p2.rules with
      | some ps' => ps'
      | none => ps ++ [p2]) n1.policies }

/-- `loadSpoc`: IPv4 file, IPv6 file, raw file.  `Except` carries the message of `checkRaw`. -/
def loadSpoc (v4 v6 raw : Config) : Except String Config :=
  match checkRaw raw with
  | some e => .error e
  | none => .ok (mergeSpoc (mergeSpoc v4 v6) raw)

/-! ### Services -/

/-- `addNewServices`: calls and the ids of device services marked `needed`; `seen` are the target
ids already handled (duplicates from the IPv4 and IPv6 files are skipped). -/
def planSvc (aS : List Service) : List Service → List String → List Call × List String
  | [], _ => ([], [])
  | sb :: rest, seen =>
    if seen.contains sb.id then planSvc aS rest seen
    else
      let (cs, needed) := planSvc aS rest (sb.id :: seen)
      match findService aS.reverse sb.id with
      | some sa => (if sa.defn == sb.defn then cs else .patchService sb.id sb.defn :: cs, sb.id :: needed)
      | none => (.putService sb.id sb.defn :: cs, needed)

def planServices (aS bS : List Service) : List Call × List String := planSvc aS bS []

/-! ### Unique names -/

/-- First `base-i`, i = 1, 2, …, that is not in `ids`.  The Go loop is unbounded; `ids.length+1`
candidates always suffice, `none` is reported by the driver as a model failure. -/
def freshId (ids : List String) (base : String) : Option String :=
  ((List.range (ids.length + 1)).map fun i => base ++ "-" ++ toString (i + 1)).find? (!ids.contains ·)

/-- The renaming loop shared by `genUniqRuleNames` and `genUniqGroupNames` (after the repair
"new name must also differ from the other names of b"): an id that exists on the device gets
the first `id-i` not in `used`; `used` starts as the device ids plus all ids of b and grows. -/
def renameIds (aIds : List String) : List String → List String → Option (List String)
  | [], _ => some []
  | id :: rest, used =>
    if aIds.contains id then
      match freshId used id with
      | some n => (renameIds aIds rest (n :: used)).map (n :: ·)
      | none => none
    else (renameIds aIds rest used).map (id :: ·)

/-- `genUniqRuleNames`. -/
def genUniqRules (aIds : List String) (b : List Rule) : Option (List Rule) :=
  (renameIds aIds (b.map (·.id)) (aIds ++ b.map (·.id))).map fun ids =>
    List.zipWith (fun (r : Rule) id => { r with id := id }) b ids

/-- `genUniqGroupNames`. -/
def genUniqGroups (aIds : List String) (b : List Group) : Option (List Group) :=
  (renameIds aIds (b.map (·.id)) (aIds ++ b.map (·.id))).map fun ids =>
    List.zipWith (fun (g : Group) id => { g with id := id }) b ids

/-! ### Sorting and comparing rules -/

def sortAddrs (l : List String) : List String := isort (fun a b => compare a b != .gt) l
def sortGroups (gs : List Group) : List Group := gs.map fun g => { g with addrs := sortAddrs g.addrs }

def firstAddr (g : Group) : String := g.addrs.headD ""

def boolCmp (a b : Bool) : Ordering := if a == b then .eq else if a then .lt else .gt

/-- `slices.Compare` on strings. -/
def cmpList : List String → List String → Ordering
  | [], [] => .eq
  | [], _ :: _ => .lt
  | _ :: _, [] => .gt
  | a :: as, b :: bs => (compare a b).then (cmpList as bs)

def elementCmp (gm : String → Option Group) (ei ej : String) : Ordering :=
  match gm ei, gm ej with
  | some gi, some gj => compare (firstAddr gi) (firstAddr gj)
  | some _, none => .lt
  | none, some _ => .gt
  | none, none => compare ei ej

/-- Tie-breaker (repair of the sort): two groups are compared by their whole address lists. -/
def groupCmp (gm : String → Option Group) (ei ej : String) : Ordering :=
  match gm ei, gm ej with
  | some gi, some gj => cmpList gi.addrs gj.addrs
  | _, _ => .eq

def cmpRules (gm : String → Option Group) (a b : Rule) : Ordering :=
  (compare a.attrs.direction b.attrs.direction).then <|
  (compare a.attrs.seq b.attrs.seq).then <|
  (compare a.attrs.action b.attrs.action).then <|
  (boolCmp a.attrs.logged b.attrs.logged).then <|
  (compare a.attrs.tag b.attrs.tag).then <|
  (boolCmp a.attrs.disabled b.attrs.disabled).then <|
  (boolCmp a.attrs.dstExcl b.attrs.dstExcl).then <|
  (boolCmp a.attrs.srcExcl b.attrs.srcExcl).then <|
  (compare a.attrs.svcEntries b.attrs.svcEntries).then <|
  (compare a.attrs.ipProto b.attrs.ipProto).then <|
  (cmpList a.attrs.profiles b.attrs.profiles).then <|
  (cmpList a.attrs.scope b.attrs.scope).then <|
  (compare a.service b.service).then <|
  (elementCmp gm a.src b.src).then <|
  (elementCmp gm a.dst b.dst).then <|
  (groupCmp gm a.src b.src).then (groupCmp gm a.dst b.dst)

/-- `sortRules` (stable; Go's `slices.SortFunc` is an insertion sort up to 12 elements). -/
def sortRules (gm : String → Option Group) (l : List Rule) : List Rule :=
  isort (fun a b => cmpRules gm a b != .gt) l

/-- `rulesPair.Equal`: any two known groups count as equal. -/
def ruleEqual (gma gmb : String → Option Group) (ra rb : Rule) : Bool :=
  let groupEq (a b : String) : Bool :=
    if (gma a).isNone || (gmb b).isNone then a == b else true
  ra.attrs == rb.attrs && ra.service == rb.service && groupEq ra.src rb.src && groupEq ra.dst rb.dst

/-! ### Planner state and context -/

structure PSt where
  /-- ids of device groups with `needed = true` -/
  needed : List String := []
  /-- `nameOnDevice` of the target groups, by their key in `ab.b.groups` -/
  nod : List (String × String) := []
  /-- set when the real code would abort (or the model ran out of fuel) -/
  abort : Option String := none
  deriving Repr, Inhabited

abbrev Diff := Nat → Nat → (Nat → Nat → Bool) → List Range

structure Ctx where
  diff : Diff
  pid : String := ""
  /-- loaded device groups (addresses sorted) -/
  aGroups : List Group
  /-- target groups after renaming, keyed by their original id, last definition first -/
  bmap : List (String × Group)

/-- `getGroup(s, ab.a.groups)` -/
def Ctx.gma (ctx : Ctx) (p : String) : Option Group :=
  match groupRef p with
  | some x => findGroupLast ctx.aGroups x
  | none => none

/-- `getGroup(s, ab.b.groups)` -/
def Ctx.gmb (ctx : Ctx) (p : String) : Option Group :=
  match groupRef p with
  | some x => ctx.bmap.lookup x
  | none => none

/-- `findGroupOnDevice`: the first un-needed device group, in ascending id order, whose address
list is identical. -/
def findOnDevice (aGroups : List Group) (needed : List String) (gb : Group) : Option Group :=
  (isort (fun a b => decide (a.id ≤ b.id)) aGroups).find? fun ga =>
    !needed.contains ga.id && ga.addrs == gb.addrs

def putGroupCall (gb : Group) : Call := .putGroup gb.id gb.exprId gb.rtype gb.addrs

/-- `adaptGroup`: new state, the entry to write into the rule, calls. -/
def adaptGroup (ctx : Ctx) (st : PSt) (p : String) : PSt × String × List Call :=
  match groupRef p with
  | none => (st, p, [])
  | some key =>
    match ctx.bmap.lookup key with
    | none => (st, p, [])
    | some gb =>
      match st.nod.lookup key with
      | some n => (st, groupPath n, [])
      | none =>
        match findOnDevice ctx.aGroups st.needed gb with
        | some ga =>
          ({ st with needed := ga.id :: st.needed, nod := (key, ga.id) :: st.nod }, groupPath ga.id, [])
        | none =>
          ({ st with nod := (key, gb.id) :: st.nod }, groupPath gb.id, [putGroupCall gb])

/-- Addresses to remove and to add according to an edit script (deletion tested first). -/
def addrDiff : List Range → List String → List String → List String × List String
  | [], _, _ => ([], [])
  | r :: rest, a, b =>
    let (rm, ad) := addrDiff rest a b
    if r.isDelete then ((a.drop r.lowA).take (r.highA - r.lowA) ++ rm, ad)
    else if r.isInsert then (rm, (b.drop r.lowB).take (r.highB - r.lowB) ++ ad)
    else (rm, ad)

/-- The calls that turn the address list of device group `ga` into that of `gb`
(the tail of `equalize`). -/
def groupCalls (diff : Diff) (ga gb : Group) : List Call :=
  let rs := diff ga.addrs.length gb.addrs.length fun i j => ga.addrs[i]! == gb.addrs[j]!
  let (toRemove, toAdd) := addrDiff rs ga.addrs gb.addrs
  let d := toRemove.length
  let i := toAdd.length
  let o := ga.addrs.length
  -- n < d  with  n = o - d + i;  or all old addresses would go (repair ef10b0b)
  if o + i < d + d || (d == o && 0 < d) then [.patchExpr ga.id ga.exprId gb.rtype gb.addrs]
  else
    (if toRemove.isEmpty then [] else [.postAddrs ga.id ga.exprId false toRemove]) ++
    (if toAdd.isEmpty then [] else [.postAddrs ga.id ga.exprId true toAdd])

/-- `equalize` of one side: new state, the entry of the device rule, "rule changed", calls. -/
def equalize (ctx : Ctx) (st : PSt) (la lb : String) : PSt × String × Bool × List Call :=
  match ctx.gma la with
  | none => (st, la, false, [])
  | some ga =>
    match groupRef lb with
    | none => ({ st with abort := some s!"group {lb} not defined in Netspoc config" }, la, false, [])
    | some key =>
      match ctx.bmap.lookup key with
      | none => ({ st with abort := some s!"group {lb} not defined in Netspoc config" }, la, false, [])
      | some gb =>
        let n := st.nod.lookup key
        if n == some ga.id then (st, la, false, [])
        else if st.needed.contains ga.id || n.isSome then
          match n with
          | some nm => (st, groupPath nm, true, [])
          | none => ({ st with nod := (key, gb.id) :: st.nod }, groupPath gb.id, true, [putGroupCall gb])
        else
          ({ st with needed := ga.id :: st.needed, nod := (key, ga.id) :: st.nod }, la, false,
            groupCalls ctx.diff ga gb)

inductive Item
  | del (ra : Rule)
  | ins (rb : Rule)
  | eq (ra rb : Rule)
  deriving Repr, Inhabited

def compactRule (r : Rule) : Rule := { r with attrs := compactAttrs r.attrs }

/-- Body of a rule call: `writeRule` blanks the id; marshalling compacts inline service entries. -/
def ruleBody (r : Rule) (src dst : String) : Rule := { compactRule r with id := "", src := src, dst := dst }

def stepItem (ctx : Ctx) (st : PSt) : Item → PSt × List Call
  | .del ra => (st, [.deleteRule ctx.pid ra.id])
  | .ins rb =>
    let (st1, src, c1) := adaptGroup ctx st rb.src
    let (st2, dst, c2) := adaptGroup ctx st1 rb.dst
    (st2, c1 ++ c2 ++ [.putRule ctx.pid rb.id (ruleBody rb src dst)])
  | .eq ra rb =>
    let (st1, src, ch1, c1) := equalize ctx st ra.src rb.src
    let (st2, dst, ch2, c2) := equalize ctx st1 ra.dst rb.dst
    (st2, c1 ++ c2 ++ if ch1 || ch2 then [.patchRule ctx.pid ra.id (ruleBody ra src dst)] else [])

def stepItems (ctx : Ctx) (st : PSt) : List Item → PSt × List Call
  | [] => (st, [])
  | it :: rest =>
    let (st1, c1) := stepItem ctx st it
    let (st2, c2) := stepItems ctx st1 rest
    (st2, c1 ++ c2)

/-- The loop of `diffRules` over the ranges: deletion, insertion, else pairs. -/
def itemsOf (rs : List Range) (a b : List Rule) : List Item :=
  rs.flatMap fun r =>
    if r.isDelete then ((a.drop r.lowA).take (r.highA - r.lowA)).map .del
    else if r.isInsert then ((b.drop r.lowB).take (r.highB - r.lowB)).map .ins
    else (((a.drop r.lowA).take (r.highA - r.lowA)).zip (b.drop r.lowB)).map fun (x, y) => .eq x y

/-- `diffPolicies` for a policy present on both sides. -/
def diffRules (ctx : Ctx) (st : PSt) (a : Policy) (b : Policy) : PSt × List Call :=
  match genUniqRules (a.rules.map (·.id)) b.rules with
  | none => ({ st with abort := some "model: no fresh rule id" }, [])
  | some bR =>
    let aS := sortRules ctx.gma a.rules
    let bS := sortRules ctx.gmb bR
    let rs := ctx.diff aS.length bS.length fun i j => ruleEqual ctx.gma ctx.gmb aS[i]! bS[j]!
    stepItems { ctx with pid := a.id } st (itemsOf rs aS bS)

/-- The loop of `createPolicy`: adapt source and destination of every rule. -/
def adaptRules (ctx : Ctx) : PSt → List Rule → PSt × List Call × List Rule
  | st, [] => (st, [], [])
  | st, r :: rest =>
    let (st1, src, c1) := adaptGroup ctx st r.src
    let (st2, dst, c2) := adaptGroup ctx st1 r.dst
    let (st3, cs, rs) := adaptRules ctx st2 rest
    (st3, c1 ++ c2 ++ cs, { compactRule r with src := src, dst := dst } :: rs)

/-- `createPolicy`: adapt every rule, then PUT the whole policy. -/
def createPolicy (ctx : Ctx) (st : PSt) (b : Policy) : PSt × List Call :=
  let (st', calls, rules) := adaptRules ctx st b.rules
  (st', calls ++ [.putPolicy b.id rules])

def findPolicyLast (ps : List Policy) (id : String) : Option Policy := findPolicy ps.reverse id

structure Plan where
  calls : List Call := []
  abort : Option String := none
  /-- final planner state (for the distribution and the proofs) -/
  needed : List String := []
  nod : List (String × String) := []
  deriving Repr, Inhabited

/-- The loop of `diffConfig` over the device policies. -/
def overA (ctx : Ctx) (B : Config) : List Policy → PSt → PSt × List Call
  | [], st => (st, [])
  | p1 :: rest, st =>
    match findPolicyLast B.policies p1.id with
    | none =>
      let (st', c) := overA ctx B rest st
      (st', .deletePolicy p1.id :: c)
    | some p2 =>
      let (st1, c1) := diffRules ctx st p1 p2
      let (st2, c2) := overA ctx B rest st1
      (st2, c1 ++ c2)

/-- The loop of `diffConfig` over the target policies the device does not have. -/
def overB (ctx : Ctx) (A : Config) : List Policy → PSt → PSt × List Call
  | [], st => (st, [])
  | p2 :: rest, st =>
    if A.policies.any (·.id == p2.id) then overB ctx A rest st
    else
      let (st1, c1) := createPolicy ctx st p2
      let (st2, c2) := overB ctx A rest st1
      (st2, c1 ++ c2)

/-- The context `diffConfig` works in: device groups with sorted addresses, target groups after
`genUniqGroupNames` keyed by their original ids (last definition first). -/
def mkCtx (diff : Diff) (A B : Config) : Option Ctx :=
  let aG := sortGroups A.groups
  let bG0 := sortGroups B.groups
  (genUniqGroups (aG.map (·.id)) bG0).map fun bG =>
    { diff := diff, aGroups := aG, bmap := ((bG0.map (·.id)).zip bG).reverse }

/-- `diffConfig a b` on the loaded device configuration and the merged Netspoc configuration. -/
def plan (diff : Diff) (A B : Config) : Plan :=
  let (svcCalls, neededSvc) := planServices A.services B.services
  match mkCtx diff A B with
  | none => { abort := some "model: no fresh group id" }
  | some ctx =>
    let (st1, c1) := overA ctx B A.policies {}
    let (st2, c2) := overB ctx A B.policies st1
    let delS := (A.services.filter (!neededSvc.contains ·.id)).map (Call.deleteService ·.id)
    let delG := (A.groups.filter (!st2.needed.contains ·.id)).map (Call.deleteGroup ·.id)
    { calls := svcCalls ++ c1 ++ c2 ++ delS ++ delG, abort := st2.abort, needed := st2.needed, nod := st2.nod }

end NA.Nsx
