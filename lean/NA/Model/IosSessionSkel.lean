/-!
# The call skeleton of the IOS apply path that the Lean model `NA/Model/IosSession.lean` mirrors

Hand-written; `NA/Props/C15Skel.lean` proves it equal to the skeleton that `translate/iosskel`
regenerates from `go/pkg/ios/device.go` on every check (T-gen).  Token ↔ model:

* `ApplyCommands`: `s.prepareDevice()` = `prepareDevice`; `func() {` … `}()` = `guarded`:
  `s.scheduleReload()` **before** `defer s.cancelReload()` (the gap F-C15c), `SendCmd("configure terminal")`,
  `defer SendCmd("end")`, `range s.Changes { s.cmd(chg) }` = `guardedBody`/`changeLoop` inside two `finally_`;
  `s.writeMem()` after the closure = last `bindM` of `applyCommands` (skipped when the closure panics).
* `cmd`: `Send`, closure `check` = `check` (`GetOutput`, `stripReloadBanner`, `StripEcho`, `isValidOutput`/Abort =
  `checkOutput`), **`needReload = needReload || need`** = `cmd … fixed := true`, `check(c1)`, `if c2 != ""`, `if needReload`.
* `sendReloadCmd`, `cancelReload`, `writeMem` (loop = `writeMem : Nat → …` on the retry counter),
  `stripReloadBanner` (two probes = `stripProbe`), `prepareDevice` (`prepCmds`).
-/
namespace NA.Ios

def declaredSkel : List (String × List String) := [
  ("ApplyCommands", [
    "s.Conn.SetLogFH(logFh)",
    "s.prepareDevice()",
    "func() {",
    "s.scheduleReload()",
    "defer s.cancelReload()",
    "s.Conn.SendCmd(\"configure terminal\")",
    "defer s.Conn.SendCmd(\"end\")",
    "range s.Changes {",
    "s.cmd(chg)",
    "}",
    "}()",
    "s.writeMem()",
    "return nil"
  ]),
  ("cmd", [
    "c1, c2, _ := strings.Cut(cmd, \"\\n\")",
    "s.Conn.Send(cmd)",
    "needReload := false",
    "check := func(ci) {",
    "out := s.Conn.GetOutput()",
    "out, need := s.stripReloadBanner(out)",
    "needReload = needReload || need",
    "out = s.Conn.StripEcho(ci, out)",
    "if out != \"\" {",
    "if !isValidOutput(ci, out) {",
    "errlog.Abort(\"Got unexpected output from '%s':\\n%s\", ci, out)",
    "}",
    "}",
    "}",
    "check(c1)",
    "if c2 != \"\" {",
    "check(c2)",
    "}",
    "if needReload {",
    "s.extendReload()",
    "}"
  ]),
  ("scheduleReload", [
    "s.sendReloadCmd(false)"
  ]),
  ("extendReload", [
    "s.sendReloadCmd(true)"
  ]),
  ("sendReloadCmd", [
    "cmd := fmt.Sprintf(\"reload in %d\", reloadMinutes)",
    "if withDo {",
    "}",
    "out := s.Conn.IssueCmd(cmd, `\\[yes\\/no\\]:\\ |\\[confirm\\]`)",
    "if strings.Contains(out, \"[yes/no]\") {",
    "s.Conn.IssueCmd(\"n\", `\\[confirm\\]`)",
    "}",
    "s.reloadActive = true",
    "s.Conn.SendCmd(\"\")"
  ]),
  ("cancelReload", [
    "s.Conn.IssueCmd(\"reload cancel\", `--- SHUTDOWN ABORTED ---`)",
    "s.Conn.WaitShort(`[#] ?$`)",
    "s.Conn.SendCmd(\"\")",
    "s.reloadActive = false"
  ]),
  ("writeMem", [
    "for {",
    "out := s.Conn.IssueCmd(\"write memory\", `#[ ]?|\\[confirm\\]`)",
    "if strings.Contains(out, \"Overwrite the previous NVRAM configuration\") {",
    "out = s.Conn.GetCmdOutput(\"\")",
    "}",
    "if strings.Contains(out, \"[OK]\") {",
    "return",
    "}",
    "if strings.Contains(out, \"startup-config file open failed\") {",
    "if retries > 0 {",
    "time.Sleep(3 * time.Second)",
    "continue",
    "}",
    "errlog.Abort(\"write mem: startup-config open failed - giving up\")",
    "}",
    "errlog.Abort(\"write mem: unexpected result: %s\", out)",
    "}"
  ]),
  ("stripReloadBanner", [
    "if s.reloadActive {",
    "l := bannerRe.FindStringSubmatchIndex(out)",
    "if l != nil {",
    "if strings.TrimSpace(prefix+postfix) == \"\" {",
    "errlog.Info(\"Found banner before output, expecting another prompt\")",
    "out = s.Conn.WaitShort(`[#] ?$`)",
    "out = s.Conn.StripStdPrompt(out)",
    "} else {",
    "if prefix != \"\" && strings.TrimSpace(postfix) == \"\" {",
    "errlog.Info(\"Found banner after output, checking another prompt\")",
    "if s.Conn.TryPrompt() {",
    "errlog.Info(\"- Found prompt\")",
    "}",
    "}",
    "}",
    "matched, _ := regexp.MatchString(`SHUTDOWN in 0?0:01:00`, msg)",
    "return out, matched",
    "}",
    "}",
    "return out, false"
  ]),
  ("prepareDevice", [
    "s.Conn.SendCmd(\"configure terminal\")",
    "s.Conn.SendCmd(\"no logging console\")",
    "s.Conn.SendCmd(\"line vty 0 15\")",
    "s.Conn.SendCmd(\"logging synchronous level all\")",
    "s.Conn.SendCmd(\"ip subnet-zero\")",
    "s.Conn.SendCmd(\"ip classless\")",
    "s.Conn.SendCmd(\"end\")"
  ])
]


end NA.Ios
