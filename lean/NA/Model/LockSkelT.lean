/-!
# C12 — vocabulary shared by the regenerated skeleton (`NA/Gen/LockSkel.lean`) and the model

* `Site` — one call site / assignment / return as written by `translate/lockskel` (raw, unfiltered).
* `Step` — the abstract steps of a front-end process (`NA/Model/Lock.lean` gives them semantics).
* `classify` / `stepsOf` — the abstraction from raw sites to steps.  It is deliberately closed:
  a call that is neither in the list of harmless calls nor a known effect becomes `Step.unknown`,
  which no lock discipline accepts, so that an added call shows up as a broken obligation.
Core Lean only; only string *equality* is used so that `decide` can evaluate everything.
-/
namespace NA.LockSkel

structure Site where
  fn : String
  args : List String
  lhs : List String
  ctx : List String
  deriving DecidableEq, Repr

inductive Step
  | readConfig            -- program.LoadConfig (reads ~/.netspoc-approve …)
  | errReturn             -- `if err != nil { return … }` guarding the fallible call before it
  | setLock               -- device.SetLock (un-expanded)
  | mkdirLock             -- os.Mkdir(basedir/lock)
  | openLock              -- os.OpenFile(basedir/lock/<base>, O_CREATE|O_RDONLY)
  | flock                 -- syscall.Flock(fd, LOCK_EX|LOCK_NB)
  | deferClose            -- `defer lockFH.Close()`: keeps the *os.File reachable until Main returns
  | closeLock             -- a non-deferred lockFH.Close(): releases the lock
  | histOpen              -- openHistoryLog: MkdirAll(history) + open O_APPEND|O_CREATE
  | hist (tag : String)   -- logHistory(hLog, tag, …)
  | session               -- device.ApproveOrCompare (un-expanded)
  | logOpen               -- errlog.SetStderrLog(logFile): rotate + create the log file
  | devBegin | devTalk | devEnd   -- the device session (login … commands … exit); session logs
  | status                -- status.SetCompare / status.SetApprove
  | printErr              -- abort(...): "Error: Approve in progress for …" on stderr
  | exit (code : Nat)
  | unknown (fn : String) -- anything the abstraction does not know
  deriving DecidableEq, Repr

/-- Steps that write history, status, log files or talk to the device. -/
def Step.protected : Step → Bool
  | .histOpen | .hist _ | .logOpen | .devBegin | .devTalk | .devEnd | .status => true
  | .session | .unknown _ => true
  | _ => false

/-- Steps whose only effect on the process record is to advance the program. -/
def Step.plain : Step → Bool
  | .flock | .closeLock | .deferClose | .exit _ => false
  | _ => true

/-- Calls (and pseudo calls) that write nothing a second run could observe and do not touch the
device: flag parsing, string and path functions, reads, messages on stdout/stderr. -/
def harmless : List String := [
  "pflag.NewFlagSet", "fs.BoolP", "fs.StringP", "fs.Parse", "fs.Usage", "fs.Args", "fs.Changed", "fs.NFlag",
  "fs.PrintDefaults", "fs.FlagUsages", "len", "string", "int", "path.Join", "path.Base", "filepath.Base",
  "filepath.EvalSymlinks", "fileExists", "strings.Join", "strings.Split", "strings.HasPrefix",
  "fmt.Printf", "fmt.Println", "fmt.Errorf", "os.ReadFile", "abort", "=", ":=", "+=", "fallthrough"]

/-- literal exit code of a top-level `return`; a computed one (the session's result) counts as 0 -/
def returnCode (args : List String) : Nat := if args = ["1"] then 1 else 0

/-- Abstraction of one site of a `Main` function (context already reduced to the selected path).
`none` = harmless, dropped. -/
def classify (s : Site) : Option Step :=
  if s.ctx.contains "funclit" then
    -- body of a closure (the usage printers): must be harmless
    if harmless.contains s.fn || (s.fn = "fmt.Fprintf" && s.args.head? = some "os.Stderr") || s.fn = "return"
    then none else some (.unknown s.fn)
  else if s.fn = "return" then
    if s.ctx.getLast? = some "if err != nil" then some .errReturn
    else if s.ctx = [] then some (.exit (returnCode s.args))
    else none   -- conditional early return (usage error, -v, unknown device): the process just ends
  else if s.fn = "program.LoadConfig" then some .readConfig
  else if s.fn = "device.SetLock" then some .setLock
  else if s.fn = "lockFH.Close" then
    (if s.ctx.getLast? = some "defer" then some .deferClose else some .closeLock)
  else if s.fn = "openHistoryLog" then some .histOpen
  else if s.fn = "logHistory" then some (.hist (s.args.getD 1 "?"))
  else if s.fn = "device.ApproveOrCompare" then some .session
  else if s.fn = "status.SetCompare" || s.fn = "status.SetApprove" then some .status
  else if s.fn = "fmt.Fprintf" then
    (if s.args.head? = some "os.Stderr" then none else some (.unknown s.fn))
  else if harmless.contains s.fn then none
  else some (.unknown s.fn)

/-- Keep the sites of one `case` of one `switch` (others are different modes of the program) and
drop the two context entries. -/
def selectCase (sw cs : String) (sites : List Site) : List Site :=
  sites.filterMap fun s =>
    if s.ctx.contains sw then
      (if s.ctx.contains cs then some { s with ctx := s.ctx.filter (fun c => c != sw && c != cs) } else none)
    else some s

def stepsOf (sites : List Site) : List Step := sites.filterMap classify

/-- In-lining of the two composite calls.  Justified by the pinned skeletons of `device.SetLock`
(`setlock_skeleton`) and `device.ApproveOrCompare` (`approveOrCompare_skeleton`) in Props/C12. -/
def expand : List Step → List Step
  | [] => []
  | .setLock :: rest => .mkdirLock :: .openLock :: .flock :: expand rest
  | .session :: rest => .logOpen :: .devBegin :: .devTalk :: .devEnd :: expand rest
  | s :: rest => s :: expand rest

end NA.LockSkel
