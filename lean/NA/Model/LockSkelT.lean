/-!
# C12 — vocabulary shared by the regenerated skeleton (`NA/Gen/LockSkel.lean`) and the model

* `Site` — one call site / assignment / return as written by `translate/lockskel` (raw, unfiltered).
* `Step` — the abstract steps of a front-end process (`NA/Model/Lock.lean` gives them semantics).
* `classify` / `stepsOf` — the abstraction from raw sites to steps.  It is deliberately closed:
  a call that is neither in the list of harmless calls nor a known effect becomes `Step.unknown`,
  which no lock discipline accepts, so that an added call shows up as a broken obligation.
Core Lean only; only string *equality* is used so that `decide` can evaluate everything.
-/
namespace NA.LockSkel

structure Site where
  fn : String
  args : List String
  lhs : List String
  ctx : List String
  /-- writer functions (and the sink API itself, if this call is one) reachable from the callees of
  this call in the VTA call graph; `[]` = nothing below this call writes a file, starts a process
  or talks to the device -/
  writers : List String
  deriving DecidableEq, Repr

/-- One call of a sink API (file creation / write / rename / removal, process start, pty or HTTP
dialogue, flock) in a module function reachable from `main`. -/
structure SinkSite where
  fn : String      -- enclosing module function
  owner : String   -- package or receiver type of the sink
  name : String
  arg0 : String    -- source text of the first argument
  /-- category: what the API does + where its target comes from, with no function, variable or
  constant NAME in it (`mkdir:basedir/status`, `write:param`, `pty-send`, …; translate/lockskel/graph.go) -/
  cat : String
  deriving DecidableEq, Repr

/-- A sink site that only prints to the terminal or into a local variable (`strings.Builder`). -/
def SinkSite.quiet (s : SinkSite) : Bool :=
  s.cat = "write:os.Stderr" || s.cat = "write:os.Stdout" || s.cat = "write:localvar"

inductive Step
  | readConfig            -- program.LoadConfig (reads ~/.netspoc-approve …)
  | errReturn             -- `if err != nil { return … }` guarding the fallible call before it
  | setLock               -- device.SetLock (un-expanded)
  | mkdirLock             -- os.Mkdir(basedir/lock)
  | openLock              -- os.OpenFile(basedir/lock/<base>, O_CREATE|O_RDONLY)
  | flock                 -- syscall.Flock(fd, LOCK_EX|LOCK_NB)
  | deferClose            -- `defer lockFH.Close()`: keeps the *os.File reachable until Main returns
  | closeLock             -- a non-deferred lockFH.Close(): releases the lock
  | histOpen              -- openHistoryLog: MkdirAll(history) + open O_APPEND|O_CREATE
  | hist (tag : String)   -- logHistory(hLog, tag, …)
  | session               -- device.ApproveOrCompare (un-expanded)
  | logOpen               -- errlog.SetStderrLog(logFile): rotate + create the log file
  | devBegin | devTalk | devEnd   -- the device session (login … commands … exit); session logs
  | status                -- status.SetCompare / status.SetApprove
  | printErr              -- abort(...): "Error: Approve in progress for …" on stderr
  | exit (code : Nat)
  | mayExit (code : Nat)  -- a conditional early `return` (usage error, -h, -v, unknown device, final status)
  | unknown (fn : String) -- anything the abstraction does not know
  deriving DecidableEq, Repr

/-- Steps that write history, status, log files or talk to the device. -/
def Step.protected : Step → Bool
  | .histOpen | .hist _ | .logOpen | .devBegin | .devTalk | .devEnd | .status => true
  | .session | .unknown _ => true
  | _ => false

/-- Steps whose only effect on the process record is to advance the program. -/
def Step.plain : Step → Bool
  | .flock | .closeLock | .deferClose | .exit _ | .mayExit _ => false
  | _ => true

/-- exit code of a `return`: a literal, or `abort(…)` which returns 1 (`abort_returns_1`); any other
computed one (the session's result) counts as 0 -/
def returnCode (args : List String) : Nat :=
  if args = ["1"] then 1
  else match args with
    | [a] => if a.toList.take 6 = ['a', 'b', 'o', 'r', 't', '('] then 1 else 0
    | _ => 0

/-- Abstraction of one site of a `Main` function.  `none` = dropped, which is allowed ONLY for a site
from which the call graph reaches no writer function (`writers = []`), for `return`s inside closures
and for the pseudo sites (assignments, `fallthrough`; they have no callee, hence no writers).
Names are used only to tell WHICH effect a call is; a call that reaches a writer and has no name
here becomes `unknown`, which no lock discipline accepts. -/
def classify (s : Site) : Option Step :=
  if s.fn = "return" then
    if s.ctx.contains "funclit" then none
    else if s.ctx.getLast? = some "if err != nil" then some .errReturn
    else if s.ctx = [] then some (.exit (returnCode s.args))
    else some (.mayExit (returnCode s.args))   -- conditional early return: a path of its own
  else if s.ctx.contains "funclit" || s.ctx.contains "go" then
    -- body of a closure / a goroutine: may run at another time, so it must reach no writer
    (if s.writers = [] then none else some (.unknown s.fn))
  else if s.fn = "lockFH.Close" then
    (if s.ctx.getLast? = some "defer" then some .deferClose else some .closeLock)
  else if s.ctx.contains "defer" then
    -- runs when Main returns; deferred calls run in reverse order, i.e. possibly after the Close
    (if s.writers = [] then none else some (.unknown s.fn))
  else if s.fn = "device.SetLock" then
    (if s.writers = ["device.SetLock"] then some .setLock else some (.unknown s.fn))
  else if s.fn = "program.LoadConfig" then
    (if s.writers = [] then some .readConfig else some (.unknown s.fn))
  else if s.fn = "openHistoryLog" then some .histOpen
  else if s.fn = "logHistory" then some (.hist (s.args.getD 1 "?"))
  else if s.fn = "device.ApproveOrCompare" then some .session
  else if s.fn = "status.SetCompare" || s.fn = "status.SetApprove" then some .status
  else if s.writers = [] then none
  else some (.unknown s.fn)

/-- Drop the sites of one `case` of one `switch` (a different mode of the program, outside the
property) and forget the switch and the label `keep` in the context of the others; the remaining
cases stay as conditional paths. -/
def dropMode (sw drop keep : String) (sites : List Site) : List Site :=
  sites.filterMap fun s =>
    if s.ctx.contains sw && s.ctx.contains drop then none
    else some { s with ctx := s.ctx.filter (fun c => c != sw && c != keep) }

def stepsOf (sites : List Site) : List Step := sites.filterMap classify

/-- In-lining of the two composite calls.  Justified by the pinned skeletons of `device.SetLock`
(`setlock_skeleton`) and `device.ApproveOrCompare` (`approveOrCompare_skeleton`) in Props/C12. -/
def expand : List Step → List Step
  | [] => []
  | .setLock :: rest => .mkdirLock :: .openLock :: .flock :: expand rest
  | .session :: rest => .logOpen :: .devBegin :: .devTalk :: .devEnd :: expand rest
  | s :: rest => s :: expand rest

/-! ## The boundary of the module (round 3) -/

/-- packages and receiver types all of whose functions neither write nor talk -/
def harmlessOwners : List String := [
  "strings", "slices", "bytes", "strconv", "maps", "cmp", "sort", "regexp", "path", "path/filepath", "net/netip",
  "time", "net/url", "errors", "math/bits", "encoding/json", "encoding/xml", "github.com/pkg/diff/myers",
  "net/http/cookiejar", "*regexp.Regexp", "*strings.Builder", "net/netip.Addr", "net/netip.Prefix", "time.Time",
  "net/url.Values", "*net/url.URL", "net.IPMask", "net/http.Header", "*encoding/json.Decoder",
  "*github.com/spf13/pflag.FlagSet", "*slices.xorshift", "*github.com/pkg/diff/edit.Range",
  "*github.com/pkg/diff/edit.Script"]

/-- single harmless functions: formatting, terminal output, reads, constructors, process exit -/
def harmlessFns : List (String × String) := [
  ("fmt", "Errorf"), ("fmt", "Sprintf"), ("fmt", "Sprint"), ("fmt", "Print"), ("fmt", "Printf"), ("fmt", "Println"),
  ("os", "Getenv"), ("os", "ReadFile"), ("os", "Open"), ("os", "Stat"), ("os", "UserHomeDir"), ("os", "Exit"),
  ("os/exec", "Command"), ("net/http", "NewRequest"), ("github.com/spf13/pflag", "NewFlagSet"),
  ("github.com/tailscale/goexpect", "PartialMatch"), ("golang.org/x/term", "ReadPassword"),
  ("*os.File", "Fd"), ("*os.File", "Name"), ("*os.File", "Close"), ("io", "ReadAll")]

/-- `Error()` of any error type and `Close()` of any reader are harmless (closing the LOCK file is
seen at the level of `Main`: `lockFH.Close`). -/
def harmlessExt (c : String × String) : Bool :=
  c.2 = "Error" || c.2 = "Close" || harmlessOwners.contains c.1 || harmlessFns.contains c

/-- Every category of loud sink site of the program, with what it is.  Keyed by category, not by the
name of the function that contains the site (robustness round 2): a helper may be renamed, inlined or
extracted; a NEW kind of write (another directory below the base directory, a file written whole at a
path the caller gives, a new kind of process or connection) is a new category. -/
def writeCategories : List (String × String) := [
  ("mkdir:basedir/lock", "lock directory"), ("open:basedir/lock", "lock file"), ("flock", "the lock"),
  ("mkdir:basedir/history", "history directory"), ("open:basedir/history", "history file"),
  ("mkdir:basedir/status", "status directory"), ("writefile:basedir/status", "status file"),
  ("write:param", "lines into a file handed in: history (logHistory), session log .change (DoLog), scp temp file"),
  ("write:global", "run log (errlog: stderr or the log file)"),
  ("mkdir:param", "directory of a log file"), ("open:param", "log file creation"), ("rename:param", "log rotation"),
  ("write:param.field", "session log .login/.config/.change (Conn.logString)"),
  ("write:call", "session log .cmp (file from getLogFH)"),
  ("pty-spawn", "device: ssh"), ("pty-send", "device: ssh"), ("pty-expect", "device: ssh"),
  ("network", "device: https"), ("exec", "device: scp"),
  ("tempfile", "temp file for scp"), ("remove:call", "temp file for scp")]

end NA.LockSkel
