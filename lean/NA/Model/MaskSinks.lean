import NA.Model.Mask
/-!
# What every sink receives (property C17)

Sinks of one `drc` / `do-approve` run:

* session logs `<dev>.login`, `<dev>.config`, `<dev>.change` (entries written by `errlog.DoLog`
  for the HTTP devices, raw device output for the SSH devices; `.cmp` only receives `ShowChanges()`),
* the run log (`stderrLog`: the `--LOGFILE` of drc, `<dev>.drc` / `<dev>.compare` of do-approve, or
  stderr) — `WARNING>>> ` / `ERROR>>> ` lines written by `errlog.PrintWithMarker`,
* history `RES:` lines and stdout of do-approve — copies of run-log lines.

A run is driven by an adversarial device: a list of `Reply`s (one per HTTP request) resp. a list of
`Op`s (SSH session trace).  Nothing here depends on *how* the device chooses its replies; the
non-interference theorems quantify over all of them.
-/
namespace NA.Mask

/-! ## HTTP client outcomes -/

/-- Outcome of one `http.Client.Get/Do/PostForm` as seen by the caller. -/
inductive Reply where
  /-- transport error (`*url.Error`): connection refused / reset / EOF / timeout … with text `msg` -/
  | terr (msg : Str)
  /-- a response whose status is not 200 -/
  | status (code : Nat) (body : Str)
  /-- status 200 and the caller's parser accepts the body -/
  | ok (body : Str)
  /-- status 200 but the caller rejects the body (XML/JSON error, `No success`, unexpected message,
      HA state not active); `msg` is the caller's error text (a function of `body` alone) -/
  | fail (body : Str) (msg : Str)
  /-- status 200, but reading the body ended in an I/O error with text `msg` (e.g. `unexpected EOF`)
      after `body` had arrived: `httpGet` / `sendRequest` return the partial body AND the error -/
  | trunc (body : Str) (msg : Str)
  deriving Repr, DecidableEq

def Reply.body : Reply → Str
  | .terr _ => []
  | .status _ b => b
  | .ok b => b
  | .fail b _ => b
  | .trunc b _ => b

def natStr (n : Nat) : Str := (toString n).toList

/-- `httpGet`: `"status code: N"` plus `"\n" + body` if the body is not empty. -/
def statusMsg (code : Nat) (body : Str) : Str :=
  "status code: ".toList ++ natStr code ++ (if body.isEmpty then [] else '\n' :: body)

def sGet : Str := ['G', 'e', 't']

/-! ## PAN-OS -/

def sType : Str := "type".toList
def sKeygen : Str := "keygen".toList
def sUser : Str := "user".toList
def sPassword : Str := "password".toList

/-- `getAPIKey`: `base.Path += "api"; base.RawQuery = params.Encode(); uri := base.String()`. -/
def keygenUri (addr user pass : Str) : Str :=
  addr ++ "/api?".toList ++ valuesEncode [(sType, sKeygen), (sUser, user), (sPassword, pass)]

def sApiKey : Str := "API key ".toList

/-- `getAPIKey`: the two `.login` entries and the returned error (`none`: the key is parsed from
the body).  For `.fail` the error is the one of `parseAPIKey`. -/
def keygen (addr user pass : Str) (r : Reply) : List Str × Option Str :=
  let uri := keygenUri addr user pass
  let log := [doLog (maskPass uri), doLog (maskKey r.body)]
  let err := match r with
    | .terr m => some (sApiKey ++ maskPass (urlError sGet uri m))
    | .status c b => some (sApiKey ++ maskPass (statusMsg c b))
    | .ok _ => none
    | .fail _ m => some m
    | .trunc _ m => some (sApiKey ++ maskPass m)
  (log, err)

/-- `s.urlPrefix = fmt.Sprintf("%s/api/?key=%s&", addr, key)` -/
def urlPrefix (addr key : Str) : Str := addr ++ "/api/?key=".toList ++ key ++ ['&']

/-- `s.logPrefix = fmt.Sprintf("%s/api/?key=xxx&", addr)` (`setAPIKey`) -/
def logPrefix (addr : Str) : Str := addr ++ "/api/?key=xxx&".toList

/-- `httpPrefixGetLog`: the two log entries (URL with the masked prefix `logPre`, answer) and the error
it returns (`pre` is the real prefix with the key). -/
def prefixGet (logPre pre uri : Str) (r : Reply) : List Str × Option Str :=
  let log := [doLog (logPre ++ uri), doLog r.body]
  let err := match r with
    | .terr m => some (urlError sGet (pre ++ uri) m)
    | .status c b => some (statusMsg c b)
    | .ok _ => none
    | .fail _ _ => none
    | .trunc _ m => some m
  (log, err)

inductive Log where | login | config | change
  deriving Repr, DecidableEq

/-- One request after login: where it is logged, its query, and the text the callers put in front of
an error (`"Command failed with "`, `"Commit failed: "`, `""`). -/
structure Req where
  log : Log
  uri : Str
  wrap : Str
  deriving Repr, DecidableEq

structure Sinks where
  login : List Str := []
  config : List Str := []
  change : List Str := []
  /-- marker lines of the run log (`WARNING>>> …`, `ERROR>>> …`) -/
  runlog : List Str := []
  deriving Repr, DecidableEq

def Sinks.add (s : Sinks) (l : Log) (es : List Str) : Sinks :=
  match l with
  | .login => { s with login := s.login ++ es }
  | .config => { s with config := s.config ++ es }
  | .change => { s with change := s.change ++ es }

def splitLines : Str → List Str
  | [] => [[]]
  | c :: cs =>
    if c = '\n' then [] :: splitLines cs
    else match splitLines cs with
      | [] => [[c]]
      | l :: ls => (c :: l) :: ls

def trimNl : Str → Str
  | [] => []
  | [c] => if c = '\n' then [] else [c]
  | c :: cs => c :: trimNl cs

/-- `errlog.PrintWithMarker`: one run-log line per line of the message, each with the marker. -/
def marker (m : Str) (msg : Str) : List Str := (splitLines (trimNl msg)).map (m ++ ·)

def mWarn : Str := "WARNING>>> ".toList
def mErr : Str := "ERROR>>> ".toList
def sUnreach : Str := "Devices unreachable: ".toList

def Sinks.warn (s : Sinks) (msg : Str) : Sinks := { s with runlog := s.runlog ++ marker mWarn msg }
def Sinks.err (s : Sinks) (msg : Str) : Sinks := { s with runlog := s.runlog ++ marker mErr msg }

def sHaUri : Str := "type=op&cmd=<show><high-availability><state/></high-availability></show>".toList

def notActive (ip name : Str) : Str := "not in active state: ".toList ++ ip ++ " (".toList ++ name ++ [')']

/-- The requests behind login and HA check: log both entries; the first error ends the run with an
`ERROR>>> ` line (`errlog.Abort("%v", err)` in `device.ApproveOrCompare`). -/
def panosReqs (logPre pre : Str) : List Req → List Reply → Sinks → Sinks
  | [], _, s => s
  | _ :: _, [], s => s
  | q :: qs, r :: rs, s =>
    let (lg, e) := prefixGet logPre pre q.uri r
    let s := s.add q.log lg
    match e, r with
    | some m, _ => s.err (q.wrap ++ m)
    | none, .fail _ m => s.err (q.wrap ++ m)
    | none, _ => panosReqs logPre pre qs rs s

/-- A whole PAN-OS run (one device name in the info file).
`kg` — reply to the keygen request; `key` — what `parseAPIKey` extracts from it (used if `kg = .ok _`);
`reps` — replies to the HA check and to the requests `reqs` behind it, in order. -/
def panosRun (addr user pass name ip : Str) (kg : Reply) (key : Str)
    (reqs : List Req) (reps : List Reply) : Sinks :=
  let (lg, e) := keygen addr user pass kg
  let s : Sinks := { login := lg }
  match e with
  | some m => (s.warn m).err (sUnreach ++ name)
  | none =>
    let pre := urlPrefix addr key
    let logPre := logPrefix addr
    match reps with
    | [] => s
    | ha :: rest =>
      let (lg, _) := prefixGet logPre pre sHaUri ha
      let s := s.add .login lg
      match ha with
      | .ok _ => panosReqs logPre pre reqs rest s
      | _ => (s.warn (notActive ip name)).err (sUnreach ++ name)

/-! ## NSX -/

def sJUser : Str := "j_username".toList
def sJPass : Str := "j_password".toList

/-- `nsx.LoadDevice` login closure: the `.login` entries (the third only if a response arrived).
`pass` is a parameter of the closure and is deliberately an argument here. -/
def nsxLoginLog (pre user _pass : Str) (status : Str) : List Str :=
  [doLog ("POST ".toList ++ pre ++ "/api/session/create".toList),
   doLog (valuesEncode [(sJUser, user), (sJPass, xxx)])] ++
  (if status.isEmpty then [] else [doLog status])

/-- Outcome of the session-create request. -/
inductive NsxLogin where
  | terr (msg : Str)
  | resp (status : Str) (code : Nat)
  deriving Repr, DecidableEq

def sPost : Str := ['P', 'o', 's', 't']

/-- `sendRequest` error text. -/
def nsxReqErr (pre : Str) (op method path : Str) : Reply → Option Str
  | .terr m => some (urlError op (pre ++ path) m)
  | .status c b =>
    some ("status code: ".toList ++ natStr c ++ ", method: ".toList ++ method ++ ", uri: ".toList ++ path ++
      (if b.isEmpty then [] else '\n' :: b))
  | .ok _ => none
  | .fail _ m => some m
  | .trunc _ m => some m

/-- NSX requests behind the login: `(op, method, path, log entries written before, entries after success)`. -/
structure NsxReq where
  op : Str
  method : Str
  path : Str
  log : Log
  before : List Str
  after : List Str
  deriving Repr, DecidableEq

def nsxReqs (pre : Str) : List NsxReq → List Reply → Sinks → Sinks
  | [], _, s => s
  | _ :: _, [], s => s
  | q :: qs, r :: rs, s =>
    let s := s.add q.log (q.before.map doLog)
    match nsxReqErr pre q.op q.method q.path r with
    | some m => s.err m
    | none => nsxReqs pre qs rs (s.add q.log (q.after.map doLog))

/-- A whole NSX run.  `pass`, `token`, `cookie` are what the run holds as secrets. -/
def nsxRun (pre user pass _token _cookie name : Str) (lg : NsxLogin) (reqs : List NsxReq) (reps : List Reply) : Sinks :=
  match lg with
  | .terr m =>
    let s : Sinks := { login := nsxLoginLog pre user pass [] }
    (s.warn (urlError sPost (pre ++ "/api/session/create".toList) m)).err (sUnreach ++ name)
  | .resp st code =>
    let s : Sinks := { login := nsxLoginLog pre user pass st }
    if code = 200 then nsxReqs pre reqs reps s
    else (s.warn ("status code: ".toList ++ natStr code)).err (sUnreach ++ name)

/-! ## SSH devices (ASA, IOS, Linux): `console.Conn` -/

/-- `strings.ReplaceAll(out, "\r\n", "\n")` -/
def crlf2lf : Str → Str
  | [] => []
  | [c] => [c]
  | c :: d :: r => if c = '\r' ∧ d = '\n' then '\n' :: crlf2lf r else c :: crlf2lf (d :: r)

/-- The session trace of a `console.Conn`. -/
inductive Op where
  /-- `Conn.Send(cmd)`: the login password, `enable`, every command -/
  | send (cmd : Str)
  /-- `expectLog` / `TryPrompt`: what goexpect returned up to the end of the match (or at timeout) -/
  | expect (out : Str)
  /-- `SetLogFH` (`none` = logging off) -/
  | setLog (l : Option Log)
  /-- `errlog.Abort` with a message built from regexes, commands of the change script and device output -/
  | abort (msg : Str)
  deriving Repr, DecidableEq

structure SshState where
  cur : Option Log := some .login
  sinks : Sinks := {}
  deriving Repr, DecidableEq

def sshStep (st : SshState) : Op → SshState
  | .send _ => st
  | .expect out =>
    match st.cur with
    | some l => { st with sinks := st.sinks.add l [crlf2lf out] }
    | none => st
  | .setLog l => { st with cur := l }
  | .abort msg => { st with sinks := st.sinks.err msg }

def sshRun (ops : List Op) : Sinks := (ops.foldl sshStep {}).sinks

/-- The bytes of one SSH session log: the chunks are written without separators. -/
def sshLog (outs : List Str) : Str := (outs.map crlf2lf).flatten

/-! ## do-approve: history `RES:` lines and stdout are copies of run-log lines -/

def sCompChanged : Str := "comp: ***".toList

def isResLine (l : Str) : Bool :=
  (stripPrefix? mErr.dropLast l).isSome || (stripPrefix? mWarn.dropLast l).isSome ||
  (stripPrefix? sCompChanged l).isSome

/-- Lines of the run log that `doapprove.Main` prints and appends to the history file. -/
def resLines (runlog : List Str) : List Str := runlog.filter isResLine

/-- Everything a run leaves behind. -/
structure AllSinks where
  sessions : Sinks
  history : List Str
  stdout : List Str
  deriving Repr, DecidableEq

def allSinks (s : Sinks) : AllSinks := { sessions := s, history := resLines s.runlog, stdout := resLines s.runlog }

end NA.Mask
