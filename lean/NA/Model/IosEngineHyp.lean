import NA.Model.IosEngine
import NA.Proofs.IosConv
/-!
# F2: decidable hypotheses of the convergence theorems (evaluated by the driver on every case)
-/
namespace NA.F2
open NA.Acl (Range Cell)

/-- `nolog` and `act` are functions of `text` (they are computed from it). -/
def textFunB (ls : List ALine) : Bool :=
  ls.all fun x => ls.all fun y => x.text != y.text || (x.nolog == y.nolog && x.act == y.act)

/-- `act` is a function of `nolog`. -/
def nologFunB (ls : List ALine) : Bool :=
  ls.all fun x => ls.all fun y => x.nolog != y.nolog || x.act == y.act

/-- Hypotheses of `ios_acl_object_converges` for the incremental branch of one ACL pair: valid
script that keeps a line, insert runs shorter than 10000, lines pairwise different modulo `log` on
each side, NO REMARK LINES (the complement of finding F-C02r). -/
def incrOK (al bl : List ALine) (rs : List Range) : Bool :=
  textFunB (al ++ bl) && nologFunB (al ++ bl) &&
  match pairCells al bl rs with
  | none => false
  | some M =>
    (M.any fun c => c.old && c.new) && NA.Acl.noJunk M && NA.Acl.runsShortB M &&
    decide ((NA.Acl.olds M).map (·.mkey)).Nodup && decide ((NA.Acl.news M).map (·.mkey)).Nodup &&
    M.all fun c => !c.line.remark

/-- Appending `ls` to an ACL whose lines are (modulo `log`) `pre`: no appended non-remark line equals
(modulo `log`) a line that is already there. -/
def appendOKFrom (pre : List String) : List ALine → Bool
  | [] => true
  | l :: ls => !(l.act != .remark && pre.contains l.nolog) && appendOKFrom (pre ++ [l.nolog]) ls

/-- Hypotheses for the branch "no parts equal" (delete all, then append) and for a device ACL
without entries: the target's lines can be appended one after the other. -/
def replaceOK (al bl : List ALine) (rs : List Range) : Bool :=
  appendOKFrom [] bl &&
  (al.isEmpty ||
    match pairCells al bl rs with
    | none => false
    | some M => !(M.any fun c => c.old && c.new))

/-- One of the two. -/
def pairOK (al bl : List ALine) (rs : List Range) : Bool := incrOK al bl rs || replaceOK al bl rs

end NA.F2
