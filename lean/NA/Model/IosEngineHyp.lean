import NA.Model.IosEngine
import NA.Proofs.IosConv
/-!
# F2: decidable hypotheses of the convergence theorems (evaluated by the driver on every case)
-/
namespace NA.F2
open NA.Acl (Range Cell)
open NA.F1 (lookupD isTagged)

/-- `nolog` and `act` are functions of `text` (they are computed from it). -/
def textFunB (ls : List ALine) : Bool :=
  ls.all fun x => ls.all fun y => x.text != y.text || (x.nolog == y.nolog && x.act == y.act)

/-- `act` is a function of `nolog`. -/
def nologFunB (ls : List ALine) : Bool :=
  ls.all fun x => ls.all fun y => x.nolog != y.nolog || x.act == y.act

/-- Hypotheses of `ios_acl_object_converges_partial` for the incremental branch of one ACL pair: valid
script that keeps a line, insert runs shorter than 10000, lines pairwise different modulo `log` on
each side, NO REMARK LINES (the complement of finding F-C02r). -/
def incrOK (al bl : List ALine) (rs : List Range) : Bool :=
  textFunB (al ++ bl) && nologFunB (al ++ bl) &&
  match pairCells al bl rs with
  | none => false
  | some M =>
    (M.any fun c => c.old && c.new) && NA.Acl.noJunk M && NA.Acl.runsShortB M &&
    decide ((NA.Acl.olds M).map (·.mkey)).Nodup && decide ((NA.Acl.news M).map (·.mkey)).Nodup &&
    M.all fun c => !c.line.remark

/-- Appending `ls` to an ACL whose lines are (modulo `log`) `pre`: no appended non-remark line equals
(modulo `log`) a line that is already there. -/
def appendOKFrom (pre : List String) : List ALine → Bool
  | [] => true
  | l :: ls => !(l.act != .remark && pre.contains l.nolog) && appendOKFrom (pre ++ [l.nolog]) ls

/-- Hypotheses for the branch "no parts equal" (delete all, then append) and for a device ACL
without entries: the target's lines can be appended one after the other. -/
def replaceOK (al bl : List ALine) (rs : List Range) : Bool :=
  appendOKFrom [] bl &&
  (al.isEmpty ||
    match pairCells al bl rs with
    | none => false
    | some M => !(M.any fun c => c.old && c.new))

/-- One of the two. -/
def pairOK (al bl : List ALine) (rs : List Range) : Bool := incrOK al bl rs || replaceOK al bl rs


/-- Directions are `in` or `out`. -/
def isDir (dir : String) : Bool := dir == "in" || dir == "out"

/-- The static hypotheses of the end-to-end theorem `ios_F2_converges_partial` as one decidable check:
names of access lists and interfaces pairwise different, at most one `in` and one `out` binding per
interface, every binding refers to a defined access list, every pair of a device ACL and a target
ACL bound in the same direction to interfaces of the same name passes `pairOK`, every target ACL can be transferred, route lines pairwise different per side,
equal route lines lie in the same VRF. -/
def wfB (a0 b : Config) (sc : Scripts) : Bool :=
  decide ((a0.acls.map (·.1)).Nodup) && decide ((a0.intfs.map (·.name)).Nodup) && decide ((b.intfs.map (·.name)).Nodup) &&
  (a0.intfs.all fun i => decide ((i.binds.map (·.dir)).Nodup) && i.binds.all fun bd => isDir bd.dir && a0.hasAcl bd.acl) &&
  (b.intfs.all fun i => decide ((i.binds.map (·.dir)).Nodup) && i.binds.all fun bd => isDir bd.dir && b.hasAcl bd.acl) &&
  (a0.intfs.all fun ai => b.intfs.all fun bi => ai.name != bi.name ||
    ai.binds.all fun ba => bi.binds.all fun bb => ba.dir != bb.dir ||
      pairOK (a0.lines ba.acl) (b.lines bb.acl) (lookupD sc.acl (ba.acl, bb.acl))) &&
  ((b.acls.map (·.1)).all fun bN => appendOKFrom [] (b.lines bN)) &&
  decide ((a0.routes.map (·.text)).Nodup) && decide ((b.routes.map (·.text)).Nodup) &&
  (a0.routes.all fun r => b.routes.all fun r' => r.text != r'.text || r.vrf == r'.vrf)


/-- Which conjunct of `wfB` fails first (for the measured distribution). -/
def wfWhy (a0 b : Config) (sc : Scripts) : String :=
  if !(decide ((a0.acls.map (·.1)).Nodup) && decide ((a0.intfs.map (·.name)).Nodup) && decide ((b.intfs.map (·.name)).Nodup)) then "names"
  else if !(a0.intfs.all fun i => decide ((i.binds.map (·.dir)).Nodup) && i.binds.all fun bd => isDir bd.dir && a0.hasAcl bd.acl) then "device-binding-of-undefined-acl"
  else if !(b.intfs.all fun i => decide ((i.binds.map (·.dir)).Nodup) && i.binds.all fun bd => isDir bd.dir && b.hasAcl bd.acl) then "target-binding-of-undefined-acl"
  else if !(a0.intfs.all fun ai => b.intfs.all fun bi => ai.name != bi.name ||
      ai.binds.all fun ba => bi.binds.all fun bb => ba.dir != bb.dir ||
        pairOK (a0.lines ba.acl) (b.lines bb.acl) (lookupD sc.acl (ba.acl, bb.acl))) then
    (if (a0.acls.any fun x => x.2.any fun l => l.act == .remark) || (b.acls.any fun x => x.2.any fun l => l.act == .remark)
     then "acl-pair-with-remark-lines" else "acl-pair")
  else if !((b.acls.map (·.1)).all fun bN => appendOKFrom [] (b.lines bN)) then "target-acl-not-appendable"
  else if !(decide ((a0.routes.map (·.text)).Nodup) && decide ((b.routes.map (·.text)).Nodup)) then "duplicate-route"
  else if !(a0.routes.all fun r => b.routes.all fun r' => r.text != r'.text || r.vrf == r'.vrf) then "route-vrf"
  else "ok"


/-! ## "Already settled": the decidable class of `ios_F2_quiet` -/

/-- The pairs of access lists the engine compares: bound in the same direction to interfaces of the
same name (`a'`: the device after `alignVRFs`). -/
def cmpPairs (a' b : Config) : List (Name × Name) :=
  a'.intfs.flatMap fun ai => b.intfs.flatMap fun bi =>
    if ai.name == bi.name then
      ai.binds.flatMap fun ba => bi.binds.filterMap fun bb => if ba.dir == bb.dir then some (ba.acl, bb.acl) else none
    else []

/-- The line planner has nothing to do for this pair: both lists empty, or a valid script that keeps a
line and whose plan is empty. -/
def quietLines (al bl : List ALine) (rs : List Range) : Bool :=
  (al.isEmpty && bl.isEmpty) ||
  (!al.isEmpty &&
    match pairCells al bl rs with
    | some M => (M.any fun c => c.old && c.new) && (NA.Acl.planIOS M).isEmpty
    | none => false)

/-- Access lists bound by device interfaces that have no partner: interfaces of VRFs the target does
not mention (removed by `alignVRFs`) and interfaces the target does not name. -/
def unpairedAcls (a b : Config) : List Name :=
  (a.intfs.filter fun i => !((alignVRFs a b {}).2.intfs.contains i) || !(b.intfs.any fun bi => bi.name == i.name)).flatMap
    fun i => i.binds.map (·.acl)

/-- The device is already as the target says, statically: `checkIOSInterfaces` succeeds; names
pairwise different; bindings refer to defined ACLs, at most one per direction; every pair of
interfaces of the same name binds the same directions; device and target ACLs are paired one-to-one
by these bindings; no compared device ACL is also bound by an interface without partner; the line
planner is quiet on every compared pair; every target route is on the device and every further device
route lies in a VRF for which the target has no routes; every generated (`-DRC-`) ACL of the device is
compared or bound by an interface without partner. -/
def settledB (a b : Config) (sc : Scripts) : Bool :=
  let a' := (alignVRFs a b {}).2
  let cp := cmpPairs a' b
  let prot := unpairedAcls a b
  (engine a b sc).ok &&
  decide ((a.intfs.map (·.name)).Nodup) && decide ((b.intfs.map (·.name)).Nodup) &&
  (a.intfs.all fun i => decide ((i.binds.map (·.dir)).Nodup) && i.binds.all fun bd => isDir bd.dir && a.hasAcl bd.acl) &&
  (b.intfs.all fun i => decide ((i.binds.map (·.dir)).Nodup) && i.binds.all fun bd => isDir bd.dir && b.hasAcl bd.acl) &&
  (a'.intfs.all fun ai => b.intfs.all fun bi => ai.name != bi.name ||
    ((ai.binds.all fun ba => bi.binds.any fun bb => bb.dir == ba.dir) &&
     (bi.binds.all fun bb => ai.binds.any fun ba => ba.dir == bb.dir))) &&
  (cp.all fun p => cp.all fun q => (p.1 == q.1) == (p.2 == q.2)) &&
  (cp.all fun p => !prot.contains p.1) &&
  (cp.all fun p => quietLines (a.lines p.1) (b.lines p.2) (lookupD sc.acl p)) &&
  decide ((a.routes.map (·.text)).Nodup) &&
  (b.routes.all fun rb => a'.routes.any fun ra => ra.text == rb.text) &&
  (a'.routes.all fun ra => (b.routes.any fun rb => rb.text == ra.text) || !(b.routes.any fun rb => rb.vrf == ra.vrf)) &&
  ((a.acls.map (·.1)).all fun n => !isTagged n || prot.contains n || cp.any fun p => p.1 == n)

/-- Name of the first conjunct of `settledB` that fails (statistics of the driver only). -/
def settledWhy (a b : Config) (sc : Scripts) : String :=
  let a' := (alignVRFs a b {}).2
  let cp := cmpPairs a' b
  let prot := unpairedAcls a b
  if !(engine a b sc).ok then "refused"
  else if !(decide ((a.intfs.map (·.name)).Nodup) && decide ((b.intfs.map (·.name)).Nodup)) then "names"
  else if !(a.intfs.all fun i => decide ((i.binds.map (·.dir)).Nodup) && i.binds.all fun bd => isDir bd.dir && a.hasAcl bd.acl) then "device-binding-of-undefined-acl"
  else if !(b.intfs.all fun i => decide ((i.binds.map (·.dir)).Nodup) && i.binds.all fun bd => isDir bd.dir && b.hasAcl bd.acl) then "target-binding-of-undefined-acl"
  else if !(a'.intfs.all fun ai => b.intfs.all fun bi => ai.name != bi.name ||
    ((ai.binds.all fun ba => bi.binds.any fun bb => bb.dir == ba.dir) &&
     (bi.binds.all fun bb => ai.binds.any fun ba => ba.dir == bb.dir))) then "bound-directions-differ"
  else if !(cp.all fun p => cp.all fun q => (p.1 == q.1) == (p.2 == q.2)) then "pairing-not-one-to-one"
  else if !(cp.all fun p => !prot.contains p.1) then "compared-acl-bound-without-partner"
  else if !(cp.all fun p => quietLines (a.lines p.1) (b.lines p.2) (lookupD sc.acl p)) then "line-planner-not-quiet"
  else if !(decide ((a.routes.map (·.text)).Nodup)) then "duplicate-route"
  else if !((b.routes.all fun rb => a'.routes.any fun ra => ra.text == rb.text) &&
    (a'.routes.all fun ra => (b.routes.any fun rb => rb.text == ra.text) || !(b.routes.any fun rb => rb.vrf == ra.vrf))) then "routes-differ"
  else if !((a.acls.map (·.1)).all fun n => !isTagged n || prot.contains n || cp.any fun p => p.1 == n) then "generated-acl-not-compared"
  else "ok"

/-! ## The differ's answer on equal lists (`IdentityDiffer`), suppressed moves -/

/-- The script of this pair is the identity: both lists empty, or a valid script in which every cell
is kept on both sides — then the two lists are equal line by line.  A correct differ returns exactly
this on equal lists (`IdentityDiffer`, checked on the real library on every run). -/
def identityOn (al bl : List ALine) (rs : List Range) : Bool :=
  (al.isEmpty && bl.isEmpty) ||
  (!al.isEmpty &&
    match pairCells al bl rs with
    | some M => M.all fun c => c.old && c.new
    | none => false)

def opIsAddMove : NA.Acl.IOp → Bool
  | .add _ _ => true
  | .move _ _ _ => true
  | _ => false

/-- No move of this pair's plan is suppressed: the plan holds an `add` or a `move` for every line that is
only in the target (hypothesis `hcount` of `ios_plan_converges_no_suppression_partial`: the ACL ends as
exactly the target's list). -/
def noSupprPair (al bl : List ALine) (rs : List Range) : Bool :=
  al.isEmpty ||
  match pairCells al bl rs with
  | some M => !(M.any fun c => c.old && c.new) ||
      ((NA.Acl.planIOS M).filter opIsAddMove).length == (NA.Acl.addIdx M).length
  | none => false

/-- … in the whole run. -/
def noSupprRun (r : Result) : Bool :=
  r.acts.all fun
    | .edit _ al bl rs => noSupprPair al bl rs
    | _ => true

/-- No pair of access lists the engine may compare has a plan with a suppressed move (decidable; the
class in which the first run converges EXACTLY). -/
def noSupprB (a b : Config) (sc : Scripts) : Bool :=
  (cmpPairs (alignVRFs a b {}).2 b).all fun p =>
    noSupprPair ((alignVRFs a b {}).2.lines p.1) (b.lines p.2) (lookupD sc.acl p)

/-- The lists are equal line by line (text, text without `log`, action). -/
def linesEqB (al bl : List ALine) : Bool :=
  (al.map fun l => (l.text, l.nolog, l.act)) == (bl.map fun l => (l.text, l.nolog, l.act))

end NA.F2
