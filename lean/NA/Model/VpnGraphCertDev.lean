import NA.Model.VpnGraphCert
/-!
# Strict device for fragment H (specification side)

The device of fragment G plus the `tunnel-group-map` rules, the toplevel `webvpn` with its `certificate-group-map` rules, and
the webvpn mode.  Refused in addition: a rule that references a certificate map or tunnel-group that does not exist, or names an index for which the certificate map has no entry; `no` for a
rule that is not there (exact text); a `certificate-group-map` outside webvpn mode; toplevel `webvpn` typed while the mode of a
group-policy or username is open (that mode has a sub-mode of the same name: the command would not reach the toplevel); a
sub-command of fragment G typed in webvpn mode; deleting an object that a rule still references.
One tunnel-group per (map, index) and one default-group: a second rule with the same map and index replaces the first.
-/
namespace NA.Vpn.G

structure HDev where
  d : Dev := {}
  tgmap : List Rule := []
  web : Option (List Rule) := none
  wmode : Bool := false          -- webvpn mode is open
  deriving Repr, Inhabited

def HDev.ruleRefs (x : HDev) : List Ref := (x.tgmap ++ x.web.getD []).flatMap (·.refs)

def sameSlot (r q : Rule) : Bool := r.cm == q.cm && (r.cm.isNone || r.seq == q.seq)

def putRule (l : List Rule) (r : Rule) : List Rule :=
  if l.any (sameSlot r) then l.map fun q => if sameSlot r q then r else q else l ++ [r]

/-- the rule names an entry of its certificate map: `crypto ca certificate map CM SEQ` exists (nothing to check for default-group) -/
def HDev.entryOk (x : HDev) (r : Rule) : Bool :=
  match r.cm with
  | some n => (x.d.obj (Kind.certmap, n)).any fun o => o.secs.any fun s => s.head == r.seq
  | none => true

def isToplevel : Chg → Bool
  | .sub _ _ _ _ _ => false
  | .exit => false
  | _ => true

def execH1 (x : HDev) : Cmd2 → Option HDev
  | .g .exit =>
    if x.wmode then some { x with wmode := false } else (exec1 x.d .exit).map fun d => { x with d := d }
  | .g c =>
    if !isToplevel c && x.wmode then none else
    let blocked : Bool := match c with
      | .clear k n => x.ruleRefs.contains (k, n)
      | .pool true n _ => x.ruleRefs.contains (Kind.pool, n)
      | _ => false
    if blocked then none else (exec1 x.d c).map fun d => { x with d := d, wmode := false }
  | .h .webvpn =>
    if inGpUser x.d.mode then none
    else some { x with d := { x.d with mode := none }, web := some (x.web.getD []), wmode := true }
  | .h (.tgmap false r) =>
    if r.refs.all x.d.defined && x.entryOk r then some { x with d := { x.d with mode := none }, tgmap := putRule x.tgmap r, wmode := false } else none
  | .h (.tgmap true r) =>
    if x.tgmap.contains r then some { x with d := { x.d with mode := none }, tgmap := x.tgmap.filter (· != r), wmode := false } else none
  | .h (.cgm false r) =>
    if x.wmode && r.refs.all x.d.defined && x.entryOk r then some { x with web := some (putRule (x.web.getD []) r) } else none
  | .h (.cgm true r) =>
    if x.wmode && (x.web.getD []).contains r then some { x with web := some ((x.web.getD []).filter (· != r)) } else none

def execAllH : HDev → List Cmd2 → Option HDev
  | x, [] => some x
  | x, c :: cs => (execH1 x c).bind fun x' => execAllH x' cs

def HDev.ofCfg (c : Cfg) : HDev := { d := { objs := c.objs }, tgmap := c.tgmap, web := c.web }
def HDev.cfg (x : HDev) : Cfg := { objs := x.d.objs, tgmap := x.tgmap, web := x.web }

/-- what the target specifies: the anchors of fragment G and every rule by content (indices do not count) -/
def viewH (c : Cfg) : List String :=
  view c.objs ++
  sortS (c.tgmap.map fun r => "tunnel-group-map " ++ (match r.cm with
    | some n => "{" ++ content fuel c.objs (Kind.certmap, n) ++ "}"
    | none => "default-group") ++ " -> " ++ content fuel c.objs (Kind.tg, r.tg)) ++
  sortS ((c.web.getD []).map fun r => "certificate-group-map " ++ (match r.cm with
    | some n => "{" ++ content fuel c.objs (Kind.certmap, n) ++ "}"
    | none => "?") ++ " -> " ++ content fuel c.objs (Kind.tg, r.tg))

/-- managed: what the anchors of fragment G and the rules reach -/
def managedSetH (c : Cfg) : List Ref :=
  ((c.tgmap ++ c.web.getD []).flatMap (·.refs)).foldl (fun acc r => reach fuel c.objs acc r) (managedSet c.objs)

/-- objects outside Netspoc's scope: not reachable from an anchor or a rule, name without the tag — and what they reference -/
def unmanagedSetH (c : Cfg) : List Ref :=
  let m := managedSetH c
  ((c.objs.filter fun o => !m.contains o.id && !o.drc).foldl (fun acc o => reach fuel c.objs acc o.id) [])

def frameH (c0 : Cfg) (objs : List Obj) : List (Option Obj) := (unmanagedSetH c0).map fun r => objs.find? fun o => o.id == r

end NA.Vpn.G
