import NA.Model.IosSession
import NA.Model.IosSkelTypes
/-!
# The IOS apply path as annotated programs: one term, two readings

`Prog σ α` is a small program language whose leaves carry BOTH an interaction step in the normal
form of `translate/iosskel` (`SendCmd("end")`, `IssueCmd(_,"…")`, `reloadActive:=true`, …) AND their
semantics in the session monad of `NA/Model/IosSession.lean`; the inner nodes are the control
structure (`defer`, the immediately invoked closure, `range`, `if`).  From one term

* `denote` gives the executable model — proved EQUAL to `applyCommands … true`, `cmd … true`, `check`,
  `sendReloadCmd`, `cancelReload`, `prepareDevice`, `stripReloadBanner` (`NA/Props/C15Skel.lean`), and
* `paths` gives the set of acyclic paths of interaction steps — proved equal (as a set) to the one
  regenerated from the source.  Sub-programs are used as sub-terms (not as opaque steps): a call of a
  helper of the package contributes the helper's own paths, exactly as `translate/iosskel` inlines
  it, so the fact is the same whether the Go code has the helper, a wrapper around it, or neither.

Normal form (both sides): only device interactions, impure package functions, aborts and
assignments to the watched variables `needReload` / `s.reloadActive` are steps; string arguments are
constant-folded, every other argument is `_`; if/else polarity, guard clauses, early returns and
temporaries do not matter (path sets); a condition contributes `?v=T/F` only if it reads a watched
variable; `defer X` adds `defer:X` at the end of every path of its scope that passed the
registration; `range` is one step `range{…}`; a path ending in an abort is marked `!`.
-/
namespace NA.Ios

inductive Prog (σ : Type) : Type → Type 1 where
  /-- an interaction step and what it does in the model -/
  | stmt {α : Type} (tok : String) (m : M σ α) : Prog σ α
  /-- `errlog.Abort`: ends the path -/
  | abort {α : Type} (tok : String) (m : M σ α) : Prog σ α
  /-- no interaction: value plumbing, pure computation -/
  | quiet {α : Type} (m : M σ α) : Prog σ α
  | bind {α β : Type} [Inhabited α] (p : Prog σ α) (f : α → Prog σ β) : Prog σ β
  /-- `if c { t } else { e }`; `watch = some v`: the condition reads the watched variable `v` -/
  | ite {α : Type} (watch : Option String) (c : Bool) (t e : Prog σ α) : Prog σ α
  /-- `defer d` followed by the rest of the scope; the deferred call is a program of its own
  (inlined: its steps appear as `deferred` atoms at the end of every path of the scope) -/
  | defer_ {α : Type} (d : Prog σ Unit) (body : Prog σ α) : Prog σ α
  /-- `func() { body }()` -/
  | closure {α : Type} (body : Prog σ α) : Prog σ α
  /-- `for _, x := range … { body }` -/
  | range {β : Type} [Inhabited β] (l : List β) (body : β → Prog σ Unit) : Prog σ Unit
  /-- `retries := n; for { body }`: the body either returns (`done`), aborts, or — only while the
  counter is positive — decrements it and `continue`s (`retry`) -/
  | loop (n : Nat) (body : Nat → Prog σ WmStep) : Prog σ Unit

/-- semantics of `Prog.loop`: the counter goes down with every `retry`; with the counter at 0 the
body cannot `continue` any more (it aborts instead), whatever it returns ends the loop -/
def loopM {σ : Type} : Nat → (Nat → M σ WmStep) → M σ Unit
  | 0, b => bindM (b 0) fun _ => pureM ()
  | n + 1, b => bindM (b (n + 1)) fun r =>
      match r with
      | .done => pureM ()
      | .retry => loopM n b

namespace Prog
variable {σ : Type}

def denote : {α : Type} → Prog σ α → M σ α
  | _, .stmt _ m => m
  | _, .abort _ m => m
  | _, .quiet m => m
  | _, @Prog.bind _ _ _ _ p f => bindM (denote p) (fun a => denote (f a))
  | _, .ite _ c t e => if c then denote t else denote e
  | _, .defer_ d body => finally_ (denote body) (denote d)
  | _, .closure body => denote body
  | _, @Prog.range _ _ _ l body => forEach (fun x => denote (body x)) l
  | _, .loop n body => loopM n (fun k => denote (body k))

/-- the control structure without the semantics: continuations are applied to a default value -/
def shape : {α : Type} → Prog σ α → Shape
  | _, .stmt tok _ => .stmt tok
  | _, .abort tok _ => .abort tok
  | _, .quiet _ => .quiet
  | _, @Prog.bind _ _ _ inst p f => .seq (shape p) (shape (f (@default _ inst)))
  | _, .ite watch _ t e => .ite watch (shape t) (shape e)
  | _, .defer_ d body => .defer_ (shape d) (shape body)
  | _, .closure body => .closure (shape body)
  | _, @Prog.range _ _ inst _ body => .range (shape (body (@default _ inst)))
  | _, .loop _ body => .loop (shape (body 0))

/-- the set of acyclic paths of interaction steps of a program -/
def paths {α : Type} (p : Prog σ α) : List SkelPath := (shape p).paths

end Prog

instance : Inhabited WmStep := ⟨.done⟩

section programs
variable {σ : Type} (D : Device σ)
open Prog

/-- `prepareDevice` -/
def prepareDeviceP : Prog σ Unit :=
  .bind (.stmt "SendCmd(\"configure terminal\")" (sendCmd D confCmd)) fun _ =>
  .bind (.stmt "SendCmd(\"no logging console\")" (sendCmd D (lit "no logging console"))) fun _ =>
  .bind (.stmt "SendCmd(\"line vty 0 15\")" (sendCmd D (lit "line vty 0 15"))) fun _ =>
  .bind (.stmt "SendCmd(\"logging synchronous level all\")" (sendCmd D (lit "logging synchronous level all"))) fun _ =>
  .bind (.stmt "SendCmd(\"ip subnet-zero\")" (sendCmd D (lit "ip subnet-zero"))) fun _ =>
  .bind (.stmt "SendCmd(\"ip classless\")" (sendCmd D (lit "ip classless"))) fun _ =>
  .stmt "SendCmd(\"end\")" (sendCmd D endCmd)

/-- `sendReloadCmd` -/
def sendReloadCmdP (withDo : Bool) : Prog σ Unit :=
  .bind (.stmt "IssueCmd(_,\"\\\\[yes\\\\/no\\\\]:\\\\ |\\\\[confirm\\\\]\")"
          (issueCmd D (if withDo then doReloadCmd else reloadCmd) ynPat
            [(lit "[yes/no]: ", false), (lit "[confirm]", false)])) fun out =>
  .bind (.ite none (containsLit (lit "[yes/no]") out)
          (.bind (.stmt "IssueCmd(\"n\",\"\\\\[confirm\\\\]\")"
                    (issueCmd D (lit "n") "\\[confirm\\]" [(lit "[confirm]", false)])) fun _ => .quiet (pureM ()))
          (.quiet (pureM ()))) fun _ =>
  .bind (.stmt "reloadActive:=true" (setActive true)) fun _ =>
  .stmt "SendCmd(\"\")" (sendCmd D [])

/-- `cancelReload` -/
def cancelReloadP : Prog σ Unit :=
  .bind (.stmt "IssueCmd(\"reload cancel\",\"--- SHUTDOWN ABORTED ---\")"
          (issueCmd D cancelCmd "--- SHUTDOWN ABORTED ---" [(lit "--- SHUTDOWN ABORTED ---", false)])) fun _ =>
  .bind (.stmt "WaitShort(\"[#] ?$\")" (waitHashEnd (σ := σ))) fun _ =>
  .bind (.stmt "SendCmd(\"\")" (sendCmd D [])) fun _ =>
  .stmt "reloadActive:=false" (setActive false)

/-- the two probes of `stripReloadBanner` -/
def stripProbeP (pre post : Str) : Prog σ Str :=
  .ite none (blank (pre ++ post))
    (.bind (.stmt "WaitShort(\"[#] ?$\")" (waitHashEnd (σ := σ))) fun o => .stmt "StripStdPrompt(_)" (stripStdPrompt o))
    (.ite none (!pre.isEmpty && blank post)
      (.bind (.stmt "TryPrompt()" (tryPrompt (σ := σ))) fun _ => .quiet (pureM (pre ++ post)))
      (.quiet (pureM (pre ++ post))))

/-- `stripReloadBanner` -/
def stripReloadBannerP (out : Str) : Prog σ (Str × Bool) :=
  .bind (.quiet (getActive (σ := σ))) fun act =>
  .ite (some "reloadActive") act
    (.ite none (bannerFind out).isSome
      (.bind (stripProbeP (σ := σ) ((bannerFind out).getD default).1 ((bannerFind out).getD default).2.2) fun o =>
        .quiet (pureM (o, oneMinute ((bannerFind out).getD default).2.1)))
      (.quiet (pureM (out, false))))
    (.quiet (pureM (out, false)))

/-- the closure `check` of `cmd` (code after the repair of F-C15: the flag is accumulated) -/
def checkP (ci : Str) : Prog σ Bool :=
  .bind (.stmt "GetOutput()" (getOutput (σ := σ))) fun out =>
  .bind (stripReloadBannerP (σ := σ) out) fun p =>
  .bind (.stmt "needReload|=_" (pureM (σ := σ) ())) fun _ =>
  .bind (.stmt "StripEcho(_,_)" (stripEcho (σ := σ) ci p.1)) fun o =>
  .bind (.ite none (!o.isEmpty)
          (.bind (.stmt "loop{|Warning()}" (forEach (warn (σ := σ) ci) (validOutput (splitOnNL o)).1)) fun _ =>
           .ite none (!(validOutput (splitOnNL o)).2)
             (.abort "Abort()" (abortM (.unexpectedOutput ci o)))
             (.quiet (pureM ())))
          (.quiet (pureM ()))) fun _ =>
  .quiet (pureM p.2)

/-- `cmd` -/
def cmdP (c : Str) : Prog σ Unit :=
  .bind (.stmt "Send(_)" (send D c)) fun _ =>
  .bind (.stmt "needReload:=false" (pureM (σ := σ) ())) fun _ =>
  .bind (checkP (σ := σ) (cutNL c).1) fun n1 =>
  .bind (.ite none (!(cutNL c).2.isEmpty)
          (.bind (checkP (σ := σ) (cutNL c).2) fun n2 => .quiet (pureM (n1 || n2)))
          (.quiet (pureM n1))) fun need =>
  .ite (some "needReload") need
    (.bind (.stmt "args(true)" (pureM (σ := σ) ())) fun _ => sendReloadCmdP D true)
    (.quiet (pureM ()))

end programs

def isPos : Nat → Bool
  | 0 => false
  | _ + 1 => true

section writeMemProg
variable {σ : Type} (D : Device σ)

/-- one round of the `for` loop of `writeMem`, `k` = the value of `retries` -/
def writeMemRoundP (k : Nat) : Prog σ WmStep :=
  .bind (.stmt "IssueCmd(\"write memory\",\"#[ ]?|\\\\[confirm\\\\]\")"
          (issueCmd D writeCmd "#[ ]?|\\[confirm\\]" [(lit "#", true), (lit "[confirm]", false)])) fun out =>
  .bind (.ite none (containsLit (lit "Overwrite the previous NVRAM configuration") out)
          (.stmt "GetCmdOutput(\"\")" (bindM (send D []) fun _ => bindM getOutput (stripEcho [])))
          (.quiet (pureM out))) fun out =>
  .ite none (containsLit (lit "[OK]") out) (.quiet (pureM .done))
    (.ite none (containsLit (lit "startup-config file open failed") out)
      (.ite none (isPos k)
        (.stmt "loop" (pureM .retry))
        (.abort "Abort()" (abortM .writeMemGiveUp)))
      (.abort "Abort()" (abortM (.writeMemUnexpected out))))

/-- `writeMem`: `retries := 2; for { … }` -/
def writeMemP : Prog σ Unit := .loop 2 (writeMemRoundP D)

/-- `ApplyCommands`, every helper of the package inlined (`prepareDevice`, `scheduleReload` →
`sendReloadCmd(false)`, `cancelReload`, `cmd` → `check` → `stripReloadBanner`, `extendReload` →
`sendReloadCmd(true)`, `writeMem`): the path set does not depend on how the Go code is cut into helpers -/
def applyCommandsP (cs : List Str) : Prog σ Unit :=
  .bind (.stmt "SetLogFH(_)" (pureM (σ := σ) ())) fun _ =>
  .bind (prepareDeviceP D) fun _ =>
  .bind (.closure
          (.bind (.stmt "args(false)" (pureM (σ := σ) ())) fun _ =>
           .bind (sendReloadCmdP D false) fun _ =>
           .defer_ (cancelReloadP D)
            (.bind (.stmt "SendCmd(\"configure terminal\")" (sendCmd D confCmd)) fun _ =>
             .defer_ (.stmt "SendCmd(\"end\")" (sendCmd D endCmd))
              (.range cs fun chg => cmdP D chg)))) fun _ =>
  writeMemP D

end writeMemProg

end NA.Ios
