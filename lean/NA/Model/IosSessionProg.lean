import NA.Model.IosSession
/-!
# The IOS apply path as annotated programs: one term, two readings

`Prog σ α` is a small program language whose leaves carry BOTH the Go statement they mirror (a token
as `translate/iosskel` prints it) AND their semantics in the session monad of
`NA/Model/IosSession.lean`; the inner nodes are the control structure that matters for C15
(`defer`, the immediately invoked closure, `range`, `if`).  From one term

* `denote` gives the executable model — proved EQUAL to `applyCommands`, `cmd … true`, `check`,
  `sendReloadCmd`, `cancelReload`, `prepareDevice` (`NA/Props/C15Skel.lean`), and
* `skel` gives the call skeleton — proved equal to the one regenerated from `device.go`.

So dropping a `defer`, moving `s.writeMem()` into the closure, or removing the re-arm changes the
regenerated skeleton, and changing the model's structure breaks the `denote` equations: the tie
between the Lean model and the source is the term itself.
-/
namespace NA.Ios

inductive Prog (σ : Type) : Type → Type 1 where
  /-- a Go statement and what it does in the model -/
  | stmt {α : Type} (tok : String) (m : M σ α) : Prog σ α
  /-- model bookkeeping without a statement of its own (value plumbing, side effects of a condition) -/
  | quiet {α : Type} (m : M σ α) : Prog σ α
  | bind {α β : Type} [Inhabited α] (p : Prog σ α) (f : α → Prog σ β) : Prog σ β
  /-- `if tok { t }` (the else branch is the fall-through) -/
  | ite {α : Type} (tok : String) (c : Bool) (t e : Prog σ α) : Prog σ α
  /-- `defer tok` followed by the rest of the function body -/
  | defer_ {α : Type} (tok : String) (d : M σ Unit) (body : Prog σ α) : Prog σ α
  /-- `func() { body }()` -/
  | closure {α : Type} (body : Prog σ α) : Prog σ α
  /-- `for _, x := range tok { body }` -/
  | range {β : Type} [Inhabited β] (tok : String) (l : List β) (body : β → Prog σ Unit) : Prog σ Unit
  /-- `name := func(params) { body }`: a local function; defining it does nothing -/
  | localFn {β : Type} (tok : String) (body : Prog σ β) : Prog σ Unit

namespace Prog
variable {σ : Type}

def denote : {α : Type} → Prog σ α → M σ α
  | _, .stmt _ m => m
  | _, .quiet m => m
  | _, @Prog.bind _ _ _ _ p f => bindM (denote p) (fun a => denote (f a))
  | _, .ite _ c t e => if c then denote t else denote e
  | _, .defer_ _ d body => finally_ (denote body) d
  | _, .closure body => denote body
  | _, @Prog.range _ _ _ _ l body => forEach (fun x => denote (body x)) l
  | _, .localFn _ _ => pureM ()

def skel : {α : Type} → Prog σ α → List String
  | _, .stmt tok _ => [tok]
  | _, .quiet _ => []
  | _, @Prog.bind _ _ _ inst p f => skel p ++ skel (f (@default _ inst))
  | _, .ite tok _ t _ => ["if " ++ tok ++ " {"] ++ skel t ++ ["}"]
  | _, .defer_ tok _ body => ["defer " ++ tok] ++ skel body
  | _, .closure body => ["func() {"] ++ skel body ++ ["}()"]
  | _, @Prog.range _ _ inst tok _ body => ["range " ++ tok ++ " {"] ++ skel (body (@default _ inst)) ++ ["}"]
  | _, .localFn tok body => [tok ++ " {"] ++ skel body ++ ["}"]

end Prog

instance : Inhabited WmStep := ⟨.done⟩

section programs
variable {σ : Type} (D : Device σ)
open Prog

/-- `prepareDevice` -/
def prepareDeviceP : Prog σ Unit :=
  .bind (.stmt "s.Conn.SendCmd(\"configure terminal\")" (sendCmd D confCmd)) fun _ =>
  .bind (.stmt "s.Conn.SendCmd(\"no logging console\")" (sendCmd D (lit "no logging console"))) fun _ =>
  .bind (.stmt "s.Conn.SendCmd(\"line vty 0 15\")" (sendCmd D (lit "line vty 0 15"))) fun _ =>
  .bind (.stmt "s.Conn.SendCmd(\"logging synchronous level all\")" (sendCmd D (lit "logging synchronous level all"))) fun _ =>
  .bind (.stmt "s.Conn.SendCmd(\"ip subnet-zero\")" (sendCmd D (lit "ip subnet-zero"))) fun _ =>
  .bind (.stmt "s.Conn.SendCmd(\"ip classless\")" (sendCmd D (lit "ip classless"))) fun _ =>
  .stmt "s.Conn.SendCmd(\"end\")" (sendCmd D endCmd)

/-- `sendReloadCmd` -/
def sendReloadCmdP (withDo : Bool) : Prog σ Unit :=
  .bind (.stmt "cmd := fmt.Sprintf(\"reload in %d\", reloadMinutes)" (pureM (σ := σ) ())) fun _ =>
  .bind (.ite "withDo" withDo (.quiet (pureM ())) (.quiet (pureM ()))) fun _ =>
  .bind (.stmt "out := s.Conn.IssueCmd(cmd, `\\[yes\\/no\\]:\\ |\\[confirm\\]`)"
          (issueCmd D (if withDo then doReloadCmd else reloadCmd) ynPat
            [(lit "[yes/no]: ", false), (lit "[confirm]", false)])) fun out =>
  .bind (.ite "strings.Contains(out, \"[yes/no]\")" (containsLit (lit "[yes/no]") out)
          (.bind (.stmt "s.Conn.IssueCmd(\"n\", `\\[confirm\\]`)"
                    (issueCmd D (lit "n") "\\[confirm\\]" [(lit "[confirm]", false)])) fun _ => .quiet (pureM ()))
          (.quiet (pureM ()))) fun _ =>
  .bind (.stmt "s.reloadActive = true" (setActive true)) fun _ =>
  .stmt "s.Conn.SendCmd(\"\")" (sendCmd D [])

def scheduleReloadP : Prog σ Unit := .stmt "s.sendReloadCmd(false)" (sendReloadCmd D false)
def extendReloadP : Prog σ Unit := .stmt "s.sendReloadCmd(true)" (sendReloadCmd D true)

/-- `cancelReload` -/
def cancelReloadP : Prog σ Unit :=
  .bind (.stmt "s.Conn.IssueCmd(\"reload cancel\", `--- SHUTDOWN ABORTED ---`)"
          (issueCmd D cancelCmd "--- SHUTDOWN ABORTED ---" [(lit "--- SHUTDOWN ABORTED ---", false)])) fun _ =>
  .bind (.stmt "s.Conn.WaitShort(`[#] ?$`)" (waitHashEnd (σ := σ))) fun _ =>
  .bind (.stmt "s.Conn.SendCmd(\"\")" (sendCmd D [])) fun _ =>
  .stmt "s.reloadActive = false" (setActive false)

/-- the closure `check` of `cmd` (code after the repair of F-C15: the flag is accumulated) -/
def checkP (ci : Str) : Prog σ Bool :=
  .bind (.stmt "out := s.Conn.GetOutput()" (getOutput (σ := σ))) fun out =>
  .bind (.stmt "out, need := s.stripReloadBanner(out)" (stripReloadBanner (σ := σ) out)) fun p =>
  .bind (.stmt "needReload = needReload || need" (pureM (σ := σ) ())) fun _ =>
  .bind (.stmt "out = s.Conn.StripEcho(ci, out)" (stripEcho (σ := σ) ci p.1)) fun o =>
  .bind (.ite "out != \"\"" (!o.isEmpty)
          (.bind (.quiet (forEach (warn (σ := σ) ci) (validOutput (splitOnNL o)).1)) fun _ =>
           .ite "!isValidOutput(ci, out)" (!(validOutput (splitOnNL o)).2)
             (.stmt "errlog.Abort(\"Got unexpected output from '%s':\\n%s\", ci, out)" (abortM (.unexpectedOutput ci o)))
             (.quiet (pureM ())))
          (.quiet (pureM ()))) fun _ =>
  .quiet (pureM p.2)

/-- `cmd` -/
def cmdP (c : Str) : Prog σ Unit :=
  .bind (.stmt "c1, c2, _ := strings.Cut(cmd, \"\\n\")" (pureM (σ := σ) ())) fun _ =>
  .bind (.stmt "s.Conn.Send(cmd)" (send D c)) fun _ =>
  .bind (.stmt "needReload := false" (pureM (σ := σ) ())) fun _ =>
  .bind (.localFn "check := func(ci)" (checkP (σ := σ) [])) fun _ =>
  .bind (.stmt "check(c1)" (Prog.denote (checkP (σ := σ) (cutNL c).1))) fun n1 =>
  .bind (.ite "c2 != \"\"" (!(cutNL c).2.isEmpty)
          (.bind (.stmt "check(c2)" (Prog.denote (checkP (σ := σ) (cutNL c).2))) fun n2 => .quiet (pureM (n1 || n2)))
          (.quiet (pureM n1))) fun need =>
  .ite "needReload" need (.stmt "s.extendReload()" (extendReload D)) (.quiet (pureM ()))

/-- `ApplyCommands` -/
def applyCommandsP (cs : List Str) : Prog σ Unit :=
  .bind (.stmt "s.Conn.SetLogFH(logFh)" (pureM (σ := σ) ())) fun _ =>
  .bind (.stmt "s.prepareDevice()" (prepareDevice D)) fun _ =>
  .bind (.closure
          (.bind (.stmt "s.scheduleReload()" (scheduleReload D)) fun _ =>
           .defer_ "s.cancelReload()" (cancelReload D)
            (.bind (.stmt "s.Conn.SendCmd(\"configure terminal\")" (sendCmd D confCmd)) fun _ =>
             .defer_ "s.Conn.SendCmd(\"end\")" (sendCmd D endCmd)
              (.range "s.Changes" cs fun chg => .stmt "s.cmd(chg)" (cmd D true chg))))) fun _ =>
  .bind (.stmt "s.writeMem()" (writeMem D 2)) fun _ =>
  .stmt "return nil" (pureM ())

end programs

end NA.Ios
