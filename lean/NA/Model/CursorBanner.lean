import NA.Model.Cursor
/-
C20, round 3 — `removeBanner` (ios/device.go) and `removeHeader` (nsx/parse.go): the two
`for { … }` loops that walk a byte slice by index.  Indices are explicit; every slice expression
has its bounds check; the loops carry fuel `len(data)+1` and running out of it is a `panic`, so
the no-panic theorems contain the termination proofs.
-/
namespace NA.C20.Banner
open NA.C20 NA.C20.Res

/-- `\s` of Go's regexp: `[\t\n\f\r ]`. -/
def reSpace (c : Char) : Bool := c = ' ' || c = '\t' || c = '\n' || c = '\x0c' || c = '\r'

/-- the regular expression `^banner\s\S+\s+(.)\S` applied to one line (with its "\n"):
the text of the first submatch.  After `banner` and ONE white space the longest run of
non-space is `\S+`; then the white space run; `(.)` is the character behind it if the next one
is non-space, else (backtracking) the last white space character of a run of at least two. -/
def bannerRe (line : Str) : Option Char :=
  if ¬ (lit "banner").isPrefixOf line then none else
  match line.drop 6 with
  | [] => none
  | s0 :: r0 =>
    if ¬ reSpace s0 then none else
    let word := r0.takeWhile (fun c => !reSpace c)
    let r1 := r0.dropWhile (fun c => !reSpace c)
    if word = [] then none else
    let ws := r1.takeWhile reSpace
    let r2 := r1.dropWhile reSpace
    if ws = [] then none else
    match r2 with
    | c1 :: c2 :: _ =>
      if !reSpace c2 then some c1
      else if 2 ≤ ws.length ∧ ws.getLast? ≠ some '\n' then ws.getLast? else none
    | [_] => if 2 ≤ ws.length ∧ ws.getLast? ≠ some '\n' then ws.getLast? else none
    | [] => none

/-- `bytes.Index(s, "\n")`. -/
def indexNl : Str → Option Nat
  | [] => none
  | c :: cs => if c = '\n' then some 0 else (indexNl cs).map (· + 1)

/-- the loop of `removeBanner`.  `data` is the original content (the Go code copies kept lines
to the front of the same slice; the write position `j = out.length` never overtakes the read
position `i`, which the model checks explicitly), `eb` = `endBanner`. -/
def loop (data : Str) : Nat → Nat → Str → Option Str → Res Str
  | 0, _, _, _ => .panic (.explicit "out of fuel: removeBanner does not terminate")
  | fuel + 1, i, out, eb =>
    if i ≤ data.length then                                        -- data[i:]
      match indexNl (data.drop i) with
      | none =>
        -- j += copy(data[j:], data[i:]); return data[:j]
        if out.length ≤ i then
          if (out ++ data.drop i).length ≤ data.length then .ok (out ++ data.drop i)
          else .panic (.slice "data[:j]")
        else .panic (.explicit "in-place copy overtakes the read position")
      | some k =>
        let e := i + k + 1
        if e ≤ data.length then                                    -- line := data[i:e]
          let line := (data.drop i).take (k + 1)
          match eb with
          | some endB => loop data fuel e out (if endB.isPrefixOf line then none else eb)
          | none =>
            match bannerRe line with
            | some c => loop data fuel e out (some [c])
            | none =>
              if out.length ≤ i then loop data fuel e (out ++ line) none   -- j += copy(data[j:], line)
              else .panic (.explicit "in-place copy overtakes the read position")
        else .panic (.slice "data[i:e]")
    else .panic (.slice "data[i:]")

/-- `removeBanner(data)`. -/
def removeBanner (data : Str) : Res Str := loop data (data.length + 1) 0 [] none

/-- `removeHeader` (nsx/parse.go): `for { if HasPrefix(data, "#") { i := IndexByte(data, '\n');
if i == -1 { return data[len(data):] }; data = data[i+1:] } else { return data } }`. -/
def removeHeader : Nat → Str → Res Str
  | 0, _ => .panic (.explicit "out of fuel: removeHeader does not terminate")
  | fuel + 1, data =>
    match data with
    | '#' :: _ =>
      match indexNl data with
      | none => .ok []
      | some i => if i + 1 ≤ data.length then removeHeader fuel (data.drop (i + 1)) else .panic (.slice "data[i+1:]")
    | _ => .ok data

end NA.C20.Banner
