import NA.Model.LinuxStr
/-
Model of `go/pkg/linux` (parse.go, diff.go, the printing part of device.go) for property C05.
Core Lean only; executable; mirrors what the code DOES.

* Go maps are association lists with unique keys (`setA` replaces in place or appends); every place
  where the Go code iterates a map in sorted key order does so here too; the one place where it
  iterates in map order and the order is observable (`diffIPTables`, F-C16d) yields ALL candidates.
* `errlog.Abort` is `Except.error` carrying the message text (without the `ERROR>>> ` marker).
-/
namespace NA.Linux

/-! ## association lists -/

def getA (k : Str) : List (Str × β) → Option β
  | [] => none
  | (k', v) :: r => if k' = k then some v else getA k r

def setA (k : Str) (v : β) : List (Str × β) → List (Str × β)
  | [] => [(k, v)]
  | (k', v') :: r => if k' = k then (k, v) :: r else (k', v') :: setA k v r

def eraseA (k : Str) : List (Str × β) → List (Str × β)
  | [] => []
  | (k', v') :: r => if k' = k then eraseA k r else (k', v') :: eraseA k r

def keysA (m : List (Str × β)) : List Str := m.map (·.1)

def hasA (k : Str) (m : List (Str × β)) : Bool := (getA k m).isSome

/-! ## routes (parse.go parseRoutes, diff.go diffRoutes) -/

structure Route where
  ip : Str
  plen : Int
  hop : Str
  orig : Str
  deriving DecidableEq, Repr, Inhabited

/-- `spec` of the Go code: (ip, prefix, hop). -/
abbrev RKey := Str × Int × Str
/-- `dst` of the Go code. -/
abbrev RDst := Str × Int

def Route.key (r : Route) : RKey := (r.ip, r.plen, r.hop)
def Route.dst (r : Route) : RDst := (r.ip, r.plen)
def RKey.dst (k : RKey) : RDst := (k.1, k.2.1)

/-- regexp ` proto (?:kernel|boot|[0-9]+)` (unanchored). -/
def matchProtoIgnored : Str → Bool
  | [] => false
  | x@(_ :: xs) =>
    (match cutPrefix x (s " proto ") with
     | some r => hasPrefix r (s "kernel") || hasPrefix r (s "boot") ||
                 (match r with | c :: _ => isDigit c | [] => false)
     | none => false) || matchProtoIgnored xs

def parseRoute (line : Str) : Except Str (Option Route) :=
  let bad : Except Str (Option Route) := .error (s "Unexpected route: " ++ line)
  match cutPrefix line (s "ip route add ") with
  | none => bad
  | some rest =>
    if contains rest (s " scope link") then .ok none
    else if matchProtoIgnored rest then .ok none
    else
      let words := fields rest
      match words with
      | w0 :: w1 :: w2 :: more =>
        if w1 ≠ s "via" then bad
        else if more.length > 0 && !(more.length == 2 && more.head? == some (s "dev")) then bad
        else
          let (ip, plen) : Str × Int :=
            match cutChar w0 '/' with
            | (a, b, true) => (a, atoiOrZero b)
            | _ => if w0 = s "default" then (s "0.0.0.0", 0) else (w0, 32)
          .ok (some { ip := ip, plen := plen, hop := w2, orig := line })
      | _ => bad

def parseRoutes : List Str → Except Str (List Route)
  | [] => .ok []
  | l :: ls => do
    let r ← parseRoute l
    let rs ← parseRoutes ls
    pure (match r with | some r => r :: rs | none => rs)

/-- One line of the route change script. -/
inductive RLine
  | add (r : Route)
  | repl (old new : Route)      -- `ip route del old` and `ip route add new` sent in one packet
  | del (r : Route)
  deriving DecidableEq, Repr

/-- The stable sort by descending prefix length (`slices.SortFunc` is insertion sort up to 12
elements; above that pdqsort may order equal prefixes differently — the theorems hold for every
order, the harness compares larger cases up to the order inside one prefix length). -/
def sortRoutes (b : List Route) : List Route := isort (fun r1 r2 => decide (r1.plen ≥ r2.plen)) b

/-- `aDstMap[d]`: the LAST route of `a` with destination `d`. -/
def lastWithDst (a : List Route) (d : RDst) : Option Route :=
  a.reverse.find? (fun r => r.dst = d)

/-- The loop over `b`; `am` is `aMap` (keys of `a` not yet matched or deleted). -/
def diffRoutesLoop (a : List Route) : List Route → List RKey → List RLine × List RKey
  | [], am => ([], am)
  | r :: rest, am =>
    if r.key ∈ am then diffRoutesLoop a rest (am.filter (· ≠ r.key))
    else
      let (line, am') : RLine × List RKey :=
        match lastWithDst a r.dst with
        | some r2 => if r2.key ∈ am then (.repl r2 r, am.filter (· ≠ r2.key)) else (.add r, am)
        | none => (.add r, am)
      let (ls, am'') := diffRoutesLoop a rest am'
      (line :: ls, am'')

def diffRoutesCore (a b : List Route) : List RLine :=
  let (ls, am) := diffRoutesLoop a b (a.map Route.key)
  ls ++ (a.filter (fun r => r.key ∈ am)).map RLine.del

/-- `if seen[r.spec] { continue }`: only the first occurrence of a (dst, hop) in the sorted target counts. -/
def dedupRoutes : List Route → List RKey → List Route
  | [], _ => []
  | r :: rs, seen => if r.key ∈ seen then dedupRoutes rs seen else r :: dedupRoutes rs (r.key :: seen)

def diffRoutes (a b : List Route) : List RLine := diffRoutesCore a (dedupRoutes (sortRoutes b) [])

def printDel (r : Route) : Str := replaceFirst r.orig (s "ip route add ") (s "ip route del ")

/-- A script line as `ShowChanges` prints it. -/
def RLine.show : RLine → Str
  | .add r => r.orig
  | .del r => printDel r
  | .repl o n => printDel o ++ s "\\N " ++ n.orig

/-! ## iptables (parse.go parseIPTables, normalizeIPTables) -/

abbrev Pairs := List (Str × Str)

structure Rule where
  orig : Str
  pairs : Pairs
  app : Bool
  deriving DecidableEq, Repr, Inhabited

structure Chain where
  policy : Str
  rules : List Rule := []
  deriving DecidableEq, Repr, Inhabited

abbrev Chains := List (Str × Chain)
abbrev Tables := List (Str × Chains)

def startsWithDash (w : Str) : Bool := w.head? == some '-'

/-- The negation test behind the key: `!` followed by a word that is not a key. -/
def negAfter (ws : List Str) : Bool × List Str :=
  match ws with
  | x :: y :: rest => if x = ['!'] && !startsWithDash y then (true, y :: rest) else (false, ws)
  | _ => (false, ws)

/-- Words up to the next key or negation are arguments. -/
def isArg (x : Str) : Bool := !startsWithDash x && x ≠ ['!']

/-- Hard coded special case: `[!] --tcp-flags FIN,SYN,RST,ACK SYN` ==> `[!] --syn`
(`neg` is the negation mark, `joined` the arguments). -/
def fixSyn (key neg joined : Str) : Str × Str :=
  if key = s "--tcp-flags" ∧ joined = s "FIN,SYN,RST,ACK SYN" then (s "--syn", neg) else (key, neg ++ joined)

/-- One option behind its (possibly negated) key: the entry and the remaining words. -/
def readOpt (neg1 : Bool) (key : Str) (ws1 : List Str) : (Str × Str) × List Str :=
  let na := negAfter ws1
  let args := na.2.takeWhile isArg
  (fixSyn key (if neg1 || na.1 then ['!'] else []) (joinWith [' '] args), na.2.dropWhile isArg)

/-- The option loop of `parseIPTables` over the words behind `-A chain`.
Error: the trailing `!`.  `fuel` ≥ number of words. -/
def parsePairsAux : Nat → List Str → Pairs → Option Pairs
  | 0, _, acc => some acc
  | _ + 1, [], acc => some acc
  | fuel + 1, w :: ws, acc =>
    if w = ['!'] then
      -- key preceded by negation
      match ws with
      | [] => none
      | k :: ws' =>
        let r := readOpt true k ws'
        parsePairsAux fuel r.2 (setA r.1.1 r.1.2 acc)
    else
      let r := readOpt false w ws
      parsePairsAux fuel r.2 (setA r.1.1 r.1.2 acc)

def parsePairs (ws : List Str) : Option Pairs := parsePairsAux (ws.length + 1) ws []

def normAddr (v : Str) : Str := (cutSuffix v (s "/32")).getD v

/-- Lowercase protocol names; numbers for some protocol names. -/
def normProto (v : Str) : Str :=
  let v := lower v
  if v = s "vrrp" then s "112" else if v = s "ipv6-icmp" then s "58" else v

def normPort (v : Str) : Str :=
  let v := trimLeft0 v
  match cutSuffix v (s ":65535") with
  | some b => b ++ [':']
  | none => v

/-- RELATED,ESTABLISHED -> ESTABLISHED,RELATED -/
def normState (v : Str) : Str := joinWith [','] (sortStrs (splitChar v ','))

/-- Lower case, default mask ignored, hex to decimal. -/
def normMark (v : Str) : Str :=
  let v := lower v
  let v := (cutSuffix v (s "/0xffffffff")).getD v
  match parseInt32 v with
  | some i => intToStr i
  | none => v

def normLog (v : Str) : Str := if v = s "debug" then s "7" else v

/-- The per-key rewriting in the `for k, v := range pairs` loop. -/
def normVal (k v : Str) : Str :=
  if k = s "-s" ∨ k = s "-d" then normAddr v
  else if k = s "-p" then normProto v
  else if k = s "--sport" ∨ k = s "--dport" then normPort v
  else if k = s "--state" then normState v
  else if k = s "--set-mark" then normMark v
  else if k = s "--log-level" then normLog v
  else v

/-- `normalizeIPTables`. -/
def normalize (p : Pairs) : Pairs :=
  let p := match getA (s "-m") p with
    | some v => if equalFold v ((getA (s "-p") p).getD []) then eraseA (s "-m") p else p
    | none => p
  let p := match getA (s "--set-xmark") p with
    | some v =>
      let (_, mask, found) := cutChar v '/'
      if !found || lower mask = s "0xffffffff" then setA (s "--set-mark") v (eraseA (s "--set-xmark") p) else p
    | none => p
  p.map fun (k, v) => (k, normVal k v)

structure PState where
  tb : Tables := []
  cur : Option Str := none
  app : Bool := false
  deriving Repr

/-- One (already non-empty, trimmed) line of `parseIPTables`. -/
def parseIptLine (st : PState) (line : Str) : Except Str PState :=
  match line with
  | [] => .ok st
  | '#' :: _ => .ok st      -- comment line of iptables-save
  | '*' :: name =>
    if hasA name st.tb then .error (s "Duplicate definition of table " ++ goQuote name)
    else .ok { tb := setA name [] st.tb, cur := some name, app := false }
  | ':' :: rest =>
    match st.cur with
    | none => .error (s "Found chain policy outside of table: " ++ goQuote line)
    | some t =>
      match fields rest with
      | name :: policy :: _ =>
        let cm := (getA t st.tb).getD []
        if hasA name cm then .error (s "Duplicate definition of chain " ++ goQuote name)
        else .ok { st with tb := setA t (setA name { policy := policy } cm) st.tb }
      | _ => .ok st
  | '-' :: _ =>
    match st.cur with
    | none => .error (s "Found rule outside of table: " ++ goQuote line)
    | some t =>
      let words := fields line
      match words with
      | [] => .ok st   -- unreachable: the line starts with '-'
      | w0 :: more =>
        if w0 ≠ s "-A" then .error (s "Unsupported command " ++ goQuote w0)
        else match more with
          | [] => .error (s "Incomplete command " ++ goQuote line)
          | name :: ws =>
            let cm := (getA t st.tb).getD []
            match getA name cm with
            | none => .error (s "Must define policy before adding rules of chain " ++ goQuote name)
            | some ch =>
              match parsePairs ws with
              | none => .error (s "Unexpected trailing '!' in line\n " ++ line)
              | some pairs =>
                let ru : Rule := { orig := line, pairs := normalize pairs, app := st.app }
                .ok { st with tb := setA t (setA name { ch with rules := ch.rules ++ [ru] } cm) st.tb }
  | _ =>
    if line = s "[APPEND]" then .ok { st with app := true }
    else if line = s "COMMIT" then .ok st
    else .error (s "Unknown command: " ++ goQuote line)

def parseIPTablesAux : List Str → PState → Except Str PState
  | [], st => .ok st
  | l :: ls, st => do
    let st' ← parseIptLine st (trimSpace l)
    parseIPTablesAux ls st'

def parseIPTables (lines : List Str) : Except Str Tables := do
  let st ← parseIPTablesAux lines {}
  pure st.tb

structure Config where
  routes : List Route
  iptables : Tables
  deriving Repr

/-- `ParseConfig`: split into route lines and the rest, parse both. -/
def parseConfig (data : Str) : Except Str Config := do
  let lines := (splitChar data '\n').map trimSpace
  let lines := lines.filter (fun l => !(l.isEmpty || l.head? == some '#'))
  let rLines := lines.filter (fun l => hasPrefix l (s "ip route"))
  let tLines := lines.filter (fun l => !hasPrefix l (s "ip route"))
  let routes ← parseRoutes rLines
  let tb ← parseIPTables tLines
  pure { routes := routes, iptables := tb }

/-! ## diff.go diffIPTables -/

inductive IptDiff
  | same
  | tables (aExtra bExtra : List Str)
  | chains (t : Str) (aExtra bExtra : List Str)
  | policy (t c pa pb : Str)
  | size (t c : Str) (na nb : Nat)
  | options (t c : Str) (i : Nat) (aExtra bExtra : List Str)
  /-- every key whose values differ, in sorted key order; the code reports whichever its map
  iteration meets first (F-C16d) -/
  | values (t c : Str) (i : Nat) (cands : List (Str × Str × Str))
  deriving DecidableEq, Repr

/-- `getExtra(a, b)`: sorted keys of `a` missing in `b`. -/
def getExtra (a : List (Str × α)) (b : List (Str × β)) : List Str :=
  (sortStrs (keysA a)).filter (fun k => !hasA k b)

def commaJoin (l : List Str) : Str := joinWith [','] l

/-- `checkExtra`: none if the key sets agree.  As in the Go code the test is made on the JOINED
names (`aExtra != "" || bExtra != ""`), so a single extra key that is the empty string (a line `*`
declares a table with the empty name) goes unnoticed. -/
def checkExtra (a : List (Str × α)) (b : List (Str × β)) : Option (List Str × List Str) :=
  let ae := getExtra a b
  let be := getExtra b a
  if (commaJoin ae).isEmpty && (commaJoin be).isEmpty then none else some (ae, be)

def diffRule (t c : Str) (i : Nat) (a b : Pairs) : IptDiff :=
  match checkExtra a b with
  | some (ae, be) => .options t c i ae be
  | none =>
    let cands := (sortStrs (keysA a)).filterMap fun k =>
      let v := (getA k a).getD []
      let v2 := (getA k b).getD []
      if v2 ≠ v then some (k, v, v2) else none
    if cands.isEmpty then .same else .values t c i cands

def diffRules (t c : Str) : Nat → List Rule → List Rule → IptDiff
  | i, ra :: as, rb :: bs =>
    match diffRule t c i ra.pairs rb.pairs with
    | .same => diffRules t c (i + 1) as bs
    | d => d
  | _, _, _ => .same

def diffChain (t c : Str) (a b : Chain) : IptDiff :=
  if a.policy ≠ b.policy then .policy t c a.policy b.policy
  else if a.rules.length ≠ b.rules.length then .size t c a.rules.length b.rules.length
  else diffRules t c 0 a.rules b.rules

/-- A loop that returns at the first difference. -/
def firstDiff (f : α → IptDiff) : List α → IptDiff
  | [] => .same
  | x :: xs => match f x with
    | .same => firstDiff f xs
    | d => d

def diffTable (t : Str) (a b : Chains) : IptDiff :=
  match checkExtra a b with
  | some (ae, be) => .chains t ae be
  | none => firstDiff (fun c => diffChain t c ((getA c a).getD default) ((getA c b).getD default)) (sortStrs (keysA a))

def diffIPTables (a b : Tables) : IptDiff :=
  match checkExtra a b with
  | some (ae, be) => .tables ae be
  | none => firstDiff (fun t => diffTable t ((getA t a).getD []) ((getA t b).getD [])) (sortStrs (keysA a))

/-! ## device.go getIPTablesConfig, ShowChanges -/

/-- A line of the iptables-restore file, structured. -/
inductive FLine
  | table (name : Str)
  | chain (name policy : Str)
  | rule (chain : Str) (orig : Str)
  | commit
  deriving DecidableEq, Repr

def FLine.show : FLine → Str
  | .table n => '*' :: n
  | .chain n p => ':' :: n ++ [' '] ++ p
  | .rule _ o => o
  | .commit => s "COMMIT"

def tableLines (t : Str) (cm : Chains) : List FLine :=
  let cNames := sortStrs (keysA cm)
  [FLine.table t] ++
  cNames.map (fun c => FLine.chain c ((getA c cm).getD default).policy) ++
  cNames.flatMap (fun c => ((getA c cm).getD default).rules.map (fun r => FLine.rule c r.orig)) ++
  [FLine.commit]

/-- `getIPTablesConfig`. -/
def getIPTablesConfig (tb : Tables) : List FLine :=
  (sortStrs (keysA tb)).flatMap fun t => tableLines t ((getA t tb).getD [])

/-- The candidate first lines of the iptables part of the change script (one candidate except for
the map-order dependent case). -/
def IptDiff.show : IptDiff → List Str
  | .same => []
  | .tables ae be => [s "iptables differs at [tables: " ++ commaJoin ae ++ s "<->" ++ commaJoin be ++ s "]"]
  | .chains t ae be =>
    [s "iptables differs at " ++ t ++ s ": [chains: " ++ commaJoin ae ++ s "<->" ++ commaJoin be ++ s "]"]
  | .policy t c pa pb =>
    [s "iptables differs at " ++ t ++ [':'] ++ c ++ s ":POLICY:[" ++ pa ++ s "<->" ++ pb ++ s "]"]
  | .size t c na nb =>
    [s "iptables differs at " ++ t ++ [':'] ++ c ++ s ":RULES:[size: " ++ natToStr na ++ s "<->" ++ natToStr nb ++ s "]"]
  | .options t c i ae be =>
    [s "iptables differs at " ++ t ++ [':'] ++ c ++ s ":RULES:" ++ natToStr i ++ s ":[options: " ++
      commaJoin ae ++ s "<->" ++ commaJoin be ++ s "]"]
  | .values t c i cands => cands.map fun (k, v, v2) =>
    s "iptables differs at " ++ t ++ [':'] ++ c ++ s ":RULES:" ++ natToStr i ++ [':'] ++ k ++ s ":[" ++ v ++ s "<->" ++ v2 ++ s "]"

structure Change where
  routes : List RLine
  ipt : IptDiff
  newTables : Tables

/-- `diffConfig`. -/
def diffConfig (a b : Config) : Change :=
  { routes := diffRoutes a.routes b.routes, ipt := diffIPTables a.iptables b.iptables, newTables := b.iptables }

/-- `ShowChanges`: the route lines, then (candidates for) the iptables line, then the rest. -/
def Change.show (ch : Change) : List Str × List Str × List Str :=
  (ch.routes.map RLine.show,
   ch.ipt.show,
   if ch.ipt = .same then [] else
     [s "#!/sbin/iptables-restore", s "# Generated by NetSPoC"] ++ (getIPTablesConfig ch.newTables).map FLine.show)

/-- `getDeviceRoutes`: the output of `ip route show`, split into lines, a trailing empty line dropped,
`ip route add ` put in front of every line. -/
def deviceRoutes (out : Str) : Except Str (List Route) :=
  let lines := splitChar out '\n'
  let lines := if lines.getLast? = some [] then lines.dropLast else lines
  parseRoutes (lines.map (s "ip route add " ++ ·))

/-- `getDeviceIPTables`: the output of `iptables-save`, line by line (comment lines and all). -/
def deviceIPTables (out : Str) : Except Str Tables := parseIPTables (splitChar out '\n')

/-- `LoadDevice` (the part after the login): iptables first, then routes. -/
def loadDevice (iptOut routeOut : Str) : Except Str Config := do
  let tb ← deviceIPTables iptOut
  let routes ← deviceRoutes routeOut
  pure { routes := routes, iptables := tb }

/-- `drc -C FILE` / `drc FILE` against a device: what `GetChanges` computes. -/
def compareDevice (iptOut routeOut spoc : Str) : Except Str Change := do
  let a ← loadDevice iptOut routeOut
  let b ← parseConfig spoc
  pure (diffConfig a b)

/-- `drc FILE_DEVICE FILE_NETSPOC` without raw and ipv6 files (`MergeSpoc` with an empty
configuration is the identity). -/
def compareFiles (dev spoc : Str) : Except Str Change := do
  let a ← parseConfig dev
  let b ← parseConfig spoc
  pure (diffConfig a b)

end NA.Linux
