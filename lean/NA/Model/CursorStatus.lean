import NA.Model.Cursor
/-
C20, audit follow-up — the status file as BYTES: what `encoding/json` makes of them when
`status.Read` decodes into `struct{Approve, Compare action}`, what `missing-approve` (`check`)
and `status.SetApprove/SetCompare` (do-approve) then do.

The byte level (is it syntactically JSON?) is `encoding/json`'s `checkValid` and is trusted; the
model starts at the JSON VALUE (or "not JSON") and reproduces the decoding rules that decide
what arrives in the struct: top-level value of the wrong kind, `null`, unknown keys, keys in
another case, duplicate keys, fields of the wrong type, numbers that are no int64.
The Go code never indexes or dereferences the decoded value (the struct has no pointer, slice or
map); the only `panic(` is `panic(err)` in `status.write` when the file cannot be written.
-/
namespace NA.C20.Status
open NA.C20 NA.C20.Res

/-- a JSON value as far as decoding into `status` looks at it: one level below the two actions. -/
inductive Scalar
  | null | bool (b : Bool) | num (literal : Str) | str (s : Str) | arr | obj
  deriving Repr, DecidableEq

inductive Field
  | null | bool | num | str | arr
  | obj (kvs : List (Str × Scalar))
  deriving Repr

inductive Top
  | notJSON                         -- `checkValid` fails: SyntaxError, nothing is decoded
  | null | bool | num | str | arr   -- valid JSON of the wrong kind: UnmarshalTypeError / no-op
  | obj (kvs : List (Str × Field))
  deriving Repr

structure Action where
  result : Str := []
  policy : Str := []
  time : Int := 0
  deriving Repr, DecidableEq

structure St where
  approve : Action := {}
  compare : Action := {}
  deriving Repr, DecidableEq

def lower (c : Char) : Char := if 'A' ≤ c ∧ c ≤ 'Z' then Char.ofNat (c.toNat + 32) else c

/-- `encoding/json` matches a key with a struct field exactly or ignoring (ASCII) case. -/
def keyIs (key : Str) (field : String) : Bool := key.map lower = field.toList

/-- a JSON number literal fits an int64 field: integer syntax (no fraction, no exponent), in range. -/
def int64Of (literal : Str) : Option Int :=
  let (neg, d) := match literal with
    | '-' :: r => (true, r)
    | r => (false, r)
  if d = [] ∨ ¬ d.all isDigit then none
  else
    let v : Int := if neg then -(digitsVal d : Int) else digitsVal d
    if v > 9223372036854775807 ∨ v < -9223372036854775808 then none else some v

/-- one key of an action object. -/
def stepAction (a : Action) (kv : Str × Scalar) : Action :=
  if keyIs kv.1 "result" then
    match kv.2 with
    | .str s => { a with result := s }
    | _ => a                                  -- null: no-op; other kinds: UnmarshalTypeError, skipped
  else if keyIs kv.1 "policy" then
    match kv.2 with
    | .str s => { a with policy := s }
    | _ => a
  else if keyIs kv.1 "time" then
    match kv.2 with
    | .num l => match int64Of l with
      | some v => { a with time := v }
      | none => a
    | _ => a
  else a

def decodeAction (a : Action) : Field → Action
  | .obj kvs => kvs.foldl stepAction a
  | _ => a

def stepTop (s : St) (kv : Str × Field) : St :=
  if keyIs kv.1 "approve" then { s with approve := decodeAction s.approve kv.2 }
  else if keyIs kv.1 "compare" then { s with compare := decodeAction s.compare kv.2 }
  else s

/-- `json.Unmarshal(data, &v)` with the error ignored, `v` starting as the zero value. -/
def decode : Top → St
  | .obj kvs => kvs.foldl stepTop {}
  | _ => {}

/-- `status.Read`: a missing / unreadable file gives `data = nil`, which is not JSON. -/
def read (readable : Bool) (t : Top) : St := if readable then decode t else {}

/-- what `check` of missing-approve does with the device. -/
inductive Verdict
  | listed                       -- printed
  | upToDate                     -- device's policy is the current one
  | compareCode (policy : Str)   -- compare the code files of that policy with the current ones
  deriving Repr, DecidableEq

def check (v : St) (current : Str) : Verdict :=
  let (dp, atm) : Str × Int :=
    if v.approve.result = lit "OK" ∨ v.approve.result = lit "WARNINGS" then (v.approve.policy, v.approve.time)
    else ([], 0)
  let dp2 : Str :=
    if atm < v.compare.time then
      if v.compare.result = lit "UPTODATE" then v.compare.policy
      else if v.compare.result = lit "DIFF" then []
      else dp
    else dp
  if dp2 = [] then .listed else if dp2 = current then .upToDate else .compareCode dp2

/-- `status.SetApprove` / `SetCompare` followed by `write`: `panic(err)` iff the file cannot be
written (pinned by ios_simul.t "do-approve approve: can't write status directory"). -/
def setApprove (v : St) (policy : Str) (failed : Bool) (now : Int) (writable : Bool) : Res St :=
  let v1 : St :=
    if failed ∧ v.approve.time > v.compare.time ∧
        (v.approve.result = lit "OK" ∨ v.approve.result = lit "WARNINGS") then
      { v with compare := ⟨lit "UPTODATE", v.approve.policy, v.approve.time⟩ }
    else v
  if writable then .ok { v1 with approve := ⟨if failed then lit "FAILED" else lit "OK", policy, now⟩ }
  else .panic (.explicit "panic(err) // status.write")

def setCompare (v : St) (policy : Str) (changed : Bool) (now : Int) (writable : Bool) : Res St :=
  if ¬ changed then
    if writable then .ok { v with compare := ⟨lit "UPTODATE", policy, now⟩ } else .panic (.explicit "panic(err) // status.write")
  else if v.compare.result ≠ lit "DIFF" ∨ v.compare.time < v.approve.time then
    if writable then .ok { v with compare := ⟨lit "DIFF", policy, now⟩ } else .panic (.explicit "panic(err) // status.write")
  else .ok v

end NA.C20.Status
