import NA.Model.Gate
/-
The programs: one `Prog` per Go function on the approve / compare path, written so that
`skel 0 prog` is exactly the skeleton that `translate/gateskel` extracts from the Go source
(theorem `skeleton_matches` in NA/Props/C06.lean).  Anchors: go/pkg/device/main.go,
cisco/device.go, asa/device.go, ios/device.go, linux/device.go, panos/device.go,
panos/config.go, nsx/device.go, httpdevice/device.go.

Not modelled (notes only): credentials lookup, log files, parsing of Netspoc files, the
NSX paging loops (`?cursor=` follow-ups and the per-policy GETs), the PAN-OS commit polling
beyond one poll, deferred clean-up of IOS ApplyCommands (C09 / C15 own those).
-/
namespace NA.Gate

def errRet (t : String) : Prog := .note "guard" "err != nil" ;; .block (.note "ret" t)

/-- A pure helper of the Go code (parsing, decoding, comparison of configurations): the model gives
it a meaning (`body`), the normal form of the skeleton does not show the call. -/
abbrev pureCall (body : Prog) : Prog := .call "" body

/-! Regular expressions of the login dialogues (Go raw strings; constants are folded by the
translator, so the requests show the whole expression). -/
def ciscoStdPrompt : String := "\\n\\r?[^#> ]+[>#] ?$"
def linuxStdPrompt : String := "\\r\\n\\S*\\s?[%>$#]\\s?(?:\\x27\\S*)?"
def linuxPassPrompt : String := linuxStdPrompt ++ "|(?i)password:"

def isText : Reply → Bool
  | .text _ => true
  | _ => false

def missingBanner : String := "Missing banner at NetSPoC managed device"
def wrongName : String := "Wrong device name"

/-- `out := <reply>` / `out = <reply>` -/
def outDecl : Prog := .assign .out true false .reply
def outSet : Prog := .assign .out false false .reply
/-- `out := <reply>` in LoadDevice, where the connection handle of the inlined GetSSHConn is the first
reply variable: the variable prints as `r2` -/
def cfgDecl : Prog := .assign .out true true .reply ;; .note "assign" "r2 := <reply>"

/-! ## cisco (ASA, IOS) -/

/-- `strings.HasSuffix(out, suffix)` after `out = strings.TrimSuffix(out, " ")` -/
def sufOut (suf : String) : Pred := .hasSuffix (.v .out) suf

/-- body of the closure `waitPrompt(enter, suffix)` -/
def wpBody (o : Out) : Prog :=
  .send "IssueCmd" ("c1p1 " ++ goQuote ("(?i)password:|" ++ ciscoStdPrompt)) o .abort ;; outSet ;;
  .collect "v1 = v1 + r1" ;;
  .assign .out false false (.trimSuffix (.v .out) " ") ;;
  .note "ret" "strings.HasSuffix(r1, c1p2)"

/-- `checkBanner(lines, cfg)`: the parameter `lines` is bound to `bannerLines` -/
def ciscoCheckBanner : Prog :=
  .assign .lines true true .bannerLines ;;
  .record (.and .bannerSet (.bannerNoMatch (.v .lines)))
    "recv.errUnmanaged = []error{errors.New(\"Missing banner at NetSPoC managed device\")}" .set
    (fun _ _ => [missingBanner])

/-- `strings.HasSuffix(strings.ToLower(out), "password:")` -/
def askedForPassword : Pred := .hasSuffix (.toLower (.v .out)) "password:"

/-- `LoginEnable` up to (not including) the call of `checkBanner`. -/
def ciscoLoginPre : Prog :=
  .send "WaitLogin" (goQuote "(?i)password:|\\(yes/no.*\\)\\?") .wait .abort ;; outDecl ;;
  .ite (.hasSuffix (.v .out) "?")
    (.send "IssueCmd" "\"yes\" \"(?i)password:\"" (.lit "yes") .abort ;; outSet) .nop ;;
  .collect "v1 = v1 + r1" ;;
  .defn "f1" (wpBody (.lit "<enter>")) ;;
  .call "f1" (wpBody .pass) ;;
  .ite (.val "f1(p1, \">\")" (sufOut ">"))
    (.call "f1" (wpBody (.lit "enable")) ;;
     .ite (.not (.val "f1(\"enable\", \"#\")" (sufOut "#")))
       -- `if !strings.HasSuffix(strings.ToLower(out), "password:") || !waitPrompt(pass, "#") { Abort }`:
       -- `||` short-circuits, the password is sent only if the device asks for one.  The steps are
       -- inside the call node; the guard is shown in the form printed from the same predicates.
       (.call "f1"
          (.ite askedForPassword
             (wpBody .pass ;;
              .check (.not (.val "f1(p1, \"#\")" (sufOut "#"))) "abort"
                "Authentication for enable mode failed" (.abort "Authentication for enable mode failed"))
             (.check (.not askedForPassword) "abort" "Authentication for enable mode failed"
                (.abort "Authentication for enable mode failed"))) ;;
        .note "guard" (Pred.or (.not askedForPassword) (.not (.val "f1(p1, \"#\")" (sufOut "#")))).show ;;
        .block (.note "abort" "Authentication for enable mode failed"))
       .nop)
    (.check (.not (.hasSuffix (.v .out) "#")) "abort" "Authentication failed"
      (.abort "Authentication failed")) ;;
  .send "IssueCmd" "\"\" \"#[ ]?\"" (.lit "") .abort ;; outSet

def ciscoLoginEnable : Prog := ciscoLoginPre ;; .call "checkBanner" ciscoCheckBanner

def ciscoGetChanges : Prog :=
  pureCall
    (.check (.opaque "" fun c r _ => (c.changesErr r).isSome) "ret" "err" (.fail "GetChanges: interface check")) ;;
  errRet "err" ;;
  .note "ret" "nil"

def parseConfig : Prog :=
  .check (.opaque "" fun c r _ => match r with | .text s => !c.parses s | _ => true) "ret" "err"
    (.fail "While reading device: parse error")

/-- `console.GetSSHConn` (inlined by the translator: it is the only thing between the credentials
and the login dialogue that touches the wire) -/
def sshConn : Prog :=
  errRet "nil, err" ;;
  .send "SpawnWithArgs" "" .connect .fail ;; .note "assign" "r1, _, err := <reply>"

def asaSetTerminal : Prog :=
  .send "GetCmdOutput" "\"sh pager\"" (.lit "sh pager") .abort ;; outDecl ;;
  .ite (.not (.contains (.v .out) "no pager"))
    (.send "SendCmd" "\"terminal pager 0\"" (.lit "terminal pager 0") .abort) .nop ;;
  .send "GetCmdOutput" "\"sh term\"" (.lit "sh term") .abort ;; outSet ;;
  .ite (.not (.contains (.v .out) "511"))
    (.send "SendCmd" "\"configure terminal\"" (.lit "configure terminal") .abort ;;
     .send "SendCmd" "\"terminal width 511\"" (.lit "terminal width 511") .abort ;;
     .send "SendCmd" "\"end\"" (.lit "end") .abort) .nop

def asaLogVersion : Prog := .send "GetCmdOutput" "\"sh ver\"" (.lit "sh ver") .abort

/-- `if name != out { errlog.Abort("Wrong device name …") }` -/
def nameCheck : Prog :=
  .check (.ne .name (.v .out)) "abort" "Wrong device name: %q, expected: %q" (.abort wrongName)

def asaCheckDeviceName : Prog :=
  .send "GetCmdOutput" "\"show hostname\"" (.lit "show hostname") .abort ;; outDecl ;;
  .assign .out false false (.trimSuffix (.v .out) "\n") ;;
  nameCheck

def ciscoPreLogin : Prog :=
  errRet "nil, err" ;;
  sshConn ;; errRet "nil, err"

def asaPostLogin : Prog :=
  .call "setTerminal" asaSetTerminal ;;
  .call "logVersion" asaLogVersion ;;
  .call "checkDeviceName" asaCheckDeviceName ;;
  .send "GetCmdOutput" "\"write term\"" (.lit "write term") .abort ;; cfgDecl ;;
  pureCall parseConfig ;; .note "assign" "v1, err ⇐ r2" ;;
  .note "ret" "v1, err"

def asaLoadDevice : Prog := ciscoPreLogin ;; .call "LoginEnable" ciscoLoginEnable ;; asaPostLogin

def iosSetTerminal : Prog :=
  .send "SendCmd" "\"term len 0\"" (.lit "term len 0") .abort ;;
  .send "SendCmd" "\"term width 512\"" (.lit "term width 512") .abort

def iosLogVersion : Prog := .send "GetCmdOutput" "\"sh ver\"" (.lit "sh ver") .abort

def iosCheckDeviceName : Prog :=
  .send "IssueCmd" "\"\" \"#[ ]?\"" (.lit "") .abort ;;
  .assign .out true false (.trimSpace .reply) ;;
  .assign .out false false (.trimSuffix (.v .out) "#") ;;
  nameCheck

def iosPostLogin : Prog :=
  .call "setTerminal" iosSetTerminal ;;
  .call "logVersion" iosLogVersion ;;
  .call "checkDeviceName" iosCheckDeviceName ;;
  .send "GetCmdOutput" "\"sh run\"" (.lit "sh run") .abort ;; cfgDecl ;;
  pureCall parseConfig ;; .note "assign" "v1, err ⇐ r2" ;;
  .note "ret" "v1, err"

def iosLoadDevice : Prog := ciscoPreLogin ;; .call "LoginEnable" ciscoLoginEnable ;; iosPostLogin

/-! ## Linux -/

def linuxLoginEnable : Prog :=
  .send "WaitLogin" (goQuote (linuxPassPrompt ++ "|\\(yes/no.*\\)\\?")) .wait .abort ;; outDecl ;;
  .ite (.hasSuffix (.v .out) "?")
    (.send "IssueCmd" ("\"yes\" " ++ goQuote linuxPassPrompt) (.lit "yes") .abort ;; outSet) .nop ;;
  .ite (.hasSuffix (.v .out) "word:")
    (.send "IssueCmd" ("p1 " ++ goQuote linuxPassPrompt) .pass .abort ;; outSet) .nop ;;
  .check (.hasSuffix (.v .out) "word:") "abort" "Authentication failed" (.abort "Authentication failed") ;;
  .send "IssueCmd" ("\"PS1=router#\" " ++ goQuote linuxStdPrompt) (.lit "PS1=router#") .abort

def linuxLogVersion : Prog :=
  .send "GetCmdOutput" "\"uname -r\"" (.lit "uname -r") .abort ;;
  .send "GetCmdOutput" "\"uname -m\"" (.lit "uname -m") .abort

def linuxCheckDeviceName : Prog :=
  .send "GetCmdOutput" "\"hostname -s\"" (.lit "hostname -s") .abort ;; outDecl ;;
  .assign .out false false (.trimSuffix (.v .out) "\n") ;;
  nameCheck

def linuxGrep (cfg : Cfg) : Prog :=
  .send "GetCmdOutput" ("\"grep '\" + " ++ TExp.re.show ++ " + \"' /etc/issue\"") (.litArg "grep '" cfg.bannerSrc) .abort ;;
  .assign .out true false .reply ;;
  .record (.isEmpty (.v .out))
    "recv.errUnmanaged = []error{errors.New(\"Missing banner at NetSPoC managed device\")}" .set
    (fun _ _ => [missingBanner])

/-- `checkBanner` as it is now (with the nil guard of the `fix:` commit). -/
def linuxCheckBanner (cfg : Cfg) : Prog :=
  .early .bannerUnset "" (linuxGrep cfg)

/-- `checkBanner` of the unchanged tree: `cfg.CheckBanner.String()` on a nil regexp. -/
def linuxCheckBannerUnfixed (cfg : Cfg) : Prog :=
  .crash "cfg.CheckBanner.String(): nil pointer dereference" (fun c => c.banner.isNone) ;;
  linuxGrep cfg

def linuxGetIPTables : Prog :=
  .send "GetCmdOutput" "\"iptables-save\"" (.lit "iptables-save") .abort ;; outDecl ;;
  .note "ret" "parseIPTables(…)"

def linuxGetRoutes : Prog :=
  .send "GetCmdOutput" "\"ip route show\"" (.lit "ip route show") .abort ;; outDecl ;;
  .note "ret" "parseRoutes(…)"

def linuxPreBanner : Prog :=
  errRet "nil, err" ;;
  sshConn ;; errRet "nil, err" ;;
  .call "loginEnable" linuxLoginEnable ;;
  .call "logVersion" linuxLogVersion ;;
  .call "checkDeviceName" linuxCheckDeviceName

def linuxPostBanner : Prog :=
  .call "getDeviceIPTables" linuxGetIPTables ;;
  .call "getDeviceRoutes" linuxGetRoutes ;;
  .note "ret" "&config{iptables: recv.getDeviceIPTables(), routes: recv.getDeviceRoutes()}, err"

def linuxLoadDeviceWith (checkBanner : Prog) : Prog :=
  linuxPreBanner ;; .call "checkBanner" checkBanner ;; linuxPostBanner

def linuxLoadDevice (cfg : Cfg) : Prog := linuxLoadDeviceWith (linuxCheckBanner cfg)

def linuxGetChanges : Prog := .note "ret" "nil"

/-! ## PAN-OS -/

def panKeygen : Out := .lit "type=keygen"
def panHa : Out := .lit "type=op&cmd=<show><high-availability><state/></high-availability></show>"
def panConf : Out := .lit "type=config&action=get&xpath=/config/devices"

def panGetAPIKey : Prog :=
  errRet "\"\", err" ;;
  .send "httpGet" "v1" panKeygen .fail ;; .note "assign" "r1, err := <reply>" ;;
  errRet "\"\", Errorf(…)" ;;
  pureCall
    (.check (.opaque "" fun _ r _ => !isText r) "ret" "err" (.fail "API key: no key")) ;;
  .note "ret" "parseAPIKey(…)"

/-- `checkHA` returns false on any error; true iff HA is off or this is the active member. -/
def haOK : Reply → Bool
  | .ha e m s =>
    if e != "yes" then true
    else if m == "Active-Passive" then s == "active"
    else if m == "Active-Active" then s == "active-primary"
    else false
  | _ => false

def outText : Out → String
  | .lit s => s
  | _ => ""

def panCheckHA : Prog :=
  .send "httpPrefixGetLog" (goQuote (outText panHa)) panHa .ignore ;; .note "assign" "r1, err := <reply>" ;;
  errRet "false" ;;
  .note "assign" "_, v1, err ⇐ r1" ;;
  errRet "false" ;;
  .note "assign" "err, v2 ⇐ v1" ;;
  errRet "false" ;;
  .note "guard" "v2.Enabled != \"yes\"" ;; .block (.note "ret" "true") ;;
  -- `switch ha.Mode` = dispatch on constants: one guard per branch, sorted by the test
  .note "guard" "v2.Mode == \"Active-Active\"" ;; .block (.note "ret" "v2.State == \"active-primary\"") ;;
  .note "guard" "v2.Mode == \"Active-Passive\"" ;; .block (.note "ret" "v2.State == \"active\"") ;;
  .note "ret" "false"

/-- the closure passed to TryReachableHTTPLogin, for name `n` of the name list -/
def panLoginBody (n : String) : Prog :=
  .call "getAPIKey" panGetAPIKey ;; errRet "err" ;;
  .call "checkHA" panCheckHA ;;
  .check (.opaque "!recv.checkHA(p3)" fun _ r _ => !haOK r) "ret" "Errorf(…)"
    (.fail "not in active state") ;;
  .setName n ;;
  .note "ret" "nil"

/-- `httpdevice.TryReachableHTTPLogin`: the names of the name list in turn; an error of the
login closure is a warning and the next name is tried. -/
def tryNames (body : String → Prog) : List String → Prog
  | [] => .check (.opaque "" fun _ _ _ => true) "ret" "Errorf(…)" (.fail "Devices unreachable")
  | n :: ns => .attempt (body n) (tryNames body ns)

def panCheckDeviceName : Prog :=
  .check (.opaque "v1 != p1" fun _ r dn =>
      match r with
      | .conf h _ => h != dn
      | _ => true) "ret" "Errorf(…)" (.fail wrongName) ;;
  .note "ret" "nil"

/-- `LoadDevice` from the request of the candidate configuration on. -/
def panLoadSuffix : Prog :=
  .send "httpPrefixGetLog" (goQuote (outText panConf)) panConf .fail ;; .note "assign" "r1, err := <reply>" ;;
  errRet "nil, err" ;;
  pureCall
    (.check (.opaque "" fun _ r _ => match r with | .conf _ _ => false | _ => true) "ret" "err"
      (.fail "While reading device: bad config")) ;;
  .note "assign" "v2, err ⇐ r1" ;;
  errRet "v2, Errorf(…)" ;;
  .call "checkDeviceName" panCheckDeviceName ;;
  .note "ret" "v2, err"

def panLoadDevice (cfg : Cfg) : Prog :=
  .note "assign" "v1 := \"\"" ;;
  .call "TryReachableHTTPLogin" (tryNames panLoginBody cfg.names) ;;
  .defn "" (panLoginBody "<name>") ;;
  errRet "nil, err" ;;
  panLoadSuffix

/-- `strings.Contains(strings.ToLower(v.DisplayName), "netspoc")` -/
def panMarked (displayName : String) : Bool := infixL (lowerL displayName.toList) "netspoc".toList

def panUnmarked (cfg : Cfg) (vs : List (String × String)) : List String :=
  (vs.filter fun v => cfg.targetVsys.contains v.1 && !panMarked v.2).map
    fun v => "Missing NetSPoC in name of " ++ v.1

def panUnmarkedOf (cfg : Cfg) : Reply → List String
  | .conf _ vs => panUnmarked cfg vs
  | _ => []

/-- `checkUnmanaged(v)` for every vsys pair, in one step -/
def panCheckUnmanaged : Prog :=
  .record (.opaque "!strings.Contains(strings.ToLower(p1.DisplayName), \"netspoc\")" fun cfg r _ => !(panUnmarkedOf cfg r).isEmpty)
    "recv.errUnmanaged = append(recv.errUnmanaged, fmt.Errorf(\"Missing NetSPoC in name of %s\", p1.Name))"
    .append panUnmarkedOf

/-- `GetChanges`: for every vsys pair `checkUnmanaged`; a vsys only Netspoc knows is an error. -/
def panProcessVsysPairs : Prog :=
  .call "checkUnmanaged" panCheckUnmanaged ;;
  .check (.opaque "v1 == nil" fun cfg r _ =>
      match r with
      | .conf _ vs => !(cfg.targetVsys.all fun t => vs.any fun v => v.1 == t)
      | _ => false) "ret" "Errorf(…)" (.fail "Unknown name in VSYS of device configuration")

def panGetChanges : Prog :=
  pureCall panProcessVsysPairs ;;
  .defn ""
    (.note "guard" "c1p1 == nil" ;; .block (.note "ret" "Errorf(…)") ;;
     .note "guard" "c1p2 == nil" ;; .block (.note "ret" "nil") ;;
     .call "checkUnmanaged" panCheckUnmanaged ;;
     .note "ret" "nil") ;;
  .note "ret" "processVsysPairs(…)"

/-! ## NSX -/

def nsxLoginBody (_n : String) : Prog :=
  errRet "err" ;;
  .send "PostForm" "v1" (.lit "POST /api/session/create") .fail ;; .note "assign" "r1, err := <reply>" ;;
  errRet "err" ;;
  .note "guard" "r1.StatusCode != http.StatusOK" ;; .block (.note "ret" "Errorf(…)") ;;
  .note "ret" "nil"

/-- the three values of the variable `path` of `nsx.LoadDevice` (shown in its skeleton) -/
def nsxPoliciesPath : String := "/policy/api/v1/infra/domains/default/gateway-policies"
def nsxServicesPath : String := "/policy/api/v1/infra/services"
def nsxGroupsPath : String := "/policy/api/v1/infra/domains/default/groups"

def nsxPolicies : Out := .lit ("GET " ++ nsxPoliciesPath)
def nsxPolicyPre : String := "GET " ++ nsxPoliciesPath ++ "/"
def nsxServicesPre : String := "GET " ++ nsxServicesPath ++ "?cursor="
def nsxGroupsPre : String := "GET " ++ nsxGroupsPath ++ "?cursor="

def cursorOf : Reply → String
  | .page _ c => c
  | _ => ""

/-- `getRawJSON(path)`: `for { GET path?cursor=<cursor>; …; cursor = results.Cursor; if cursor == "" { break } }`
(the `guard v1 == "" / break` is printed by `skel` from the loop condition) -/
def nsxGetRawJSON (pre : String) : Prog :=
  .setCur (fun _ => "") ;;
  .loop ""
    (.sendCur "sendRequest" "\"GET\" p1 + \"?cursor=\" + v1" pre .fail ;;
     .note "assign" "r1, err := <reply>" ;;
     errRet "nil, err" ;;
     .note "assign" "err, v2 ⇐ r1" ;;
     .check (.opaque "err != nil" fun _ r _ => match r with | .page _ _ => false | _ => true)
       "ret" "nil, Errorf(…)" (.fail "while parsing") ;;
     .note "for" "range v2.Results" ;;
     .block (.note "assign" "err, v3 ⇐ v4" ;; errRet "nil, err" ;;
             .note "if" "strings.HasPrefix(v3.Id, \"Netspoc\")" ;; .block (.note "assign" "v5 ⇐ v5, v4")) ;;
     .setCur cursorOf ;; .note "assign" "v1 = v2.Cursor")
    .cursorSet ;;
  .note "ret" "v5, nil"

def isNetspocId (id : String) : Bool := "Netspoc".toList.isPrefixOf id.toList

def nsxLoadDevice (cfg : Cfg) : Prog :=
  .call "TryReachableHTTPLogin" (tryNames nsxLoginBody cfg.names) ;;
  .defn "" (nsxLoginBody "<name>") ;;
  errRet "nil, err" ;;
  .note "assign" ("v2 := " ++ goQuote nsxPoliciesPath) ;;
  .send "sendRequest" "\"GET\" v2" nsxPolicies .fail ;; .note "assign" "r2, err := <reply>" ;;
  errRet "nil, err" ;;
  .note "assign" "err, v3 ⇐ r2" ;;
  .check (.opaque "err != nil" fun _ r _ => match r with | .page _ _ => false | _ => true)
    "ret" "nil, Errorf(…)" (.fail "while parsing") ;;
  .forIds "range v3.Results" (fun _ => true)
    (.ite (.idHasPrefix "Netspoc")
      (.sendCur "sendRequest" "\"GET\" v2 + \"/\" + v4.Id" nsxPolicyPre .fail ;;
       .note "assign" "r3, err := <reply>" ;; errRet "nil, err" ;;
       .note "assign" "v5.Policies ⇐ v5, r3") .nop) ;;
  .note "assign" ("v2 = " ++ goQuote nsxServicesPath) ;;
  .call "getRawJSON" (nsxGetRawJSON nsxServicesPre) ;; errRet "nil, err" ;;
  .note "assign" ("v2 = " ++ goQuote nsxGroupsPath) ;;
  .call "getRawJSON" (nsxGetRawJSON nsxGroupsPre) ;; errRet "nil, err" ;;
  .note "assign" "v6, err ⇐ v5" ;; errRet "nil, err" ;;
  .note "assign" "v7, err ⇐ v6" ;; errRet "nil, Errorf(…)" ;;
  .note "ret" "v7, nil"

def nsxGetChanges : Prog := .note "ret" "nil"

/-! ## ApplyCommands (skeleton not compared here: C09 / C15) -/

def okOut : Pred := .not (.contains (.v .out) "[OK]")

def asaApply : Prog :=
  .send "cmd" "" (.lit "configure terminal") .abort ;;
  .forPlan .abort .nop ;;
  .send "cmd" "" (.lit "end") .abort ;;
  .send "GetCmdOutput" "" (.lit "write memory") .abort ;; outDecl ;;
  .check okOut "abort" "write memory failed" (.abort "Command 'write memory' failed")

def iosApply : Prog :=
  .send "SendCmd" "" (.lit "configure terminal") .abort ;;
  .send "SendCmd" "" (.lit "no logging console") .abort ;;
  .send "SendCmd" "" (.lit "line vty 0 15") .abort ;;
  .send "SendCmd" "" (.lit "logging synchronous level all") .abort ;;
  .send "SendCmd" "" (.lit "ip subnet-zero") .abort ;;
  .send "SendCmd" "" (.lit "ip classless") .abort ;;
  .send "SendCmd" "" (.lit "end") .abort ;;
  .send "IssueCmd" "" (.lit "reload in 2") .abort ;; outDecl ;;
  .ite (.contains (.v .out) "[yes/no]")
    (.send "IssueCmd" "" (.lit "n") .abort) .nop ;;
  .send "SendCmd" "" (.lit "") .abort ;;
  .send "SendCmd" "" (.lit "configure terminal") .abort ;;
  .forPlan .abort .nop ;;
  .send "SendCmd" "" (.lit "end") .abort ;;
  .send "IssueCmd" "" (.lit "reload cancel") .abort ;;
  .send "SendCmd" "" (.lit "") .abort ;;
  .send "IssueCmd" "" (.lit "write memory") .abort ;; outDecl ;;
  .check okOut "abort" "write mem: unexpected result" (.abort "write mem: unexpected result")

def linuxApply : Prog :=
  .forPlan .abort
    (.send "GetCmdOutput" "" (.lit "echo $?") .abort ;; outDecl ;;
     .check (.ne (.v .out) (.lit "0\n")) "abort" "failed (exit status)" (.abort "failed (exit status)"))

def isTextEq (r : Reply) (t : String) : Bool :=
  match r with
  | .text s => s == t
  | _ => false

/-- `commit()`: enqueue the partial commit; if a job was enqueued poll it
(`for { show jobs; switch result { case "PEND": continue; case "OK": return nil; default: error } }`). -/
def panApply (cfg : Cfg) : Prog :=
  .forPlan .fail .nop ;;
  .send "doCmd" "" (.litArg "type=commit&action=partial&cmd=" cfg.user) .fail ;;
  .ite (.opaque "job enqueued" fun _ r _ => match r with | .text s => s != "" | _ => false)
    (.loop "poll"
       (.send "doCmd" "" (.litArg "type=op&cmd=<show><jobs><id>" "job") .fail ;;
        .check (.opaque "unexpected job result" fun _ r _ => !(isTextEq r "PEND" || isTextEq r "OK"))
          "ret" "Errorf(…)" (.fail "Commit failed: Unexpected job result"))
       (.opaque "PEND" fun _ r _ => isTextEq r "PEND"))
    .nop

def nsxApply : Prog := .forPlan .fail .nop

/-! ## per backend -/

def backendLoad (b : Backend) (cfg : Cfg) : Prog :=
  match b with
  | .asa => asaLoadDevice
  | .ios => iosLoadDevice
  | .linux => linuxLoadDevice cfg
  | .panos => panLoadDevice cfg
  | .nsx => nsxLoadDevice cfg

def backendGetChanges : Backend → Prog
  | .asa | .ios => ciscoGetChanges
  | .linux => linuxGetChanges
  | .panos => panGetChanges
  | .nsx => nsxGetChanges

def backendApply (b : Backend) (cfg : Cfg) : Prog :=
  match b with
  | .asa => asaApply
  | .ios => iosApply
  | .linux => linuxApply
  | .panos => panApply cfg
  | .nsx => nsxApply

/-- What `GetErrUnmanaged` returns: the recorded list (`true`) or always nil (`false`). -/
def consults : Backend → Bool
  | .asa | .ios | .panos => true
  | .linux | .nsx => false

def getErrUnmanagedSkel (b : Backend) : List Item :=
  [(0, "ret", if consults b then "recv.errUnmanaged" else "nil")]

/-- `CloseConnection`: ASA / IOS send `exit`; the others do nothing. -/
def closeOut : Backend → Option Out
  | .asa | .ios => some (.lit "exit")
  | _ => none

/-! ## orchestration: go/pkg/device/main.go -/

def loadDeviceP (load : Prog) : Prog :=
  errRet "nil, err" ;;
  errRet "nil, err" ;;
  .call "LoadDevice" load ;; .note "ret" "LoadDevice(…)"

def getCompareP (getChanges : Prog) : Prog :=
  errRet "err" ;;
  .call "GetChanges" getChanges ;; .note "ret" "GetChanges(…)"

def compareDeviceP (load getChanges : Prog) : Prog :=
  .call "loadDevice" (loadDeviceP load) ;; errRet "err" ;;
  .call "getCompare" (getCompareP getChanges) ;; .note "ret" "getCompare(…)"

def applyCommandsP (apply : Prog) : Prog :=
  errRet "err" ;;
  .ifChanges (.call "ApplyCommands" apply ;; .note "ret" "ApplyCommands(…)")

/-- `(*state).approve`, parameterised by the pieces so that variants (the unchanged Linux
`checkBanner`) can be plugged in. -/
def approveWith (load getChanges : Prog) (consult : Bool) (apply : Prog) : Prog :=
  .call "compareDevice" (compareDeviceP load getChanges) ;; errRet "err" ;;
  .gate consult ;;
  .call "applyCommands" (applyCommandsP apply) ;; .note "ret" "applyCommands(…)"

def approveP (b : Backend) (cfg : Cfg) : Prog :=
  approveWith (backendLoad b cfg) (backendGetChanges b) (consults b) (backendApply b cfg)

def compareWith (load getChanges : Prog) : Prog :=
  .call "compareDevice" (compareDeviceP load getChanges) ;; errRet "err" ;;
  .warnU ;;
  .note "if" "recv.logFname != \"\" && recv.HasChanges()" ;;
  .block (errRet "err") ;;
  .note "ret" "nil"

def compareP (b : Backend) (cfg : Cfg) : Prog := compareWith (backendLoad b cfg) (backendGetChanges b)

/-- `device.ApproveOrCompare` (the closure run under `errlog.HandleAbort`). -/
def approveOrCompareP (b : Backend) (cfg : Cfg) : Prog :=
  .note "closure" "" ;;
  .block
    (.ite (.opaque "p1" fun c _ _ => c.isCompare)
       (.call "compare" (compareP b cfg)) (.call "approve" (approveP b cfg)) ;;
     .note "call" "CloseConnection" ;;
     .note "guard" "err != nil" ;; .block (.note "abort" "%v") ;;
     .note "ret" "0") ;;
  .note "ret" "HandleAbort(…)"

/-- One whole run of `device.ApproveOrCompare` against `env.dev`. -/
def runMain (b : Backend) (env : Env) : St :=
  closeStep (closeOut b) (run env (approveOrCompareP b env.cfg))

/-- `device.CompareFiles`: two files, no device. -/
def compareFilesP : Prog :=
  .note "closure" "" ;;
  .block
    (.note "guard" "err != nil" ;; .block (.note "abort" "%v") ;;
     .note "call" "getCompare" ;; .note "guard" "err != nil" ;; .block (.note "abort" "%v") ;;
     .note "ret" "0") ;;
  .note "ret" "HandleAbort(…)"

/-! ## front ends

The dispatch of both front ends is DATA (flag names, action words, log-file suffixes) from which
both the model functions and the expected skeleton items (`frontEndFacts`) are computed; the
skeleton items are compared with the facts regenerated from the Go source. -/

/-- drc: (long, short) name of the flag that selects compare, and of the log directory flag -/
def drcCompareFlag : String × String := ("compare", "C")
def drcLogDirFlag : String × String := ("logdir", "L")

/-- `isCompare := fs.BoolP("compare", "C", …)` -/
def drcIsCompare (flags : List String) : Bool :=
  flags.contains ("-" ++ drcCompareFlag.2) || flags.contains ("--" ++ drcCompareFlag.1)

/-- The result of a usage error: nothing is sent, exit status 1. -/
def usageSt : St := { status := .failed "usage" }

/-- `drc [flags] ARG…`: one argument talks to the device (compare iff the flag is given), two
arguments compare files, anything else is a usage error. -/
def runDrc (b : Backend) (cfg : Cfg) (dev : Dev) (plan : List String) (flags : List String)
    (nargs : Nat) : St :=
  if nargs = 1 then runMain b ⟨{ cfg with isCompare := drcIsCompare flags }, dev, plan⟩
  else if nargs = 2 then run ⟨cfg, dev, plan⟩ compareFilesP
  else usageSt

/-- do-approve: the word `isCompare` is compared with … -/
def doApproveCompareWord : String := "compare"

/-- … and the `switch action`: case literal ↦ suffix of the log file; `default` is a usage error. -/
def doApproveCases : List (String × String) := [("compare", ".compare"), ("approve", ".drc")]

/-- `do-approve ACTION DEVICE`, as the code does it: the switch decides whether the word is
accepted (and how the log file is called), `isCompare := action == "compare"` decides what runs. -/
def runDoApprove (b : Backend) (cfg : Cfg) (dev : Dev) (plan : List String) (action : String) : St :=
  match doApproveCases.lookup action with
  | none => usageSt
  | some _ => runMain b ⟨{ cfg with isCompare := action == doApproveCompareWord }, dev, plan⟩

/-! ## the table compared with `Gen.GateSkel.functions` -/

def tryReachableSkel : List Item := [
  (0, "guard", "err != nil"), (1, "ret", "err"),
  (0, "for", "range v1"),
  (1, "guard", "err != nil"), (2, "ret", "err"),
  (1, "call", "p3"), (1, "guard", "err == nil"), (2, "ret", "nil"),
  (1, "warn", ""),
  (0, "ret", "Errorf(…)")]

def nsxSendRequestSkel : List Item := [
  (0, "guard", "err != nil"), (1, "ret", "nil, err"),
  (0, "send", "Do v1"), (0, "assign", "r1, err := <reply>"), (0, "guard", "err != nil"), (1, "ret", "nil, err"),
  (0, "guard", "r1.StatusCode != http.StatusOK"), (1, "ret", "nil, New(…)"),
  (0, "ret", "ReadAll(…)")]

def panHttpPrefixGetLogSkel : List Item := [
  (0, "send", "httpGet recv.urlPrefix + p1"), (0, "assign", "r1, err := <reply>"), (0, "ret", "r1, err")]

def panHttpGetSkel : List Item := [
  (0, "send", "Get p1"), (0, "assign", "r1, err := <reply>"), (0, "guard", "err != nil"), (1, "ret", "nil, err"),
  (0, "assign", "v1, err ⇐ r1"),
  (0, "guard", "r1.StatusCode != http.StatusOK"), (1, "ret", "v1, New(…)"),
  (0, "ret", "v1, err")]

/-- Function name ↦ skeleton of the program that models it (at the default configuration; the
configuration only changes run-time strings, never the shape). -/
def modelSkeletons : List (String × List Item) :=
  let cfg : Cfg := {}
  [ ("device.ApproveOrCompare", skel 0 (approveOrCompareP .asa cfg)),
    ("device.CompareFiles", skel 0 compareFilesP),
    ("device.(*state).approve", skel 0 (approveP .asa cfg)),
    ("device.(*state).compare", skel 0 (compareP .asa cfg)),
    ("device.(*state).compareDevice", skel 0 (compareDeviceP .nop .nop)),
    ("device.(*state).loadDevice", skel 0 (loadDeviceP .nop)),
    ("device.(*state).applyCommands", skel 0 (applyCommandsP .nop)),
    ("device.(*state).getCompare", skel 0 (getCompareP .nop)),
    ("cisco.(*State).LoginEnable", skel 0 ciscoLoginEnable),
    ("cisco.(*State).checkBanner", skel 0 ciscoCheckBanner),
    ("cisco.(*State).GetErrUnmanaged", getErrUnmanagedSkel .asa),
    ("asa.(*State).LoadDevice", skel 0 asaLoadDevice),
    ("asa.(*State).setTerminal", skel 0 asaSetTerminal),
    ("asa.(*State).logVersion", skel 0 asaLogVersion),
    ("asa.(*State).checkDeviceName", skel 0 asaCheckDeviceName),
    ("ios.(*State).LoadDevice", skel 0 iosLoadDevice),
    ("ios.(*State).setTerminal", skel 0 iosSetTerminal),
    ("ios.(*State).logVersion", skel 0 iosLogVersion),
    ("ios.(*State).checkDeviceName", skel 0 iosCheckDeviceName),
    ("linux.(*State).LoadDevice", skel 0 (linuxLoadDevice cfg)),
    ("linux.(*State).loginEnable", skel 0 linuxLoginEnable),
    ("linux.(*State).logVersion", skel 0 linuxLogVersion),
    ("linux.(*State).checkDeviceName", skel 0 linuxCheckDeviceName),
    ("linux.(*State).checkBanner", skel 0 (linuxCheckBanner cfg)),
    ("linux.(*State).getDeviceRoutes", skel 0 linuxGetRoutes),
    ("linux.(*State).getDeviceIPTables", skel 0 linuxGetIPTables),
    ("linux.(*State).GetErrUnmanaged", getErrUnmanagedSkel .linux),
    ("linux.(*State).GetChanges", skel 0 linuxGetChanges),
    ("panos.(*State).LoadDevice", skel 0 (panLoadDevice cfg)),
    ("panos.(*State).getAPIKey", skel 0 panGetAPIKey),
    ("panos.(*State).checkHA", skel 0 panCheckHA),
    ("panos.(*State).GetChanges", skel 0 panGetChanges),
    ("panos.(*State).checkUnmanaged", skel 0 panCheckUnmanaged),
    ("panos.(*State).GetErrUnmanaged", getErrUnmanagedSkel .panos),
    ("panos.(*State).httpPrefixGetLog", panHttpPrefixGetLogSkel),
    ("panos.(*State).httpGet", panHttpGetSkel),
    ("panos.(*PanConfig).checkDeviceName", skel 0 panCheckDeviceName),
    ("nsx.(*State).LoadDevice", skel 0 (nsxLoadDevice cfg)),
    ("nsx.(*State).getRawJSON", skel 0 (nsxGetRawJSON "")),
    ("nsx.(*State).sendRequest", nsxSendRequestSkel),
    ("nsx.(*State).GetErrUnmanaged", getErrUnmanagedSkel .nsx),
    ("nsx.(*State).GetChanges", skel 0 nsxGetChanges),
    ("httpdevice.TryReachableHTTPLogin", tryReachableSkel),
    ("cisco.(*State).GetChanges", skel 0 ciscoGetChanges) ]

def q (s : String) : String := "\"" ++ s ++ "\""

/-- What the front ends must look like: projection of their regenerated skeleton on flag
definitions and other watched assignments, every `switch` with all its clauses and the returns
inside, and the calls into pkg/device.  The items that carry the dispatch are computed from the
tables the model functions use. -/
def boolFlag (f : String × String) (help : String) : String :=
  "*v1.BoolP(" ++ q f.1 ++ ", " ++ q f.2 ++ ", false, " ++ q help ++ ")"
def strFlag (f : String × String) (help : String) : String :=
  "*v1.StringP(" ++ q f.1 ++ ", " ++ q f.2 ++ ", \"\", " ++ q help ++ ")"
def quietFlag : String := boolFlag ("quiet", "q") "No info messages"

def frontEndFacts : List (String × List Item) := [
  ("drc.Main", [
    (0, "guard", "err != nil"),
    -- `switch len(args)`: dispatch on constants = one guard per terminating branch, default last
    (0, "guard", "len(v2) == 1"),
    (1, "guard", "err != nil"), (2, "ret", "abort(…)"),
    (1, "guard", "err != nil"), (2, "ret", "abort(…)"),
    (1, "call", "device.ApproveOrCompare(" ++ boolFlag drcCompareFlag "Compare only" ++ ", v2[0], v3, " ++
      strFlag drcLogDirFlag "Path for saving session logs" ++ ", " ++
      strFlag ("LOGFILE", "") "Path to redirect STDERR" ++ ", " ++ quietFlag ++ ")"),
    (1, "ret", "ApproveOrCompare(…)"),
    (0, "guard", "len(v2) != 2"), (1, "ret", "1"),
    (0, "guard", "v4 && v5 > 1 || !v4 && v5 > 0"), (1, "ret", "1"),
    (0, "call", "device.CompareFiles(v2[0], v2[1], " ++ quietFlag ++ ")"),
    (0, "ret", "CompareFiles(…)")]),
  ("doapprove.Main",
    -- `switch action`: the branches sorted by their test (approve < compare); the last one shares its
    -- else with `default` (usage error), which as the terminating branch becomes the guard
    [ (0, "guard", "err != nil"),
      (0, "guard", "len(v2) != 2"),
      (0, "assign", "v3 := path.Join(path.Join(v4, \"log\"), v2[1])") ] ++
    (match doApproveCases with
     | [c1, c2] =>
       [ (0, "if", "v2[0] == " ++ q c2.1), (1, "assign", "v3 = v3 + " ++ q c2.2),
         (0, "else", ""),
         (1, "guard", "v2[0] != " ++ q c1.1), (2, "ret", "1"),
         (1, "assign", "v3 = v3 + " ++ q c1.2) ]
     | _ => []) ++
    [ (0, "call", "device.ApproveOrCompare(v2[0] == " ++ q doApproveCompareWord ++
        ", path.Join(v4, \"code\", v2[1]), v5, path.Join(v4, \"log\"), v3, false)") ])]

def isFrontEndItem (it : Item) : Bool :=
  it.2.1 == "assign" || it.2.1 == "guard" || it.2.1 == "if" || it.2.1 == "elif" || it.2.1 == "else" ||
    it.2.1 == "ret" || (it.2.1 == "call" && hasPrefix it.2.2 "device.")

end NA.Gate
