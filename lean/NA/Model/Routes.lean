/-
Route change scripts as emitted by `diffRoutes` (cisco/diff.go) and `diffRoutes` (linux/diff.go):
additions and same-destination replacements (sent as ONE command line) first, deletions afterwards.
-/
namespace NA.Route

structure Route where
  vrf : Nat := 0
  dst : Nat
  hop : Nat
  deriving DecidableEq, Repr, Inhabited

inductive ROp
  | add (r : Route)
  | repl (o n : Route)     -- `no <o>` and `<n>` joined in one line
  | del (r : Route)
  deriving DecidableEq, Repr

def rexec1 (s : List Route) : ROp → List Route
  | .add r => s ++ [r]
  | .repl o n => (s.filter (· != o)) ++ [n]
  | .del r => s.filter (· != r)

def covered (s : List Route) (vrf dst : Nat) : Bool := s.any fun r => r.vrf == vrf && r.dst == dst

/-- All intermediate route tables. -/
def rtrace : List Route → List ROp → List (List Route)
  | _, [] => []
  | s, op :: ops => rexec1 s op :: rtrace (rexec1 s op) ops

/-- Shape of the emitted script: phase A (adds / same-destination replacements), then phase B
(deletions of routes the target does not contain). -/
def phaseA (ops : List ROp) : Bool := ops.all fun
  | .add _ => true
  | .repl o n => o.vrf == n.vrf && o.dst == n.dst
  | .del _ => false

def phaseB (new : List Route) (ops : List ROp) : Bool := ops.all fun
  | .del r => !new.contains r
  | _ => false

end NA.Route
