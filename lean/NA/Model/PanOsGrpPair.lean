import NA.Model.PanOs
import NA.Spec.PanOsWhole
/-
C03 round 3: the decidable fragment WITH address-groups on which the whole-vsys theorems are
proved (`NA/Proofs/C03Grp*.lean`): the shape Netspoc generates.  A source / destination list holds
addresses only or exactly one address-group; groups hold addresses of their vsys (no nesting); no
service-groups; names of groups — the device's, the target's and the ones `genUniqGroupNames`
generates — are not names of addresses, not reserved, not shared.  Used by the theorems and by
the driver (flag `grp` of `PLAN`).  Core Lean only.
-/
namespace NA.PanOs

/-- New names of the target's address-groups (`genUniqGroupNames`). -/
def newGroupNames (a b : Vsys) : List String :=
  groupNamesFor (sortVsys a) (sortVsys b)

def isGrpOf (v : Vsys) (x : String) : Bool := v.groups.any (·.name == x)

def singleGrp (v : Vsys) : List String → Bool
  | [g] => isGrpOf v g
  | _ => false

/-- Not empty; addresses only, none twice — or exactly one address-group. -/
def ListShape (v : Vsys) (l : List String) : Prop :=
  l ≠ [] ∧ (((∀ x ∈ l, isGrpOf v x = false) ∧ l.Nodup) ∨ singleGrp v l = true)

instance (v : Vsys) (l : List String) : Decidable (ListShape v l) := by unfold ListShape; infer_instance

def GrpPair (sh : Shared) (a b : Vsys) : Prop :=
  a.sgroups = [] ∧ b.sgroups = [] ∧
  (ruleNames a.rules).Nodup ∧ (ruleNames b.rules).Nodup ∧
  (a.addrs.map (·.name)).Nodup ∧ (b.addrs.map (·.name)).Nodup ∧
  (a.svcs.map (·.name)).Nodup ∧ (b.svcs.map (·.name)).Nodup ∧
  (a.groups.map (·.name)).Nodup ∧ (b.groups.map (·.name)).Nodup ∧
  (∀ g ∈ a.groups, g.members.Nodup ∧ ∀ m ∈ g.members, m ∈ a.addrs.map (·.name)) ∧
  (∀ g ∈ b.groups, g.members.Nodup ∧ ∀ m ∈ g.members, m ∈ b.addrs.map (·.name)) ∧
  (∀ x ∈ a.groups.map (·.name) ++ b.groups.map (·.name) ++ newGroupNames a b,
    x ≠ "" ∧ x ≠ "any" ∧ x ∉ sh ∧ x ∉ a.addrs.map (·.name) ∧ x ∉ b.addrs.map (·.name)) ∧
  (∀ r ∈ a.rules, ListShape a r.src ∧ ListShape a r.dst) ∧
  (∀ r ∈ b.rules, ListShape b r.src ∧ ListShape b r.dst) ∧
  (∀ r ∈ a.rules, ∀ x ∈ r.src ++ r.dst,
    x = "any" ∨ x ∈ sh ∨ x ∈ a.addrs.map (·.name) ∨ x ∈ a.groups.map (·.name)) ∧
  (∀ r ∈ b.rules,
    (∀ x ∈ r.src ++ r.dst, x = "any" ∨ x ∈ sh ∨ x ∈ b.addrs.map (·.name) ∨ x ∈ b.groups.map (·.name)) ∧
    (∀ x ∈ r.srv, x = "any" ∨ x = "application-default" ∨ x ∈ sh ∨ x ∈ b.svcs.map (·.name))) ∧
  (∀ x ∈ a.addrs.map (·.name), x ≠ "any" ∧ x ∉ sh) ∧
  (∀ x ∈ a.svcs.map (·.name), x ≠ "any" ∧ x ≠ "application-default" ∧ x ∉ sh)

set_option synthInstance.maxSize 4096 in
instance (sh : Shared) (a b : Vsys) : Decidable (GrpPair sh a b) := by
  unfold GrpPair; infer_instance

end NA.PanOs
