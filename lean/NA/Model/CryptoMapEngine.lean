import NA.Model.CryptoMap
/-!
# The ASA diff engine of `cisco/diff.go` on the crypto-map-only fragment (executable model)

Fragment: `crypto map NAME SEQ …` entries with static peers whose attributes are plain texts or
`set ikev1 transform-set T…` references, `crypto ipsec ikev1 transform-set NAME CONTENT` (simple
objects), `crypto map NAME interface INTF` (anchors), device interfaces.  The input is the parsed
structure (the harness produces the text for the real `drc` and this structure from the same data);
the model yields the exact list of change lines that `drc` prints.

Mirrored functions: `checkASAInterfaces` (`markNeeded` for what an interface unknown to Netspoc
binds), `generateNamesForTransfer`, `diffConfig`/`diffAnchors`, `diffCmds` (needed / ready short
cuts, `hasEq`, name AND sequence number adoption for inserted commands, delete before add),
`diffUnordered`, `makeEqual` (`b.name = a.name; b.seq = a.seq`, changed reference ⇒ `no <orig>` for
`set ikev…` + re-emit), `diffCryptoMap` → `NA.Vpn.matchCryptoMap`, `equalizeSimpleObject`,
`findSimpleObject`, `addCmds`/`addCmd` (referenced objects first, `ready` of the FIRST command of the
list only, fixed-name map found on the device ⇒ compare instead of add), `delCmds`, `markDeleted`,
`deleteUnused` (`-DRC-` rule, `stillReferenced`, referenced-last rounds in sorted order),
`getPrintableCmd`.  No command of the fragment has sub-commands, so `subCmdOf` stays empty.
-/
namespace NA.Vpn

/-! ## configuration -/

structure DevTS where
  name : String
  content : String
  drc : Bool := false        -- name contains "-DRC-"
  needed : Bool := false
  toDelete : Bool := false
  deriving DecidableEq, Repr, Inhabited

structure TgtTS where
  name : String              -- name in the Netspoc file
  cur : String               -- current name: generated `NAME-DRC-n`, later that of the device object found
  content : String
  ready : Bool := false
  deriving DecidableEq, Repr, Inhabited

/-- device command; `orig` = the text behind `crypto map NAME SEQ ` as the device shows it
(`parsed` may differ: stripped default `group14`). -/
structure ACmd where
  c : Cmd
  orig : String
  needed : Bool := false
  toDelete : Bool := false
  deriving DecidableEq, Repr, Inhabited

structure BCmd where
  c : Cmd
  ready : Bool := false
  deriving DecidableEq, Repr, Inhabited

structure ABind where
  map : String
  intf : String
  needed : Bool := false
  toDelete : Bool := false
  deriving DecidableEq, Repr, Inhabited

structure BBind where
  map : String
  intf : String
  ready : Bool := false
  deriving DecidableEq, Repr, Inhabited

structure AMap where
  name : String
  drc : Bool := false        -- name contains "-DRC-"
  cmds : List ACmd
  deriving DecidableEq, Repr, Inhabited

structure BMap where
  name : String
  cmds : List BCmd
  deriving DecidableEq, Repr, Inhabited

/-! ## change lines -/

inductive Chg
  | add (c : Cmd) (names : List String)       -- crypto map c.name c.seq <c.body with the names filled in>
  | del (c : Cmd) (orig : String)             -- no crypto map c.name c.seq ORIG   (a device command)
  | ts (no : Bool) (name content : String)   -- [no ]crypto ipsec ikev1 transform-set NAME CONTENT
  | bind (no : Bool) (map intf : String)      -- [no ]crypto map NAME interface INTF
  deriving DecidableEq, Repr, Inhabited

def noPre (b : Bool) : String := if b then "no " else ""

/-- `strings.Replace(p, "$REF", name, 1)` for each name in turn -/
def interleave : List String → List String → String
  | [], _ => ""
  | [p], _ => p
  | p :: ps, [] => p ++ "$REF" ++ interleave ps []
  | p :: ps, n :: ns => p ++ n ++ interleave ps ns

def Chg.render : Chg → String
  | .add c names => "crypto map " ++ c.name ++ " " ++ toString c.seq ++ " " ++ interleave c.body names
  | .del c orig => "no crypto map " ++ c.name ++ " " ++ toString c.seq ++ " " ++ orig
  | .ts no n c => noPre no ++ "crypto ipsec ikev1 transform-set " ++ n ++ " " ++ c
  | .bind no m i => noPre no ++ "crypto map " ++ m ++ " interface " ++ i

structure St where
  ats : List DevTS := []
  bts : List TgtTS := []
  am : List AMap := []
  bm : List BMap := []
  ab : List ABind := []
  bb : List BBind := []
  out : List Chg := []
  deriving Repr, Inhabited

def St.emit (st : St) (c : Chg) : St := { st with out := st.out ++ [c] }

/-! ## helpers -/

def insertS (x : String) : List String → List String
  | [] => [x]
  | y :: ys => if x ≤ y then x :: y :: ys else y :: insertS x ys
/-- `sort.Strings` / `slices.Sorted` (bytewise order for ASCII) -/
def sortS (l : List String) : List String := l.foldr insertS []

def drcName (base : String) (i : Nat) : String := base ++ "-DRC-" ++ toString i
def firstFree (base : String) : Nat → List String → Nat → Nat
  | 0, _, i => i
  | fuel + 1, dev, i => if drcName base i ∈ dev then firstFree base fuel dev (i + 1) else i
/-- `generateNamesForTransfer` for one object -/
def genName (base : String) (dev : List String) : String := drcName base (firstFree base (dev.length + 1) dev 0)

def St.curTS (st : St) (n : String) : String :=
  match st.bts.find? (fun t => t.name == n) with
  | some t => t.cur
  | none => n

def St.modATS (st : St) (n : String) (f : DevTS → DevTS) : St :=
  { st with ats := st.ats.map fun t => if t.name == n then f t else t }
def St.modBTS (st : St) (n : String) (f : TgtTS → TgtTS) : St :=
  { st with bts := st.bts.map fun t => if t.name == n then f t else t }
def St.modA (st : St) (m : String) (id : Nat) (f : ACmd → ACmd) : St :=
  { st with am := st.am.map fun x => if x.name == m then { x with cmds := x.cmds.map fun c => if c.c.id == id then f c else c } else x }
def St.modB (st : St) (m : String) (id : Nat) (f : BCmd → BCmd) : St :=
  { st with bm := st.bm.map fun x => if x.name == m then { x with cmds := x.cmds.map fun c => if c.c.id == id then f c else c } else x }

def St.aCmds (st : St) (m : String) : List ACmd :=
  match st.am.find? (fun x => x.name == m) with
  | some x => x.cmds
  | none => []
def St.bCmds (st : St) (m : String) : List BCmd :=
  match st.bm.find? (fun x => x.name == m) with
  | some x => x.cmds
  | none => []
def St.aCmd (st : St) (m : String) (id : Nat) : Option ACmd := (st.aCmds m).find? (fun c => c.c.id == id)
def St.bCmd (st : St) (m : String) (id : Nat) : Option BCmd := (st.bCmds m).find? (fun c => c.c.id == id)

/-! ## transform-sets (simple objects) -/

/-- `findSimpleObject`: device names in sorted order, first one with equal content (needed or not). -/
def findSimple (ats : List DevTS) (content : String) : Option String :=
  (sortS (ats.map (·.name))).find? fun n =>
    match ats.find? (fun t => t.name == n) with
    | some t => t.content == content
    | none => false

/-- `addCmds(bl)` for a transform-set of the target -/
def addTS (st : St) (b : String) : St :=
  match st.bts.find? (fun t => t.name == b) with
  | none => st
  | some t =>
    if t.ready then st else
    let st := st.modBTS b fun t => { t with ready := true }
    match findSimple st.ats t.content with
    | some n => (st.modATS n fun a => { a with needed := true }).modBTS b fun t => { t with cur := n }
    | none => st.emit (.ts false t.cur t.content)

/-- `diffCmds(aRef, bRef)` for transform-sets: returns the name the reference has afterwards. -/
def diffTS (st : St) (a b : String) : St × String :=
  match st.ats.find? (fun t => t.name == a), st.bts.find? (fun t => t.name == b) with
  | some ta, some tb =>
    if ta.needed then
      let st := addTS st b
      (st, st.curTS b)
    else if tb.ready then (st, tb.cur)
    else if ta.content == tb.content then
      (((st.modATS a fun t => { t with needed := true }).modBTS b fun t => { t with ready := true, cur := a }), a)
    else
      let st := st.modATS a fun t => { t with toDelete := true }
      match findSimple st.ats tb.content with
      | some n =>
        (((st.modATS n fun t => { t with needed := true }).modBTS b fun t => { t with ready := true, cur := n }), n)
      | none =>
        let st := addTS st b
        (st, st.curTS b)
  | _, _ => (st, b)

/-! ## crypto map commands -/

/-- The address (name, sequence number) a target command is printed with.  Where `diffCmds`/`makeEqual` have
just overwritten `name` and `seq` of the command with those of the device entry, the model passes that
address explicitly (and writes it to the state as the Go code does). -/
abbrev Addr := Option (String × Int)

def Cmd.at (c : Cmd) : Addr → Cmd
  | some (n, s) => { c with name := n, seq := s }
  | none => c

def St.printB (st : St) (c : Cmd) (ad : Addr) : Chg := .add (c.at ad) (c.refs.map st.curTS)

/-- `follow(c)` + `addCmd(c)` for one target command -/
def addOne (st : St) (m : String) (ad : Addr) (id : Nat) : St :=
  match st.bCmd m id with
  | none => st
  | some b =>
    let st := b.c.refs.foldl addTS st
    st.emit (st.printB b.c ad)

/-- `add(bl)`: only the first command's `ready` is looked at and set -/
def addEntry (st : St) (m : String) (ids : List Nat) (ad : Addr := none) : St :=
  match ids with
  | [] => st
  | i0 :: _ =>
    match st.bCmd m i0 with
    | none => st
    | some b0 =>
      if b0.ready then st else
      let st := st.modB m i0 fun b => { b with ready := true }
      ids.foldl (fun st i => addOne st m ad i) st

/-- `markDeleted` for device commands of one crypto map -/
def markDelA (st : St) (m : String) (ids : List Nat) : St :=
  ids.foldl (fun st i =>
    match st.aCmd m i with
    | some a =>
      if a.toDelete then st else
      let st := st.modA m i fun a => { a with toDelete := true }
      a.c.refs.foldl (fun st r => st.modATS r fun t => { t with toDelete := true }) st
    | none => st) st

/-- one command of `delCmds` (`a0` = the command as `diffCmds` got it; its marks are read from the state) -/
def delOne (st : St) (m : String) (a0 : ACmd) : St :=
  match st.aCmd m a0.c.id with
  | some a =>
    if a.needed then st else
    (st.modA m a0.c.id fun a => { a with needed := true }).emit (.del a0.c a0.orig)
  | none => st

/-- last index with the given key: `m[key] = i` in the first loop of `diffUnordered` -/
def lastIdxFrom (k : String) : List String → Nat → Option Nat → Option Nat
  | [], _, acc => acc
  | x :: xs, i, acc => lastIdxFrom k xs (i + 1) (if x == k then some i else acc)
def lastIdx (keys : List String) (k : String) : Option Nat := lastIdxFrom k keys 0 none

/-- `diffUnordered`: pairs (position in a, position in b) in a-order, deleted a-positions, and the
consumed keys (`m[k] = -1`). -/
def unorderedA (bKeys : List String) : List String → Nat → List String → List (Nat × Nat) × List Nat × List String
  | [], _, used => ([], [], used)
  | k :: ks, i, used =>
    match (if used.contains k then none else lastIdx bKeys k) with
    | some j =>
      let r := unorderedA bKeys ks (i + 1) (k :: used)
      ((i, j) :: r.1, r.2.1, r.2.2)
    | none =>
      let r := unorderedA bKeys ks (i + 1) used
      (r.1, i :: r.2.1, r.2.2)

/-- the insert ranges: maximal runs of consecutive b-positions whose key was not consumed -/
def insertRuns (used : List String) : List String → Nat → List Nat → List (List Nat)
  | [], _, cur => if cur.isEmpty then [] else [cur.reverse]
  | k :: ks, j, cur =>
    if used.contains k then
      (if cur.isEmpty then [] else [cur.reverse]) ++ insertRuns used ks (j + 1) []
    else insertRuns used ks (j + 1) (j :: cur)

/-- `makeEqual` for one pair of commands -/
def makeEqualOne (st : St) (ma mb : String) (a : ACmd) (ib : Nat) : St :=
  match st.bCmd mb ib with
  | some b =>
    let st := st.modA ma a.c.id fun x => { x with needed := true }
    let st := st.modB mb ib fun x => { x with ready := true, c := { x.c with name := a.c.name, seq := a.c.seq } }
    let r := (a.c.refs.zip b.c.refs).foldl (fun (acc : St × Bool) p =>
      let d := diffTS acc.1 p.1 p.2
      (d.1, acc.2 || d.2 != p.1)) (st, false)
    let st := r.1
    if r.2 then
      let st := if a.c.key.startsWith "set ikev" then st.emit (.del a.c a.orig) else st
      st.emit (st.printB b.c (some (a.c.name, a.c.seq)))
    else st
  | none => st

/-- `len(bl) > 0 && bl[0].ready` -/
def firstReady : List BCmd → Bool
  | b0 :: _ => b0.ready
  | [] => false

/-- `diffCmds(aSeqL, bSeqL, byParsedCmd)` for the commands of one crypto map entry
(`aIds` / `bIds`: ids in list order; either may be empty). -/
def diffEntry (st : St) (ma mb : String) (aIds bIds : List Nat) : St :=
  let aL := aIds.filterMap (st.aCmd ma)
  let bL := bIds.filterMap (st.bCmd mb)
  match aL, bL with
  | a0 :: _, _ =>
    if a0.needed then (if bL.isEmpty then st else addEntry st mb bIds)
    else if firstReady bL then st
    else
      let u := unorderedA (bL.map (·.c.key)) (aL.map (·.c.key)) 0 []
      if u.1.isEmpty then
        let st := markDelA st ma aIds
        if bL.isEmpty then st else addEntry st mb bIds
      else
        let runs := insertRuns u.2.2 (bL.map (·.c.key)) 0 []
        let idB (j : Nat) : Nat := match bL[j]? with | some b => b.c.id | none => 0
        let dels : List ACmd := u.2.1.filterMap fun i => aL[i]?
        let eqs : List (ACmd × Nat) := u.1.filterMap fun p => (aL[p.1]?).map fun a => (a, idB p.2)
        let ad : Addr := some (a0.c.name, a0.c.seq)
        -- "Use name and seq num of existing command in added commands."
        let st := runs.flatten.foldl (fun st j => st.modB mb (idB j) fun x => { x with c := { x.c with name := a0.c.name, seq := a0.c.seq } }) st
        -- "Delete commands before adding new ones"
        let st := dels.foldl (fun st a => delOne st ma a) st
        let st := markDelA st ma (dels.map (·.c.id))
        let st := eqs.foldl (fun st p => makeEqualOne st ma mb p.1 p.2) st
        runs.foldl (fun st run => addEntry st mb (run.map idB) ad) st
  | [], b0 :: _ =>
    if b0.ready then st else addEntry st mb bIds
  | [], [] => st

/-- `diffCryptoMap(al, bl)`; `none` = `matchCryptoMap` aborts.  The renumbering done by
`matchCryptoMap` is a mutation of the target's commands: it is written back before `f` runs. -/
def diffCryptoMap (st : St) (ma mb : String) : Option St :=
  match matchCryptoMap ((st.aCmds ma).map (·.c)) ((st.bCmds mb).map (·.c)) with
  | none => none
  | some calls =>
    some (calls.foldl (fun st call =>
      let st := call.b.foldl (fun st c => st.modB mb c.id fun x => { x with c := c }) st
      diffEntry st ma mb (call.a.map (·.id)) (call.b.map (·.id))) st)

/-! ## crypto map interface (anchors) -/

/-- `markDeleted` for a binding of the device: the binding, the commands of its map, their transform-sets -/
def markDelBind (st : St) (i : Nat) : St :=
  match st.ab[i]? with
  | some b =>
    if b.toDelete then st else
    let st := { st with ab := st.ab.set i { b with toDelete := true } }
    markDelA st b.map ((st.aCmds b.map).map (·.c.id))
  | none => st

/-- name a reference to a crypto map of the target is printed with: `lookup[prefix][r][0].name` -/
def St.bMapName (st : St) (m : String) : String :=
  match st.bCmds m with
  | b :: _ => b.c.name
  | [] => m

/-- `add(bl)` for a run of target bindings; `none` = abort inside `matchCryptoMap` -/
def addBinds (st : St) (run : List Nat) : Option St :=
  match run with
  | [] => some st
  | j0 :: _ =>
    match st.bb[j0]? with
    | none => some st
    | some b0 =>
      if b0.ready then some st else
      let st := { st with bb := st.bb.set j0 { b0 with ready := true } }
      run.foldl (fun (acc : Option St) j =>
        acc.bind fun st =>
          match st.bb[j]? with
          | none => some st
          | some b =>
            -- follow: the crypto map has a fixed name; compare if the device has one of that name
            let st? := if (st.am.any fun x => x.name == b.map) then diffCryptoMap st b.map b.map
                       else some (addEntry st b.map ((st.bCmds b.map).map (·.c.id)))
            st?.map fun st => st.emit (.bind false (st.bMapName b.map) b.intf)) (some st)

/-- `diffCmds(al, bl, byParsedCmd)` for the lists of `crypto map … interface …` commands -/
def diffBinds (st : St) : Option St :=
  let aK := st.ab.map (·.intf)
  let bK := st.bb.map (·.intf)
  let u := unorderedA bK aK 0 []
  if u.1.isEmpty then
    let st := (List.range st.ab.length).foldl markDelBind st
    addBinds st (List.range st.bb.length)
  else
    let runs := insertRuns u.2.2 bK 0 []
    let st := u.2.1.foldl (fun st i =>
      match st.ab[i]? with
      | some b => if b.needed then st else
          ({ st with ab := st.ab.set i { b with needed := true } }).emit (.bind true b.map b.intf)
      | none => st) st
    let st := u.2.1.foldl markDelBind st
    let st? := u.1.foldl (fun (acc : Option St) p =>
      acc.bind fun st =>
        match st.ab[p.1]?, st.bb[p.2]? with
        | some a, some b =>
          let st := { st with ab := st.ab.set p.1 { a with needed := true }, bb := st.bb.set p.2 { b with ready := true } }
          diffCryptoMap st a.map b.map
        | _, _ => some st) (some st)
    runs.foldl (fun (acc : Option St) run => acc.bind fun st => addBinds st run) st?

/-! ## deleteUnused -/

/-- an object that may have to be deleted: kind 0 = transform-set, 1 = crypto map, 2 = the binding list
(sorted order of the prefixes "crypto ipsec ikev1 transform-set" < "crypto map" < "crypto map interface") -/
structure DelObj where
  kind : Nat
  name : String
  lines : List Chg
  refs : List (Nat × String)
  deriving Repr, Inhabited

def delObjLe (x y : DelObj) : Bool := x.kind < y.kind || (x.kind == y.kind && decide (x.name ≤ y.name))
def insertD (x : DelObj) : List DelObj → List DelObj
  | [] => [x]
  | y :: ys => if delObjLe x y then x :: y :: ys else y :: insertD x ys

/-- one round of the `for len(toDelete) > 0` loop, then the next -/
def delRounds : Nat → List DelObj → List Chg
  | 0, _ => []
  | _, [] => []
  | fuel + 1, objs =>
    let isRef (o : DelObj) : Bool := objs.any fun x => x.refs.contains (o.kind, o.name)
    let now := objs.filter fun o => !isRef o
    let later := objs.filter isRef
    (now.flatMap (·.lines)) ++ delRounds fuel later

def deleteUnused (st : St) : St :=
  let delCmdsOf (m : AMap) : List ACmd := m.cmds.filter fun c => !c.needed && (c.toDelete || m.drc)
  -- commands that stay although nothing needs them protect what they reference
  let still : List String := st.am.flatMap fun m =>
    (m.cmds.filter fun c => !c.needed && !(c.toDelete || m.drc)).flatMap fun c =>
      c.c.refs.filter fun r => st.ats.any fun t => t.name == r && !t.needed
  let tsObjs : List DelObj := (st.ats.filter fun t => !t.needed && (t.toDelete || t.drc) && !still.contains t.name).map fun t =>
    { kind := 0, name := t.name, lines := [.ts true t.name t.content], refs := [] }
  let mapObjs : List DelObj := (st.am.filter fun m => !(delCmdsOf m).isEmpty).map fun m =>
    { kind := 1, name := m.name, lines := (delCmdsOf m).map fun c => .del c.c c.orig,
      refs := (delCmdsOf m).flatMap fun c => c.c.refs.map fun r => (0, r) }
  let delB := st.ab.filter fun b => !b.needed && b.toDelete
  let bindObjs : List DelObj := if delB.isEmpty then [] else
    [{ kind := 2, name := "", lines := delB.map fun b => .bind true b.map b.intf, refs := delB.map fun b => (1, b.map) }]
  let objs := (tsObjs ++ mapObjs ++ bindObjs).foldr insertD []
  { st with out := st.out ++ delRounds (objs.length + 1) objs }

/-! ## the whole run -/

structure Config where
  intfs : List String := []                 -- `nameif` names of the device's interface blocks
  ts : List (String × String × Bool) := []  -- name, content, name contains -DRC-
  maps : List (String × Bool × List (Cmd × String)) := []   -- name, -DRC-, commands with `orig`
  binds : List (String × String) := []      -- crypto map name, interface
  deriving Repr, Inhabited

/-- `markNeeded` for the bindings of interfaces unknown to Netspoc; those bindings are not compared -/
def checkInterfaces (st : St) (aIntfs : List String) : St :=
  let managed := st.bb.map (·.intf)
  let unk (b : ABind) : Bool := aIntfs.contains b.intf && !managed.contains b.intf
  let st := (st.ab.filter unk).foldl (fun st b =>
    (st.aCmds b.map).foldl (fun st c =>
      let st := st.modA b.map c.c.id fun x => { x with needed := true }
      c.c.refs.foldl (fun st r => st.modATS r fun t => { t with needed := true }) st) st) st
  { st with ab := st.ab.filter fun b => !unk b }

def initSt (a b : Config) : St :=
  { ats := a.ts.map fun t => { name := t.1, content := t.2.1, drc := t.2.2 }
    bts := b.ts.map fun t => { name := t.1, cur := genName t.1 (a.ts.map (·.1)), content := t.2.1 }
    am := a.maps.map fun m => { name := m.1, drc := m.2.1, cmds := m.2.2.map fun c => { c := c.1, orig := c.2 } }
    bm := b.maps.map fun m => { name := m.1, cmds := m.2.2.map fun c => { c := c.1 } }
    ab := a.binds.map fun x => { map := x.1, intf := x.2 }
    bb := b.binds.map fun x => { map := x.1, intf := x.2 } }

/-- every interface of the target exists on the device (else `drc` reports an error) -/
def intfsKnown (a b : Config) : Bool :=
  b.binds.all fun x => a.intfs.contains x.2 || a.binds.any fun y => y.2 == x.2

/-- The change list `drc` prints; `none` = error / abort. -/
def engine (a b : Config) : Option (List Chg) :=
  if !intfsKnown a b then none else
  let st := checkInterfaces (initSt a b) a.intfs
  (diffBinds st).map fun st => (deleteUnused st).out

def script (a b : Config) : Option (List String) := (engine a b).map (·.map Chg.render)

end NA.Vpn
