import NA.Model.CursorHttp
/-
C20 — `vsysInfo.checkGroupCycle` (panos/diff.go, fix fa04797): depth-first search with the states
visiting / done.  `stack` = the groups whose visit is in progress (state `visiting`), `done` = the
finished groups in the order in which they finished.  Recursion depth is modelled by fuel.
-/
namespace NA.C20.PanOs
open NA.C20 NA.C20.Res

def cycleMsg (name : Str) : Str := lit "Address-group " ++ name ++ lit " must not be member of itself"

/-- `for _, m := range members { visit(m) }` with the visit function as parameter. -/
def visitAllWith (f : Str → List Str → Res (List Str)) : List Str → List Str → Res (List Str)
  | [], done => .ok done
  | m :: ms, done => (f m done).bind fun d => visitAllWith f ms d

/-- `visit(name)`. -/
def visit (G : Str → Option (List Str)) : Nat → Str → List Str → List Str → Res (List Str)
  | 0, _, _, _ => .panic (.explicit "fatal error: stack overflow")
  | fuel + 1, n, stack, done =>
    match G n with
    | none => .ok done
    | some ms =>
      if n ∈ done then .ok done
      else if n ∈ stack then .diag (cycleMsg n)
      else (visitAllWith (fun m d => visit G fuel m (n :: stack) d) ms done).bind fun d => .ok (d ++ [n])

/-- `checkGroupCycle`: `for _, g := range v.vsys.AddressGroups { visit(g.Name) }`. -/
def checkGroupCycle (G : Str → Option (List Str)) (fuel : Nat) (names : List Str) : Res (List Str) :=
  visitAllWith (fun m d => visit G (fuel + 1) m [] d) names []

end NA.C20.PanOs
