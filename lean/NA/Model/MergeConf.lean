import NA.Model.Merge
/-
Configuration-level model of `loadSpoc` / `addRaw` / `MergeSpoc` for the fragment C18 talks about:

* ASA / IOS: named ACLs plus *anchors* that bind an ACL (ASA `access-group $ACL in|out interface IF`,
  IOS `interface IF` / ` ip access-group $ACL in|out`).  This is the part of `mergeCmds` / `mergeRefs`
  that decides which raw ACL is merged into which Netspoc ACL and what is reported
  (unknown command, unknown reference, name clash, object referenced twice, unused object).
* Linux: chains (table and chain name flattened into one key), PAN-OS: vsys, NSX: policies.

Names and anchor keys are numbers; the harness maps them to strings.
Core Lean only; executable.
-/
namespace NA.C18

inductive Dev | asa | ios | linux | panos | nsx
  deriving DecidableEq, Repr, Inhabited

inductive Err
  | unknownCmd              -- raw: "Unexpected command" / Linux "Unknown command" / reserved rule name
  | unknownRef (acl : Nat)  -- "… references unknown …"
  | onlyOnce (acl : Nat)    -- "Must reference '…' only once in raw"
  | nameClash (acl : Nat)   -- "Name clash for '…' from raw"
  | redefChain (c : Nat)    -- Linux "Must not redefine chain"
  | panic                   -- Go runtime panic (code as found only)
  deriving DecidableEq, Repr, Inhabited

/-- A line as written in a file: `known = false` is a sub-command the parser does not know
(IOS ACL body); the parser drops it without a message. -/
structure SrcLine where
  e : Entry
  known : Bool := true
  deriving DecidableEq, Repr, Inhabited

structure Anchor where
  key : Nat
  acl : Nat
  deriving DecidableEq, Repr, Inhabited

/-- One container: ACL (Cisco), chain (Linux), vsys (PAN-OS), policy (NSX).
`user`: Linux chain with policy "-" (user defined chain). -/
structure Cont where
  name  : Nat
  user  : Bool := false
  lines : List SrcLine
  deriving DecidableEq, Repr, Inhabited

structure File where
  isRaw      : Bool := false
  unknownTop : Bool := false      -- contains a top-level command / rule name the raw parser rejects
  conts      : List Cont := []
  anchors    : List Anchor := []
  deriving DecidableEq, Repr, Inhabited

abbrev Table := List (Nat × Bool × List Entry)   -- name ↦ (user, entries), first match wins

structure Conf where
  conts   : Table := []
  anchors : List Anchor := []
  deriving DecidableEq, Repr, Inhabited

def Table.get? (t : Table) (n : Nat) : Option (Bool × List Entry) :=
  (t.find? (fun c => c.1 == n)).map (·.2)

def Table.has (t : Table) (n : Nat) : Bool := t.any (fun c => c.1 == n)

/-- Replace the entries of the first container named `n` (keeping its `user` flag), or add it at
the end. -/
def Table.set : Table → Nat → Bool → List Entry → Table
  | [], n, user, ls => [(n, user, ls)]
  | c :: t, n, user, ls => if c.1 == n then (c.1, c.2.1, ls) :: t else c :: Table.set t n user ls

/-- The entries of container `n` (empty if there is none). -/
def linesOf (t : Table) (n : Nat) : List Entry := ((t.get? n).map (·.2)).getD []

/-- What the parser keeps of a container. -/
def Cont.parsed (c : Cont) : List Entry := (c.lines.filter (·.known)).map (·.e)

/-- Parsed file: containers by name.  Cisco: several blocks of one name are concatenated
(`m[c.name] = append(m[c.name], c)`); the other backends keep the list as it is. -/
def File.table (f : File) : Table :=
  f.conts.foldl (fun t c =>
    match t.get? c.name with
    | some (u, ls) => t.set c.name u (ls ++ c.parsed)
    | none => t ++ [(c.name, c.user, c.parsed)]) []

/-- Errors found while reading one file (`ParseConfig` + `checkReferences`). -/
def File.parseErr (dev : Dev) (f : File) : Option Err :=
  if f.isRaw && f.unknownTop then some .unknownCmd
  else match dev with
    | .asa | .ios =>
      match f.anchors.find? (fun k => !(f.table.has k.acl)) with
      | some k => some (.unknownRef k.acl)
      | none => none
    | _ => none

inductive Gen | old | new
  deriving DecidableEq, Repr, Inhabited

def mergeLines (dev : Dev) (g : Gen) (a b : List Entry) : Except Err (List Entry) :=
  match dev, g with
  | .asa, .new => .ok (mergeASA a b)
  | .asa, .old => match mergeASAOld a b with | some r => .ok r | none => .error .panic
  | .ios, .new => .ok (mergeIOS a b)
  | .ios, .old => match mergeIOSOld a b with | some r => .ok r | none => .error .panic
  | .linux, .new => .ok (mergeLinux a b)
  | .linux, .old => .ok (mergeLinuxOld a b)
  | .panos, _ => .ok (mergePan a b)
  | .nsx, _ => .ok (mergeNsx a b)

/-! ### Cisco: anchors and references (`mergeCmds` generic path + `mergeRefs`) -/

structure St where
  conts   : Table
  anchors : List Anchor
  refd    : List Nat := []       -- `isReferenced[c] == true`
  deriving Repr

/-- One anchor of `b`.  `orig` are the anchors of `a` before this file is merged (the map `m` is
built before the loop). -/
def ciscoStep (dev : Dev) (g : Gen) (isRaw : Bool) (orig : List Anchor) (bt : Table)
    (st : St) (k : Anchor) : Except Err St :=
  match orig.find? (fun ka => ka.key == k.key) with
  | some ka =>
    -- anchor known to Netspoc: merge the referenced ACL into Netspoc's ACL
    if st.refd.contains k.acl then .error (.onlyOnce k.acl)
    else match mergeLines dev g (linesOf st.conts ka.acl) (linesOf bt k.acl) with
      | .ok r => .ok { st with conts := st.conts.set ka.acl false r, refd := k.acl :: st.refd }
      | .error e => .error e
  | none =>
    -- new anchor: the ACL is added under its own name
    if isRaw && st.conts.has k.acl then .error (.nameClash k.acl)
    else if g == .new && isRaw && st.refd.contains k.acl then .error (.onlyOnce k.acl)
    else match mergeLines dev g [] (linesOf bt k.acl) with
      | .ok r => .ok { conts := st.conts.set k.acl false r, anchors := st.anchors ++ [k], refd := k.acl :: st.refd }
      | .error e => .error e

def foldExcept {σ β ε : Type} (f : σ → β → Except ε σ) : σ → List β → Except ε σ
  | s, [] => .ok s
  | s, x :: xs => match f s x with
    | .ok s' => foldExcept f s' xs
    | .error e => .error e

/-- The step does not overwrite an existing container with a new anchor's ACL (true for every
successful raw step; for an IPv6 file it is the hypothesis that excludes F-C18g). -/
def stepSafe (orig : List Anchor) (st : St) (k : Anchor) : Bool :=
  (orig.find? (fun ka => ka.key == k.key)).isSome || !st.conts.has k.acl

/-- Every step of the run is safe (decidable on every concrete input). -/
def safeRun (dev : Dev) (g : Gen) (isRaw : Bool) (orig : List Anchor) (bt : Table) : St → List Anchor → Bool
  | _, [] => true
  | st, k :: ks => stepSafe orig st k &&
      match ciscoStep dev g isRaw orig bt st k with
      | .ok st' => safeRun dev g isRaw orig bt st' ks
      | .error _ => true

/-- `safeRun` for the merge of file `f` into `a`. -/
def safeMerge (dev : Dev) (g : Gen) (a : Conf) (f : File) : Bool :=
  safeRun dev g f.isRaw a.anchors f.table { conts := a.conts, anchors := a.anchors } f.anchors

/-- Names of the raw containers no anchor referenced ("Ignoring unused '…' in raw"). -/
def unusedWarnings (isRaw : Bool) (bt : Table) (refd : List Nat) : List Nat :=
  if isRaw then (bt.map (·.1)).filter (fun n => !refd.contains n) else []

def mergeCisco (dev : Dev) (g : Gen) (a : Conf) (f : File) : Except Err (Conf × List Nat) :=
  match foldExcept (ciscoStep dev g f.isRaw a.anchors f.table)
      { conts := a.conts, anchors := a.anchors } f.anchors with
  | .ok st => .ok ({ conts := st.conts, anchors := st.anchors }, unusedWarnings f.isRaw f.table st.refd)
  | .error e => .error e

/-! ### Linux chains, PAN-OS vsys, NSX policies -/

def linuxStep (g : Gen) (t : Table) (c : Nat × Bool × List Entry) : Except Err Table :=
  match t.get? c.1 with
  | none => .ok (t ++ [c])
  | some (user, al) =>
    if user then .error (.redefChain c.1)
    else do
      let r ← mergeLines .linux g al c.2.2
      pure (t.set c.1 user r)

def mergeLinuxConf (g : Gen) (a : Conf) (f : File) : Except Err (Conf × List Nat) := do
  let t ← foldExcept (linuxStep g) a.conts f.table
  pure ({ a with conts := t }, [])

/-- `processVsysPairs`: vsys of `a` first (merged with the equally named vsys of `b`), then the
vsys only `b` has; for those the rules are merged into an empty vsys. -/
def mergePanConf (a : Conf) (f : File) : Except Err (Conf × List Nat) :=
  let bt := f.table
  let t1 := a.conts.map (fun c => match bt.get? c.1 with
    | some (_, bl) => (c.1, c.2.1, mergePan c.2.2 bl)
    | none => c)
  let t2 := (bt.filter (fun c => !a.conts.has c.1)).map (fun c => (c.1, c.2.1, mergePan [] c.2.2))
  .ok ({ a with conts := t1 ++ t2 }, [])

/-- NSX: policies in file order, each appended to the first policy of `a` with the same id. -/
def mergeNsxConf (a : Conf) (f : File) : Except Err (Conf × List Nat) :=
  let t := f.conts.foldl (fun t c =>
    match t.get? c.name with
    | some (u, al) => t.set c.name u (mergeNsx al c.parsed)
    | none => t ++ [(c.name, c.user, c.parsed)]) a.conts
  .ok ({ a with conts := t }, [])

def mergeSpoc (dev : Dev) (g : Gen) (a : Conf) (f : File) : Except Err (Conf × List Nat) :=
  match dev with
  | .asa | .ios => mergeCisco dev g a f
  | .linux => mergeLinuxConf g a f
  | .panos => mergePanConf a f
  | .nsx => mergeNsxConf a f

/-- A file read as the first configuration (`conf4`). -/
def File.toConf (dev : Dev) (f : File) : Conf :=
  match dev with
  | .nsx => { conts := f.conts.foldl (fun t c => t ++ [(c.name, c.user, c.parsed)]) [], anchors := [] }
  | _ => { conts := f.table, anchors := f.anchors }

structure Result where
  conf : Conf
  warn : List Nat
  deriving Repr

/-- `loadSpoc`: read IPv4, read IPv6, merge, read raw, merge. -/
def loadSpoc (dev : Dev) (g : Gen) (v4 v6 raw : File) : Except Err Result := do
  if let some e := v4.parseErr dev then throw e
  if let some e := v6.parseErr dev then throw e
  let (c, _) ← mergeSpoc dev g (v4.toConf dev) v6
  if let some e := raw.parseErr dev then throw e
  let (c, w) ← mergeSpoc dev g c raw
  pure { conf := c, warn := w }

end NA.C18
