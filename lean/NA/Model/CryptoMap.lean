/-!
# `matchCryptoMap` of `cisco/diff.go` (executable model)

The Go function gets the commands `al` of one crypto map of the device and the commands `bl` of the
crypto map of the target, groups both by sequence number, pairs entries **by peer** and gives every
target entry that found no partner a **fresh sequence number** (and the device map's name):

* `mapBySeq` / `slices.Sorted(maps.Keys …)`  → `seqKeys`, `entry`
* `getPeer`                                   → `getPeer` (first command of the entry that carries a peer;
  the text analysis `strings.Cut(parsed, "set peer ")` / `"ipsec-isakmp dynamic "` is done by the caller: field `peer`)
* `mapPeerToSeq(bSeqMap)`                     → `peerSeq` (lowest sequence number for a peer)
* the loop over `aSeqMap` with `delete(bSeqMap, bSeq)` → `matchLoop` (`done` = deleted keys)
* the loop "Use fresh sequence numbers for added commands" → `freshLoop`, `nextUp`, `nextDown`

Sequence numbers are `Int` (Go `int`; the dynamic counter counts downward from 65535 without a
lower bound).  All definitions are structural, so concrete instances are decided by the kernel.
-/
namespace NA.Vpn

/-- What `getPeer` extracts from one command: `"peer " + p` of `set peer p`, or the name of the
referenced dynamic map of `ipsec-isakmp dynamic NAME`. -/
inductive Peer
  | static (ip : String)
  | dyn (name : String)
  deriving DecidableEq, Repr, Inhabited

def Peer.isStatic : Peer → Bool
  | .static _ => true
  | .dyn _ => false

/-- One `crypto map NAME SEQ …` command.  `key`: the `parsed` text behind `$NAME $SEQ ` (what
`diffUnordered` compares), `body`: `key` split at its `$REF` placeholders, `refs`: the referenced
transform-set names. -/
structure Cmd where
  id   : Nat := 0          -- position in the command list of its crypto map (bookkeeping of the engine model only)
  name : String
  seq  : Int
  key  : String
  attr : String := key     -- which attribute of the entry the line sets (`set pfs`, `set peer`, …): one value per attribute on the device
  body : List String := []
  refs : List String := []
  peer : Option Peer := none
  deriving DecidableEq, Repr, Inhabited

/-! ## grouping by sequence number -/

/-- insert into a strictly ascending list -/
def insSorted (x : Int) : List Int → List Int
  | [] => [x]
  | y :: ys => if x < y then x :: y :: ys else if x = y then y :: ys else y :: insSorted x ys

/-- `slices.Sorted(maps.Keys(m))` for the keys that occur in `l` -/
def sortedKeys (l : List Int) : List Int := l.foldr insSorted []

def seqKeys (l : List Cmd) : List Int := sortedKeys (l.map (·.seq))

/-- `mapBySeq(l)[s]` -/
def entry (l : List Cmd) (s : Int) : List Cmd := l.filter (fun c => c.seq == s)

/-- `getPeer`: `none` = the Go code aborts with "Missing peer or dynamic in crypto map". -/
def getPeer : List Cmd → Option Peer
  | [] => none
  | c :: cs => match c.peer with
    | some p => some p
    | none => getPeer cs

/-- `mapPeerToSeq(seqMap)[p]`: the lowest sequence number whose entry has peer `p`. -/
def peerSeq (l : List Cmd) : List Int → Peer → Option Int
  | [], _ => none
  | s :: ss, p => if getPeer (entry l s) = some p then some s else peerSeq l ss p

/-! ## matching -/

/-- One call `f(aSeqL, bSeqL)`. -/
structure Call where
  a : List Cmd
  b : List Cmd
  deriving DecidableEq, Repr, Inhabited

/-- "Match commands having same peer": `aKeys` ascending, `done` = keys already deleted from `bSeqMap`.
Returns the calls and the final `done`. -/
def matchLoop (al bl : List Cmd) (bKeys : List Int) : List Int → List Int → List Call × List Int
  | [], done => ([], done)
  | s :: rest, done =>
    let aE := entry al s
    match (getPeer aE).bind (peerSeq bl bKeys) with
    | some t =>
      let r := matchLoop al bl bKeys rest (t :: done)
      (⟨aE, if t ∈ done then [] else entry bl t⟩ :: r.1, r.2)
    | none =>
      let r := matchLoop al bl bKeys rest done
      (⟨aE, []⟩ :: r.1, r.2)

/-- `for ; aSeqMap[*seq] != nil; *seq += 1 {}` — `fuel` bounds the number of steps. -/
def nextUp (used : List Int) : Nat → Int → Int
  | 0, s => s
  | fuel + 1, s => if s ∈ used then nextUp used fuel (s + 1) else s

/-- `for ; aSeqMap[*seq] != nil; *seq += -1 {}` -/
def nextDown (used : List Int) : Nat → Int → Int
  | 0, s => s
  | fuel + 1, s => if s ∈ used then nextDown used fuel (s - 1) else s

/-- The sequence numbers the second loop hands out: `kinds` = for every remaining target entry in
ascending order whether its peer is static; `st`/`dy` = the two counters. -/
def freshSeqs (used : List Int) : List Bool → Int → Int → List Int
  | [], _, _ => []
  | true :: ks, st, dy =>
    let s := nextUp used (used.length + 1) st
    s :: freshSeqs used ks (s + 1) dy
  | false :: ks, st, dy =>
    let s := nextDown used (used.length + 1) dy
    s :: freshSeqs used ks st (s - 1)

/-- `bCmd.seq = *seq; if len(al) > 0 { bCmd.name = al[0].name }` -/
def renumber (al : List Cmd) (s : Int) (c : Cmd) : Cmd :=
  match al with
  | [] => { c with seq := s }
  | a :: _ => { c with seq := s, name := a.name }

def isStaticEntry (l : List Cmd) : Bool :=
  match getPeer l with
  | some p => p.isStatic
  | none => false

/-- "Use fresh sequence numbers for added commands": `rest` = remaining keys of `bSeqMap`, ascending. -/
def freshLoop (al bl : List Cmd) (used : List Int) : List Int → Int → Int → List Call
  | [], _, _ => []
  | t :: rest, st, dy =>
    let bE := entry bl t
    if isStaticEntry bE then
      let s := nextUp used (used.length + 1) st
      ⟨[], bE.map (renumber al s)⟩ :: freshLoop al bl used rest (s + 1) dy
    else
      let s := nextDown used (used.length + 1) dy
      ⟨[], bE.map (renumber al s)⟩ :: freshLoop al bl used rest st (s - 1)

/-- every entry has a peer (otherwise `getPeer` aborts the program) -/
def allHavePeer (l : List Cmd) : Bool := (seqKeys l).all (fun s => (getPeer (entry l s)).isSome)

def dynStart : Int := 65535

/-- `matchCryptoMap(al, bl, f)`: the list of calls of `f`, in order; `none` = abort. -/
def matchCryptoMap (al bl : List Cmd) : Option (List Call) :=
  if allHavePeer al && allHavePeer bl then
    let aKeys := seqKeys al
    let bKeys := seqKeys bl
    let m := matchLoop al bl bKeys aKeys []
    let rest := bKeys.filter (fun t => !(m.2.contains t))
    some (m.1 ++ freshLoop al bl aKeys rest 1 dynStart)
  else none

end NA.Vpn
