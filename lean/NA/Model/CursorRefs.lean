import NA.Model.Cursor
/-
C20, round 3 — the lookup map of `ParseConfig`, `checkReferences`, and the index searches of
`mergeASAACLs` / `mergeIOSACLs` (cisco/config.go).

The lookup map `prefix -> name -> []*cmd` is an association list keyed by (prefix, name); it is
BUILT from the commands the parser model returns (`buildLookup`), so that "a list stored in the
map is never empty" is a theorem about the model, not an assumption.
-/
namespace NA.C20
open Res

abbrev Lookup := List ((Str × Str) × List Cmd)

def noDescr : Descr := { pre := [], template := [], ignore := false }

def prefixOf (ds : List Descr) (c : Cmd) : Str := (ds.getD c.descr noDescr).pre

/-- `m[c.name] = append(m[c.name], c)` in the map of `c.typ.prefix`. -/
def insertCmd : Lookup → (Str × Str) → Cmd → Lookup
  | [], k, c => [(k, [c])]
  | (k', l) :: rest, k, c => if k' = k then (k', l ++ [c]) :: rest else (k', l) :: insertCmd rest k c

/-- the lookup map after the line loop: every top-level command under (prefix, name). -/
def buildLookup (ds : List Descr) (cmds : List Cmd) : Lookup :=
  cmds.foldl (fun lk c => insertCmd lk (prefixOf ds c, c.name) c) []

def Lookup.find (lk : Lookup) (k : Str × Str) : Option (List Cmd) :=
  (List.find? (fun g => g.1 = k) lk).map (·.2)

/-! ### checkReferences -/

def fiveGroups : List Str := List.replicate 5 (lit "object-group")

def isTransformCmd (parsed : Str) : Option Str :=
  -- `strings.Cut(c.parsed, " set ikev1 transform-set ")` / ikev2 ipsec-proposal found
  let has (pat : Str) : Bool := (List.range (parsed.length + 1)).any fun i => pat.isPrefixOf (parsed.drop i)
  if has (lit " set ikev1 transform-set ") then some (lit "crypto ipsec ikev1 transform-set")
  else if has (lit " set ikev2 ipsec-proposal ") then some (lit "crypto ipsec ikev2 ipsec-proposal")
  else none

/-- `c.typ.ref` of a top-level command at the time of `checkReferences` (after the overrides of
`postprocessParsed`). -/
def typRefTop (ds : List Descr) (c : Cmd) : List Str :=
  let d := ds.getD c.descr noDescr
  if d.pre = lit "access-list" then fiveGroups
  else if d.pre = lit "crypto map" ∨ d.pre = lit "crypto dynamic-map" then
    match isTransformCmd c.parsed with
    | some p => List.replicate 11 p
    | none => d.refs
  else d.refs

/-- `c.typ.ref` of a sub command of `pc`.  `fixed`: sub commands of `ip access-list extended`
have the five object-group prefixes registered (fix d99105c); the snapshot has none. -/
def typRefSub (fixed : Bool) (ds : List Descr) (pc sc : Cmd) : List Str :=
  let d := ds.getD pc.descr noDescr
  if fixed ∧ d.pre = lit "ip access-list extended" then fiveGroups
  else d.subRefs.getD sc.descr []

def defaultObjects : List (Str × Str) :=
  [(lit "group-policy", lit "DfltGrpPolicy"), (lit "tunnel-group", lit "DefaultL2LGroup"),
   (lit "tunnel-group", lit "DefaultRAGroup"), (lit "tunnel-group", lit "DefaultWEBVPNGroup")]

inductive RefStep
  | next            -- reference found (or default object added)
  | dropRefs        -- unknown ACL of a non-raw file: `c.ref = nil; c.parsed = c.orig; break`
  deriving Repr

/-- the closure `check` of `checkReferences` for one command: walks `c.ref` with `c.typ.ref[i]`.
Returns whether the references were dropped. -/
def checkRefs (lk : Lookup) (isRaw : Bool) (orig : Str) : List Str → List Str → Res Bool
  | _, [] => .ok false
  | [], _ :: _ => .panic (.index "c.typ.ref[i]")
  | p :: ps, name :: names =>
    if (lk.find (p, name)).isSome ∨ (p, name) ∈ defaultObjects then checkRefs lk isRaw orig ps names
    else if ¬ isRaw ∧ p = lit "ip access-list extended" then .ok true
    else .diag (lit "'" ++ orig ++ lit "' references unknown '" ++ p ++ lit " " ++ name ++ lit "'")

/-- the sub commands of one command. -/
def checkSubs (fixed : Bool) (ds : List Descr) (lk : Lookup) (isRaw : Bool) (pc : Cmd) : List Cmd → Res Unit
  | [] => .ok ()
  | sc :: scs =>
    (checkRefs lk isRaw sc.orig (typRefSub fixed ds pc sc) sc.ref).bind fun _ =>
      checkSubs fixed ds lk isRaw pc scs

/-- `checkReferences` over the commands of one (prefix, name) entry and their sub commands. -/
def checkCmds (fixed : Bool) (ds : List Descr) (lk : Lookup) (isRaw : Bool) : List Cmd → Res Unit
  | [] => .ok ()
  | c :: cs =>
    (checkRefs lk isRaw c.orig (typRefTop ds c) c.ref).bind fun _ =>
      (checkSubs fixed ds lk isRaw c c.sub).bind fun _ =>
        checkCmds fixed ds lk isRaw cs

/-- byte-wise comparison of strings (ASCII): `slices.Sorted(maps.Keys(…))`. -/
def strLt : Str → Str → Bool
  | [], [] => false
  | [], _ :: _ => true
  | _ :: _, [] => false
  | a :: as, b :: bs => if a.toNat < b.toNat then true else if b.toNat < a.toNat then false else strLt as bs

def keyLt (a b : Str × Str) : Bool := strLt a.1 b.1 || (a.1 = b.1 && strLt a.2 b.2)

def insertSorted (g : (Str × Str) × List Cmd) : Lookup → Lookup
  | [] => [g]
  | h :: t => if keyLt g.1 h.1 then g :: h :: t else h :: insertSorted g t

def sortLookup (lk : Lookup) : Lookup := lk.foldr insertSorted []

def checkEntries (fixed : Bool) (ds : List Descr) (lk : Lookup) (isRaw : Bool) : Lookup → Res Unit
  | [] => .ok ()
  | g :: gs => (checkCmds fixed ds lk isRaw g.2).bind fun _ => checkEntries fixed ds lk isRaw gs

/-- `checkReferences`: entries in sorted (prefix, name) order. -/
def checkReferences (fixed : Bool) (ds : List Descr) (lk : Lookup) (isRaw : Bool) : Res Unit :=
  checkEntries fixed ds lk isRaw (sortLookup lk)

/-! ### mergeASAACLs / mergeIOSACLs: the index searches -/

/-- `i := len(acl); for ; i > nPre; i-- { if isPermit(acl[i-1]) { break } }`:
`permits` = for every line of `acl` whether it is a permit line.  The result is the insert
position for the `[APPEND]` lines (`slices.Insert(acl, i, …)` needs `i ≤ len(acl)`). -/
def appendPos (permits : List Bool) (nPre : Nat) : Nat → Res Nat
  | 0 => .ok 0
  | i + 1 =>
    if i + 1 > nPre then
      match permits[i]? with
      | none => .panic (.index "acl[i-1]")
      | some true => .ok (i + 1)
      | some false => appendPos permits nPre i
    else .ok (i + 1)

structure AclLine where
  orig : Str
  parsed : Str
  app : Bool
  deriving Repr

def containsStr (pat s : Str) : Bool := (List.range (s.length + 1)).any fun i => pat.isPrefixOf (s.drop i)

/-- `mergeASAACLs`: `aCmds` from Netspoc, `bCmds` from the raw / IPv6 file; returns the merged ACL. -/
def mergeASAACL (aCmds bCmds : List AclLine) : Res (List AclLine) :=
  let appendACL := bCmds.filter (·.app)
  let prependACL := bCmds.filter (fun b => !b.app)
  -- prepend, but a terminating `deny ip any6 any6` goes to the end
  let r1 : Res (List AclLine × List AclLine) :=
    match prependACL.getLast? with
    | none => .ok (prependACL, aCmds)
    | some last =>
      -- i := len(prependACL) - 1 ; prependACL[i] ; prependACL[:i]
      if prependACL.length - 1 < prependACL.length then
        if last.parsed = lit "access-list $NAME extended deny ip any6 any6" then
          let pre := prependACL.take (prependACL.length - 1)
          .ok (pre, pre ++ (aCmds ++ [last]))
        else .ok (prependACL, prependACL ++ aCmds)
      else .panic (.index "prependACL[i]")
  r1.bind fun (pre, acl) =>
    if appendACL = [] then .ok acl
    else
      (appendPos (acl.map fun l => containsStr (lit "$NAME extended permit") l.parsed) pre.length acl.length).bind fun i =>
        if i ≤ acl.length then .ok (acl.take i ++ appendACL ++ acl.drop i)
        else .panic (.slice "slices.Insert(acl, i, …)")

/-- `mergeIOSACLs`: `aSub` = sub commands of `aCmds[0]` (or none), `bSubs` = sub commands of every
command of `bCmds` (the list `bCmds` itself must not be empty: `ab.bCmds[0]`). -/
def mergeIOSACL (aSub : List AclLine) (bCmds : List (List AclLine)) : Res (List AclLine) :=
  match bCmds with
  | [] => .panic (.index "ab.bCmds[0]")
  | _ :: _ =>
    let subs := bCmds.flatten
    let appendACL := subs.filter (·.app)
    let prependACL := subs.filter (fun b => !b.app)
    let acl := prependACL ++ aSub
    if appendACL = [] then .ok acl
    else
      (appendPos (acl.map fun l => (lit "permit ").isPrefixOf l.parsed) prependACL.length acl.length).bind fun i =>
        if i ≤ acl.length then .ok (acl.take i ++ appendACL ++ acl.drop i)
        else .panic (.slice "slices.Insert(acl, i, …)")

end NA.C20
