import NA.Model.ApplyHttp
/-!
# `device.ApproveOrCompare`, `errlog.HandleAbort`, `doapprove.Main`, `status.Set*` (C09)

`pkg/device/main.go`, `pkg/errlog/abort.go`, `pkg/doapprove/main.go`, `pkg/status/status.go`.
-/
namespace NA.Apply
open NA.Sess

inductive Backend | asa | ios | linux | panos | nsx
  deriving DecidableEq, Repr, Inhabited

def Backend.loadDevice : Backend → Sess
  | .asa => asaLoadDevice | .ios => iosLoadDevice | .linux => linuxLoadDevice
  | .panos => panosLoadDevice | .nsx => nsxLoadDevice

def Backend.applyBody : Backend → Sess
  | .asa => asaApplyBody | .ios => iosApplyBody | .linux => linuxApplyBody
  | .panos => panosApplyBody | .nsx => nsxApplyBody

def Backend.closeConnectionBody : Backend → Sess
  | .asa => ciscoCloseConnectionBody | .ios => ciscoCloseConnectionBody | _ => .skip

def compareDeviceBody (b : Backend) : Sess :=
  .call "loadDevice" ["_"] b.loadDevice ;;
  .ite .err "err != nil" (.ret .keep ["err"]) .skip ;;
  op "getCompare" ["_", "_"] ;;
  .ret .keep ["_"]

def compareDevice (b : Backend) : Sess := .call "compareDevice" ["_"] (compareDeviceBody b)

def applyCommandsBody (b : Backend) : Sess :=
  op "getLogFH" [".change"] ;;
  .ite .never "err != nil" (.ret .keep ["err"]) .skip ;;
  op "HasChanges" ;;
  .ite (.not .hasChanges) "¬$r.HasChanges()" (.ret .nil ["nil"]) .skip ;;
  .call "ApplyCommands" ["_"] b.applyBody ;;
  .ret .keep ["_"]
def applyCommands (b : Backend) : Sess := .call "applyCommands" [] (applyCommandsBody b)

def approveBody (b : Backend) : Sess :=
  compareDevice b ;;
  .ite .err "err != nil" (.ret .keep ["err"]) .skip ;;
  op "GetErrUnmanaged" ;;
  .ite .unmanaged "$GetErrUnmanaged != nil" (.ret .err ["_"]) .skip ;;
  applyCommands b ;;
  .ret .keep ["_"]

def showCompareInfoBody : Sess :=
  op "HasChanges" ;; .ite .hasChanges "" (.mark .logChanged) .skip

def compareBody (b : Backend) : Sess :=
  compareDevice b ;;
  .ite .err "err != nil" (.ret .keep ["err"]) .skip ;;
  op "GetErrUnmanaged" ;;
  .scope "loop" (.when .unmanaged (.warn ["%v", "_"])) ;;
  .call "showCompareInfo" [] showCompareInfoBody ;;
  -- `if s.logFname != "" && s.HasChanges()`: a conjunction is the nested test (a log directory is always given)
  .ite (.not .never) "$r.logFname != \"\""
    (op "HasChanges" ;;
     .ite .hasChanges "$r.HasChanges()"
       (op "getLogFH" [".cmp"] ;; .ite .never "err != nil" (.ret .keep ["err"]) .skip) .skip) .skip ;;
  .ret .nil ["nil"]

def approveOrCompareBody (b : Backend) : Sess :=
  op "HandleAbort" ;; (.scope "func" (
    op "SetStderrLog" ["_"] ;;
    op "getRealDevice" ["_"] ;;
    .ite .isCompare "$p1"
      (.call "compare" ["_"] (compareBody b))
      (.call "approve" ["_"] (approveBody b)) ;;
    .call "CloseConnection" [] b.closeConnectionBody ;;
    .ite .err "err != nil" (.abort ["%v", "err"]) .skip ;;
    .ret .nil ["0"])) ;;
  .ret .none ["_"]

/-- `errlog.HandleAbort`: a bailout panic becomes exit code 1. -/
def handleAbortSkel : Sess :=
  .defer (op "recover" ;;
          .ite .never "$recover != nil" (.ite .never "¬$assert.2" (op "panic" ["_"]) .skip) .skip)
    (.ret .none ["_"])

def abortSkel : Sess := op "PrintWithMarker" ["ERROR>>> ", "_", "_"] ;; op "panic" ["_"]

/-- The whole run of `drc` / of the `ApproveOrCompare` call inside `do-approve`. -/
def runProg (b : Backend) (env : Env) : St := exec (approveOrCompareBody b) env {}

def exitCode (s : St) : Nat := if s.mode = .panic then 1 else 0

/-! ## doapprove.Main and status.Set* -/

structure Action where
  result : String := ""
  policy : String := ""
  time : Nat := 0
  deriving DecidableEq, Repr, Inhabited

structure Status where
  approve : Action := {}
  compare : Action := {}
  deriving DecidableEq, Repr, Inhabited

def setApprove (v : Status) (policy : String) (now : Nat) (failed : Bool) : Status :=
  { v with approve := ⟨if failed then "FAILED" else "OK", policy, now⟩ }

def setCompare (v : Status) (policy : String) (now : Nat) (changed : Bool) : Status :=
  if !changed then { v with compare := ⟨"UPTODATE", policy, now⟩ }
  else if v.compare.result != "DIFF" || v.compare.time < v.approve.time then
    { v with compare := ⟨"DIFF", policy, now⟩ }
  else v

structure Outcome where
  status : Status
  endMsg : String
  exit : Nat
  deriving DecidableEq, Repr, Inhabited

/-- What `doapprove.Main` derives from the exit status of `ApproveOrCompare` and the markers
in the log file (`ERROR>>>`, `comp: ***`). -/
def doApprove (isCompare : Bool) (prev : Status) (policy : String) (now : Nat) (tr : List Ev) (stat : Nat) : Outcome :=
  let failed := stat != 0
  let errors := failed || tr.contains .logErr
  let changed := tr.contains .logChanged
  let st := if isCompare then setCompare prev policy now (changed || errors)
            else setApprove prev policy now failed
  ⟨st, if failed then "FAILED" else "OK", if failed then 1 else 0⟩

/-- Skeleton of `doapprove.Main` (only the call to `ApproveOrCompare` has session behaviour;
the rest is the pure function `doApprove`). -/
def doApproveMainSkel (b : Backend) : Sess :=
  .ite .never "err != nil" (.ite .never "¬err != pflag.ErrHelp" (.ret .none ["1"]) .skip ;; .ret .none ["1"]) .skip ;;
  .ite .never "len($v) != 2" (.ret .none ["1"]) .skip ;;
  op "LoadConfig" ;;
  .ite .never "err != nil" (op "abort" ["%v", "err"] ;; .ret .none ["_"]) .skip ;;
  op "EvalSymlinks" ["_"] ;;
  .ite .never "err != nil" (op "abort" ["Can't get 'current' policy directory: %v", "err"] ;; .ret .none ["_"]) .skip ;;
  op "fileExists" ["_"] ;; op "fileExists" ["_"] ;;
  .ite .never "¬fileExists($v) || fileExists(path.Join($EvalSymlinks.1, \"code/ipv6\", $v))" (op "abort" ["unknown device %q", "_"] ;; .ret .none ["_"]) .skip ;;
  .ite .isCompare "¬$v != \"compare\"" .skip (.ite (.not .never) "¬$v != \"approve\"" .skip (.ret .none ["1"])) ;;
  op "SetLock" ["_", "_"] ;;
  .ite (.not .never) "$SetLock.1 != nil" (.scope "defer" (op "Close")) .skip ;;
  .ite .never "err != nil" (op "abort" ["%v", "err"] ;; .ret .none ["_"]) .skip ;;
  op "openHistoryLog" ["_", "_"] ;;
  .ite .never "err != nil" (op "abort" ["can't %v", "err"] ;; .ret .none ["_"]) .skip ;;
  op "logHistory" ["_", "START:", "_"] ;;
  op "logHistory" ["_", "POLICY:", "_"] ;;
  .call "ApproveOrCompare" ["_", "_", "_", "_", "_", "false"] (approveOrCompareBody b) ;;
  op "ReadFile" ["_"] ;;
  .ite .never "err != nil" (op "abort" ["can't %v", "err"] ;; .ret .none ["_"]) .skip ;;
  .when .never (.scope "loop" (
    .ite .never "strings.HasPrefix($range.2, \"ERROR>>>\")" .skip
      (.ite .never "strings.HasPrefix($range.2, \"WARNING>>>\")" .skip
        (.ite .never "strings.HasPrefix($range.2, \"comp: ***\")" .skip .cont)) ;;
    op "logHistory" ["_", "RES:", "_"])) ;;
  .ite .isCompare "$v" (op "SetCompare" ["_", "_", "_", "_"]) (op "SetApprove" ["_", "_", "_", "_"]) ;;
  op "logHistory" ["_", "END:", "_"] ;;
  .ite .never "$v" (.ret .none ["1"]) (.ret .none ["0"])

def setApproveSkel : Sess := op "Read" ["_", "_"] ;; op "write" ["_", "_", "_"]
def setCompareSkel : Sess :=
  op "Read" ["_", "_"] ;;
  .ite .never "¬$p4" .skip
    (.ite .never "$Read.Compare.Result != \"DIFF\" || $Read.Compare.Time < $Read.Approve.Time" .skip (.ret .none [])) ;;
  op "write" ["_", "_", "_"]

end NA.Apply
