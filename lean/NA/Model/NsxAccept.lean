import NA.Model.NsxDiff
/-
Decidable side conditions on a pair (manager state, Netspoc target).  They are the hypotheses
of the `_partial` theorems of C04 (and of the NSX theorems of C07/C08/C10) and, negated, the
signature predicates of the known findings: the driver evaluates exactly these functions on
every case, so the input space splits into "covered by a theorem" and "listed".
-/
namespace NA.Nsx

/-- A managed group / service a rule refers to is defined by the target itself. -/
def refsDefined (T : Config) (r : Rule) : Bool :=
  let ep (p : String) : Bool :=
    match groupRef p with
    | some x => !managed x || T.groups.any (·.id == x)
    | none => true
  ep r.src && ep r.dst &&
    match serviceRef r.service with
    | some x => !managed x || T.services.any (·.id == x)
    | none => true

/-- Same id ⇒ same definition (IPv4 and IPv6 files repeat services). -/
def servicesConsistent (ss : List Service) : Bool :=
  ss.all fun s => (findService ss s.id).map (·.defn) == some s.defn

/-- What the Netspoc compiler and `checkRaw` are expected to guarantee about a merged target. -/
def targetWF (T : Config) : Bool :=
  idsNodup (T.policies.map (·.id)) &&
  T.groups.all (fun g => managed g.id && idsNodup g.addrs && !g.addrs.isEmpty) && idsNodup (T.groups.map (·.id)) &&
  T.services.all (managed ·.id) && servicesConsistent T.services &&
  T.policies.all fun p => idsNodup (p.rules.map (·.id)) && p.rules.all (refsDefined T)

/-- The raw-file gap: `checkRaw` does not look at policy ids, `LoadDevice` drops policies whose
id lacks the prefix. -/
def policyIdsManaged (T : Config) : Bool := T.policies.all (managed ·.id)

/-- Objects outside Netspoc's scope that the target refers to exist on the manager. -/
def extRefsOK (S : Store) (T : Config) : Bool :=
  T.policies.all fun p => p.rules.all fun r =>
    let ep (p : String) : Bool :=
      match groupRef p with
      | some x => managed x || hasGroup S x
      | none => true
    ep r.src && ep r.dst &&
      match serviceRef r.service with
      | some x => managed x || hasService S x
      | none => true

/-- No rule of a policy outside Netspoc's scope refers to a managed group or service. -/
def unmanagedIndep (S : Store) : Bool :=
  S.policies.all fun p => managed p.id || p.rules.all fun r =>
    let ep (p : String) : Bool :=
      match groupRef p with
      | some x => !managed x
      | none => true
    ep r.src && ep r.dst &&
      match serviceRef r.service with
      | some x => !managed x
      | none => true

/-- Address lists on the manager are sets. -/
def addrsNodup (S : Store) : Bool := S.groups.all (idsNodup ·.addrs)

/-- `nsx_ids_unique`: after `genUniqGroupNames` / `genUniqRuleNames` the target's group ids are
pairwise distinct and so are the rule ids of every policy present on both sides. -/
def idsOK (A T : Config) : Bool :=
  (match genUniqGroups (A.groups.map (·.id)) T.groups with
   | some bG => idsNodup (bG.map (·.id))
   | none => false) &&
  A.policies.all fun pa =>
    match findPolicyLast T.policies pa.id with
    | none => true
    | some pb =>
      match genUniqRules (pa.rules.map (·.id)) pb.rules with
      | some rs => idsNodup (rs.map (·.id))
      | none => false

/-- Two rules of one target policy that `sortRules` cannot tell apart although they differ
(same attributes and service, entries either textually equal or groups with the same first
address). -/
def sortTies (T : Config) : Bool :=
  let gm (p : String) : Option Group :=
    match groupRef p with
    | some x => findGroupLast (sortGroups T.groups) x
    | none => none
  T.policies.any fun p =>
    let rec go : List Rule → Bool
      | [] => false
      | r :: rest => rest.any (fun r' => cmpRules gm r r' == .eq &&
          resolveRule T r != resolveRule T r') || go rest
    go p.rules

/-- No two groups with different ids carry the same address set. -/
def distinctContent (gs : List Group) : Bool :=
  gs.all fun g1 => gs.all fun g2 =>
    g1.id == g2.id || !(g1.addrs.all (g2.addrs.contains ·) && g2.addrs.all (g1.addrs.contains ·))

/-- Inline service entries of every rule are compact JSON (what `LoadDevice` hands to the planner
and what a manager stores; a Netspoc / raw file may be written with white space). -/
def rulesCompact (C : Config) : Bool :=
  C.policies.all fun p => p.rules.all fun r => compactJSON r.attrs.svcEntries == r.attrs.svcEntries

/-- Extra side conditions of the idempotence theorem (their failure = finding F-C04-se, resp. the
artificial target with two groups of equal content). -/
def idemOK (S : Store) (T : Config) : Bool :=
  rulesCompact (load S) && rulesCompact T && distinctContent T.groups

/-- Everything the convergence theorems assume about one pair.  (`idsOK` is not among them any
more: after the repair f4446e1 it follows from `targetWF`, see `nsx_ids_unique`.) -/
def accepted (S : Store) (T : Config) : Bool :=
  storeWF S && addrsNodup S && targetWF T && policyIdsManaged T && extRefsOK S T &&
  unmanagedIndep S

end NA.Nsx
