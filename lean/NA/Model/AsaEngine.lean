import NA.Model.AclPlan
/-!
# The ASA diff engine of `cisco/diff.go` on fragment F1 (executable model)

Fragment F1: `interface`/`nameif` (never changed), `object-group network NAME` with `network-object`
members, `access-list NAME extended …` lines with `object-group` references, `access-group … in|out
interface X` anchors, `route`.  The model's input is the *parsed* structure of both configurations
(parsing is outside this model; the harness produces text for the real `drc` and this structure
from the same data).  The model produces the exact list of change lines that `drc` prints.

What is mirrored (function names of `cisco/diff.go`):
`checkASAInterfaces` (implicit interfaces, `markNeeded` + removal of bindings of interfaces unknown
to Netspoc, error for a Netspoc interface missing on the device), `sortGroups`, `sortRoutes`,
`generateNamesForTransfer`, `diffConfig`/`diffAnchors`/`diffNamedCmds2`, `diffCmds` (needed
short-cut, ready short-cut, `hasEq`, "no parts equal" → `markDeleted` + `addCmds`, name adoption,
delete-then-add for unordered anchors), `diffUnordered`, `makeEqual` (changed reference ⇒ the anchor is
re-added), `diffASAACLs` (early `findGroupOnDevice` loop, `equalizeACLs`, move detection, `line N`
bookkeeping — delegated to `NA.Acl.planASA` on the merged list in which a kept pair with a changed
reference is a new-only cell followed by an old-only cell), `equalizedGroups` (all branches),
`findGroupOnDevice`, `addCmds`/`addCmd` (referenced objects first, `ready`, `subCmdOf`),
`setCmdConfMode`, `delCmds`, `markDeleted`, `diffRoutes`, `deleteUnused`, `getPrintableCmd`,
`ShowChanges`.

Marks are kept per object: `needed`/`toDelete` per device group, per device ACL (all lines of one
ACL carry the same `needed` outside `diffASAACLs`), per device `access-group` command; `ready` and
the current name per target group / target ACL.  The Myers scripts are parameters (`Scripts`).
The default `group-policy`/`tunnel-group` objects added by `addDefaults` on both sides are equal,
become `needed` and print nothing; they are left out.
-/
namespace NA.F1
open NA.Acl (Range)

abbrev Name := String

/-- An `access-list NAME extended BODY` line.  `body`: the parsed text after `extended ` with every
`object-group X` replaced by `object-group $REF`, split at the `$REF` placeholders (this list is
what the Myers diff compares); `nolog`: the same for `body` with the log attribute removed by the
regular expression of `diffASAACLs` (computed by the caller with Go's `regexp`); `refs`: the
referenced group names in order. -/
structure Line where
  body  : List String
  nolog : List String
  refs  : List Name
  deriving DecidableEq, Repr, Inhabited

/-- `access-group ACL in|out interface INTF`. -/
structure Bind where
  acl  : Name
  dir  : String
  intf : Name
  deriving DecidableEq, Repr, Inhabited

/-- `route TEXT`; `dst`: what `dstOfRoute` yields (vrf is always empty on ASA), `sortKey`: the byte
`128 - bits` that `byMoreSpecificRoute` puts in front of the text. -/
structure Route where
  text    : String
  dst     : String
  sortKey : Nat
  deriving DecidableEq, Repr, Inhabited

structure Config where
  intfs  : List Name := []                    -- `nameif` names of the device's interfaces, file order
  groups : List (Name × List String) := []    -- members without the leading `network-object `
  acls   : List (Name × List Line) := []
  binds  : List Bind := []                    -- file order
  routes : List Route := []
  deriving Repr, Inhabited

/-- Myers scripts computed by the caller with the real library: per compared ACL pair
(device name, target name) on the `body` keys, per compared group pair on the sorted members. -/
structure Scripts where
  acl : List ((Name × Name) × List Range) := []
  grp : List ((Name × Name) × List Range) := []
  deriving Repr, Inhabited

/-! ## Change lines -/

/-- A printable ACL line with resolved group names. -/
structure RLine where
  body  : List String
  nolog : List String
  names : List Name
  deriving DecidableEq, Repr, Inhabited

inductive Chg
  | grp (name : Name)                                   -- object-group network NAME
  | mem (m : String)                                    -- network-object M
  | noMem (m : String)                                  -- no network-object M
  | exit
  | acl (name : Name) (line : Option Nat) (l : RLine)   -- access-list NAME [line N] extended …
  | noAcl (name : Name) (line : Nat) (l : RLine)        -- no access-list NAME line N extended …
  | join (a b : Chg)                                    -- two commands sent as one (`a\N b`)
  | bind (b : Bind) | noBind (b : Bind)
  | route (r : String) | noRoute (r : String)
  | clearAcl (name : Name)                              -- clear configure access-list NAME
  | noGrp (name : Name)                                 -- no object-group network NAME
  | bad                                                 -- the bookkeeping of the Go code is corrupted here
  deriving DecidableEq, Repr, Inhabited

/-- `strings.Replace(p, "$REF", name, 1)` for each name in turn. -/
def interleave : List String → List Name → String
  | [], _ => ""
  | [p], _ => p
  | p :: ps, [] => p ++ "$REF" ++ interleave ps []
  | p :: ps, n :: ns => p ++ n ++ interleave ps ns

def substRefs (body : List String) (names : List Name) : String := interleave body names

def RLine.text (l : RLine) : String := substRefs l.body l.names
/-- Key of the move detection: printed text without the log attribute. -/
def RLine.mkey (l : RLine) : String := substRefs l.nolog l.names

def Bind.text (b : Bind) : String := "access-group " ++ b.acl ++ " " ++ b.dir ++ " interface " ++ b.intf
/-- `parsed` of an access-group command (what `diffUnordered` compares). -/
def Bind.key (b : Bind) : String := b.dir ++ " interface " ++ b.intf

def Chg.render : Chg → String
  | .grp n => "object-group network " ++ n
  | .mem m => "network-object " ++ m
  | .noMem m => "no network-object " ++ m
  | .exit => "exit"
  | .acl n none l => "access-list " ++ n ++ " extended " ++ l.text
  | .acl n (some k) l => "access-list " ++ n ++ " line " ++ toString k ++ " extended " ++ l.text
  | .noAcl n k l => "no access-list " ++ n ++ " line " ++ toString k ++ " extended " ++ l.text
  | .join a b => a.render ++ "\\N " ++ b.render
  | .bind b => b.text
  | .noBind b => "no " ++ b.text
  | .route r => "route " ++ r
  | .noRoute r => "no route " ++ r
  | .clearAcl n => "clear configure access-list " ++ n
  | .noGrp n => "no object-group network " ++ n
  | .bad => "<corrupted>"

/-! ## Small helpers -/

/-- Insertion sort (ascending, bytewise order for ASCII): `sort.Strings` / `slices.Sorted`. -/
def insertS (x : String) : List String → List String
  | [] => [x]
  | y :: ys => if x ≤ y then x :: y :: ys else y :: insertS x ys
def sortS (l : List String) : List String := l.foldr insertS []

def lookupD {κ β : Type} [BEq κ] [Inhabited β] (m : List (κ × β)) (n : κ) : β := (m.lookup n).getD default

def slice {α : Type} (l : List α) (lo hi : Nat) : List α := (l.drop lo).take (hi - lo)

def addSet (x : Name) (s : List Name) : List Name := if s.contains x then s else x :: s

def isInfixL : List Char → List Char → Bool
  | p, [] => p.isEmpty
  | p, c :: cs => p.isPrefixOf (c :: cs) || isInfixL p cs
/-- `strings.Contains(name, "-DRC-")`. -/
def isTagged (n : Name) : Bool := isInfixL "-DRC-".toList n.toList

def drcName (base : Name) (n : Nat) : Name := base ++ "-DRC-" ++ toString n

/-- `generateNamesForTransfer.setName`: first index `n` such that `base-DRC-n` is not a name on
the device (under that prefix).  A used name is erased (names for different `n` differ), so
`fuel = dev.length + 1` rounds suffice. -/
def firstFree (base : Name) : Nat → List Name → Nat → Nat
  | 0, _, n => n
  | fuel + 1, dev, n =>
    if dev.contains (drcName base n) then firstFree base fuel (dev.erase (drcName base n)) (n + 1) else n

def genName (base : Name) (dev : List Name) : Name := drcName base (firstFree base (dev.length + 1) dev 0)

/-! ## `diffUnordered` -/

def lastIdx (k : String) (bs : List String) : Option Nat :=
  (List.range bs.length).reverse.find? fun j => bs.getD j "" == k

/-- First loop of `diffUnordered`: ranges (reversed), matched keys, index. -/
def duStepA (bs : List String) (s : List Range × List String × Nat) (k : String) :
    List Range × List String × Nat :=
  let (res, matched, i) := s
  match (if matched.contains k then none else lastIdx k bs) with
  | some j =>
    match res with
    | p :: rest =>
      if p.isEqual && p.highA == i && p.highB == j then
        ({ p with highA := i + 1, highB := j + 1 } :: rest, k :: matched, i + 1)
      else (⟨i, i + 1, j, j + 1⟩ :: res, k :: matched, i + 1)
    | [] => ([⟨i, i + 1, j, j + 1⟩], k :: matched, i + 1)
  | none =>
    match res with
    | p :: rest =>
      if p.isDelete && p.highA == i then ({ p with highA := i + 1 } :: rest, matched, i + 1)
      else (⟨i, i + 1, 0, 0⟩ :: res, matched, i + 1)
    | [] => ([⟨i, i + 1, 0, 0⟩], matched, i + 1)

def duStepB (la : Nat) (matched : List String) (s : List Range × Nat) (k : String) : List Range × Nat :=
  let (res, j) := s
  if matched.contains k then (res, j + 1) else
  match res with
  | p :: rest =>
    if p.isInsert && p.highB == j then ({ p with highB := j + 1 } :: rest, j + 1)
    else (⟨la, la, j, j + 1⟩ :: res, j + 1)
  | [] => ([⟨la, la, j, j + 1⟩], j + 1)

def diffUnordered (as bs : List String) : List Range :=
  let (res, matched, _) := as.foldl (duStepA bs) ([], [], 0)
  let (res, _) := bs.foldl (duStepB as.length matched) (res, 0)
  res.reverse

/-! ## Engine state -/

structure St where
  gNeeded : List Name := []            -- device groups: `needed`
  gToDel  : List Name := []            -- device groups: `toDelete`
  aNeeded : List Name := []            -- device ACLs (all lines): `needed`
  aToDel  : List Name := []
  bNeeded : List Nat := []             -- device access-group commands (index in the device's list)
  bToDel  : List Nat := []
  gReady  : List Name := []            -- target groups: `ready`
  gName   : List (Name × Name) := []   -- target group ↦ current name (`cmd.name`)
  aReady  : List Name := []            -- target ACLs: `ready` of the first line
  aName   : List (Name × Name) := []
  mode    : String := ""               -- `State.subCmdOf`: name of the group whose sub-mode is open
  out     : List Chg := []             -- `State.Changes`
  hits    : List String := []          -- ghost: branches taken (for the measured distribution)
  deriving Repr, Inhabited

def St.hit (st : St) (h : String) : St := { st with hits := h :: st.hits }
def St.emit (st : St) (c : Chg) : St := { st with out := st.out ++ [c] }

def St.gNameOf (st : St) (g : Name) : Name := (st.gName.lookup g).getD g
def St.aNameOf (st : St) (a : Name) : Name := (st.aName.lookup a).getD a

/-- The two configurations as the engine sees them after `sortGroups`. -/
structure Env where
  a  : Config
  b  : Config
  sc : Scripts
  deriving Inhabited

def Env.aMembers (e : Env) (g : Name) : List String := sortS (lookupD e.a.groups g)
def Env.bMembers (e : Env) (g : Name) : List String := sortS (lookupD e.b.groups g)
def Env.aLines (e : Env) (n : Name) : List Line := lookupD e.a.acls n
def Env.bLines (e : Env) (n : Name) : List Line := lookupD e.b.acls n
def Env.aGroupNames (e : Env) : List Name := sortS (e.a.groups.map (·.1))

/-! ## Groups -/

/-- `findGroupOnDevice`: device groups in ascending name order; the first group that is not
`needed` and has the same sorted members is taken. -/
def findGroupIn (names : List Name) (needed : List Name) (membersA : Name → List String)
    (mb : List String) : Option Name :=
  names.find? fun aN => !needed.contains aN && membersA aN == mb

def findGroup (e : Env) (st : St) (bN : Name) : St :=
  if st.gReady.contains bN then st else
  match findGroupIn e.aGroupNames st.gNeeded e.aMembers (e.bMembers bN) with
  | some aN =>
    { st with gNeeded := addSet aN st.gNeeded, gReady := bN :: st.gReady,
              gName := (bN, aN) :: st.gName }.hit "grp:found-on-device"
  | none => st

/-- `addCmds` of a whole target group (`add` + `addCmd`): header and all members. -/
def transferGroup (e : Env) (st : St) (bN : Name) : St :=
  if st.gReady.contains bN then st else
  let n := st.gNameOf bN
  { st with gReady := bN :: st.gReady, mode := n,
            out := st.out ++ (Chg.grp n :: (e.bMembers bN).map Chg.mem) }.hit "grp:transfer"

/-- `setCmdConfMode`. -/
def setMode (st : St) (n : Name) : St :=
  if st.mode == n then st else
  let st := if st.mode != "" then (st.emit .exit).hit "mode:exit" else st
  { (st.emit (.grp n)) with mode := n }

def delMembers (st : St) (aN : Name) (ms : List String) : St :=
  ms.foldl (fun st m => (setMode st aN).emit (.noMem m)) st

def addMembers (st : St) (n : Name) (ms : List String) : St :=
  ms.foldl (fun st m => (setMode st n).emit (.mem m)) st

/-- The loop over the member script in `equalizedGroups`. -/
def editMembers (st : St) (aN : Name) (la lb : List String) : List Range → St
  | [] => st
  | r :: rs =>
    let st := if r.isDelete then delMembers st aN (slice la r.lowA r.highA)
              else if r.isInsert then addMembers st aN (slice lb r.lowB r.highB) else st
    editMembers st aN la lb rs

/-- `Script.Stat`: (insertions, deletions). -/
def scriptStat : List Range → Nat × Nat
  | [] => (0, 0)
  | r :: rs =>
    let (i, d) := scriptStat rs
    if r.isDelete then (i, d + (r.highA - r.lowA))
    else if r.isInsert then (i + (r.highB - r.lowB), d) else (i, d)

def isIdentity (rs : List Range) : Bool := rs.all (·.isEqual)

/-- `equalizedGroups(aName, bName)`. -/
def equalizedGroups (e : Env) (st : St) (aN bN : Name) : St × Bool :=
  if st.gNeeded.contains aN then
    if st.gReady.contains bN then (st.hit "grp:eq:needed+ready", aN == st.gNameOf bN)
    else ((findGroup e st bN).hit "grp:eq:needed->find", false)
  else
    let la := e.aMembers aN
    let lb := e.bMembers bN
    let script := lookupD e.sc.grp (aN, bN)
    let ident := isIdentity script
    let st := if ident then st else findGroup e st bN
    if !ident && st.gReady.contains bN then (st.hit "grp:eq:differs->ready", aN == st.gNameOf bN)
    else
      let (ins, del) := scriptStat script
      if ins + del > lb.length then (st.hit "grp:eq:too-many-changes", false)
      else
        let st := { st with gNeeded := addSet aN st.gNeeded, gName := (bN, aN) :: st.gName }
        let st := editMembers st aN la lb script
        let st := { st with gReady := addSet bN st.gReady }
        (st.hit (if ident then "grp:eq:identical" else "grp:eq:edit-in-place"), true)

/-! ## Access lists -/

def resolveA (l : Line) : RLine := ⟨l.body, l.nolog, l.refs⟩
def resolveB (st : St) (l : Line) : RLine := ⟨l.body, l.nolog, l.refs.map st.gNameOf⟩

/-- `markDeleted` of device ACL lines: the ACL and every group it references get `toDelete`. -/
def markDeletedLines (st : St) (ls : List Line) : St :=
  { st with gToDel := (ls.flatMap (·.refs)).foldl (fun s g => addSet g s) st.gToDel }

def markDeletedAcl (e : Env) (st : St) (aN : Name) : St :=
  if st.aToDel.contains aN then st else
  markDeletedLines { st with aToDel := aN :: st.aToDel } (e.aLines aN)

/-- `addCmds([line])` resp. one round of the loop in `add`: referenced groups first, then the line. -/
def emitLine (e : Env) (st : St) (mk : RLine → Chg) (l : Line) : St :=
  let st := l.refs.foldl (transferGroup e) st
  { (st.emit (mk (resolveB st l))) with mode := "" }

/-- `addCmds(bl)` for a whole target ACL. -/
def transferAcl (e : Env) (st : St) (bN : Name) : St :=
  if st.aReady.contains bN then st else
  let st := { st with aReady := bN :: st.aReady }.hit "acl:transfer"
  (e.bLines bN).foldl (fun st l => emitLine e st (Chg.acl (st.aNameOf bN) none) l) st

/-- Cell of the merged list of `diffASAACLs`. -/
inductive MCell
  | ins (bi : Nat)          -- b-line to add (inserted, or kept pair with changed reference)
  | del (ai : Nat)          -- a-line to delete (deleted, or kept pair with changed reference)
  | keep (ai bi : Nat)      -- kept pair, references equalised
  deriving DecidableEq, Repr, Inhabited

/-- `equalizeACLs` for one kept pair: all references are equalised (no short-circuit). -/
def equalizePair (e : Env) (st : St) (a b : Line) : St × Bool :=
  (a.refs.zip b.refs).foldl (fun (s : St × Bool) p =>
    let (st', ok) := equalizedGroups e s.1 p.1 p.2
    (st', s.2 && ok)) (st, true)

def equalizeRange (e : Env) (al bl : List Line) (lowA lowB : Nat) :
    Nat → St → List MCell → St × List MCell
  | 0, st, acc => (st, acc)
  | n + 1, st, acc =>
    let (st, acc) := equalizeRange e al bl lowA lowB n st acc
    let ai := lowA + n
    let bi := lowB + n
    let (st, ok) := equalizePair e st (al.getD ai default) (bl.getD bi default)
    if ok then (st, acc ++ [MCell.keep ai bi])
    else (st.hit "line:changed-ref", acc ++ [MCell.ins bi, MCell.del ai])

/-- Second loop over the script in `diffASAACLs`: builds `add`/`del` (as cells) and equalises groups. -/
def cellsPhase (e : Env) (al bl : List Line) : List Range → St → List MCell → St × List MCell
  | [], st, acc => (st, acc)
  | r :: rs, st, acc =>
    if r.isInsert then
      cellsPhase e al bl rs st (acc ++ ((List.range (r.highB - r.lowB)).map fun i => MCell.ins (r.lowB + i)))
    else if r.isDelete then
      cellsPhase e al bl rs st (acc ++ ((List.range (r.highA - r.lowA)).map fun i => MCell.del (r.lowA + i)))
    else if r.isEqual then
      let (st, acc) := equalizeRange e al bl r.lowA r.lowB (r.highA - r.lowA) st acc
      cellsPhase e al bl rs st acc
    else cellsPhase e al bl rs st acc

/-- First loop: `findGroupOnDevice` for every group referenced by an inserted line. -/
def earlyFind (e : Env) (bl : List Line) (rs : List Range) (st : St) : St :=
  rs.foldl (fun st r =>
    if r.isInsert then
      ((slice bl r.lowB r.highB).flatMap (·.refs)).foldl (findGroup e) st
    else st) st

/-- Printed line of a cell, as the move detection sees it. -/
def cellRLine (st : St) (al bl : List Line) : MCell → RLine
  | .ins bi => resolveB st (bl.getD bi default)
  | .del ai => resolveA (al.getD ai default)
  | .keep ai _ => resolveA (al.getD ai default)

/-- The merged list for `NA.Acl.planASA`: `key` = index of the cell, `mkey` = code of the printed
text without log (first index of that text in the list of all texts). -/
def encodeCells (cells : List MCell) (mkeys : List String) : List NA.Acl.Cell :=
  (List.range cells.length).map fun i =>
    let line : NA.Acl.Line := { key := i, mkey := mkeys.idxOf (mkeys.getD i ""), permit := true }
    match cells.getD i default with
    | .ins _ => ⟨line, false, true⟩
    | .del _ => ⟨line, true, false⟩
    | .keep _ _ => ⟨line, true, true⟩

/-- Emission of one planned line operation: groups of an added line are transferred in front of the
(joined) command (`moveACL` moves the delete behind them); a deleted line marks its groups. -/
def emitOp (e : Env) (aclName : Name) (al bl : List Line) (cells : List MCell) (st : St) :
    NA.Acl.Op → St
  | .add p l =>
    match cells.getD l.key default with
    | .ins bi => (emitLine e st (Chg.acl aclName (some (p + 1))) (bl.getD bi default)).hit "line:add"
    | _ => st.emit .bad
  | .del p l =>
    match cells.getD l.key default with
    | .del ai =>
      let a := al.getD ai default
      (markDeletedLines { (st.emit (.noAcl aclName (p + 1) (resolveA a))) with mode := "" } [a]).hit "line:del"
    | _ => st.emit .bad
  | .move dp la ap lb =>
    match cells.getD la.key default, cells.getD lb.key default with
    | .del ai, .ins bi =>
      let a := al.getD ai default
      let st := markDeletedLines st [a]
      (emitLine e st (fun r => .join (.noAcl aclName (dp + 1) (resolveA a)) (.acl aclName (some (ap + 1)) r))
        (bl.getD bi default)).hit "line:move"
    | _, _ => st.emit .bad
  | .bad => (st.emit .bad).hit "line:corrupted"

/-- `diffASAACLs(al, bl, diff)` for device ACL `aN` and target ACL `bN`. -/
def diffASAACLs (e : Env) (st : St) (aN bN : Name) (rs : List Range) : St :=
  let al := e.aLines aN
  let bl := e.bLines bN
  let st := earlyFind e bl rs st
  let (st, cells) := cellsPhase e al bl rs st []
  let mkeys := cells.map fun c => (cellRLine st al bl c).mkey
  let ops := NA.Acl.planASA (encodeCells cells mkeys)
  ops.foldl (emitOp e aN al bl cells) st

def cellOld : MCell → Bool | .ins _ => false | _ => true
def cellNew : MCell → Bool | .del _ => false | _ => true
def cellKeep : MCell → Bool | .keep _ _ => true | _ => false

/-- Pairwise different printed texts among the cells selected by `sel` (decidable form). -/
def distinctOnB (cells : List MCell) (mkeys : List String) (sel : MCell → Bool) : Bool :=
  (List.range cells.length).all fun i => (List.range cells.length).all fun j =>
    i == j || !(sel (cells.getD i default) && sel (cells.getD j default) && mkeys.getD i "" == mkeys.getD j "")

/-- Ghost (only counted): do the decidable hypotheses of the convergence theorem `acl_pair_converges`
hold for this call of `diffASAACLs`?  (Some kept line keeps its references; printed texts modulo log are
pairwise different on the device side and on the target side when the plan is made.) -/
def planCheck (e : Env) (st : St) (aN bN : Name) (rs : List Range) : String :=
  let al := e.aLines aN
  let bl := e.bLines bN
  let (st1, cells) := cellsPhase e al bl rs (earlyFind e bl rs st) []
  let mkeys := (cells.map (cellRLine st1 al bl)).map (·.mkey)
  if !(cells.any cellKeep) then "hyp:no-kept-line"
  else if !(distinctOnB cells mkeys cellOld && distinctOnB cells mkeys cellNew) then "hyp:duplicate-text"
  else "hyp:ok"

/-- `diffCmds(aRef, bRef, byParsedCmd)` for two access lists; returns the name to be referenced. -/
def diffAcl (e : Env) (st : St) (aN bN : Name) : St × Name :=
  if st.aNeeded.contains aN then
    let st := transferAcl e (st.hit "acl:device-acl-needed") bN
    (st, st.aNameOf bN)
  else if st.aReady.contains bN then (st.hit "acl:target-acl-ready", st.aNameOf bN)
  else
    let rs := lookupD e.sc.acl (aN, bN)
    if !(rs.any (·.isEqual)) then
      let st := markDeletedAcl e (st.hit "acl:no-parts-equal") aN
      let st := transferAcl e st bN
      (st, st.aNameOf bN)
    else
      let st := ({ st with aName := (bN, aN) :: st.aName }.hit "acl:incremental").hit (planCheck e st aN bN rs)
      let st := diffASAACLs e st aN bN rs
      ({ st with aNeeded := addSet aN st.aNeeded, aReady := addSet bN st.aReady }, aN)

/-! ## Anchors: access-group -/

def printBind (st : St) (b : Bind) : Bind := { b with acl := st.aNameOf b.acl }

/-- `markDeleted` of device access-group commands. -/
def markDeletedBinds (e : Env) (st : St) (idx : List Nat) : St :=
  idx.foldl (fun st i =>
    if st.bToDel.contains i then st else
    markDeletedAcl e { st with bToDel := i :: st.bToDel } (e.a.binds.getD i default).acl) st

/-- `addCmds` of a slice of target access-group commands. -/
def addBinds (e : Env) (st : St) (bs : List Bind) : St :=
  bs.foldl (fun st b =>
    let st := transferAcl e st b.acl
    { (st.emit (.bind (printBind st b))) with mode := "" }.hit "bind:add") st

/-- `delCmds` of a slice of device access-group commands (with their indices). -/
def delBinds (e : Env) (st : St) (idx : List Nat) : St :=
  let st := idx.foldl (fun st i =>
    if st.bNeeded.contains i then st else
    { (st.emit (.noBind (e.a.binds.getD i default))) with mode := "", bNeeded := i :: st.bNeeded }.hit "bind:del") st
  if idx.isEmpty then st else markDeletedBinds e st idx

/-- `makeEqual` for one pair of access-group commands. -/
def makeEqualBind (e : Env) (st : St) (i : Nat) (b : Bind) : St :=
  let a := e.a.binds.getD i default
  let st := { st with bNeeded := addSet' i st.bNeeded }
  let (st, refName) := diffAcl e st a.acl b.acl
  if refName != a.acl then { (st.emit (.bind (printBind st b))) with mode := "" }.hit "bind:changed-ref"
  else st
where addSet' (i : Nat) (s : List Nat) : List Nat := if s.contains i then s else i :: s

/-- `diffCmds(al, bl, byParsedCmd)` for the access-group anchors; `al`: indices of the compared device
commands. -/
def diffBinds (e : Env) (st : St) (al : List Nat) (bl : List Bind) : St :=
  let aCmd := fun i => e.a.binds.getD i default
  if !al.isEmpty && st.bNeeded.contains (al.headD 0) then
    if bl.isEmpty then st else addBinds e (st.hit "bind:first-needed") bl
  else
    let diff := diffUnordered (al.map fun i => (aCmd i).key) (bl.map (·.key))
    if !(diff.any (·.isEqual)) then
      let st := if al.isEmpty then st else markDeletedBinds e (st.hit "bind:no-parts-equal") al
      if bl.isEmpty then st else addBinds e st bl
    else
      let st := diff.foldl (fun st r => if r.isDelete then delBinds e st (slice al r.lowA r.highA) else st) st
      diff.foldl (fun st r =>
        if r.isInsert then
          if r.highB ≤ r.lowB then st else addBinds e st (slice bl r.lowB r.highB)
        else if r.isEqual then
          ((slice al r.lowA r.highA).zip (slice bl r.lowB r.highB)).foldl
            (fun st p => makeEqualBind e st p.1 p.2) st
        else st) st

/-! ## Anchors: routes -/

def routeLe (x y : Route) : Bool := x.sortKey < y.sortKey || (x.sortKey == y.sortKey && decide (x.text ≤ y.text))
def insertR (x : Route) : List Route → List Route
  | [] => [x]
  | y :: ys => if routeLe x y then x :: y :: ys else y :: insertR x ys
def sortRoutes (l : List Route) : List Route := l.foldr insertR []

/-- `diffCmds` + `diffRoutes` for the (sorted) route lists. -/
def diffRoutes (st : St) (al bl : List Route) : St :=
  if al.isEmpty then
    bl.foldl (fun st r => { (st.emit (.route r.text)) with mode := "" }.hit "route:add") st
  else
    let diff := diffUnordered (al.map (·.text)) (bl.map (·.text))
    -- deleted device routes with their index
    let dels : List (Nat × Route) := diff.flatMap fun r =>
      if r.isDelete then (List.range (r.highA - r.lowA)).map fun i => (r.lowA + i, al.getD (r.lowA + i) default) else []
    let inss := diff.flatMap fun r => if r.isInsert then slice bl r.lowB r.highB else []
    -- second loop: inserts, joined with the delete of the (last) old route to the same destination;
    -- `used`: indices of the device routes removed that way (`del.needed = true`)
    let (st, used, _) := inss.foldl (fun (s : St × List Nat × List String) r =>
      let (st, used, gone) := s
      match (dels.filter fun d => d.2.dst == r.dst && !gone.contains r.dst).getLast? with
      | some d =>
        ({ (st.emit (.join (.noRoute d.2.text) (.route r.text))) with mode := "" }.hit "route:replace",
          d.1 :: used, r.dst :: gone)
      | none => ({ (st.emit (.route r.text)) with mode := "" }.hit "route:add", used, gone)) (st, [], [])
    -- third loop: remaining deletes (only if Netspoc specifies routes at all)
    if bl.isEmpty then (if dels.isEmpty then st else st.hit "route:left-untouched")
    else
      dels.foldl (fun st d =>
        if used.contains d.1 then st
        else { (st.emit (.noRoute d.2.text)) with mode := "" }.hit "route:del") st

/-! ## `checkASAInterfaces` -/

/-- Indices of the device access-group commands stored for interface `n` in `aIntf2cmd`
(all of them, in file order). -/
def bindsOf (binds : List Bind) (n : Name) : List Nat :=
  (List.range binds.length).filter fun i => (binds.getD i default).intf == n

/-- `markNeeded` of one access-group command: the command, its ACL, the groups of the ACL. -/
def markNeededBind (e : Env) (st : St) (i : Nat) : St :=
  let acl := (e.a.binds.getD i default).acl
  { st with bNeeded := i :: st.bNeeded, aNeeded := addSet acl st.aNeeded,
            gNeeded := ((e.aLines acl).flatMap (·.refs)).foldl (fun s g => addSet g s) st.gNeeded }

/-- Returns the state with the marks and the indices of the device access-group commands that stay
in the compared list; `none`: "Interface … from Netspoc not known on device". -/
def checkInterfaces (e : Env) (st : St) : Option (St × List Nat) :=
  let bIntf := e.b.binds.map (·.intf)
  let unknown := e.a.intfs.filter fun n => !bIntf.contains n
  let unmanaged := (unknown.flatMap (bindsOf e.a.binds)).eraseDups
  let st := unmanaged.foldl (fun st i => (markNeededBind e st i).hit "intf:unmanaged-binding") st
  let aKnown := e.a.binds.map (·.intf) ++ e.a.intfs
  if bIntf.all aKnown.contains then
    some (st, (List.range e.a.binds.length).filter fun i => !unmanaged.contains i)
  else none

/-! ## `deleteUnused` -/

inductive Obj
  | binds                  -- ("access-group", "")
  | acl (n : Name)
  | grp (n : Name)
  deriving DecidableEq, Repr, Inhabited

/-- What is still in `toDelete`. -/
structure Pending where
  binds : List Nat := []     -- indices of device access-group commands
  acls  : List Name := []    -- sorted
  grps  : List Name := []    -- sorted
  deriving Repr, Inhabited

def Pending.isEmpty (p : Pending) : Bool := p.binds.isEmpty && p.acls.isEmpty && p.grps.isEmpty

/-- One pass of the loop `for len(toDelete) > 0`. -/
def duRound (e : Env) (st : St) (p : Pending) : St × Pending :=
  let refAcls := p.binds.map fun i => (e.a.binds.getD i default).acl
  let refGrps := p.acls.flatMap fun n => (e.aLines n).flatMap (·.refs)
  -- ("access-group","") is never referenced
  let st := p.binds.foldl (fun st i => { (st.emit (.noBind (e.a.binds.getD i default))) with mode := "" }.hit "du:no-access-group") st
  let nowA := p.acls.filter fun n => !refAcls.contains n
  let st := nowA.foldl (fun st n => { (st.emit (.clearAcl n)) with mode := "" }.hit "du:clear-acl") st
  let nowG := p.grps.filter fun n => !refGrps.contains n
  let st := nowG.foldl (fun st n => { (st.emit (.noGrp n)) with mode := "" }.hit "du:no-group") st
  (st, { binds := [], acls := p.acls.filter refAcls.contains, grps := p.grps.filter refGrps.contains })

def duRounds (e : Env) : Nat → St → Pending → St
  | 0, st, _ => st
  | n + 1, st, p =>
    if p.isEmpty then st else
    let (st, p) := duRound e st p
    duRounds e n st p

/-- First part of `deleteUnused`: what is in `toDelete` after the `stillReferenced` filter; the flag says
whether that filter removed something.  `managed`: indices of the access-group commands left in the
lookup table. -/
def duPending (e : Env) (st : St) (managed : List Nat) : Pending × Bool :=
  let aclNames := e.a.acls.map (·.1)
  let grpNames := e.a.groups.map (·.1)
  -- candidates
  let delB := managed.filter fun i => !st.bNeeded.contains i && st.bToDel.contains i
  let delA := aclNames.filter fun n => !st.aNeeded.contains n && (st.aToDel.contains n || isTagged n)
  let delG := grpNames.filter fun n => !st.gNeeded.contains n && (st.gToDel.contains n || isTagged n)
  -- untouched commands protect what they reference
  let untouchedB := managed.filter fun i => !st.bNeeded.contains i && !st.bToDel.contains i
  let stillA := (untouchedB.map fun i => (e.a.binds.getD i default).acl).filter fun n => !st.aNeeded.contains n
  let untouchedA := aclNames.filter fun n =>
    !st.aNeeded.contains n && ((!st.aToDel.contains n && !isTagged n) || stillA.contains n)
  -- `follow` descends from a protected ACL into its groups whatever the ACL's own marks are
  let stillG := (untouchedA.flatMap fun n => (e.aLines n).flatMap (·.refs)).filter fun g => !st.gNeeded.contains g
  ({ binds := delB, acls := sortS (delA.filter fun n => !stillA.contains n),
     grps := sortS (delG.filter fun n => !stillG.contains n) },
   (delA.any stillA.contains) || (delG.any stillG.contains))

/-- `deleteUnused`. -/
def deleteUnused (e : Env) (st : St) (managed : List Nat) : St :=
  let (p, sr) := duPending e st managed
  let st := if sr then st.hit "du:still-referenced" else st
  if p.isEmpty then st else
  let st := if st.mode != "" then (st.emit .exit).hit "du:exit" else st
  duRounds e (e.a.acls.length + e.a.groups.length + 2) st p

/-! ## `diffConfig` -/

/-- `generateNamesForTransfer` for the target's groups and access lists. -/
def generateNames (e : Env) (st : St) : St :=
  { st with
    gName := e.b.groups.map fun g => (g.1, genName g.1 (e.a.groups.map (·.1)))
    aName := e.b.acls.map fun a => (a.1, genName a.1 (e.a.acls.map (·.1))) }

structure Result where
  script : List Chg
  hits   : List String
  deriving Repr, Inhabited

/-- `GetChanges`: `none` if `checkInterfaces` fails. -/
def engine (a b : Config) (sc : Scripts) : Option Result :=
  let e : Env := ⟨a, b, sc⟩
  match checkInterfaces e {} with
  | none => none
  | some (st, managed) =>
    let st := generateNames e st
    -- prefixes in sorted order: access-group, (access-list, interface, object-group: nothing to do), route
    let st := if managed.isEmpty && b.binds.isEmpty then st else diffBinds e st managed b.binds
    let st := diffRoutes st (sortRoutes a.routes) (sortRoutes b.routes)
    let st := deleteUnused e st managed
    some ⟨st.out, st.hits⟩

/-- `ShowChanges`. -/
def showChanges (cs : List Chg) : List String := cs.map Chg.render

end NA.F1
