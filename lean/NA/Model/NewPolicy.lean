/-
Model of `bin/newpolicy.sh` (C19).  Core Lean only; executable; generic in the program.

The PROGRAM is not written here: `translate/shgen` regenerates it from the shell source into
`NA/Gen/NewPolicy.lean` as a flat list of instructions.  Every instruction is one simple command
of the script as bash's DEBUG trap sees it in the main shell (function call, function entry,
assignment, test, external command), classified into an abstract command `Cmd`, together with its
two continuations (`ok`: exit status 0, `fail`: non-zero) computed from the control structure
(`&&`, `||`, `if`, `while`, `break`, `continue`, `return`, inlined functions).

This file gives the commands their meaning on an abstract state:

* the remote repository: an append-only store of commits (tree good/bad = no `BAD` file / a `BAD`
  file, number in the `POLICY` file, author with/without e-mail, first parent) and the id of
  `refs/heads/master`;
* `policies/`: directories `pN` (src HEAD, "compiled from" marker), `next`, the link `current`,
  the marker `failed`, the file `LOCK` and who holds the flock on it;
* processes: program counter into the regenerated list and the shell variables the script uses.

What the model does NOT contain: git internals (only: clone = copy of the remote head, commit,
merge pull, fast-forward-only push, reset, revert of the head commit), the compiler (succeeds iff
the tree is good), mail, sudo.
-/
namespace NA.C19

inductive Kind | user | policy | revert | merge
  deriving DecidableEq, Repr, Inhabited

structure Commit where
  good   : Bool            -- the tree compiles (no file `BAD`)
  pol    : Option Nat      -- number in the file POLICY (none = no such file)
  email  : Bool            -- the author has an e-mail address
  parent : Nat             -- id of the first parent (0 = none)
  kind   : Kind
  tree   : Nat := 0        -- content id of the tree without the POLICY file (what the compiler reads)
  deriving DecidableEq, Repr, Inhabited

structure Dir where
  head   : Option Nat := none    -- HEAD of `src` (none = not cloned)
  built  : Bool := false         -- `code` holds the result of a successful compile
  nested : Bool := false         -- a later `mv next pN` landed inside this directory
  code   : Nat := 0              -- content id of the tree of the last successful compile (0 = none)
  dirty  : Bool := false         -- `code` holds output of some successful compile
  mixed  : Bool := false         -- `code` holds output of compiles of different trees (leftover files of an earlier one)
  deriving DecidableEq, Repr, Inhabited

inductive Reg | fcount | lcount | count
  deriving DecidableEq, Repr, Inhabited

/-- Abstract commands.  `shgen` maps every simple command of the script to exactly one of them
(or fails).  The comment gives the shell text it stands for. -/
inductive Cmd
  | nop (what : String)     -- assignment of a path variable, `cd`, `echo`, `true`, `break`, call/entry markers …
  | openLock                -- exec 9<>$POLICYDB/LOCK
  | flockNB                 -- flock -n 9
  | exit (n : Nat)          -- exit n
  | ret (n : Nat)           -- return n
  | uptodateCheck           -- the subshell body of uptodate()
  | rmrfNext                -- rm -rf $NEXT
  | mkdirNext               -- mkdir $NEXT
  | rmrfNextSrc             -- rm -rf $NEXT/src        (not in the script today; understood so that such an edit is followed)
  | mkdirNextP              -- mkdir -p $NEXT          (dito)
  | logToFile               -- exec >$PLOG 2>&1
  | gitClone                -- git clone --quiet --depth 2 $GIT_URL src        (in $NEXT)
  | testPolicyFile          -- [ -e $POLICY_FILE ]
  | readPolicyFile          -- FCOUNT=$(cat $POLICY_FILE | grep -Po '\d+' | head -n 1)
  | testReg (r : Reg)       -- [ "$FCOUNT" ] / [ "$LCOUNT" ]
  | setReg (r : Reg) (n : Nat)   -- FCOUNT=0 / LCOUNT=0
  | readLink                -- PREV_POLICY=$(readlink $CURRENT)
  | testPrev                -- [ "$PREV_POLICY" ]
  | linkCount               -- LCOUNT=$(echo $PREV_POLICY | grep -Po '\d+' | head -n 1)
  | mkdirCode               -- mkdir $PCODE
  | mkPrevLink              -- ln -s ../../$PREV_POLICY/code $PCODE/.prev
  | countPick (max : Bool)  -- COUNT=$( [ $FCOUNT -gt $LCOUNT ] && echo $FCOUNT || echo $LCOUNT)   (max = true for -gt/-ge)
  | countAdd (n : Nat)      -- COUNT=$(expr $COUNT + n)
  | policyFromCount         -- POLICY=p$COUNT
  | compile                 -- netspoc $PSRC $PCODE
  | touchFailed             -- touch $POLICYDB/failed
  | writePolicyFile         -- echo "# $POLICY # …" > POLICY                  (in $PSRC)
  | gitAdd                  -- git add POLICY
  | gitCommitPolicy         -- git commit -m $POLICY
  | saveHash                -- HASH=$(git log -n 1 --format='format:%H')
  | gitPullMerge            -- git pull --no-rebase --quiet
  | gitPush                 -- git push --quiet
  | gitResetHash            -- git reset --hard $HASH
  | mvNextTo                -- mv next $POLICY                                  (in $POLICYDB)
  | rmCurrent               -- rm -f $CURRENT
  | lnCurrent               -- ln -s $POLICY $CURRENT
  | rmFailed                -- rm -f failed                                      (in $POLICYDB)
  | cleanupFind             -- find $PREV_CODE \( -name '*.config' -o -name '*.rules' \)
  | cleanupRm               -- … | xargs rm
  | readEmail               -- EMAIL=$(git log -n 1 --format='format:%ae')
  | mail (what : String)    -- … | mail -s …
  | testEmail               -- [ -n "$EMAIL" ]
  | testSysEmailEmpty       -- [ -z $(git config user.email) ]
  | gitRevert               -- git revert --no-edit $HASH
  | gitPullPlain            -- git pull --quiet
  | touchLock               -- touch $POLICYDB/LOCK
  deriving DecidableEq, Repr, Inhabited

def Cmd.name : Cmd → String
  | .nop w => "nop:" ++ w | .openLock => "openLock" | .flockNB => "flockNB" | .exit n => s!"exit{n}"
  | .ret n => s!"ret{n}" | .uptodateCheck => "uptodateCheck" | .rmrfNext => "rmrfNext"
  | .mkdirNext => "mkdirNext" | .rmrfNextSrc => "rmrfNextSrc" | .mkdirNextP => "mkdirNextP" | .logToFile => "logToFile" | .gitClone => "gitClone"
  | .testPolicyFile => "testPolicyFile" | .readPolicyFile => "readPolicyFile"
  | .testReg .fcount => "testFcount" | .testReg .lcount => "testLcount" | .testReg .count => "testCount"
  | .setReg .fcount n => s!"setFcount{n}" | .setReg .lcount n => s!"setLcount{n}" | .setReg .count n => s!"setCount{n}"
  | .readLink => "readLink" | .testPrev => "testPrev" | .linkCount => "linkCount" | .mkdirCode => "mkdirCode"
  | .mkPrevLink => "mkPrevLink" | .countPick m => if m then "countMax" else "countMin"
  | .countAdd n => s!"countAdd{n}" | .policyFromCount => "policyFromCount" | .compile => "compile"
  | .touchFailed => "touchFailed" | .writePolicyFile => "writePolicyFile" | .gitAdd => "gitAdd"
  | .gitCommitPolicy => "gitCommitPolicy" | .saveHash => "saveHash" | .gitPullMerge => "gitPullMerge"
  | .gitPush => "gitPush" | .gitResetHash => "gitResetHash" | .mvNextTo => "mvNextTo"
  | .rmCurrent => "rmCurrent" | .lnCurrent => "lnCurrent" | .rmFailed => "rmFailed"
  | .cleanupFind => "cleanupFind" | .cleanupRm => "cleanupRm" | .readEmail => "readEmail"
  | .mail w => "mail:" ++ w | .testEmail => "testEmail" | .testSysEmailEmpty => "testSysEmailEmpty"
  | .gitRevert => "gitRevert" | .gitPullPlain => "gitPullPlain" | .touchLock => "touchLock"

/-- Commands that write below `policies/` (other than opening the lock file) or to the remote. -/
def Cmd.mutating : Cmd → Bool
  | .rmrfNext | .mkdirNext | .rmrfNextSrc | .mkdirNextP | .logToFile | .gitClone | .mkdirCode | .mkPrevLink | .compile | .touchFailed
  | .writePolicyFile | .gitAdd | .gitCommitPolicy | .gitPullMerge | .gitPush | .gitResetHash | .mvNextTo
  | .rmCurrent | .lnCurrent | .rmFailed | .cleanupFind | .cleanupRm | .gitRevert | .gitPullPlain
  | .touchLock => true
  | _ => false

/-- Commands whose work is done by a child process of the shell (the child inherits fd 9). -/
def Cmd.external : Cmd → Bool
  | .flockNB | .rmrfNext | .mkdirNext | .rmrfNextSrc | .mkdirNextP | .gitClone | .mkdirCode | .mkPrevLink | .compile | .touchFailed | .gitAdd
  | .gitCommitPolicy | .gitPullMerge | .gitPush | .gitResetHash | .mvNextTo | .rmCurrent | .lnCurrent | .rmFailed
  | .gitRevert | .gitPullPlain | .touchLock => true
  | _ => false

/-- One instruction: source line, abstract command, continuation on status 0 / on failure,
`vis` = bash fires a DEBUG trap in the main shell for it (a kill point of the sandbox runs). -/
structure Instr where
  line : Nat
  cmd  : Cmd
  ok   : Nat
  fail : Nat
  vis  : Bool := true
  inh  : Bool := true     -- the child process of this command inherits fd 9 (false: the command carries `9>&-`)
  deriving DecidableEq, Repr, Inhabited

abbrev Prog := List Instr

/-- A running or finished `newpolicy.sh`. -/
structure Proc where
  pid     : Nat
  pc      : Nat := 0
  alive   : Bool := true
  exit    : Option Nat := none
  fcount  : Option Nat := none
  lcount  : Option Nat := none
  count   : Option Nat := none
  policy  : Nat := 0            -- POLICY=p<policy>
  prev    : Option Nat := none  -- PREV_POLICY
  hash    : Nat := 0            -- HASH
  email   : Bool := false       -- EMAIL is not empty
  base    : Nat := 0            -- what next/src knows as origin/master
  wpol    : Option Nat := none  -- POLICY file written in the work tree, not committed
  spol    : Option Nat := none  -- … and staged
  touched : Bool := false       -- ghost: has executed a mutating command
  fetched : Bool := false       -- ghost: `git pull --no-rebase` done, the following `git push` not yet
  deriving DecidableEq, Repr, Inhabited

/-- Everything but the processes. -/
structure G where
  store    : List Commit := []
  remote   : Nat := 0
  dirs     : List (Nat × Dir) := []
  next     : Option Dir := none
  current  : Option Nat := none
  failed   : Bool := false
  lockFile : Bool := false
  lock     : Option Nat := none
  sysEmail : Bool := false       -- `git config user.email` of the account running the script is not empty
  hist     : List Nat := []      -- ghost: the numbers N of every `mv next pN` (with an existing `next`), newest first
  trouble  : Bool := false       -- ghost: a `git clone`, `git commit`, `git pull --no-rebase` or `git push` of the script has failed
  edited   : Bool := false       -- ghost: somebody rewrote the POLICY file by hand (or such a commit was reverted)
  raced    : Bool := false       -- ghost: a user commit landed between `git pull --no-rebase` and `git push` of a live invocation
  deriving DecidableEq, Repr, Inhabited

structure State where
  g     : G := {}
  procs : List Proc := []
  npid  : Nat := 1
  dying : List Nat := []         -- invocations whose shell was killed while a child process runs (see `Event.killDuring`)
  deriving DecidableEq, Repr, Inhabited

/-! ### Lookups -/

def rootCommit : Commit := ⟨true, none, false, 0, .user, 0⟩

/-- Commit with id `c` (ids start at 1); the empty tree for anything else. -/
def commitAt (store : List Commit) (c : Nat) : Commit :=
  if c = 0 then rootCommit else store.getD (c - 1) rootCommit

def lookupDir : List (Nat × Dir) → Nat → Option Dir
  | [], _ => none
  | (m, d) :: rest, n => if m = n then some d else lookupDir rest n

def setNested : List (Nat × Dir) → Nat → List (Nat × Dir)
  | [], _ => []
  | (m, d) :: rest, n => if m = n then (m, { d with nested := true }) :: rest else (m, d) :: setNested rest n

def Proc.reg (p : Proc) : Reg → Option Nat
  | .fcount => p.fcount | .lcount => p.lcount | .count => p.count

def Proc.setReg (p : Proc) (r : Reg) (v : Option Nat) : Proc :=
  match r with
  | .fcount => { p with fcount := v } | .lcount => { p with lcount := v } | .count => { p with count := v }

/-- HEAD of `policies/next/src`. -/
def G.nextHead (g : G) : Option Nat := g.next.bind (·.head)

/-- The tree checked out in `next/src` (HEAD's tree). -/
def G.nextTree (g : G) : Option Commit := g.nextHead.map (commitAt g.store)

def G.setNextHead (g : G) (h : Nat) : G :=
  match g.next with
  | some d => { g with next := some { d with head := some h } }
  | none => g

/-- The directory `uptodate()` looks at: `next` if it exists, else what `current` points to. -/
def G.uptodateDir (g : G) : Option Dir :=
  match g.next with
  | some d => some d
  | none => g.current.bind (lookupDir g.dirs)

def pickCount (max : Bool) (f l : Option Nat) : Option Nat :=
  match f, l with
  | some a, some b => if max then (if a > b then some a else some b) else (if a < b then some a else some b)
  | _, _ => l

/-! ### Meaning of one command: new global state, new process state, exit status 0? -/

def exec (c : Cmd) (g : G) (p : Proc) : G × Proc × Bool :=
  match c with
  | .nop _ | .mail _ | .touchLock | .cleanupFind | .cleanupRm | .mkdirCode | .mkPrevLink | .logToFile
  | .exit _ => (g, p, true)
  | .ret n => (g, p, n == 0)
  | .openLock => ({ g with lockFile := true }, p, true)
  | .flockNB =>
    match g.lock with
    | none => ({ g with lock := some p.pid }, p, true)
    | some q => (g, p, q == p.pid)
  | .uptodateCheck =>
    match g.uptodateDir with
    | some d => (g, p, d.head.isSome && d.head == some g.remote)
    | none => (g, p, false)
  | .rmrfNext => ({ g with next := none }, p, true)
  | .mkdirNext =>
    match g.next with
    | none => ({ g with next := some {} }, p, true)
    | some _ => (g, p, false)
  | .rmrfNextSrc =>
    match g.next with
    | some d => ({ g with next := some { d with head := none } }, p, true)
    | none => (g, p, true)
  | .mkdirNextP =>
    match g.next with
    | none => ({ g with next := some {} }, p, true)
    | some _ => (g, p, true)
  | .gitClone =>
    match g.next with
    | some d =>
      if d.head.isNone then
        ({ g with next := some { d with head := some g.remote } },
         { p with base := g.remote, wpol := none, spol := none, fetched := false }, true)
      else ({ g with trouble := true }, p, false)
    | none => ({ g with trouble := true }, p, false)
  | .testPolicyFile =>
    match g.nextTree with
    | some t => (g, p, t.pol.isSome)
    | none => (g, p, false)
  | .readPolicyFile => (g, { p with fcount := (g.nextTree.bind (·.pol)) }, true)
  | .testReg r => (g, p, (p.reg r).isSome)
  | .setReg r n => (g, p.setReg r (some n), true)
  | .readLink => (g, { p with prev := g.current }, g.current.isSome)
  | .testPrev => (g, p, p.prev.isSome)
  | .linkCount => (g, { p with lcount := p.prev }, true)
  | .countPick m => (g, { p with count := pickCount m p.fcount p.lcount }, true)
  | .countAdd n => (g, { p with count := p.count.map (· + n) }, p.count.isSome)
  | .policyFromCount => (g, { p with policy := p.count.getD 0 }, true)
  | .compile =>
    match g.next with
    | some d =>
      match d.head with
      | some c =>
        if (commitAt g.store c).good then
          ({ g with next := some { d with built := true, code := (commitAt g.store c).tree, dirty := true,
                                          mixed := d.mixed || (d.dirty && d.code != (commitAt g.store c).tree) } }, p, true)
        else ({ g with next := some { d with built := false } }, p, false)
      | none => (g, p, false)
    | none => (g, p, false)
  | .touchFailed => ({ g with failed := true }, p, true)
  | .writePolicyFile => (g, { p with wpol := some p.policy }, true)
  | .gitAdd => (g, { p with spol := p.wpol }, p.wpol.isSome)
  | .gitCommitPolicy =>
    match g.nextHead, p.spol with
    | some h, some n =>
      let t := commitAt g.store h
      if t.pol == some n then ({ g with trouble := true }, p, false)            -- nothing to commit
      else
        let c : Commit := ⟨t.good, some n, g.sysEmail, h, .policy, t.tree⟩
        (({ g with store := g.store ++ [c] }).setNextHead (g.store.length + 1), { p with spol := none, wpol := none }, true)
    | _, _ => ({ g with trouble := true }, p, false)
  | .saveHash => (g, { p with hash := g.nextHead.getD 0 }, g.nextHead.isSome)
  | .gitPullMerge =>
    match g.nextHead with
    | some h =>
      if g.remote = p.base then (g, { p with fetched := true }, true)            -- already up to date
      else if h = p.base then (g.setNextHead g.remote, { p with base := g.remote, fetched := true }, true)   -- fast forward
      else
        let ours := commitAt g.store h
        let theirs := commitAt g.store g.remote
        let basePol := (commitAt g.store p.base).pol
        if theirs.pol != basePol && ours.pol != basePol && theirs.pol != ours.pol then
          ({ g with trouble := true }, p, false)   -- conflict in POLICY
        else
          let m : Commit :=
            ⟨theirs.good, if ours.pol != basePol then ours.pol else theirs.pol, g.sysEmail, h, .merge, theirs.tree⟩
          (({ g with store := g.store ++ [m] }).setNextHead (g.store.length + 1),
           { p with base := g.remote, fetched := true }, true)
    | none => ({ g with trouble := true }, p, false)
  | .gitPush =>
    match g.nextHead with
    | some h =>
      if g.remote = p.base then ({ g with remote := h }, { p with base := h, fetched := false }, true)
      else
        -- rejected: the remote has moved.  Git trouble only if a new POLICY number stays unpublished.
        ({ g with trouble := g.trouble || (commitAt g.store h).pol != (commitAt g.store g.remote).pol },
         { p with fetched := false }, false)
    | none => ({ g with trouble := true }, { p with fetched := false }, false)
  | .gitResetHash => if p.hash = 0 then (g, p, false) else (g.setNextHead p.hash, { p with wpol := none, spol := none }, g.next.isSome)
  | .mvNextTo =>
    match g.next with
    | none => (g, p, false)
    | some d =>
      match lookupDir g.dirs p.policy with
      | none => ({ g with dirs := (p.policy, d) :: g.dirs, next := none, hist := p.policy :: g.hist }, p, true)
      | some e =>
        if e.nested then ({ g with hist := p.policy :: g.hist }, p, false)   -- pN/next exists and is not empty
        else ({ g with dirs := setNested g.dirs p.policy, next := none, hist := p.policy :: g.hist }, p, true)
  | .rmCurrent => ({ g with current := none }, p, true)
  | .lnCurrent =>
    match g.current with
    | none => ({ g with current := some p.policy }, p, true)
    | some _ => (g, p, true)                             -- link lands inside the directory `current` points to
  | .rmFailed => ({ g with failed := false }, p, true)
  | .readEmail => (g, { p with email := (g.nextTree.map (·.email)).getD false }, true)
  | .testEmail => (g, p, p.email)
  | .testSysEmailEmpty => (g, p, !g.sysEmail)
  | .gitRevert =>
    match g.nextHead with
    | some h =>
      let t := commitAt g.store p.hash
      if p.hash = 0 || h != p.hash || t.kind == .merge then (g, p, false)
      else
        let pt := commitAt g.store t.parent
        let r : Commit := ⟨pt.good, pt.pol, g.sysEmail, h, .revert, pt.tree⟩
        (({ g with store := g.store ++ [r], edited := g.edited || pt.pol != t.pol }).setNextHead (g.store.length + 1), p, true)
    | none => (g, p, false)
  | .gitPullPlain =>
    match g.nextHead with
    | some h =>
      if g.remote = p.base then (g, p, true)
      else if h = p.base then (g.setNextHead g.remote, { p with base := g.remote }, true)
      else (g, p, false)                                 -- divergent branches, no strategy configured
    | none => (g, p, false)

/-! ### Processes and events -/

def instrAt (prog : Prog) (pc : Nat) : Option Instr := prog[pc]?

def release (g : G) (pid : Nat) : G := if g.lock = some pid then { g with lock := none } else g

/-- One simple command of process `p` (which must be alive). -/
def stepProc (prog : Prog) (g : G) (p : Proc) : G × Proc :=
  match instrAt prog p.pc with
  | none => (release g p.pid, { p with alive := false, exit := some 0 })       -- end of script
  | some i =>
    match i.cmd with
    | .exit n => (release g p.pid, { p with alive := false, exit := some n })
    | c =>
      let (g', p', ok) := exec c g p
      (g', { p' with pc := if ok then i.ok else i.fail, touched := p'.touched || c.mutating })

inductive Event
  | commit (good : Bool) (pol : Option Nat) (email : Bool)   -- a user pushes one commit (pol = some n: rewrites POLICY)
  | spawn                                                    -- somebody starts newpolicy.sh
  | step (pid : Nat)                                         -- the scheduler lets process pid run one command
  | kill (pid : Nat)                                         -- SIGKILL before its next command
  | killDuring (pid : Nat)                                   -- SIGKILL of the shell while the child process of its next
                                                             -- command runs: the child (it inherited fd 9 and with it the
                                                             -- flock) finishes the command, then the invocation is gone
  deriving DecidableEq, Repr

def replaceProc (ps : List Proc) (p : Proc) : List Proc :=
  ps.map fun q => if q.pid = p.pid then p else q

def findProc (ps : List Proc) (pid : Nat) : Option Proc := ps.find? (·.pid == pid)

def applyCommit (g : G) (good : Bool) (pol : Option Nat) (email : Bool) : G :=
  let t := commitAt g.store g.remote
  let c : Commit := ⟨good, if pol.isSome then pol else t.pol, email, g.remote, .user, g.store.length + 1⟩
  { g with store := g.store ++ [c], remote := g.store.length + 1, edited := g.edited || pol.isSome }

/-- Some live invocation has pulled and not yet pushed. -/
def pushPending (ps : List Proc) : Bool := ps.any fun p => p.alive && p.fetched

/-- Events without the orphan mechanism (`killDuring` is handled in `step`). -/
def stepCore (prog : Prog) (s : State) : Event → State
  | .commit good pol email =>
    { s with g := { applyCommit s.g good pol email with raced := s.g.raced || pushPending s.procs } }
  | .spawn => { s with procs := s.procs ++ [{ pid := s.npid }], npid := s.npid + 1 }
  | .step pid =>
    match findProc s.procs pid with
    | some p =>
      if p.alive then
        let (g', p') := stepProc prog s.g p
        { s with g := g', procs := replaceProc s.procs p' }
      else s
    | none => s
  | .kill pid =>
    match findProc s.procs pid with
    | some p =>
      if p.alive then
        { s with g := release s.g pid, procs := replaceProc s.procs { p with alive := false, exit := none } }
      else s
    | none => s
  | .killDuring _ => s

/-- All events.  A shell killed while its child runs (`killDuring`) is remembered in `dying`; the
next step of that invocation is the child finishing its command, after which the invocation is
dead and the lock is free.  Only commands that run as a child process (`Cmd.external`) can be
interrupted this way; for the others `killDuring` is `kill`. -/
def step (prog : Prog) (s : State) : Event → State
  | .killDuring pid =>
    match findProc s.procs pid with
    | some p =>
      match instrAt prog p.pc with
      | some i =>
        if p.alive && i.cmd.external then
          if i.inh then { s with dying := pid :: s.dying }                       -- the child keeps fd 9: lock stays
          else { s with g := release s.g pid, dying := pid :: s.dying }           -- `9>&-`: lock is free, child goes on
        else stepCore prog s (.kill pid)
      | none => stepCore prog s (.kill pid)
    | none => s
  | .step pid =>
    if s.dying.contains pid then
      let s1 := stepCore prog s (.step pid)
      stepCore prog { s1 with dying := s1.dying.filter (· != pid) } (.kill pid)
    else stepCore prog s (.step pid)
  | e => stepCore prog s e

/-- The world before anything happened: a repository with one good commit without POLICY file. -/
def init (sysEmail : Bool) : State :=
  { g := { store := [⟨true, none, true, 0, .user, 1⟩], remote := 1, sysEmail := sysEmail } }

def run (prog : Prog) (sysEmail : Bool) (es : List Event) : State := es.foldl (step prog) (init sysEmail)

/-! ### Process-group kill: the compiler is stopped half way

`killDuring` kills the shell only.  `EventG.killGroup` kills the whole process group while the
compiler runs: `next/code` keeps PART of the output for the tree of HEAD (no stamp; files of an earlier
compile of another tree that were still there make it `mixed`), the invocation is dead and the
flock is free at once.  For any other command the group kill is `kill` (the command had no effect
yet; its completed variant is `killDuring` + the orphan's step). -/

/-- Half a compile of the tree of HEAD into `next/code`. -/
def spoilDir (g : G) (d : Dir) : Dir :=
  match d.head with
  | some h =>
    let t := (commitAt g.store h).tree
    { d with built := false, dirty := true, code := t, mixed := d.mixed || (d.dirty && d.code != t) }
  | none => { d with built := false, dirty := true }

def spoilG (g : G) : G := { g with next := g.next.map (spoilDir g) }

inductive EventG
  | base (e : Event)
  | killGroup (pid : Nat)
  deriving DecidableEq, Repr

/-- does the group kill hit a running compiler that holds the lock? -/
def groupHits (prog : Prog) (s : State) (pid : Nat) : Option Proc :=
  match findProc s.procs pid with
  | some p =>
    match instrAt prog p.pc with
    | some i => if p.alive && i.cmd == .compile && s.g.lock == some pid && !s.dying.contains pid then some p else none
    | none => none
  | none => none

def stepG (prog : Prog) (s : State) : EventG → State
  | .base e => step prog s e
  | .killGroup pid =>
    match groupHits prog s pid with
    | some p => { s with g := { spoilG s.g with lock := none }, procs := replaceProc s.procs { p with alive := false, exit := none } }
    | none => step prog s (.kill pid)

def runG (prog : Prog) (sysEmail : Bool) (es : List EventG) : State := es.foldl (stepG prog) (init sysEmail)

/-! ### Undisturbed run of one new invocation -/

def quiescent (s : State) : Bool := s.procs.all (!·.alive)

/-- Let process `pid` run alone for at most `fuel` commands. -/
def runAlone (prog : Prog) : Nat → State → Nat → State
  | 0, s, _ => s
  | fuel + 1, s, pid =>
    match findProc s.procs pid with
    | some p => if p.alive then runAlone prog fuel (step prog s (.step pid)) pid else s
    | none => s

/-- Start one invocation and let it run alone. -/
def runNew (prog : Prog) (fuel : Nat) (s : State) : State :=
  runAlone prog fuel (step prog s .spawn) s.npid

/-! ### Specification-side predicates (what the property talks about) -/

/-- `current` is absent or names a directory produced by a successful compile
(the compiler model succeeds exactly on good trees, see `exec .compile`). -/
def G.currentOK (g : G) : Bool :=
  match g.current with
  | none => true
  | some n =>
    match lookupDir g.dirs n with
    | some d => d.built
    | none => false

/-- `current` names a compiled directory whose source is the newest revision of the repository
and whose code was compiled from the tree of that revision. -/
def G.newest (g : G) : Bool :=
  match g.current with
  | none => false
  | some n =>
    match lookupDir g.dirs n with
    | some d => d.built && d.head == some g.remote && d.code == (commitAt g.store g.remote).tree && !d.mixed
    | none => false

/-- The compiled code of a directory belongs to the tree of its HEAD. -/
def dirCodeOK (store : List Commit) (d : Dir) : Bool :=
  !d.built ||
  match d.head with
  | some h => !d.mixed && d.code == (commitAt store h).tree
  | none => false

/-- Every command that runs as a child process hands fd 9 (the lock) down to it. -/
def inhOK (prog : Prog) : Bool := prog.all fun i => !i.cmd.external || i.inh

/-- No policy directory carries a number above max(POLICY file of the newest revision, link). -/
def G.numbersCovered (g : G) : Bool :=
  g.dirs.all fun x => x.1 ≤ max ((commitAt g.store g.remote).pol.getD 0) (g.current.getD 0)

/-- A leftover `next` whose HEAD equals the remote head: `uptodate()` will answer "yes". -/
def G.staleNext (g : G) : Bool :=
  match g.next with
  | some d => d.head == some g.remote
  | none => false

def strictlyDecreasing : List Nat → Bool
  | [] => true
  | [_] => true
  | a :: b :: rest => decide (b < a) && strictlyDecreasing (b :: rest)

end NA.C19
