import NA.Model.IosSession
/-!
# Model of `removeBanner` (`go/pkg/ios/device.go`)

`removeBanner` deletes banner *definitions* from a configuration text before it is parsed
(`banner motd ^C` … lines … `^C`).  The code walks the text line by line (a line includes its
line feed), recognises a start line with the regular expression `^banner\s\S+\s+(.)\S`, then skips
lines up to and including the first line that starts with the captured delimiter.  A last line
without line feed is always copied — even inside a banner, even if it is a start line (mirrored).

`bannerStart` is the explicit matcher of the regular expression with Go's leftmost-first
backtracking: `\S+` and `\s+` are greedy; the only way to back off is one character of `\s+`,
which makes the LAST white-space character the delimiter (`banner motd  x` ⇒ delimiter = blank).
-/
namespace NA.Ios

/-- `^banner\s\S+\s+(.)\S` on one line: the captured delimiter. -/
def bannerStart (line : Str) : Option Char :=
  if !(lit "banner").isPrefixOf line then none else
  match line.drop 6 with
  | [] => none
  | c :: r =>
    if !isReSpace c then none else
    let w := r.takeWhile (fun x => !isReSpace x)
    let r1 := r.dropWhile (fun x => !isReSpace x)
    if w.isEmpty then none else
    let s := r1.takeWhile isReSpace
    let r2 := r1.dropWhile isReSpace
    if s.isEmpty then none else
    let back : Option Char :=
      if s.length ≥ 2 then
        match s.getLast?, r2 with
        | some x, _ :: _ => if x != '\n' then some x else none
        | _, _ => none
      else none
    match r2 with
    | d :: e :: _ => if !isReSpace e then some d else back
    | _ => back

/-- complete lines (each with its line feed) and the unterminated rest -/
def splitKeepNL : Str → List Str × Str
  | [] => ([], [])
  | c :: s =>
    if c == '\n' then (['\n'] :: (splitKeepNL s).1, (splitKeepNL s).2)
    else
      match (splitKeepNL s).1 with
      | [] => ([], c :: (splitKeepNL s).2)
      | l :: ls => ((c :: l) :: ls, (splitKeepNL s).2)

/-- the loop over complete lines; `eb` = `endBanner` -/
def rbLines : Option Char → List Str → Str
  | _, [] => []
  | some d, l :: ls => if l.head? == some d then rbLines none ls else rbLines (some d) ls
  | none, l :: ls =>
    match bannerStart l with
    | some d => rbLines (some d) ls
    | none => l ++ rbLines none ls

/-- `removeBanner` -/
def removeBanner (data : Str) : Str :=
  rbLines none (splitKeepNL data).1 ++ (splitKeepNL data).2

end NA.Ios
