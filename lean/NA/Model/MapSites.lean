import NA.Core.PermFold
/-!
# C16 — models of the `range`-over-map loops of go/pkg/...

Every loop `for k, v := range m { body }` is modelled as a left fold of a *step* over the list
of map entries **in iteration order** (which differs from run to run).  This file contains

* the loop **shapes** (generic step functions) that occur in the repository,
* for every site of the generated list `NA.Gen.MapRanges.sites` a **site model**: the shape
  instantiated with what the body does (parameters that the loop does not change are arbitrary
  functions, so the statement covers every value they can take),
* the models of the loops that are **not** order-insensitive on the unchanged tree — before the
  repair (`…Unfixed`, fold over the iteration order) and after it (`…Fixed`, fold over the
  entries sorted by key),
* the table `expected` that ties site models to the generated sites by file, function, map
  expression, ordinal and **hash of the loop text**.

Core Lean only; everything executable (the driver `nadrv-c16` runs the `…Fixed` models).
-/
namespace NA.C16
open NA.PermFold

/-- Entries of a Go map in iteration order: a list of key/value pairs with distinct keys. -/
abbrev Entries (κ ν : Type) := List (κ × ν)

def IsMap {κ ν : Type} (es : Entries κ ν) : Prop := UniqueKeys Prod.fst es

instance {κ ν : Type} [DecidableEq κ] (es : Entries κ ν) : Decidable (IsMap es) := by
  unfold IsMap UniqueKeys; infer_instance

/-! ## Shapes -/

/-! ### Shape `collectSorted`: append selected entries to a slice, sort the slice afterwards -/

def collectStep {α β : Type} (p : α → Bool) (f : α → β) (acc : List β) (e : α) : List β :=
  if p e then acc ++ [f e] else acc

/-- `for k, v := range m { if p { out = append(out, f) } }; sort(out)` -/
def collectSorted {α β : Type} (le : β → β → Bool) (p : α → Bool) (f : α → β) (init : List β)
    (es : List α) : List β :=
  (es.foldl (collectStep p f) init).mergeSort le

/-! ### Shape `footprint`: every entry reads and writes only cells it owns -/

/-- A heap of cells `ι → μ`.  Entry `a` owns the cells `owns a`; the new content of an owned
cell is `write a heap cell`, and `local` says that it depends only on owned cells (everything
else the body reads is not changed by the loop and is a parameter of `write`). -/
structure Footprint (ι μ α : Type) where
  owns : α → ι → Bool
  write : α → (ι → μ) → ι → μ
  «local» : ∀ a s s', (∀ i, owns a i = true → s i = s' i) → ∀ i, owns a i = true → write a s i = write a s' i

def Footprint.step {ι μ α : Type} (F : Footprint ι μ α) (s : ι → μ) (a : α) : ι → μ :=
  fun i => if F.owns a i then F.write a s i else s i

/-- Different entries own different cells. -/
def Footprint.Disjoint {ι μ α : Type} (F : Footprint ι μ α) (l : List α) : Prop :=
  ∀ a, a ∈ l → ∀ b, b ∈ l → a ≠ b → ∀ i, ¬ (F.owns a i = true ∧ F.owns b i = true)

/-- `X[k] = g k v (X[k])`: the only cell written is the one named by the loop's own key
(also `delete(X, k)` with `μ = Option _` and `g … = none`). -/
def ownKey {κ ν μ : Type} [DecidableEq κ] (g : κ → ν → μ → μ) : Footprint κ μ (κ × ν) where
  owns e i := decide (i = e.1)
  write e s i := g e.1 e.2 (s i)
  «local» := by
    intro a s s' h i hi
    rw [h i hi]

/-- Every entry owns a set of objects (the commands reachable from its value); the body
replaces the content of each owned object by a function of the entry, the object and its old
content (`c.parsed = f(c.parsed)`, `sort(c.sub)`, `c.name = newName(c.name, deviceNames)`). -/
def perObject {ι μ α : Type} [DecidableEq ι] (objs : α → List ι) (upd : α → ι → μ → μ) :
    Footprint ι μ α where
  owns a i := decide (i ∈ objs a)
  write a s i := upd a i (s i)
  «local» := by
    intro a s s' h i hi
    rw [h i hi]

/-! ### Shape `setInsert`: the body only adds members to a set (`seen[x] = true`) -/

def setInsertStep {α β : Type} (items : α → β → Bool) (s : β → Bool) (a : α) : β → Bool :=
  fun b => s b || items a b

/-! ### Shape `constFlag`: the body stores one loop-invariant constant in a shared cell -/

def constFlagStep {α γ : Type} (q : α → Bool) (c : γ) (s : Option γ) (a : α) : Option γ :=
  if q a then some c else s

/-! ### Shape `exitOrOwnKey`: leave with an error, or write the own cell -/

/-- `for k, v := range m { if skip(k) { continue }; x, err := parse(k, v); if err != nil { return err };
X[k] = x }`; `none` = the function returned early. -/
def exitOrOwnKeyStep {κ ν μ : Type} [DecidableEq κ] (skip : κ → Bool) (parse : κ → ν → Option μ)
    (s : Option (κ → Option μ)) (e : κ × ν) : Option (κ → Option μ) :=
  match s with
  | none => none
  | some m =>
    if skip e.1 then some m else
    match parse e.1 e.2 with
    | none => none
    | some x => some (fun i => if i = e.1 then some x else m i)

/-! ### Shape `firstIn`: leave the loop at the first entry that produces a result -/

/-- `for k, v := range m { if r, ok := f(k, v); ok { result = r; break } }` -/
def firstIn {α ρ : Type} (f : α → Option ρ) (es : List α) : Option ρ := es.findSome? f

/-- The same loop over the entries sorted by key (the repaired form). -/
def firstInSorted {κ ν ρ : Type} (le : κ → κ → Bool) (f : κ × ν → Option ρ) (es : Entries κ ν) :
    Option ρ :=
  firstIn f (sortBy le Prod.fst es)

/-- Messages emitted in iteration order. -/
def logIn {α ρ : Type} (f : α → Option ρ) (es : List α) : List ρ := es.filterMap f

def logInSorted {κ ν ρ : Type} (le : κ → κ → Bool) (f : κ × ν → Option ρ) (es : Entries κ ν) :
    List ρ :=
  logIn f (sortBy le Prod.fst es)

/-! ## Site models: loops that are order-insensitive as they stand -/

namespace Site

/-- asa/device.go `isValidOutput`: `for prefix, re := range validOutput { if HasPrefix(cmd, prefix)
&& re.MatchString(line) { continue LINE } }` — the only result is "some entry matched". -/
def isValidOutput {κ ν : Type} (hit : κ × ν → Bool) (es : Entries κ ν) : Option Unit :=
  firstIn (fun e => if hit e then some () else none) es

/-- cisco/config.go `MergeSpoc` #0: `for prefix := range b.lookup { if lookup[prefix] == nil
{ lookup[prefix] = make(…) } }`; cell content `none` = nil map, `some μ` = a map. -/
def mergeSpocMakeMaps {κ ν μ : Type} [DecidableEq κ] (empty : μ) : Footprint κ (Option μ) (κ × ν) :=
  ownKey (fun _ _ old => match old with | none => some empty | some m => some m)

/-- cisco/config.go `MergeSpoc`: `for c, used := range isReferenced { if !used { warnings =
append(warnings, Sprintf(…c…)) } }; sort.Strings(warnings)`. -/
def mergeSpocWarnings {κ : Type} (msg : κ → String) (init : List String) (es : Entries κ Bool) :
    List String :=
  collectSorted strLe (fun e => !e.2) (fun e => msg e.1) init es

/-- cisco/diff.go `diffConfig`: `for _, l := range comb[prefix] { anchor = l[0].typ.anchor; break }`:
the result is the `anchor` flag of the command type of whichever entry comes first. -/
def anchorProbe {κ ν : Type} (typAnchor : ν → Bool) (es : Entries κ ν) : Option Bool :=
  firstIn (fun e => some (typAnchor e.2)) es

/-- cisco/diff.go `diffSomeAnchors/onlyAnchorNames`: `for name, l := range m { if l[0].anchor
{ result = append(result, name) } }; sort.Strings(result)`. -/
def onlyAnchorNames {ν : Type} (isAnchor : ν → Bool) (es : Entries String ν) : List String :=
  collectSorted strLe (fun e => isAnchor e.2) (fun e => e.1) [] es

/-- cisco/diff.go `diffASAACLs/addACL`: `for cmd, p := range pos { if p >= i { pos[cmd] = p + 1 } }`. -/
def posAfterAdd {κ : Type} [DecidableEq κ] (i : Nat) : Footprint κ Nat (κ × Nat) :=
  ownKey (fun _ p old => if p ≥ i then p + 1 else old)

/-- cisco/diff.go `diffASAACLs/delACL`: `for cmd, p := range pos { if p > i { pos[cmd] = p - 1 } }`. -/
def posAfterDel {κ : Type} [DecidableEq κ] (i : Nat) : Footprint κ Nat (κ × Nat) :=
  ownKey (fun _ p old => if p > i then p - 1 else old)

/-- cisco/diff.go `deleteUnused`, first loop (both levels flattened: key = (prefix, name)):
`toDelete[pair{prefix,name}] = del(l)` if `del(l) != nil` — own cell — and
`stillReferenced[…] = true` for everything reachable from unneeded, non-DRC commands of `l`
— set insertion.  `del` and `reach` read `needed`, `toDelete`, names and references, none of
which the loop changes. -/
def deleteUnusedCollect {κ ν δ : Type} [DecidableEq κ] (del : κ → ν → Option δ)
    (reach : κ × ν → κ → Bool) :
    (κ → Option δ) × (κ → Bool) → κ × ν → (κ → Option δ) × (κ → Bool) :=
  prodStep (ownKey (fun k v old => match del k v with | some d => some d | none => old)).step
    (setInsertStep reach)

/-- cisco/diff.go `deleteUnused`: `for p := range toDelete { if stillReferenced[p] { delete(toDelete, p) } }`. -/
def deleteStillReferenced {κ δ : Type} [DecidableEq κ] (still : κ → Bool) :
    Footprint κ (Option δ) (κ × δ) :=
  ownKey (fun k _ old => if still k then none else old)

/-- cisco/diff.go `deleteUnused`: `for _, l := range toDelete { for _, c := range l { follow(c); … } }`
with `follow` = `isReferenced[pair{prefix,name}] = true` for every reference of `c`. -/
def markReferenced {κ ν β : Type} (refs : κ × ν → β → Bool) : (β → Bool) → κ × ν → β → Bool :=
  setInsertStep refs

/-- cisco/diff.go `generateNamesForTransfer` (both levels flattened; an entry is a list of
commands): every command without fixed name gets `c.name = firstFree(c.name, deviceNames[prefix])`;
the device's names are not changed by the loop. -/
def generateNames {ι μ α : Type} [DecidableEq ι] (cmds : α → List ι) (rename : α → ι → μ → μ) :
    Footprint ι μ α :=
  perObject cmds rename

/-- cisco/diff.go `sortGroups`: `for _, gl := range lookup["object-group"] { sort(gl[0].sub) }`. -/
def sortGroups {ι μ α : Type} [DecidableEq ι] (group : α → ι) (sortSub : μ → μ) : Footprint ι μ α :=
  perObject (fun a => [group a]) (fun _ _ c => sortSub c)

/-- cisco/diff.go `ignoreCryptoGDOI`: `for name := range rm { delete(lookup["crypto map"], name) }`. -/
def ignoreCryptoGDOI {κ ν δ : Type} [DecidableEq κ] : Footprint κ (Option δ) (κ × ν) :=
  ownKey (fun _ _ _ => none)

/-- cisco/parse.go `addDefaults`: `for k, vl := range defaultObjects { if known(prefix)
{ addDefaultObject(lookup, prefix, name, vl) } }`: only `lookup[prefix][name]` is changed. -/
def addDefaults {κ ν μ : Type} [DecidableEq κ] (known : κ → Bool) (add : κ → ν → μ → μ) :
    Footprint κ μ (κ × ν) :=
  ownKey (fun k v old => if known k then add k v old else old)

/-- cisco/parse.go `postprocessParsed`, the loops that rewrite each command of each entry in place
(`postprocessIOSACL`, `stripPFSDefault`, `stripMetric`, lower-casing `subject-name`, marking
tunnel-groups named by an IP address). -/
def rewriteCommands {ι μ α : Type} [DecidableEq ι] (cmds : α → List ι) (f : α → ι → μ → μ) :
    Footprint ι μ α :=
  perObject cmds f

/-- cisco/parse.go `postprocessParsed`, `access-list` loop and `setTransRef`: each command is
rewritten in place **and** the shared command type gets a loop-invariant constant
(`c.typ.ref = […]`). -/
def rewriteAndSetTypeRef {ι μ α γ : Type} [DecidableEq ι] (cmds : α → List ι) (f : α → ι → μ → μ)
    (touches : α → Bool) (refs : γ) : (ι → μ) × Option γ → α → (ι → μ) × Option γ :=
  prodStep (perObject cmds f).step (constFlagStep touches refs)

/-- linux/parse.go `normalizeIPTables`: `for k, v := range pairs { …; pairs[k] = norm(k, v) }`. -/
def normalizeIPTables {κ ν : Type} [DecidableEq κ] (norm : κ → ν → ν) : Footprint κ ν (κ × ν) :=
  ownKey (fun k v _ => norm k v)

/-- cisco/parse.go `postprocessParsed` (fix 135107b): `for name, l := range lookup["username"] { if
!ContainsFunc(l, nopassword) { delete(lookup["username"], name) } }` — deletes the own entry of the
ranged map, decided by the entry's own value. -/
def dropUnmanagedUsers {κ ν : Type} [DecidableEq κ] (managed : ν → Bool) : Footprint κ (Option ν) (κ × ν) :=
  ownKey (fun _ v old => if managed v then old else none)

/-- nsx/diff.go `genUniqGroupNames`: `for id := range a { used[id] = true }`. -/
def copyKeys {κ ν : Type} [DecidableEq κ] : Footprint κ Bool (κ × ν) :=
  ownKey (fun _ _ _ => true)

/-- A non-empty string of at most nine decimal digits: `strconv.Atoi` succeeds, result ≥ 0. -/
def isNumeral (s : String) : Bool :=
  !s.toList.isEmpty && s.toList.all Char.isDigit && decide (s.toList.length ≤ 9)

def parseNat (s : String) : Option Nat :=
  if isNumeral s then some (s.toList.foldl (fun n c => 10 * n + (c.toNat - 48)) 0) else none

/-- program/config.go `LoadConfig`: `for key, val := range defaultVals { if !seen[key] { if err :=
insert(key, val); err != nil { return nil, err } } }`; `insert` stores the parsed number in the
field named by `key` (all keys of `defaultVals` are integer fields). -/
def loadDefaults (seen : String → Bool) :
    Option (String → Option Nat) → String × String → Option (String → Option Nat) :=
  exitOrOwnKeyStep seen (fun _ v => parseNat v)

end Site

/-! ## Loops that depend on the iteration order on the unchanged tree, and their repairs -/

/-- An object-group / NSX group on the device. -/
structure Group where
  needed : Bool          -- already used for another group of Netspoc
  typ : Nat              -- `object-group network`, `… service`, … (NSX: always 0)
  elems : List Nat       -- sorted element list
  deriving DecidableEq, Repr

/-- Body of `findGroupOnDevice` (cisco/diff.go and nsx/diff.go): the group is a candidate iff
it has the same type, is not needed yet and has the same elements. -/
def groupMatches {κ : Type} (typ : Nat) (target : List Nat) (e : κ × Group) : Option κ :=
  if e.2.typ = typ && !e.2.needed && e.2.elems = target then some e.1 else none

/-- Unchanged code: the first candidate in map iteration order is taken. -/
def findGroupUnfixed {κ : Type} (typ : Nat) (target : List Nat) (es : Entries κ Group) : Option κ :=
  firstIn (groupMatches typ target) es

/-- Repaired code: the candidates are visited in ascending order of the group name. -/
def findGroupFixed {κ : Type} (le : κ → κ → Bool) (typ : Nat) (target : List Nat)
    (es : Entries κ Group) : Option κ :=
  firstInSorted le (groupMatches typ target) es

/-- `mapPeerToSeq` of cisco/diff.go matchCryptoMap.  Entries: sequence number ↦ peer of that
crypto map entry (`none` = neither peer nor dynamic: `getPeer` aborts naming the entry).
Result: `Except.error seq` = abort, `Except.ok m` = peer ↦ sequence number. -/
def peerStepUnfixed {π : Type} [DecidableEq π] (s : Except Nat (π → Option Nat)) (e : Nat × Option π) :
    Except Nat (π → Option Nat) :=
  match s with
  | .error n => .error n
  | .ok m =>
    match e.2 with
    | none => .error e.1
    | some p => .ok (fun q => if q = p then some e.1 else m q)   -- m[peer] = seq: the last one wins

def peerMapUnfixed {π : Type} [DecidableEq π] (es : Entries Nat (Option π)) :
    Except Nat (π → Option Nat) :=
  es.foldl peerStepUnfixed (.ok fun _ => none)

/-- Repaired code: ascending sequence numbers, the first (lowest) entry of a peer is kept. -/
def peerStepFixed {π : Type} [DecidableEq π] (s : Except Nat (π → Option Nat)) (e : Nat × Option π) :
    Except Nat (π → Option Nat) :=
  match s with
  | .error n => .error n
  | .ok m =>
    match e.2 with
    | none => .error e.1
    | some p => .ok (fun q => if q = p ∧ m q = none then some e.1 else m q)

def peerMapFixed {π : Type} [DecidableEq π] (es : Entries Nat (Option π)) :
    Except Nat (π → Option Nat) :=
  (sortBy natLe Prod.fst es).foldl peerStepFixed (.ok fun _ => none)

/-- What can be observed of the result: abort, or the sequence numbers of given peers. -/
def peerObs {π : Type} (r : Except Nat (π → Option Nat)) (ps : List π) : Nat ⊕ List (Option Nat) :=
  match r with
  | .error n => .inl n
  | .ok m => .inr (ps.map m)

/-- `checkReferences` of cisco/parse.go (both levels flattened; key = (prefix, name)): the value
is the message of the first dangling reference among the commands of the entry, if any. -/
def firstErrorUnfixed {κ ρ : Type} (es : Entries κ (Option ρ)) : Option ρ := firstIn Prod.snd es

def firstErrorFixed {κ ρ : Type} (le : κ → κ → Bool) (es : Entries κ (Option ρ)) : Option ρ :=
  firstInSorted le Prod.snd es

/-- `diffIPTables` of linux/diff.go, option loop: `for k, v := range aPairs { if v2 := bPairs[k];
v2 != v { return "…k:[v<->v2]" } }`. -/
def optionDiffers {κ ν : Type} [DecidableEq ν] (b : κ → ν) (e : κ × ν) : Option (κ × ν × ν) :=
  if b e.1 = e.2 then none else some (e.1, e.2, b e.1)

def firstOptionUnfixed {κ ν : Type} [DecidableEq ν] (b : κ → ν) (es : Entries κ ν) : Option (κ × ν × ν) :=
  firstIn (optionDiffers b) es

def firstOptionFixed {κ ν : Type} [DecidableEq ν] (le : κ → κ → Bool) (b : κ → ν) (es : Entries κ ν) :
    Option (κ × ν × ν) :=
  firstInSorted le (optionDiffers b) es

/-- cisco `MergeSpoc`, main loop, as far as the *first abort* goes: the value says whether
merging this entry aborts (unsupported prefix in raw, name clash, second reference) and how. -/
def firstAbortUnfixed {κ ρ : Type} (es : Entries κ (Option ρ)) : Option ρ := firstIn Prod.snd es

def firstAbortFixed {κ ρ : Type} (le : κ → κ → Bool) (es : Entries κ (Option ρ)) : Option ρ :=
  firstInSorted le Prod.snd es

/-- linux `MergeSpoc`: messages (`Adding all chains of table …`, `Adding chain …`) are written
to stderr in iteration order; the value is the message of the entry, if it emits one. -/
def infoLogUnfixed {κ ρ : Type} (es : Entries κ (Option ρ)) : List ρ := logIn Prod.snd es

def infoLogFixed {κ ρ : Type} (le : κ → κ → Bool) (es : Entries κ (Option ρ)) : List ρ :=
  logInSorted le Prod.snd es

/-! ## Whole runs: a sequence of loops under an arbitrary schedule -/

/-- One `range` over a map executed in state `s`: `entries s` are the map's entries (in some
canonical order), `body s l` runs the loop visiting them in the order `l`; `inv` is what the
site theorems establish: the result does not depend on the order. -/
structure Stage (σ ε : Type) where
  entries : σ → List ε
  body : σ → List ε → σ
  inv : ∀ s l, l.Perm (entries s) → body s l = body s (entries s)

/-- A schedule (the Go runtime's choice): for the `i`-th loop executed, in state `s`, the order in
which the entries are visited. -/
abbrev Schedule (σ ε : Type) := Nat → σ → List ε → List ε

def Schedule.Valid {σ ε : Type} (sch : Schedule σ ε) : Prop := ∀ i s l, (sch i s l).Perm l

/-- A run: `next s` is the loop the program executes next in state `s` (everything between two
loops is deterministic and folded into the bodies), `none` = finished; at most `fuel` loops. -/
def execRun {σ ε : Type} (next : σ → Option (Stage σ ε)) (sch : Schedule σ ε) :
    Nat → Nat → σ → σ
  | 0, _, s => s
  | fuel + 1, i, s =>
    match next s with
    | none => s
    | some st => execRun next sch fuel (i + 1) (st.body s (sch i s (st.entries s)))

/-! ## The table of expectations -/

/-- Which theorem of `NA.Props.C16` covers a site. -/
inductive Shape
  | anyHit | ownKey | collectSorted | agreeFirst | perObject | perObjectConst
  | ownKeySetInsert | setInsert | exitOrOwnKey
  deriving DecidableEq, Repr

structure Expect where
  file : String
  fn : String
  mapExpr : String
  ord : Nat
  hash : String
  cls : String      -- syntactic class computed by the translator
  shape : Shape
  thm : String      -- name of the site theorem in NA.Props.C16
  deriving DecidableEq, Repr

/-- Rows for the loops whose body the translator CANNOT describe (`opaque` in
`NA.Gen.MapRangesDescr.descrs`): these stay tied by the hash of their alpha-normalised loop text
(locals, parameters and labels positional; see translate/mapranges/norm.go). Every other loop needs
no row: its regenerated descriptor together with `runBody_perm` is the tie. -/
def expected : List Expect := [
]

/-- The loops repaired by `fix:` commits iterate over sorted keys: per (file, function) the least
number of sorted iterations (`range slices.Sorted(maps.Keys(X))`, `slices.SortedFunc(maps.Keys(X), …)`,
or "collect the keys, sort, range") that `NA.Gen.MapRanges.sortedRanges` must list. Names of
variables do not matter. -/
def repaired : List (String × String × Nat) := [
  ("cisco/diff.go", "State.findGroupOnDevice", 1),
  ("cisco/diff.go", "matchCryptoMap/mapPeerToSeq", 1),
  ("cisco/parse.go", "parser.checkReferences", 2),
  ("cisco/parse.go", "postprocessParsed", 3),
  ("cisco/parse.go", "postprocessParsed/setTransRef", 1),
  ("cisco/config.go", "Config.MergeSpoc", 2),
  ("linux/config.go", "config.MergeSpoc", 2),
  ("linux/diff.go", "diffIPTables", 3),
  ("nsx/diff.go", "findGroupOnDevice", 1)
]

/-- A row matches a site by file, function, normalised hash and class (the text of the map expression
and the ordinal are for the reader only). -/
def Expect.matchesSite (e : Expect) (file fn : String) (hash cls : String) : Bool :=
  e.file == file && e.fn == fn && e.hash == hash && e.cls == cls

end NA.C16
