import NA.Model.VpnGraphDev
/-!
# Certificate maps and their bindings: `tunnel-group-map`, toplevel `webvpn` / `certificate-group-map` (fragment H)

On top of fragment G (objects now include `crypto ca certificate map NAME SEQ` with `subject-name` / `extended-key-usage`
sub-commands, and tunnel-groups with generated names): the unnamed anchors

  * `tunnel-group-map default-group TG` and `tunnel-group-map CM SEQ TG` (toplevel commands), and
  * toplevel `webvpn` with its sub-commands `certificate-group-map CM SEQ TG`.

Mirrored from `cisco/diff.go`: `diffTunnelGroupMap` / `diffWebVPN` = `diffCmds` with the key `byCertMapKey` (the `subject-name`
line of the referenced certificate map, `default-group` for the default rule): `diffUnordered` by that key, "no parts equal" ⇒
`markDeleted` (toplevel rules; printed by `deleteUnused`) resp. `delCmds` (sub-commands of webvpn) + `addCmds`, otherwise deletes
first (`no …` at once, then `markDeleted` of what the rule referenced), `makeEqual` for rules with equal key (the target's rule
takes the DEVICE's index; both referenced objects are compared by `diffCmds`; a changed name ⇒ the rule is sent again, after a
`no` for the old one if the certificate map is another one — since /repo fix of F-VPN-repoint), `addCmds` for new rules (`follow`: an object with a fixed name that exists on the device is compared instead
of transferred), `addCmd` (toplevel rule: leaves every mode; `webvpn`: `exit` first if the open mode is a group-policy's or a
username's — that mode has a sub-mode of the same name), `setCmdConfMode("webvpn")`, and the part of `deleteUnused` that prints the
marked toplevel rules in the first round between the tunnel-groups and the usernames.

The change list of this layer (`HSt.all`) holds both kinds of commands; whatever a function of fragment G appends to `St.out` is moved
to it at once (`sync`), so `St.out` is empty between two steps of this layer (the functions of fragment G never read `out`).
-/
namespace NA.Vpn.G

structure Rule where
  cm : Option String := none     -- certificate map; `none` = `default-group`
  seq : String := ""             -- the index
  tg : String
  deriving DecidableEq, Repr, Inhabited

def Rule.refs (r : Rule) : List Ref :=
  (match r.cm with | some n => [(Kind.certmap, n)] | none => []) ++ [(Kind.tg, r.tg)]

/-- commands of this layer -/
inductive HChg
  | tgmap (no : Bool) (r : Rule)       -- [no ]tunnel-group-map …
  | webvpn                             -- toplevel webvpn
  | cgm (no : Bool) (r : Rule)         -- [no ]certificate-group-map CM SEQ TG
  deriving DecidableEq, Repr, Inhabited

def Rule.text (r : Rule) : String :=
  match r.cm with
  | some n => n ++ " " ++ r.seq ++ " " ++ r.tg
  | none => "default-group " ++ r.tg

def HChg.render : HChg → String
  | .tgmap no r => noPre no ++ "tunnel-group-map " ++ r.text
  | .webvpn => "webvpn"
  | .cgm no r => noPre no ++ "certificate-group-map " ++ r.text

/-- `byCertMapKey` -/
def ruleKey (objs : List Obj) (r : Rule) : String :=
  match r.cm with
  | none => "default-group"
  | some n =>
    match objs.find? (fun o => o.id == (Kind.certmap, n)) with
    | some o => match (o.secs.headD { head := "" }).subs.find? (fun s => isPre "subject-name attr".toList s.key.toList) with
      | some s => s.key
      | none => ""
    | none => ""

/-- one command of the change list -/
inductive Cmd2
  | g (c : Chg)
  | h (c : HChg)
  deriving DecidableEq, Repr, Inhabited

def Cmd2.render : Cmd2 → String
  | .g c => c.render
  | .h c => c.render

structure HSt extends St where
  tDel : List Nat := []                  -- device tunnel-group-map rules marked toDelete (positions)
  tNeeded : List Nat := []               -- … marked needed
  all : List Cmd2 := []                  -- the change list so far
  deriving Repr, Inhabited

/-- the mode of toplevel webvpn in `St.mode` (`subCmdOf = "webvpn"`) -/
def webMode : Kind × String × String := (Kind.certmap, "", "webvpn")

def HSt.emitH (h : HSt) (c : HChg) : HSt := { h with all := h.all ++ [.h c] }
/-- continue with the state `st` of fragment G; what it has in `out` is moved to the change list -/
def HSt.withSt (h : HSt) (st : St) : HSt := { h with toSt := { st with out := [] }, all := h.all ++ st.out.map Cmd2.g }
def HSt.lift (h : HSt) (f : St → St) : HSt := h.withSt (f h.toSt)
def HSt.liftO (h : HSt) (f : St → Option St) : Option HSt := (f h.toSt).map h.withSt

/-- the rule of the target printed with the current names (and the index `seq`) -/
def HSt.printRule (h : HSt) (r : Rule) (seq : String) : Rule :=
  { cm := r.cm.map fun n => h.cur (Kind.certmap, n), seq := seq, tg := h.cur (Kind.tg, r.tg) }

/-- `follow(c)` of `addCmds`: an object with a fixed name that exists on the device is compared, everything else transferred -/
def followRef (st : St) (x : Ref) : Option St :=
  match st.bObj x with
  | some o =>
    if (o.kind.fixed || o.anchor) && (st.aObj x).isSome && x.1 != .aaa then (diffAny fuel st x x).map (·.1)
    else addAny fuel st x
  | none => addAny fuel st x

def followRule (h : HSt) (r : Rule) : Option HSt :=
  r.refs.foldl (fun (acc : Option HSt) x => acc.bind fun h => h.liftO fun st => followRef st x) (some h)

/-- `markDeleted` for rules at the given positions of `ta` -/
def markRules (h : HSt) (web : Bool) (l : List (Nat × Rule)) : HSt :=
  l.foldl (fun h p =>
    if !web && h.tDel.contains p.1 then h else
    let h := if web then h else { h with tDel := p.1 :: h.tDel }
    p.2.refs.foldl (fun h x => h.lift fun st => markDel fuel st x) h) h

/-- `setCmdConfMode("webvpn")` -/
def HSt.setWeb (h : HSt) : HSt :=
  if h.mode == some webMode then h else
  let h := if h.mode.isSome then h.lift (·.emit .exit) else h
  { (h.emitH .webvpn) with mode := some webMode }

/-- `delCmds` for rules -/
def delRules (h : HSt) (web : Bool) (l : List (Nat × Rule)) : HSt :=
  let h := l.foldl (fun h p =>
    if web then (h.setWeb).emitH (.cgm true p.2)
    else { ({ h with mode := none } : HSt).emitH (.tgmap true p.2) with tNeeded := p.1 :: h.tNeeded }) h
  markRules h web l

/-- `addCmds` for a run of rules of the target -/
def addRules (h : HSt) (web : Bool) (l : List Rule) : Option HSt :=
  l.foldl (fun (acc : Option HSt) r =>
    acc.bind fun h => (followRule h r).map fun h =>
      if web then
        let h := h.setWeb
        h.emitH (.cgm false (h.printRule r r.seq))
      else ({ h with mode := none } : HSt).emitH (.tgmap false (h.printRule r r.seq))) (some h)

/-- the certificate map the target's rule is printed with is not the one of the device's rule -/
def cmChanged (h : HSt) (ra rb : Rule) : Bool :=
  match ra.cm, rb.cm with
  | some na, some nb => h.cur (Kind.certmap, nb) != na
  | _, _ => false

/-- the index the re-sent rule is printed with: the device's rule index; after a change of the certificate map the index of the
target's map (`b.seq` of its first entry) -/
def ruleSeq (h : HSt) (cmCh : Bool) (ra rb : Rule) : String :=
  if cmCh then
    match rb.cm.bind fun nb => h.bObj (Kind.certmap, nb) with
    | some o => (o.secs.headD { head := ra.seq }).head
    | none => ra.seq
  else ra.seq

/-- `makeEqual` for two rules with the same key -/
def equalRule (h : HSt) (web : Bool) (ia : Nat) (ra rb : Rule) : Option HSt :=
  let h := if web then h else { h with tNeeded := ia :: h.tNeeded }
  let r? := (ra.refs.zip rb.refs).foldl (fun (acc : Option (HSt × Bool)) p =>
    acc.bind fun q => (diffAny fuel q.1.toSt p.1 p.2).map fun d => (q.1.withSt d.1, q.2 || d.2 != p.1.2)) (some (h, false))
  r?.map fun q =>
    if q.2 then
      -- a rule is identified by certificate map and index: with another map the old rule would stay, so it is removed first
      let cmCh : Bool := cmChanged q.1 ra rb
      if web then
        let h := q.1.setWeb
        let h := if cmCh then h.emitH (.cgm true ra) else h
        h.emitH (.cgm false (h.printRule rb (ruleSeq h cmCh ra rb)))
      else
        let h : HSt := { q.1 with mode := none }
        let h := if cmCh then h.emitH (.tgmap true ra) else h
        h.emitH (.tgmap false (h.printRule rb (ruleSeq h cmCh ra rb)))
    else q.1

def withIdx {α : Type} (l : List α) : List (Nat × α) := (List.range l.length).zip l

/-- `diffCmds(al, bl, byCertMapKey)` -/
def diffRules (h : HSt) (web : Bool) (al bl : List Rule) : Option HSt :=
  if al.isEmpty && bl.isEmpty then some h else
  let aK := al.map (ruleKey h.a)
  let bK := bl.map (ruleKey h.b)
  let v := NA.Vpn.unorderedA bK aK 0 []
  if v.1.isEmpty then
    let h := if al.isEmpty then h else if web then delRules h true (withIdx al) else markRules h false (withIdx al)
    if bl.isEmpty then some h else addRules h web bl
  else
    let h := delRules h web (v.2.1.filterMap fun i => al[i]?.map fun r => (i, r))
    let h? := v.1.foldl (fun (acc : Option HSt) p =>
      acc.bind fun h => match al[p.1]?, bl[p.2]? with
        | some ra, some rb => equalRule h web p.1 ra rb
        | _, _ => some h) (some h)
    (NA.Vpn.insertRuns v.2.2 bK 0 []).foldl (fun (acc : Option HSt) run =>
      acc.bind fun h => addRules h web (run.filterMap fun j => bl[j]?)) h?

/-- the open mode is a group-policy's or a username's (both have a sub-mode `webvpn` of their own) -/
def inGpUser : Option (Kind × String × String) → Bool
  | some (k, _, _) => k == .gp || k == .user
  | none => false

def St.appendOut (st : St) (l : List Chg) : St := { st with out := st.out ++ l, mode := none }

/-- `diffWebVPN` -/
def diffWeb (h : HSt) (wa wb : Option (List Rule)) : Option HSt :=
  match wa, wb with
  | none, none => some h
  | none, some bl =>
    -- addCmds([webvpn]): follow the references of all sub-commands, then the command with all its sub-commands
    (bl.foldl (fun (acc : Option HSt) r => acc.bind fun h => followRule h r) (some h)).map fun h =>
      let h := if inGpUser h.mode then h.lift (·.emit .exit) else h
      let h := { (h.emitH .webvpn) with mode := some webMode }
      bl.foldl (fun h r => h.emitH (.cgm false (h.printRule r r.seq))) h
  | some al, some bl => diffRules h true al bl
  | some al, none => some (if al.isEmpty then h else delRules h true (withIdx al))

/-- `deleteUnused` with the marked toplevel rules: they go in the first round, after the tunnel-groups -/
def deleteUnusedH (ta : List Rule) (h : HSt) : HSt :=
  let rules := (withIdx ta).filter fun p => h.tDel.contains p.1 && !h.tNeeded.contains p.1
  if rules.isEmpty then h.lift deleteUnused else
  let objs := pendingDel h.toSt
  let h := if h.mode.isSome then h.lift (·.emit .exit) else h
  let isRef (o : DelObj) : Bool := (objs.any fun x => x.refs.contains o.id) || rules.any fun p => p.2.refs.contains o.id
  let now := objs.filter fun o => !isRef o
  let early (o : DelObj) : Bool := decide (o.id.1.ord ≤ Kind.tg.ord)
  let h := h.lift fun st => st.appendOut ((now.filter early).flatMap (·.lines))
  let h := rules.foldl (fun h p => h.emitH (.tgmap true p.2)) h
  h.lift fun st => st.appendOut ((now.filter fun o => !early o).flatMap (·.lines) ++ delRounds (objs.length + 1) (objs.filter isRef))

structure Cfg where
  objs : List Obj := []
  tgmap : List Rule := []
  web : Option (List Rule) := none
  deriving Repr, Inhabited

def initH (a b : Cfg) : HSt := { toSt := initSt a.objs b.objs }

/-- the part before `deleteUnused` -/
def bodyH (a b : Cfg) : Option HSt :=
  (((initH a b).liftO fun st => diffAnchors st .tg).bind fun h => diffRules h false a.tgmap b.tgmap).bind fun h =>
    (h.liftO fun st => diffAnchors st .user).bind fun h => diffWeb h a.web b.web

/-- `diffConfig` for the prefixes of the fragment in sorted order: tunnel-group, tunnel-group-map, username, webvpn; `deleteUnused` -/
def runH (a b : Cfg) : Option HSt := (bodyH a b).map (deleteUnusedH a.tgmap)

def engineH (a b : Cfg) : Option (List Cmd2) := (runH a b).map (·.all)

def scriptH (a b : Cfg) : Option (List String) := (engineH a b).map (·.map Cmd2.render)

end NA.Vpn.G
