import NA.Model.ApplyConsole
/-!
# Session programs of the HTTP backends (C09): `pkg/panos/device.go`, `pkg/nsx/device.go`.

One HTTP round trip is `send` + `recv .http`.  A transport failure (connection closed, client
timeout, body cut short) is `arr ≠ full`; the HTTP status and the well-formedness of the body
are the fields `status200` and `parses` of the reply.
-/
namespace NA.Apply
open NA.Sess

/-! ## pkg/panos -/

def panosHttpGetBody (ρ : Role) (t : Txt) : Sess :=
  .roundTrip ρ t true ;;
  .ite .err "err != nil" (.ret .keep ["nil", "err"]) .skip ;;
  op "ReadAll" ["_"] ;; op "Close" ;;
  .ite .not200 "resp.StatusCode != http.StatusOK" (.ret .err ["_", "_"]) .skip ;;
  .ret .keep ["_", "err"]
def panosHttpGet (ρ : Role) (t : Txt) : Sess := .call "httpGet" ["_"] (panosHttpGetBody ρ t)

def panosHttpPrefixGetLogBody (ρ : Role) (t : Txt) : Sess := panosHttpGet ρ t ;; .ret .keep ["_", "err"]
def panosHttpPrefixGetLog (ρ : Role) (t : Txt) : Sess :=
  .call "httpPrefixGetLog" ["_", "_"] (panosHttpPrefixGetLogBody ρ t)

/-- `parseResponse`: error iff the body is not well-formed XML saying `status="success"`. -/
def panosParseResponse : Sess :=
  .call "parseResponse" ["_"] (.ite .parseFails "" (.ret .err []) (.ret .nil []))

def panosDoCmdBody (ρ : Role) (t : Txt) : Sess :=
  panosHttpPrefixGetLog ρ t ;;
  .ite .err "err != nil" (.ret .keep ["", "nil", "err"]) .skip ;;
  panosParseResponse ;;
  .ret .keep ["_"]
def panosDoCmd (ρ : Role) (t : Txt) : Sess := .call "doCmd" ["_"] (panosDoCmdBody ρ t)

/-- `xml.Unmarshal(data, v)` of the result element: fails iff there is no well-formed result. -/
def xmlUnmarshal : Sess :=
  .call "Unmarshal" ["_", "_"] (.ite (.not (.flag .wellFormed)) "" (.ret .err []) (.ret .nil []))

def panosCommitBody : Sess :=
  (panosDoCmd .save (.lit "commit") ;;
   .ite .err "err != nil" (.ret .keep ["err"]) .skip ;;
   .ite (.flag .noChanges)
     "strings.Contains(msg, \"There are no changes to commit\") || strings.Contains(msg, \"The result of this commit would be the same\")"
     (.ret .nil ["nil"]) .skip ;;
   .ite (.not (.flag .msgEmpty)) "msg != \"\"" (.ret .err ["_"]) .skip) ;;
  xmlUnmarshal ;;
  .ite .err "err != nil" (.ret .keep ["err"]) .skip ;;
  .loopFuel (
    panosDoCmd .save (.lit "show jobs") ;;
    .ite .err "err != nil" (.ret .keep ["err"]) .skip ;;
    xmlUnmarshal ;;
    .ite .err "err != nil" (.ret .keep ["err"]) .skip ;;
    .ite (.flag .pend) "s.Result == \"PEND\"" .cont
      (.ite (.flag .jobOk) "s.Result == \"OK\"" (.ret .nil ["nil"]) (.ret .err ["_"])))
def panosCommit : Sess := .call "commit" [] panosCommitBody

def panosApplyBody : Sess :=
  .scope "loop" (.forEach (
    panosDoCmd .change .cur ;;
    .ite .err "err != nil" (.ret .err ["_"]) .skip)) ;;
  panosCommit ;;
  .ite .err "err != nil" (.ret .err ["_"]) .skip ;;
  .ret .nil ["nil"]

/-- LoadDevice with a single entry in `name_list` (fail-over to a second device is outside the model). -/
def panosLoadDevice : Sess :=
  .call "TryReachableHTTPLogin" ["_", "_"] (
    .call "getAPIKey" ["_", "_", "_", "_"] (
      panosHttpGet .login (.lit "keygen") ;;
      .ite .err "err != nil" (.ret .err ["", "_"]) .skip ;;
      panosParseResponse ;;
      .ite .err "" (.ret .keep []) .skip ;;
      .ite (.not (.flag .keyOk)) "" (.ret .err []) (.ret .nil [])) ;;
    .ite .err "err != nil" (.mark .logWarn ;; .ret .err ["_"]) .skip ;;
    .call "checkHA" ["_"] (
      panosHttpPrefixGetLog .login (.lit "show ha") ;;
      .ite .err "err != nil" (.ret .err ["false"]) .skip ;;
      panosParseResponse ;;
      .ite .err "err != nil" (.ret .err ["false"]) .skip ;;
      .ite (.not (.flag .haActive)) "" (.ret .err ["false"]) (.ret .nil ["true"])) ;;
    .ite .err "!s.checkHA(logLogin)" (.mark .logWarn ;; .ret .err ["_"]) .skip ;;
    .ret .nil ["nil"]) ;;
  .ite .err "err != nil" (.ret .keep ["nil", "err"]) .skip ;;
  (panosHttpPrefixGetLog .read (.lit "get config") ;;
   .ite .err "err != nil" (.ret .keep ["nil", "err"]) .skip ;;
   .call "parseResponseConfig" ["_"] (
     panosParseResponse ;;
     .ite .err "err != nil" (.ret .keep ["nil", "err"]) .skip ;;
     .ite (.not (.flag .cfgParses)) "err != nil" (.ret .err ["nil", "err"]) (.ret .nil ["_", "nil"])) ;;
   .ite .err "err != nil" (.ret .err ["_", "_"]) .skip) ;;
  .call "checkDeviceName" ["_"] (.ite (.not (.flag .nameOk)) "" (.ret .err ["_"]) (.ret .nil ["nil"])) ;;
  .assumeBanner ;; .setPlan ;;
  .ret .keep ["_", "err"]

/-! ## pkg/nsx -/

def nsxSendRequestBody (ρ : Role) (t : Txt) : Sess :=
  op "NewRequest" ["_", "_", "_"] ;;
  .ite .never "err != nil" (.ret .keep ["nil", "err"]) .skip ;;
  .roundTrip ρ t (ρ != .change) ;;
  .ite .err "err != nil" (.ret .keep ["nil", "err"]) .skip ;;
  .defer (op "Close")
    (.ite .not200 "resp.StatusCode != http.StatusOK"
       (op "ReadAll" ["_"] ;; .ret .err ["nil", "_"]) .skip ;;
     op "ReadAll" ["_"] ;;
     .ret .keep ["_"])
def nsxSendRequest (ρ : Role) (t : Txt) : Sess :=
  .call "sendRequest" ["_", "_", "_"] (nsxSendRequestBody ρ t)

def nsxApplyBody : Sess :=
  .forEach (
    nsxSendRequest .change .cur ;;
    .ite .err "err != nil" (.ret .keep ["err"]) .skip) ;;
  .ret .nil ["nil"]

def jsonUnmarshal : Sess :=
  .call "Unmarshal" ["_", "_"] (.ite .parseFails "" (.ret .err []) (.ret .nil []))

/-- LoadDevice for a device without Netspoc gateway policies and with one page of services and
groups (what the scenarios use). -/
def nsxLoadDevice : Sess :=
  .call "TryReachableHTTPLogin" ["_", "_"] (
    (.roundTrip .login (.lit "session create") false ;;
     .ite .err "err != nil" (.mark .logWarn ;; .ret .err ["err"]) .skip ;;
     .ite .not200 "resp.StatusCode != http.StatusOK" (.mark .logWarn ;; .ret .err ["_"]) .skip) ;;
    .ret .nil ["nil"]) ;;
  .ite .err "err != nil" (.ret .keep ["nil", "err"]) .skip ;;
  (nsxSendRequest .read (.lit "gateway-policies") ;;
   .ite .err "err != nil" (.ret .keep ["nil", "err"]) .skip ;;
   jsonUnmarshal ;;
   .ite .err "err != nil" (.ret .err ["nil", "_"]) .skip) ;;
  .call "getRawJSON" ["_"] (
    nsxSendRequest .read (.lit "services") ;;
    .ite .err "err != nil" (.ret .keep ["nil", "err"]) .skip ;;
    jsonUnmarshal ;;
    .ite .err "err != nil" (.ret .err ["nil", "_"]) (.ret .nil ["_", "nil"])) ;;
  .ite .err "err != nil" (.ret .keep ["nil", "err"]) .skip ;;
  .call "getRawJSON" ["_"] (
    nsxSendRequest .read (.lit "groups") ;;
    .ite .err "err != nil" (.ret .keep ["nil", "err"]) .skip ;;
    jsonUnmarshal ;;
    .ite .err "err != nil" (.ret .err ["nil", "_"]) (.ret .nil ["_", "nil"])) ;;
  .ite .err "err != nil" (.ret .keep ["nil", "err"]) .skip ;;
  .assumeBanner ;; .setPlan ;;
  .ret .nil ["_", "nil"]

end NA.Apply
