import NA.Model.ApplyConsole
/-!
# Session programs of the HTTP backends (C09): `pkg/panos/device.go`, `pkg/nsx/device.go`.

One HTTP round trip is `send` + `recv .http`.  A transport failure (connection closed, client
timeout, body cut short) is `arr ≠ full`; the HTTP status and the well-formedness of the body
are the fields `status200` and `parses` of the reply.
-/
namespace NA.Apply
open NA.Sess

/-! ## pkg/panos -/

def panosHttpGetBody (ρ : Role) (t : Txt) : Sess :=
  .roundTrip ρ t true ;;
  .ite .err "err != nil" (.ret .keep ["nil", "err"]) .skip ;;
  op "ReadAll" ["_"] ;; op "Close" ;;
  .ite .not200 "$Get.1.StatusCode != http.StatusOK" (.ret .err ["_", "_"]) .skip ;;
  .ret .keep ["_", "err"]
def panosHttpGet (ρ : Role) (t : Txt) : Sess := .call "httpGet" ["_"] (panosHttpGetBody ρ t)

def panosHttpPrefixGetLogBody (ρ : Role) (t : Txt) : Sess := panosHttpGet ρ t ;; .ret .keep ["_", "err"]
def panosHttpPrefixGetLog (ρ : Role) (t : Txt) (lits : List String := ["_", "_"]) : Sess :=
  .call "httpPrefixGetLog" lits (panosHttpPrefixGetLogBody ρ t)
/-- the constant request texts of LoadDevice / checkHA as the source passes them -/
def panosHaLits : List String := ["type=op&cmd=<show><high-availability><state/></high-availability></show>", "_"]
def panosConfigLits : List String := ["type=config&action=get&xpath=/config/devices", "_"]

/-- `parseResponse`: error iff the body is not well-formed XML saying `status="success"`. -/
def panosParseResponse : Sess :=
  .call "parseResponse" ["_"] (.ite .parseFails "" (.ret .err []) (.ret .nil []))

def panosDoCmdBody (ρ : Role) (t : Txt) : Sess :=
  panosHttpPrefixGetLog ρ t ;;
  .ite .err "err != nil" (.ret .keep ["", "nil", "err"]) .skip ;;
  panosParseResponse ;;
  .ret .keep ["_"]
def panosDoCmd (ρ : Role) (t : Txt) : Sess := .call "doCmd" ["_"] (panosDoCmdBody ρ t)

/-- `xml.Unmarshal(data, v)` of the result element: fails iff there is no well-formed result. -/
def xmlUnmarshal : Sess :=
  .call "Unmarshal" ["_", "_"] (.ite (.not (.flag .wellFormed)) "" (.ret .err []) (.ret .nil []))

def panosCommitBody : Sess :=
  (panosDoCmd .save (.lit "commit") ;;
   .ite .err "err != nil" (.ret .keep ["err"]) .skip ;;
   .ite (.flag .noChanges)
     "strings.Contains($doCmd.1, \"There are no changes to commit\") || strings.Contains($doCmd.1, \"The result of this commit would be the same\")"
     (.ret .nil ["nil"]) .skip ;;
   .ite (.not (.flag .msgEmpty)) "$doCmd.1 != \"\"" (.ret .err ["_"]) .skip) ;;
  xmlUnmarshal ;;
  .ite .err "err != nil" (.ret .keep ["err"]) .skip ;;
  .loopFuel (
    panosDoCmd .save (.lit "show jobs") ;;
    .ite .err "err != nil" (.ret .keep ["err"]) .skip ;;
    xmlUnmarshal ;;
    .ite .err "err != nil" (.ret .keep ["err"]) .skip ;;
    .ite (.flag .pend) "¬$v.Result != \"PEND\"" .cont
      (.ite (.flag .jobOk) "¬$v.Result != \"OK\"" (.ret .nil ["nil"]) (.ret .err ["_"])))
def panosCommit : Sess := .call "commit" [] panosCommitBody

def panosApplyBody : Sess :=
  .scope "loop" (.forEach (
    panosDoCmd .change .cur ;;
    .ite .err "err != nil" (.ret .err ["_"]) .skip)) ;;
  panosCommit ;;
  .ite .err "err != nil" (.ret .err ["_"]) .skip ;;
  .ret .nil ["nil"]

/-- `httpdevice.TryReachableHTTPLogin` with a single entry in `name_list` (fail-over to a second
device is outside the model): one round of the loop; a failed login is a warning and the loop is over. -/
def tryReachableBody (login : Sess) : Sess :=
  .ite .never "err != nil" (.ret .keep ["err"]) .skip ;;
  .scope "loop" (
    op "GetUserPass" ["_"] ;;
    .ite .never "err != nil" (.ret .keep ["err"]) .skip ;;
    .call "login" ["_", "_", "_", "_"] login ;;
    .ite .err "err != nil" (.warn ["%v", "err"] ;; .when .never .cont) .skip ;;
    .when (.not .err) (.ret .nil ["nil"])) ;;
  .ret .err ["_"]
def TryReachableHTTPLogin (login : Sess) : Sess := .call "TryReachableHTTPLogin" ["_", "_"] (tryReachableBody login)

def panosGetAPIKeyBody : Sess :=
  .ite .never "err != nil" (.ret .keep ["", "err"]) .skip ;;
  panosHttpGet .login (.lit "keygen") ;;
  .ite .err "err != nil" (.ret .err ["", "_"]) .skip ;;
  .call "parseAPIKey" ["_"] (
    panosParseResponse ;;
    .ite .err "" (.ret .keep []) .skip ;;
    .ite (.not (.flag .keyOk)) "" (.ret .err []) (.ret .nil [])) ;;
  .ret .keep ["_"]

/-- `checkHA`: true (no error value) iff HA is off or this device is the active one -/
def panosCheckHABody : Sess :=
  panosHttpPrefixGetLog .login (.lit "show ha") panosHaLits ;;
  .ite .err "err != nil" (.ret .err ["false"]) .skip ;;
  panosParseResponse ;;
  .ite .err "err != nil" (.ret .err ["false"]) .skip ;;
  op "Unmarshal" ["_", "_"] ;;
  .ite .never "err != nil" (.ret .err ["false"]) .skip ;;
  .ite (.flag .haActive) "$v.Enabled != \"yes\"" (.ret .nil ["true"]) .skip ;;
  .ite .never "¬$v.Mode != \"Active-Passive\"" (.ret .none ["_"])
    (.ite .never "¬$v.Mode != \"Active-Active\"" (.ret .none ["_"]) .skip) ;;
  .ret .err ["false"]

/-- the function literal handed to TryReachableHTTPLogin -/
def panosLoginFunc : Sess :=
  .call "getAPIKey" ["_", "_", "_", "_"] panosGetAPIKeyBody ;;
  .ite .err "err != nil" (.ret .keep ["err"]) .skip ;;
  .call "checkHA" ["_"] panosCheckHABody ;;
  .ite .err "¬$r.checkHA($p3)" (.ret .err ["_"]) .skip ;;
  .ret .nil ["nil"]

def panosLoadDevice : Sess :=
  TryReachableHTTPLogin panosLoginFunc ;;
  .when .never (.scope "func" panosLoginFunc) ;;   -- where the function literal stands in the source
  .ite .err "err != nil" (.ret .keep ["nil", "err"]) .skip ;;
  (panosHttpPrefixGetLog .read (.lit "get config") panosConfigLits ;;
   .ite .err "err != nil" (.ret .keep ["nil", "err"]) .skip ;;
   .call "parseResponseConfig" ["_"] (
     panosParseResponse ;;
     .ite .err "err != nil" (.ret .keep ["nil", "err"]) .skip ;;
     .ite (.not (.flag .cfgParses)) "err != nil" (.ret .err ["nil", "err"]) (.ret .nil ["_", "nil"])) ;;
   .ite .err "err != nil" (.ret .err ["_", "_"]) .skip) ;;
  .call "checkDeviceName" ["_"] (.ite (.not (.flag .nameOk)) "" (.ret .err ["_"]) (.ret .nil ["nil"])) ;;
  .assumeBanner ;; .setPlan ;;
  .ret .keep ["_", "err"]

/-! ## pkg/nsx -/

def nsxSendRequestBody (ρ : Role) (t : Txt) : Sess :=
  op "NewRequest" ["_", "_", "_"] ;;
  .ite .never "err != nil" (.ret .keep ["nil", "err"]) .skip ;;
  .roundTrip ρ t (ρ != .change) ;;
  .ite .err "err != nil" (.ret .keep ["nil", "err"]) .skip ;;
  .defer (op "Close")
    (.ite .not200 "$Do.1.StatusCode != http.StatusOK"
       (op "ReadAll" ["_"] ;; .ret .err ["nil", "_"]) .skip ;;
     op "ReadAll" ["_"] ;;
     .ret .keep ["_"])
def nsxSendRequest (ρ : Role) (t : Txt) (lits : List String := ["_", "_", "_"]) : Sess :=
  .call "sendRequest" lits (nsxSendRequestBody ρ t)

def nsxApplyBody : Sess :=
  .forEach (
    nsxSendRequest .change .cur ;;
    .ite .err "err != nil" (.ret .keep ["err"]) .skip) ;;
  .ret .nil ["nil"]

def jsonUnmarshal : Sess :=
  .call "Unmarshal" ["_", "_"] (.ite .parseFails "" (.ret .err []) (.ret .nil []))

/-- the function literal handed to TryReachableHTTPLogin: create a session -/
def nsxLoginFunc : Sess :=
  .ite .never "err != nil" (.ret .keep ["err"]) .skip ;;
  (.roundTrip .login (.lit "session create") false ;;
   .ite .err "err != nil" (.ret .keep ["err"]) .skip ;;
   .ite .not200 "$PostForm.1.StatusCode != http.StatusOK" (.ret .err ["_"]) .skip) ;;
  op "Get" ["x-xsrf-token"] ;;
  .ret .nil ["nil"]

/-- `getRawJSON` for one page (`cursor == ""` after the first request) -/
def nsxGetRawJSONBody (t : Txt) : Sess :=
  .scope "loop" (
    (nsxSendRequest .read t ["GET", "_", "nil"] ;;
     .ite .err "err != nil" (.ret .keep ["nil", "err"]) .skip ;;
     jsonUnmarshal ;;
     .ite .err "err != nil" (.ret .err ["nil", "_"]) .skip) ;;
    .scope "loop" (.when .never (op "Unmarshal" ["_", "_"] ;; .ite .never "err != nil" (.ret .keep ["nil", "err"]) .skip)) ;;
    .ite (.not .never) "¬$v != \"\"" (op "break") .skip) ;;
  .ret .nil ["_", "nil"]
def nsxGetRawJSON (t : Txt) : Sess := .call "getRawJSON" ["_"] (nsxGetRawJSONBody t)

/-- LoadDevice for a device without Netspoc gateway policies and with one page of services and
groups (what the scenarios use). -/
def nsxLoadDevice : Sess :=
  TryReachableHTTPLogin nsxLoginFunc ;;
  .when .never (.scope "func" nsxLoginFunc) ;;
  .ite .err "err != nil" (.ret .keep ["nil", "err"]) .skip ;;
  (nsxSendRequest .read (.lit "gateway-policies") ["GET", "_", "nil"] ;;
   .ite .err "err != nil" (.ret .keep ["nil", "err"]) .skip ;;
   jsonUnmarshal ;;
   .ite .err "err != nil" (.ret .err ["nil", "_"]) .skip) ;;
  .scope "loop" (.when .never (
    .ite .never "¬strings.HasPrefix($range.2.Id, \"Netspoc\")" .cont .skip ;;
    nsxSendRequest .read (.lit "policy") ["GET", "_", "nil"] ;;
    .ite .err "err != nil" (.ret .keep ["nil", "err"]) .skip)) ;;
  nsxGetRawJSON (.lit "services") ;;
  .ite .err "err != nil" (.ret .keep ["nil", "err"]) .skip ;;
  nsxGetRawJSON (.lit "groups") ;;
  .ite .err "err != nil" (.ret .keep ["nil", "err"]) .skip ;;
  .ite .never "err != nil" (.ret .keep ["nil", "err"]) .skip ;;
  op "ParseConfig" ["_", "<device>"] ;;
  .ite .never "err != nil" (.ret .err ["nil", "_"]) .skip ;;
  .assumeBanner ;; .setPlan ;;
  .ret .nil ["_", "nil"]

end NA.Apply
