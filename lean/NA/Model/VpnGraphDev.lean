import NA.Model.VpnGraph
/-!
# Strict device for fragment G (specification side)

Executes the structured change list of `NA.Vpn.G.engine` on a list of objects of the same shape as the
engine's input.  Refused (`none`): a sub-command outside a mode, `exit` outside a mode, a reference to
an object that does not exist, removing a line / section / object that is not there, deleting an object
that some sub-command still references, defining a group-policy or pool that exists, changing the type
of a tunnel-group, attributes for an object that was not defined, a duplicate access-list line.
A sub-command that carries a reference holds one value per key (the new one replaces the old one).
-/
namespace NA.Vpn.G

/-- the open sub-mode: kind, name, head of the section -/
abbrev Mode := Option (Kind × String × String)

structure Dev where
  objs : List Obj := []
  mode : Mode := none
  deriving Repr, Inhabited

def isPre : List Char → List Char → Bool
  | [], _ => true
  | _, [] => false
  | p :: ps, c :: cs => p == c && isPre ps cs

def defining (k : Kind) (head : String) : Bool :=
  match k with
  | .gp => head == "internal"
  | .user => head == "nopassword"
  | .tg => isPre "type ".toList head.toList
  | .certmap => true          -- every `crypto ca certificate map NAME SEQ` defines (an entry of) the map
  | _ => false

def Dev.obj (d : Dev) (r : Ref) : Option Obj := d.objs.find? fun o => o.id == r
def Dev.defined (d : Dev) (r : Ref) : Bool :=
  match d.obj r with
  | some o => match r.1 with
    | .gp | .user | .tg => o.secs.any fun s => defining r.1 s.head
    | _ => true
  | none => false
/-- the referenced object exists -/
def Dev.refOk (d : Dev) : Option Ref → Bool
  | some x => d.defined x
  | none => true
def Dev.referenced (d : Dev) (r : Ref) : Bool := d.objs.any fun o => o.refs.contains r
def Dev.modObj (d : Dev) (r : Ref) (f : Obj → Obj) : Dev :=
  { d with objs := d.objs.map fun o => if o.id == r then f o else o }
def hasInfix (p : List Char) : List Char → Bool
  | [] => p.isEmpty
  | c :: cs => isPre p (c :: cs) || hasInfix p cs
/-- the name carries the generated-name tag -/
def isDrc (n : String) : Bool := hasInfix "-DRC-".toList n.toList

/-- the name is an address (such tunnel-groups are anchors): IPv4 digits and dots, or IPv6 hex digits with a colon -/
def isAddr (n : String) : Bool :=
  let cs := n.toList
  !cs.isEmpty && (cs.all (fun c => c.isDigit || c == '.') ||
    (cs.contains ':' && cs.all fun c => c.isDigit || c == ':' || ('a' ≤ c && c ≤ 'f') || ('A' ≤ c && c ≤ 'F')))

def newSecObj (k : Kind) (n h : String) (m : Bool) : Obj :=
  { kind := k, name := n, drc := isDrc n, anchor := (k == .user || (k == .tg && isAddr n)), secs := [{ head := h, mode := m }] }
def newLeaf (k : Kind) (n t : String) : Obj := { kind := k, name := n, drc := isDrc n, lines := [t] }

/-- put a sub-command into section `h`: exact duplicate ⇒ nothing; same key and a reference ⇒ replace; else append -/
def setSubSec (s : Sec) (t : String) (ref : Option Ref) (key : String) (body : List String) : Sec :=
  let ns : Sub := { key := key, body := body, ref := ref, orig := t }
  if s.subs.any (fun x => x.orig == t) then s
  else if ref.isSome && s.subs.any (fun x => x.key == key) then
    { s with subs := s.subs.map fun x => if x.key == key then ns else x }
  else { s with subs := s.subs ++ [ns] }

def setSubIn (o : Obj) (h t : String) (ref : Option Ref) (key : String) (body : List String) : Obj :=
  { o with secs := o.secs.map fun s => if s.head == h then setSubSec s t ref key body else s }

def delSubIn (o : Obj) (h t : String) : Obj :=
  { o with secs := o.secs.map fun s => if s.head == h then { s with subs := s.subs.filter fun x => x.orig != t } else s }

def exec1 (d : Dev) : Chg → Option Dev
  | .exit => if d.mode.isSome then some { d with mode := none } else none
  | .sec false k n h m =>
    let r : Ref := (k, n)
    let md : Mode := if m then some (k, n, h) else none
    if defining k h then
      match d.obj r with
      | some o =>
        if k == .gp then none
        else if o.secs.any (fun s => s.head == h) then some { d with mode := md }
        else if k != .certmap && o.secs.any (fun s => defining k s.head) then none
        else some { (d.modObj r fun o => { o with secs := o.secs ++ [{ head := h, mode := m }] }) with mode := md }
      | none => some { objs := d.objs ++ [newSecObj k n h m], mode := md }
    else if !d.defined r then none
    else
      let d := if (d.obj r).any (fun o => o.secs.any fun s => s.head == h) then d
               else d.modObj r fun o => { o with secs := o.secs ++ [{ head := h, mode := m }] }
      some { d with mode := md }
  | .sec true k n h _ =>
    let r : Ref := (k, n)
    if defining k h then none
    else if (d.obj r).any (fun o => o.secs.any fun s => s.head == h) then
      some { (d.modObj r fun o => { o with secs := o.secs.filter fun s => s.head != h }) with mode := none }
    else none
  | .sub false t ref key body =>
    match d.mode with
    | none => none
    | some (k, n, h) =>
      if d.refOk ref then
        some (d.modObj (k, n) fun o => setSubIn o h t ref key body)
      else none
  | .sub true t _ _ _ =>
    match d.mode with
    | none => none
    | some (k, n, h) =>
      if (d.obj (k, n)).any (fun o => o.secs.any fun s => s.head == h && s.subs.any fun x => x.orig == t) then
        some (d.modObj (k, n) fun o => delSubIn o h t)
      else none
  | .line n t =>
    let r : Ref := (.acl, n)
    match d.obj r with
    | some o => if o.lines.contains t then none else some { (d.modObj r fun o => { o with lines := o.lines ++ [t] }) with mode := none }
    | none => some { objs := d.objs ++ [newLeaf .acl n t], mode := none }
  | .pool false n c =>
    if (d.obj (.pool, n)).isSome then none
    else some { objs := d.objs ++ [newLeaf .pool n c], mode := none }
  | .pool true n c =>
    if (d.obj (.pool, n)).any (fun o => o.lines == [c]) && !d.referenced (.pool, n) then
      some { objs := d.objs.filter fun o => o.id != (.pool, n), mode := none }
    else none
  | .clear k n =>
    if (d.obj (k, n)).isSome && !d.referenced (k, n) && k != .aaa then
      some { objs := d.objs.filter fun o => o.id != (k, n), mode := none }
    else none

def execAll : Dev → List Chg → Option Dev
  | d, [] => some d
  | d, c :: cs => (exec1 d c).bind fun d' => execAll d' cs

/-! ## views -/

/-- the object with every reference replaced by the content of the referenced object -/
def content : Nat → List Obj → Ref → String
  | 0, _, r => r.2
  | f + 1, objs, r =>
    match objs.find? (fun o => o.id == r) with
    | none => "<missing " ++ r.2 ++ ">"
    | some o =>
      match r.1 with
      | .aaa => "aaa " ++ r.2
      | .acl | .pool => "; ".intercalate o.lines
      | _ => " ".intercalate (sortS ((o.secs.filter fun s => !(s.mode && s.subs.isEmpty)).map fun s =>
          s.head ++ "(" ++ "; ".intercalate (sortS (s.subs.map fun x =>
            interleave x.body (match x.ref with | some y => ["{" ++ content f objs y ++ "}"] | none => []))) ++ ")"))

/-- what the target specifies: every anchor by content -/
def view (objs : List Obj) : List String :=
  sortS ((objs.filter (·.anchor)).map fun o => o.kind.word ++ " " ++ o.name ++ ": " ++ content fuel objs o.id)

/-- objects outside Netspoc's scope: not reachable from an anchor, name without the tag — and what they reference -/
def reach : Nat → List Obj → List Ref → Ref → List Ref
  | 0, _, acc, _ => acc
  | f + 1, objs, acc, r =>
    if acc.contains r then acc else
    match objs.find? (fun o => o.id == r) with
    | none => acc
    | some o => o.refs.foldl (reach f objs) (r :: acc)

def managedSet (objs : List Obj) : List Ref := (objs.filter (·.anchor)).foldl (fun acc o => reach fuel objs acc o.id) []
def unmanagedSet (objs : List Obj) : List Ref :=
  let m := managedSet objs
  ((objs.filter fun o => !m.contains o.id && !o.drc).foldl (fun acc o => reach fuel objs acc o.id) [])
def frame (objs0 objs : List Obj) : List (Option Obj) := (unmanagedSet objs0).map fun r => objs.find? fun o => o.id == r

end NA.Vpn.G
