import NA.Model.GateProgs
import NA.Model.GateConfig
import NA.Spec.Gate
/-
Driver logic shared by `nadrv-c06` and `nadrv-c11`: one scenario per line → the model's run.

Input (TAB separated):
  0 backend  asa|ios|linux|panos|nsx
  1 mode     approve|compare, or do:<word> = `do-approve <word> DEVICE` with an arbitrary action word
  2 name     expected device name
  3 names    name list, comma separated
  4 banner   "-" = checkbanner not configured, else the regexp source (Go syntax, parsed by `Rx.parse`)
  5 vsys     target vsys names, comma separated
  6 faultAt  "-" or n: the request that would be the n-th line/HTTP request the device receives
             (0-based) gets no answer; "n+": that request and every later one
  7 plan     change commands separated by U+001F ("\n" inside a command written as \n)
  8… replies  key U+001F occurrence ("*" or n) U+001F reply
      key:   W | C | P | L:<literal> | A:<literal prefix> | X
      reply: T:<text> | H:<enabled>,<mode>,<state> | F:<hostname>|<vsys>=<display>,… |
             G:<id>,<id>,…|<cursor> (one page of a listing) | !:<why>
A line `re` TAB <pattern> TAB <text> asks the regexp matcher: answer 1 | 0 | PARSE.
A line `cfg` TAB <configuration file text> asks the model of LoadConfig: ok:- | ok:<regexp source> | error:<kind>.
Field 4 may also be `cfg:<configuration file text>`: LoadConfig is run first (model `runWithConfig`).
Output:
  exit=<n> diag=<0|1> errU=<k> warn=<k> status=<…> trace=<items joined by U+001F> kinds=<one letter per item>
  item: C | W | P | L:<literal> | A:<prefix>|<arg> | X:<command>
-/
namespace NA.Gate.Drv
open NA.Gate NA.Gate.Spec

def us : String := "\x1f"

def unesc (s : String) : String :=
  ((s.replace "\\\\" "\x00").replace "\\n" "\n").replace "\x00" "\\" |>.replace "\\r" "\r" |>.replace "\\t" "\t"

def esc (s : String) : String :=
  (((s.replace "\\" "\\\\").replace "\n" "\\n").replace "\r" "\\r").replace "\t" "\\t"

def parseBackend : String → Option Backend
  | "asa" => some .asa | "ios" => some .ios | "linux" => some .linux
  | "panos" => some .panos | "nsx" => some .nsx | _ => none

structure Entry where
  key : String
  occ : Option Nat
  reply : Reply

def parseReply (s : String) : Reply :=
  if s.startsWith "T:" then .text (unesc (s.drop 2).toString)
  else if s.startsWith "H:" then
    match ((s.drop 2).toString).splitOn "," with
    | [e, m, st] => .ha e m st
    | _ => .fault "bad H"
  else if s.startsWith "F:" then
    match ((s.drop 2).toString).splitOn "|" with
    | [h, vs] =>
      let l := (if vs.isEmpty then [] else vs.splitOn ",").map fun kv =>
        match kv.splitOn "=" with
        | [k, v] => (k, v)
        | _ => (kv, "")
      .conf h l
    | _ => .fault "bad F"
  else if s.startsWith "G:" then
    match ((s.drop 2).toString).splitOn "|" with
    | [ids, cur] => .page (if ids.isEmpty then [] else ids.splitOn ",") cur
    | _ => .fault "bad G"
  else if s.startsWith "!:" then .fault (s.drop 2).toString
  else .fault ("bad reply " ++ s)

def parseEntry (s : String) : Option Entry :=
  match s.splitOn us with
  | [k, o, r] => some ⟨k, if o == "*" then none else o.toNat?, parseReply r⟩
  | _ => none

def keyOf : Out → String
  | .connect => "C" | .wait => "W" | .pass => "P"
  | .lit s => "L:" ++ s
  | .litArg p _ => "A:" ++ p
  | .plan _ => "X"

/-- requests that reach the device as a line / an HTTP request -/
def onWire : Out → Bool
  | .connect | .wait => false
  | _ => true

def wireCount (hist : List Out) : Nat :=
  hist.foldl (fun n o => match o with
    | .plan c => n + (c.splitOn "\n").length
    | o => if onWire o then n + 1 else n) 0

def mkDev (entries : List Entry) (faultAt : Option Nat) (persistent : Bool) : Dev := fun hist o =>
  if onWire o && (faultAt == some (wireCount hist) ||
      (persistent && (faultAt.map fun k => decide (k ≤ wireCount hist)) == some true)) then
    .fault "injected" else
  let k := keyOf o
  let n := (hist.filter fun h => keyOf h == k).length
  match entries.find? (fun e => e.key == k && e.occ == some n) with
  | some e => e.reply
  | none =>
    match entries.find? (fun e => e.key == k && e.occ == none) with
    | some e => e.reply
    | none => .text ""

def showOut : Out → String
  | .connect => "C" | .wait => "W" | .pass => "P"
  | .lit s => "L:" ++ esc s
  | .litArg p a => "A:" ++ esc p ++ "|" ++ esc a
  | .plan c => "X:" ++ esc c

def kindLetter : Kind → String
  | .login => "l" | .read => "r" | .session => "s" | .change => "c" | .save => "w"

def showStatus : Status → String
  | .running => "running"
  | .aborted m => "aborted(" ++ esc m ++ ")"
  | .failed m => "failed(" ++ esc m ++ ")"
  | .panicked m => "panicked(" ++ esc m ++ ")"
  | .unfinished => "unfinished"

def lower (s : String) : String := s.map Char.toLower

def answer (line : String) : String :=
  match line.splitOn "\t" with
  | ["cfg", txt] =>
    match Config.loadConfig (fun s => (Rx.parse s).isSome) (unesc txt) with
    | .error e => "error:" ++ e
    | .ok none => "ok:-"
    | .ok (some src) => "ok:" ++ esc src
  | ["re", pat, txt] =>
    match Rx.parse (unesc pat) with
    | none => "PARSE"
    | some r => if r.search (unesc txt).toList then "1" else "0"
  | bs :: mode :: name :: names :: banner0 :: vsys :: fault :: plan :: rest =>
    -- the configuration file first, if it is given
    let loaded : Except String String :=
      if banner0.startsWith "cfg:" then
        match Config.loadConfig (fun s => (Rx.parse s).isSome) (unesc (banner0.drop 4).toString) with
        | .error e => .error e
        | .ok none => .ok "-"
        | .ok (some src) => .ok src
      else .ok banner0
    match loaded with
    | .error e =>
      let f := Config.configErrorSt e
      s!"exit={f.exit} diag=1 errU=0 warn=0 status={showStatus f.status} trace= kinds="
    | .ok banner =>
    match parseBackend bs, (if banner == "-" then some none else (Rx.parse banner).map some) with
    | none, _ => "bad-backend"
    | _, none => "bad-regexp"
    | some b, some rx =>
      let entries := rest.filterMap parseEntry
      let split (s : String) := if s.isEmpty then [] else s.splitOn ","
      let cfg : Cfg := {
        name := name
        names := split names
        banner := rx
        bannerSrc := if banner == "-" then "" else banner
        targetVsys := split vsys
        isCompare := mode == "compare"
        fuel := 40
        parses := fun s => !contains s "%%BAD%%" }
      let env : Env := {
        cfg := cfg
        dev := mkDev entries (if fault == "-" then none else (fault.replace "+" "").toNat?) (fault.endsWith "+")
        plan := (if plan.isEmpty then [] else plan.splitOn us).map unesc }
      let f := if mode.startsWith "do:" then
          runDoApprove b { cfg with isCompare := false } env.dev env.plan (mode.drop 3).toString
        else runMain b env
      let kinds := String.join (f.trace.map fun o => kindLetter (kind b o))
      s!"exit={f.exit} diag={if f.diagnostic.isSome then 1 else 0} errU={f.errU.length} warn={f.warnings.length} status={showStatus f.status} trace={us.intercalate (f.trace.map showOut)} kinds={kinds}"
  | _ => "bad-input"

end NA.Gate.Drv
