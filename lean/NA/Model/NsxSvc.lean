import NA.Spec.NsxStore
/-!
Service entries as a structure and the model of `nsxServiceEntry.MarshalJSON` (nsx/parse.go).

`addNewServices` compares the marshalled forms of two services with `bytes.Equal` and sends the
marshalled form of the target service; the planner model treats a definition as an opaque text
(`Service.defn`).  That is sound only if marshalling loses nothing: two entries that are different
BY DEFINITION must have different marshalled forms.  This file states what an entry is (the fields the
NSX-T policy API defines for its resource type; an optional field is absent or present), models the
marshalling, and proves it injective on well-formed entries (`marshal_injective`,
`marshalAll_injective`); `render` is the byte form, compared by the harness with the body the real code sends.
-/
namespace NA.Nsx

inductive JVal where
  | str (s : String)
  | num (n : Int)
  | strs (l : List String)
  | null
  deriving DecidableEq, Repr

inductive SvcKind where
  | l4 | icmp | ipproto
  deriving DecidableEq, Repr

/-- One service entry.  Fields that the kind does not have are ignored by `marshal` and required to
carry their default by `WF` (so that equality of structures is equality by definition). -/
structure SvcEntry where
  id : String
  kind : SvcKind
  l4Proto : String := ""
  src : Option (List String) := none   -- `none`: field absent (Go: nil slice)
  dst : Option (List String) := none
  icmpProto : String := ""
  icmpType : Option Int := none
  icmpCode : Option Int := none
  protoNum : Int := 0
  deriving DecidableEq, Repr

def SvcKind.resourceType : SvcKind → String
  | .l4 => "L4PortSetServiceEntry"
  | .icmp => "ICMPTypeServiceEntry"
  | .ipproto => "IPProtocolServiceEntry"

def SvcEntry.WF (e : SvcEntry) : Prop :=
  match e.kind with
  | .l4 => e.icmpProto = "" ∧ e.icmpType = none ∧ e.icmpCode = none ∧ e.protoNum = 0
  | .icmp => e.l4Proto = "" ∧ e.src = none ∧ e.dst = none ∧ e.protoNum = 0
  | .ipproto => e.l4Proto = "" ∧ e.src = none ∧ e.dst = none ∧ e.icmpProto = "" ∧ e.icmpType = none ∧ e.icmpCode = none

instance (e : SvcEntry) : Decidable e.WF := by
  unfold SvcEntry.WF; cases e.kind <;> exact inferInstance

def optStrs : Option (List String) → JVal
  | none => .null
  | some l => .strs l

/-- `MarshalJSON`: the map it builds, as an association list with the keys in the order
`json.Marshal` writes them (sorted).  A nil slice is written as `null`; `icmp_type` / `icmp_code`
are written only when present. -/
def SvcEntry.marshal (e : SvcEntry) : List (String × JVal) :=
  match e.kind with
  | .ipproto => [("id", .str e.id), ("protocol_number", .num e.protoNum), ("resource_type", .str e.kind.resourceType)]
  | .l4 => [("destination_ports", optStrs e.dst), ("id", .str e.id), ("l4_protocol", .str e.l4Proto),
            ("resource_type", .str e.kind.resourceType), ("source_ports", optStrs e.src)]
  | .icmp =>
    (match e.icmpCode with | some c => [("icmp_code", JVal.num c)] | none => []) ++
    (match e.icmpType with | some t => [("icmp_type", JVal.num t)] | none => []) ++
    [("id", .str e.id), ("protocol", .str e.icmpProto), ("resource_type", .str e.kind.resourceType)]

theorem optStrs_inj {a b : Option (List String)} (h : optStrs a = optStrs b) : a = b := by
  cases a <;> cases b <;> simp_all [optStrs]

/-- Marshalling loses nothing: entries that differ by definition have different marshalled forms.
(The byte comparison of `addNewServices` is therefore a comparison by definition.) -/
theorem marshal_injective (e1 e2 : SvcEntry) (h1 : e1.WF) (h2 : e2.WF)
    (h : e1.marshal = e2.marshal) : e1 = e2 := by
  obtain ⟨i1, k1, l1, s1, d1, p1, t1, c1, n1⟩ := e1
  obtain ⟨i2, k2, l2, s2, d2, p2, t2, c2, n2⟩ := e2
  cases k1 <;> cases k2 <;> simp only [SvcEntry.WF] at h1 h2 <;>
    simp only [SvcEntry.marshal, SvcKind.resourceType] at h
  case l4.l4 =>
    obtain ⟨rfl, rfl, rfl, rfl⟩ := h1
    obtain ⟨rfl, rfl, rfl, rfl⟩ := h2
    simp at h
    obtain ⟨hd, hi, hl, hs⟩ := h
    simp [hi, hl, optStrs_inj hd, optStrs_inj hs]
  case icmp.icmp =>
    obtain ⟨rfl, rfl, rfl, rfl⟩ := h1
    obtain ⟨rfl, rfl, rfl, rfl⟩ := h2
    cases c1 <;> cases c2 <;> cases t1 <;> cases t2 <;> simp at h <;> simp_all
  case ipproto.ipproto =>
    obtain ⟨rfl, rfl, rfl, rfl, rfl, rfl⟩ := h1
    obtain ⟨rfl, rfl, rfl, rfl, rfl, rfl⟩ := h2
    simp at h
    simp [h.1, h.2]
  all_goals
    first
    | (simp at h; done)
    | (cases c1 <;> cases t1 <;> simp at h; done)
    | (cases c2 <;> cases t2 <;> simp at h; done)

def marshalAll (l : List SvcEntry) : List (List (String × JVal)) := l.map (·.marshal)

theorem marshalAll_injective : ∀ (l1 l2 : List SvcEntry), (∀ e ∈ l1, e.WF) → (∀ e ∈ l2, e.WF) →
    marshalAll l1 = marshalAll l2 → l1 = l2
  | [], [], _, _, _ => rfl
  | [], _ :: _, _, _, h => by simp [marshalAll] at h
  | _ :: _, [], _, _, h => by simp [marshalAll] at h
  | a :: l1, b :: l2, h1, h2, h => by
    simp only [marshalAll, List.map_cons, List.cons.injEq] at h
    have hab := marshal_injective a b (h1 a (by simp)) (h2 b (by simp)) h.1
    have := marshalAll_injective l1 l2 (fun e he => h1 e (by simp [he])) (fun e he => h2 e (by simp [he])) h.2
    simp [hab, this]

/-- The variant "the code is a refinement of the type" (`icmp_code` written only inside the test for
`icmp_type`) is NOT injective: an entry with a code and no type marshals like the entry without a code. -/
def marshalCodeInsideType (e : SvcEntry) : List (String × JVal) :=
  match e.kind with
  | .icmp =>
    (match e.icmpType with
     | some t => (match e.icmpCode with | some c => [("icmp_code", JVal.num c)] | none => []) ++ [("icmp_type", JVal.num t)]
     | none => []) ++
    [("id", .str e.id), ("protocol", .str e.icmpProto), ("resource_type", .str e.kind.resourceType)]
  | _ => e.marshal

theorem marshalCodeInsideType_not_injective :
    ∃ e1 e2 : SvcEntry, e1.WF ∧ e2.WF ∧ e1 ≠ e2 ∧ marshalCodeInsideType e1 = marshalCodeInsideType e2 :=
  ⟨{ id := "id", kind := .icmp, icmpProto := "ICMPv4", icmpCode := some 3 },
   { id := "id", kind := .icmp, icmpProto := "ICMPv4" }, by decide, by decide, by decide, by decide⟩

/-! ### byte form -/

def jstr (s : String) : String :=
  "\"" ++ String.join (s.toList.map fun c =>
    if c == '"' then "\\\"" else if c == '\\' then "\\\\" else c.toString) ++ "\""

def JVal.render : JVal → String
  | .str s => jstr s
  | .num n => toString n
  | .strs l => "[" ++ ",".intercalate (l.map jstr) ++ "]"
  | .null => "null"

def renderObj (kv : List (String × JVal)) : String :=
  "{" ++ ",".intercalate (kv.map fun (k, v) => jstr k ++ ":" ++ v.render) ++ "}"

/-- What `json.Marshal` writes for a list of entries. -/
def render (l : List SvcEntry) : String := "[" ++ ",".intercalate (l.map fun e => renderObj e.marshal) ++ "]"

example : render [{ id := "id", kind := .icmp, icmpProto := "ICMPv4", icmpCode := some 3 }] =
    "[{\"icmp_code\":3,\"id\":\"id\",\"protocol\":\"ICMPv4\",\"resource_type\":\"ICMPTypeServiceEntry\"}]" := by decide
example : render [{ id := "a", kind := .l4, l4Proto := "TCP", dst := some ["80"] }] =
    "[{\"destination_ports\":[\"80\"],\"id\":\"a\",\"l4_protocol\":\"TCP\",\"resource_type\":\"L4PortSetServiceEntry\",\"source_ports\":null}]" := by decide

end NA.Nsx
