import NA.Model.MaskSinks
/-!
# Step model of the SSH sessions (property C17, round 3)

The login dialogue and the reading of the configuration (`LoadDevice`) of the three SSH back ends
as programs of a small step language: every `Conn.Send`, every `expectLog`, every `SetLogFH`, every
`errlog.Abort` in the order of the code (`cisco.LoginEnable`, `asa/ios/linux.LoadDevice`,
`console.GetCmdOutput / SendCmd / IssueCmd / StripStdPrompt / StripEcho`).  The password is a symbolic
command (`Cmd.pass`), so a program cannot look at it.

The device is adversarial: it supplies one *segment* per expect — what it writes before it waits for
input again (`Seg.full`), or what had arrived when goexpect gave up (`Seg.part`: timeout, process gone).
Assumption of the step model: a segment is exactly one expect chunk (the awaited prompt does not
occur earlier in the output, and only blanks follow it); decisions that the code takes on the chunk
(`HasSuffix`) are taken on the segment with trailing blanks removed.

What follows `LoadDevice` (commands of the change script, `exit`) depends on the diff and is taken
as given (`tailOps`): every command sent and the segment that followed it.
-/
namespace NA.Mask

inductive Cmd where
  | pass
  | lit (s : Str)
  deriving Repr, DecidableEq

def Cmd.text (pass : Str) : Cmd → Str
  | .pass => pass
  | .lit s => s

inductive Seg where
  | full (s : Str)
  | part (s : Str)
  deriving Repr, DecidableEq

/-- Programs: the continuation of an expect gets the output (`\r\n` → `\n`). -/
inductive Prog where
  | tail
  | send (c : Cmd) (k : Prog)
  | expect (waitMsg re : Str) (pw : Bool) (ok : Str → Bool) (k : Str → Prog)
  | setLog (l : Option Log) (k : Prog)
  | abort (msg : Str)

structure RunOut where
  ops : List Op
  rest : List Seg
  finished : Bool
  deriving Repr, DecidableEq

def RunOut.cons (o : Op) (r : RunOut) : RunOut := { r with ops := o :: r.ops }

def waitAbort (waitMsg re errText : Str) : Op := .abort (waitMsg ++ re ++ "': ".toList ++ errText)

def lowerEq (a b : Char) : Bool := a.toLower == b.toLower

def prefixCI : Str → Str → Bool
  | [], _ => true
  | _ :: _, [] => false
  | p :: ps, c :: cs => lowerEq p c && prefixCI ps cs

/-- An expect whose expression has the alternative `(?i)password:` returns as soon as that text has
arrived: the chunk ends behind its first occurrence, the rest stays in goexpect's buffer. -/
def cutPassword : Str → Str × Str
  | [] => ([], [])
  | c :: r =>
    if prefixCI "password:".toList (c :: r) then ((c :: r).take 9, (c :: r).drop 9)
    else ((cutPassword r).1.cons c, (cutPassword r).2)

/-- The chunk ends with `password:` (any case): the alternative `(?i)password:` of the awaited
expression has matched. -/
def isPwPrompt (out : Str) : Bool := prefixCI "password:".toList.reverse out.reverse

/-- Execute a program against the segments the device supplies; `left` is what an earlier expect
left in the buffer. -/
def run (pass errText : Str) : Prog → Str → List Seg → RunOut
  | .tail, _, segs => ⟨[], segs, true⟩
  | .send c k, left, segs => (run pass errText k left segs).cons (.send (c.text pass))
  | .expect w re pw ok k, left, segs =>
    match segs with
    | .full s :: r =>
      let cut := if pw then cutPassword (left ++ s) else (left ++ s, [])
      if ok (crlf2lf cut.1) then (run pass errText (k (crlf2lf cut.1)) cut.2 r).cons (.expect cut.1)
      else ⟨[.expect cut.1, waitAbort w re errText], r, false⟩
    | .part s :: r => ⟨[.expect (left ++ s), waitAbort w re errText], r, false⟩
    | [] => ⟨[.expect left, waitAbort w re errText], [], false⟩
  | .setLog l k, left, segs => (run pass errText k left segs).cons (.setLog l)
  | .abort m, _, segs => ⟨[.abort m], segs, false⟩

/-! ## string helpers of the dialogue code -/

def dropTrailingSp (s : Str) : Str := (s.reverse.dropWhile (· == ' ')).reverse

/-- `strings.HasSuffix` on the segment without its trailing blanks. -/
def endsT (out suf : Str) : Bool := suf.reverse.isPrefixOf (dropTrailingSp out).reverse

def containsStr (sub s : Str) : Bool :=
  match s with
  | [] => sub.isEmpty
  | _ :: r => sub.isPrefixOf s || containsStr sub r

/-- `StripStdPrompt`: up to and including the newline in front of the prompt. -/
def stripPrompt (s : Str) : Str := (s.reverse.dropWhile (· != '\n')).reverse

/-- `StripEcho`. -/
def stripEcho (cmd s : Str) : Option Str := stripPrefix? (cmd ++ ['\n']) s

def isMeta (c : Char) : Bool := "\\.+*?()|[]{}^$".toList.contains c

/-- `regexp.QuoteMeta`. -/
def quoteMeta : Str → Str
  | [] => []
  | c :: r => if isMeta c then '\\' :: c :: quoteMeta r else c :: quoteMeta r

def lastLine (s : Str) : Str := '\n' :: (s.reverse.takeWhile (· != '\n')).reverse

/-- `LoginEnable`: the prompt expression built from the answer to the empty command
(`QuoteMeta(p[:i]) + \S* + QuoteMeta(p[i:])`, `p` from the last newline, `i` the last `#`). -/
def promptRE (out : Str) : Str :=
  let p := lastLine out
  let after := (p.reverse.takeWhile (· != '#')).reverse       -- behind the last '#'
  let before := (p.reverse.dropWhile (· != '#')).reverse.dropLast
  quoteMeta before ++ "\\S*".toList ++ quoteMeta ('#' :: after)

def trimSpace (s : Str) : Str :=
  let ws (c : Char) : Bool := c == ' ' || c == '\t' || c == '\n' || c == '\r'
  ((s.dropWhile ws).reverse.dropWhile ws).reverse

def trimSuffixNl (s : Str) : Str := if endsNl s then s.dropLast else s
where endsNl (s : Str) : Bool := s.getLast? == some '\n'

def trimSuffixHash (s : Str) : Str := if s.getLast? == some '#' then s.dropLast else s

def waitLoginMsg : Str := "while waiting for login prompt '".toList
def waitMsg : Str := "while waiting for prompt '".toList

/-- `%q` of a piece of device output: besides `"` and `\` the control characters a garbled echo or a
banner can bring (`\n`, `\r`, `\t`, BEL). -/
def goQuoteCtl : Str → Str
  | [] => []
  | c :: cs =>
    if c = '"' then '\\' :: '"' :: goQuoteCtl cs
    else if c = '\\' then '\\' :: '\\' :: goQuoteCtl cs
    else if c = '\n' then '\\' :: 'n' :: goQuoteCtl cs
    else if c = '\r' then '\\' :: 'r' :: goQuoteCtl cs
    else if c = '\t' then '\\' :: 't' :: goQuoteCtl cs
    else if c = '\x07' then '\\' :: 'a' :: goQuoteCtl cs
    else c :: goQuoteCtl cs

def wrongName (got want : Str) : Str :=
  "Wrong device name: \"".toList ++ goQuoteCtl got ++ "\", expected: \"".toList ++ goQuoteCtl want ++ ['"']

/-! ## `console.Conn` -/

/-- `IssueCmd`. -/
def anyOut (_ : Str) : Bool := true

def issue (c : Cmd) (re : Str) (k : Str → Prog) (pw : Bool := false) (ok : Str → Bool := anyOut) : Prog :=
  .send c (.expect waitMsg re pw ok k)

/-- `SendCmd`. -/
def sendCmd (re cmd : Str) (k : Prog) : Prog := issue (.lit cmd) re fun _ => k

/-- `GetCmdOutput`: send, wait for the prompt, strip prompt and echo. -/
def getCmd (re cmd : Str) (k : Str → Prog) : Prog :=
  issue (.lit cmd) re fun seg =>
    let body := stripPrompt seg
    match stripEcho cmd body with
    | none => .abort ("Got unexpected echo in response to '".toList ++ cmd ++ "':\n".toList ++ body)
    | some out => k out

/-! ## `cisco.LoginEnable` -/

def reCiscoLogin : Str := "(?i)password:|\\(yes/no.*\\)\\?".toList
def reCiscoPass : Str := "(?i)password:".toList
def reCiscoStd : Str := "(?i)password:|\\n\\r?[^#> ]+[>#] ?$".toList
def reHash : Str := "#[ ]?".toList

/-- Force a new prompt with the empty command, derive the prompt expression. -/
def ciscoPrompt (k : Str → Prog) : Prog := issue (.lit []) reHash fun out => k (promptRE out)

/-- `(?i)password:|\n\r?[^#> ]+[>#] ?$` has matched: the chunk ends with a password prompt or with a
command prompt. -/
def okCiscoStd (o : Str) : Bool := isPwPrompt o || endsT o ['>'] || endsT o ['#']

/-- `(?i)password:|\(yes/no.*\)\?` has matched. -/
def okCiscoLogin (o : Str) : Bool := isPwPrompt o || endsT o ['?']

/-- Login password, `enable`, and — only if the device then asks for a password (fix d8ddbd1) — the
login password once more as enable password. -/
def ciscoAuth (k : Str → Prog) : Prog :=
  issue .pass reCiscoStd (pw := true) (ok := okCiscoStd) fun o1 =>
    if endsT o1 ['>'] then
      issue (.lit "enable".toList) reCiscoStd (pw := true) (ok := okCiscoStd) fun o2 =>
        if endsT o2 ['#'] then ciscoPrompt k
        else if isPwPrompt o2 then
          issue .pass reCiscoStd (pw := true) (ok := okCiscoStd) fun o3 =>
            if endsT o3 ['#'] then ciscoPrompt k
            else .abort "Authentication for enable mode failed".toList
        else .abort "Authentication for enable mode failed".toList
    else if endsT o1 ['#'] then ciscoPrompt k
    else .abort "Authentication failed".toList

/-- The code before fix d8ddbd1: whenever `enable` did not lead to `#` the login password was sent,
also at a command prompt (kept for the counterexample F-C17b). -/
def ciscoAuthOld (k : Str → Prog) : Prog :=
  issue .pass reCiscoStd (pw := true) (ok := okCiscoStd) fun o1 =>
    if endsT o1 ['>'] then
      issue (.lit "enable".toList) reCiscoStd (pw := true) (ok := okCiscoStd) fun o2 =>
        if endsT o2 ['#'] then ciscoPrompt k
        else issue .pass reCiscoStd (pw := true) (ok := okCiscoStd) fun o3 =>
          if endsT o3 ['#'] then ciscoPrompt k
          else .abort "Authentication for enable mode failed".toList
    else if endsT o1 ['#'] then ciscoPrompt k
    else .abort "Authentication failed".toList

def ciscoLoginWith (auth : (Str → Prog) → Prog) (k : Str → Prog) : Prog :=
  .expect waitLoginMsg reCiscoLogin true okCiscoLogin fun o =>
    if endsT o ['?'] then issue (.lit "yes".toList) reCiscoPass (pw := true) (ok := isPwPrompt) fun _ => auth k
    else auth k

def ciscoLogin (k : Str → Prog) : Prog := ciscoLoginWith ciscoAuth k

/-! ## `LoadDevice` of the three back ends -/

/-- ASA: `logVersion`, `checkDeviceName`, then the configuration to `.config`. -/
def asaK2 (host re : Str) : Prog :=
  getCmd re "sh ver".toList fun _ =>
    getCmd re "show hostname".toList fun o =>
      if trimSuffixNl o ≠ host then .abort (wrongName (trimSuffixNl o) host)
      else .setLog (some .config) (getCmd re "write term".toList fun _ => .tail)

/-- ASA `setTerminal`, second half: terminal width. -/
def asaK1 (host re : Str) : Prog :=
  getCmd re "sh term".toList fun o2 =>
    if containsStr "511".toList o2 then asaK2 host re
    else sendCmd re "configure terminal".toList (sendCmd re "terminal width 511".toList (sendCmd re "end".toList (asaK2 host re)))

def asaLoad (host : Str) : Prog :=
  ciscoLogin fun re =>
    getCmd re "sh pager".toList fun o1 =>
      if containsStr "no pager".toList o1 then asaK1 host re else sendCmd re "terminal pager 0".toList (asaK1 host re)

def iosLoad (host : Str) : Prog :=
  ciscoLogin fun re =>
    sendCmd re "term len 0".toList (sendCmd re "term width 512".toList
      (getCmd re "sh ver".toList fun _ =>
        issue (.lit []) reHash fun o =>
          let name := trimSuffixHash (trimSpace o)
          if name ≠ host then .abort (wrongName name host)
          else .setLog (some .config) (getCmd re "sh run".toList fun _ => .tail)))

/-- IOS with the login code before fix d8ddbd1 (counterexample only). -/
def iosLoadOld : Prog :=
  ciscoLoginWith ciscoAuthOld fun re =>
    sendCmd re "term len 0".toList (sendCmd re "term width 512".toList
      (getCmd re "sh ver".toList fun _ => .tail))

def reLinStd : Str := "\\r\\n\\S*\\s?[%>$#]\\s?(?:\\x27\\S*)?".toList
def reLinPass : Str := reLinStd ++ "|(?i)password:".toList
def reLinLogin : Str := reLinPass ++ "|\\(yes/no.*\\)\\?".toList
def reLinPrompt : Str := "\\nrouter#".toList

def linuxRest (host banner : Str) : Prog :=
  issue (.lit "PS1=router#".toList) reLinStd fun _ =>
    getCmd reLinPrompt "uname -r".toList fun _ =>
      getCmd reLinPrompt "uname -m".toList fun _ =>
        getCmd reLinPrompt "hostname -s".toList fun o =>
          if trimSuffixNl o ≠ host then .abort (wrongName (trimSuffixNl o) host)
          else
            getCmd reLinPrompt ("grep '".toList ++ banner ++ "' /etc/issue".toList) fun _ =>
              .setLog (some .config)
                (getCmd reLinPrompt "iptables-save".toList fun _ =>
                  getCmd reLinPrompt "ip route show".toList fun _ => .tail)

/-- `strings.HasSuffix(out, "word:")`. -/
def endsWord (o : Str) : Bool := "word:".toList.reverse.isPrefixOf o.reverse

/-- The awaited expression of the Linux login has matched: if the chunk ends in `word:` it is the
alternative `(?i)password:` that matched (the others end in one of `% > $ #`, a blank or `)?`). -/
def okLinux (o : Str) : Bool := isPwPrompt o || !endsWord o

def linuxAfterYes (host banner : Str) (o : Str) : Prog :=
  if endsWord o then
    issue .pass reLinPass (pw := true) (ok := okLinux) fun o2 =>
      if endsWord o2 then .abort "Authentication failed".toList else linuxRest host banner
  else linuxRest host banner

def linuxLoad (host banner : Str) : Prog :=
  .expect waitLoginMsg reLinLogin true okLinux fun o =>
    if endsT o ['?'] then issue (.lit "yes".toList) reLinPass (pw := true) (ok := okLinux) fun o' => linuxAfterYes host banner o'
    else linuxAfterYes host banner o

inductive DevType where | asa | ios | linux
  deriving Repr, DecidableEq

def loadProg (dt : DevType) (host banner : Str) : Prog :=
  match dt with
  | .asa => asaLoad host
  | .ios => iosLoad host
  | .linux => linuxLoad host banner

/-! ## devices that echo

Chunk level: the device supplies, per expect, the text it writes (line ends already `\n`), whether
it first echoes the line it has just received, and what of its previous output (blanks behind a
prompt) still stands in front of that echo.  A real device echoes commands and does not echo
what is typed at its password prompts. -/

abbrev EDev := List (Str × Str × Bool)

def runE (pass : Str) : Prog → Str → EDev → List Op
  | .tail, _, _ => []
  | .send c k, _, dev => .send (c.text pass) :: runE pass k (c.text pass) dev
  | .expect w re _ ok k, last, dev =>
    match dev with
    | (pre, t, e) :: r =>
      let out := (if e then pre ++ last ++ ['\n'] else []) ++ t
      if ok out then .expect out :: runE pass (k out) [] r
      else [.expect out, waitAbort w re []]
    | [] => [waitAbort w re []]
  | .setLog l k, last, dev => .setLog l :: runE pass k last dev
  | .abort m, _, _ => [.abort m]

/-- The device never echoes what it receives right after a password prompt: whenever an element
says "echo", the text before it does not end in `password:`. -/
def noEchoAtPasswordPrompt : EDev → Bool
  | [] => true
  | [_] => true
  | (_, t, _) :: (pre', t', e') :: r =>
    (!e' || !isPwPrompt t) && noEchoAtPasswordPrompt ((pre', t', e') :: r)

/-! ## the change phase as steps

After `LoadDevice` the back end sends every command of the change script with `console.Conn.Send`
and waits for the prompt; what the device writes (its echo of the command and its answer) goes into
`.change`.  No step of this phase mentions the password. -/

/-- Sequencing: run `q` where `p` hands over to the rest of the session. -/
def Prog.andThen : Prog → Prog → Prog
  | .tail, q => q
  | .send c k, q => .send c (k.andThen q)
  | .expect w re pw ok k, q => .expect w re pw ok (fun out => (k out).andThen q)
  | .setLog l k, q => .setLog l (k.andThen q)
  | .abort m, _ => .abort m

/-- Every command of the script: send the literal line, take what the device writes. -/
def scriptProg : List Str → Prog
  | [] => .tail
  | c :: cs => issue (.lit c) [] fun _ => scriptProg cs

/-- `applyCommands`: the log is switched to `.change` if there is something to apply. -/
def changeProg (applies : Bool) (script : List Str) : Prog :=
  if applies then .setLog (some .change) (scriptProg script) else scriptProg script

/-- Login, reading the configuration, then the change script. -/
def sessionProg (dt : DevType) (host banner : Str) (applies : Bool) (script : List Str) : Prog :=
  (loadProg dt host banner).andThen (changeProg applies script)

/-! ## the whole session -/

/-- What follows `LoadDevice`: every command sent and the segment that followed it (if any). -/
def tailPairs : List (Str × Option Str) → List Op
  | [] => []
  | (c, none) :: r => .send c :: tailPairs r
  | (c, some g) :: r => .send c :: .expect g :: tailPairs r

/-- `applyCommands` switches the log to `.change` if there is something to apply; an abort in that
phase carries `tailAbort`; otherwise `CloseConnection`: logging off, `exit`. -/
def tailOps (applies : Bool) (tl : List (Str × Option Str)) (tailAbort : Str) : List Op :=
  (if applies then [.setLog (some .change)] else []) ++ tailPairs tl ++
    (if tailAbort.isEmpty then [.setLog none, .send "exit\n".toList] else [.abort tailAbort])

def sessionOps (prog : Prog) (pass errText : Str) (segs : List Seg) (applies : Bool)
    (tl : List (Str × Option Str)) (tailAbort : Str) : List Op :=
  let o := run pass errText prog [] segs
  if o.finished then o.ops ++ tailOps applies tl tailAbort else o.ops

/-- The payloads of all `Send`s of a trace. -/
def sendsOf : List Op → List Str
  | [] => []
  | .send c :: r => c :: sendsOf r
  | _ :: r => sendsOf r

end NA.Mask
