import NA.Spec.IosDev
/-!
# Model of the IOS apply path (`go/pkg/ios/device.go`, `go/pkg/console/console.go`)

Core Lean only.  Strings are `List Char`.  The stream model is the one DESIGN.md names for
`goexpect`: *read from the byte stream up to and including the first match*.

Timing (the only part of `goexpect` that is not a function of the bytes): **fast device** — the
answer of the device to everything that was sent is in the expect buffer before the client
looks at it.  Consequences that the real code shows under this timing and that are modelled:
`WaitShort("[#] ?$")` matches at the end of the pending bytes only, `TryPrompt` (time-out 0)
looks at the pending bytes and *discards them* if they contain no prompt, a time-out discards
the pending bytes.  Line ends: the device sends `\r\n`, `expectLog` turns it into `\n`; the model
works on the `\r`-free stream.

Go's abort-by-panic (`errlog.Abort`) with deferred calls running during unwinding is the `Res`
monad plus `finally_`: the deferred action always runs; if it aborts itself, the new abort
replaces the pending one (Go: a new panic in a deferred call replaces the current one).

`fixed : Bool` selects the code before (`false`) and after (`true`) the repair of F-C15 in `cmd`
(`out, needReload = …` overwritten by the second half of a joined line; repaired by `||`).
-/
namespace NA.Ios

/-! ## matchers (explicit re-implementations of the regular expressions, DESIGN appendix B) -/

/-- Leftmost occurrence of a literal. -/
def findLit (p : Str) : Str → Option Nat
  | [] => if p.isEmpty then some 0 else none
  | c :: s => if p.isPrefixOf (c :: s) then some 0 else (findLit p s).map (· + 1)

def containsLit (p s : Str) : Bool := (findLit p s).isSome

/-- RE2 `\s` = `[\t\n\f\r ]`. -/
def isReSpace (c : Char) : Bool :=
  c == ' ' || c == '\t' || c == '\n' || c == '\x0c' || c == '\r'

/-- Go `unicode.IsSpace` (what `strings.TrimSpace` removes). -/
def isUniSpace (c : Char) : Bool :=
  c == ' ' || c == '\t' || c == '\n' || c == '\x0b' || c == '\x0c' || c == '\r' ||
  c.toNat == 0x85 || c.toNat == 0xA0 || c.toNat == 0x1680 ||
  (0x2000 ≤ c.toNat && c.toNat ≤ 0x200a) || c.toNat == 0x2028 || c.toNat == 0x2029 ||
  c.toNat == 0x202f || c.toNat == 0x205f || c.toNat == 0x3000

/-- `strings.TrimSpace(s) == ""`. -/
def blank (s : Str) : Bool := s.all isUniSpace

def bannerHead : Str := "\n\n\n\x07***\n***".toList
def bannerTail : Str := "\n***\n".toList

/-- `bannerRe` = `\n\n\n\x07[*]{3}\n[*]{3}([^\n]+)\n[*]{3}\n` anchored at the beginning of `s`:
the message and what follows the match. -/
def bannerAt (s : Str) : Option (Str × Str) :=
  if bannerHead.isPrefixOf s then
    let r := s.drop bannerHead.length
    let msg := r.takeWhile (· != '\n')
    let r2 := r.dropWhile (· != '\n')
    if !msg.isEmpty && bannerTail.isPrefixOf r2 then some (msg, r2.drop bannerTail.length) else none
  else none

/-- Leftmost match of `bannerRe`: (text before, message, text after). -/
def bannerFind : Str → Option (Str × Str × Str)
  | [] => none
  | c :: s =>
    match bannerAt (c :: s) with
    | some (m, r) => some ([], m, r)
    | none => (bannerFind s).map fun (p, m, r) => (c :: p, m, r)

/-- `SHUTDOWN in 0?0:01:00` found in the message. -/
def oneMinute (msg : Str) : Bool :=
  containsLit "SHUTDOWN in 0:01:00".toList msg || containsLit "SHUTDOWN in 00:01:00".toList msg

/-- Head of the standard prompt: `\n` + device name (LoginEnable builds
`QuoteMeta("\nNAME") + \S* + QuoteMeta("#")`). -/
def promptHead : Str := "\nrouter".toList

/-- End (exclusive, relative to the run) of the last `#` in a run of non-space characters. -/
def lastHash : Str → Nat → Option Nat → Option Nat
  | [], _, acc => acc
  | c :: s, i, acc =>
    if isReSpace c then acc else lastHash s (i + 1) (if c == '#' then some (i + 1) else acc)

/-- Leftmost match of the standard prompt `\nrouter\S*#` (greedy `\S*`): (start, end). -/
def promptFind : Str → Option (Nat × Nat)
  | [] => none
  | c :: s =>
    let here :=
      if promptHead.isPrefixOf (c :: s) then
        (lastHash ((c :: s).drop promptHead.length) 0 none).map fun e => (0, promptHead.length + e)
      else none
    match here with
    | some r => some r
    | none => (promptFind s).map fun (a, b) => (a + 1, b + 1)

/-- `[#] ?$` on the pending bytes: they end in `#` or `# `. -/
def endsWithHash (s : Str) : Bool :=
  match s.reverse with
  | '#' :: _ => true
  | ' ' :: '#' :: _ => true
  | _ => false

/-- Leftmost match of an alternation of literals, each optionally followed by one blank
(`#[ ]?|\[confirm\]`, `\[yes\/no\]:\ |\[confirm\]`, …): end of the match. Go's leftmost-first:
at the leftmost position where any alternative matches, the first alternative that matches wins. -/
def altAt (alts : List (Str × Bool)) (s : Str) : Option Nat :=
  match alts with
  | [] => none
  | (p, optBlank) :: rest =>
    if p.isPrefixOf s then
      some (p.length + (if optBlank && (s.drop p.length).head? == some ' ' then 1 else 0))
    else altAt rest s

def altFind (alts : List (Str × Bool)) : Str → Option Nat
  | [] => none
  | c :: s =>
    match altAt alts (c :: s) with
    | some e => some e
    | none => (altFind alts s).map (· + 1)

/-! ## the session monad -/

inductive Abort where
  | timeout (pat : String)
  | missingPrompt (s : Str)
  | unexpectedEcho (cmd s : Str)
  | unexpectedOutput (cmd out : Str)
  | writeMemUnexpected (out : Str)
  | writeMemGiveUp
  /-- `LoginEnable`: "Authentication failed" (`false`) / "Authentication for enable mode failed" (`true`) -/
  | loginFailed (enable : Bool)
  /-- a Go run-time panic (slice bounds out of range) -/
  | indexPanic
  deriving Repr, DecidableEq

inductive Res (α : Type) where
  | ok (a : α)
  | abort (e : Abort)
  deriving Repr, DecidableEq

structure St (σ : Type) where
  dev : σ
  pend : Str := []
  /-- every `Send`, oldest first -/
  trace : List Str := []
  reloadActive : Bool := false
  /-- `errlog.Warning` calls: (command, line) -/
  warns : List (Str × Str) := []

abbrev M (σ α : Type) := St σ → Res α × St σ

@[inline] def pureM {σ α} (a : α) : M σ α := fun st => (.ok a, st)
@[inline] def bindM {σ α β} (m : M σ α) (f : α → M σ β) : M σ β := fun st =>
  match m st with
  | (.ok a, st') => f a st'
  | (.abort e, st') => (.abort e, st')

instance {σ} : Monad (M σ) where
  pure := pureM
  bind := bindM

def abortM {σ α} (e : Abort) : M σ α := fun st => (.abort e, st)

/-- `defer fin` around `body`: `fin` always runs; its abort replaces a pending one. -/
def finally_ {σ α} (body : M σ α) (fin : M σ Unit) : M σ α := fun st =>
  match body st with
  | (r, st') =>
    match fin st' with
    | (.ok (), st'') => (r, st'')
    | (.abort e, st'') => (.abort e, st'')

/-- `for _, x := range l { f(x) }` -/
def forEach {σ α} (f : α → M σ Unit) : List α → M σ Unit
  | [] => pureM ()
  | a :: as => bindM (f a) fun _ => forEach f as

section prims
variable {σ : Type} (D : Device σ)

/-- `Conn.Send`. -/
def send (s : Str) : M σ Unit := fun st =>
  (.ok (), { st with dev := (D.step st.dev s).1, pend := st.pend ++ (D.step st.dev s).2,
                     trace := st.trace ++ [s] })

/-- `expectLog` on a pattern given as "end of the leftmost match in the pending bytes". -/
def expectEnd (name : String) (m : Str → Option Nat) : M σ Str := fun st =>
  match m st.pend with
  | some e => (.ok (st.pend.take e), { st with pend := st.pend.drop e })
  | none => (.abort (.timeout name), { st with pend := [] })

def promptName : String := "\nrouter\\S*#"

/-- `waitPrompt(c.promptRE)`. -/
def waitPrompt : M σ Str := expectEnd promptName (fun s => (promptFind s).map (·.2))

/-- `WaitShort("[#] ?$")`. -/
def waitHashEnd : M σ Str :=
  expectEnd "[#] ?$" (fun s => if endsWithHash s then some s.length else none)

/-- `TryPrompt`: time-out 0 — dump the buffer. -/
def tryPrompt : M σ Bool := fun st =>
  match promptFind st.pend with
  | some r => (.ok true, { st with pend := st.pend.drop r.2 })
  | none => (.ok false, { st with pend := [] })

/-- `StripStdPrompt`: keep everything up to and including the line feed that starts the prompt. -/
def stripStdPrompt (s : Str) : M σ Str :=
  match promptFind s with
  | some r => pureM (s.take (r.1 + 1))
  | none => abortM (.missingPrompt s)

/-- `GetOutput`. -/
def getOutput : M σ Str := bindM waitPrompt stripStdPrompt

/-- `StripEcho`. -/
def stripEcho (cmd s : Str) : M σ Str :=
  if (cmd ++ ['\n']).isPrefixOf s then pureM (s.drop (cmd.length + 1)) else abortM (.unexpectedEcho cmd s)

/-- `SendCmd`. -/
def sendCmd (s : Str) : M σ Unit :=
  bindM (send D s) fun _ => bindM (waitPrompt (σ := σ)) fun _ => pureM ()

/-- `IssueCmd` with an alternation pattern. -/
def issueCmd (s : Str) (name : String) (alts : List (Str × Bool)) : M σ Str :=
  bindM (send D s) fun _ => expectEnd name (altFind alts)

end prims

/-! ## `ios/device.go`

The definitions are written with explicit `bindM` so that the proofs see the shape of the Go
code and not the join points of `do` notation. -/

/-- Classification of one output line by `isValidOutput`. -/
inductive LineKind | empty | info | warning | bad
  deriving DecidableEq, Repr

def lineKind (l : Str) : LineKind :=
  if l.isEmpty then .empty
  else if "INFO:".toList.isPrefixOf l then .info
  else if "WARNING:".toList.isPrefixOf l then .warning
  else .bad

/-- `isValidOutput`: the warnings issued before the first bad line (they are printed even if a
later line is bad), and whether all lines are acceptable. -/
def validOutput : List Str → List Str × Bool
  | [] => ([], true)
  | l :: ls =>
    match lineKind l with
    | .bad => ([], false)
    | .warning => ((l :: (validOutput ls).1), (validOutput ls).2)
    | _ => validOutput ls

section ios
variable {σ : Type} (D : Device σ)

def prepareDevice : M σ Unit := forEach (sendCmd D) prepCmds

def setActive (b : Bool) : M σ Unit := fun st => (.ok (), { st with reloadActive := b })
def getActive : M σ Bool := fun st => (.ok st.reloadActive, st)
def warn (cmd l : Str) : M σ Unit := fun st => (.ok (), { st with warns := st.warns ++ [(cmd, l)] })

def ynPat : String := "\\[yes\\/no\\]:\\ |\\[confirm\\]"

/-- `sendReloadCmd`. -/
def sendReloadCmd (withDo : Bool) : M σ Unit :=
  bindM (issueCmd D (if withDo then doReloadCmd else reloadCmd) ynPat
          [(lit "[yes/no]: ", false), (lit "[confirm]", false)]) fun out =>
  bindM (if containsLit (lit "[yes/no]") out
         then bindM (issueCmd D (lit "n") "\\[confirm\\]" [(lit "[confirm]", false)]) (fun _ => pureM ())
         else pureM ()) fun _ =>
  bindM (setActive true) fun _ =>
  sendCmd D []

def scheduleReload : M σ Unit := sendReloadCmd D false
def extendReload : M σ Unit := sendReloadCmd D true

/-- `cancelReload`. -/
def cancelReload : M σ Unit :=
  bindM (issueCmd D cancelCmd "--- SHUTDOWN ABORTED ---" [(lit "--- SHUTDOWN ABORTED ---", false)]) fun _ =>
  bindM (waitHashEnd (σ := σ)) fun _ =>
  bindM (sendCmd D []) fun _ =>
  setActive false

/-- the two probes of `stripReloadBanner` for another prompt -/
def stripProbe (pre post : Str) : M σ Str :=
  if blank (pre ++ post) then bindM waitHashEnd stripStdPrompt
  else if !pre.isEmpty && blank post then bindM tryPrompt (fun _ => pureM (pre ++ post))
  else pureM (pre ++ post)

/-- `stripReloadBanner`. -/
def stripReloadBanner (out : Str) : M σ (Str × Bool) :=
  bindM getActive fun act =>
    if act then
      match bannerFind out with
      | some r => bindM (stripProbe r.1 r.2.2) fun o => pureM (o, oneMinute r.2.1)
      | none => pureM (out, false)
    else pureM (out, false)

/-- `if out != "" { if !isValidOutput(ci, out) { Abort } }` -/
def checkOutput (ci out : Str) : M σ Unit :=
  if out.isEmpty then pureM ()
  else
    bindM (forEach (warn ci) (validOutput (splitOnNL out)).1) fun _ =>
      if (validOutput (splitOnNL out)).2 then pureM () else abortM (.unexpectedOutput ci out)

/-- the closure `check` inside `cmd`; returns the flag it assigns to the captured `needReload`. -/
def check (ci : Str) : M σ Bool :=
  bindM getOutput fun out =>
  bindM (stripReloadBanner out) fun p =>
  bindM (stripEcho ci p.1) fun o =>
  bindM (checkOutput ci o) fun _ =>
  pureM p.2

/-- `strings.Cut(cmd, "\n")`. -/
def cutNL : Str → Str × Str
  | [] => ([], [])
  | c :: s => if c == '\n' then ([], s) else ((c :: (cutNL s).1), (cutNL s).2)

/-- `cmd`: one or two commands in one data packet. `fixed = false`: the flag of the first half is
overwritten by the second (`out, needReload = …`); `fixed = true`: accumulated with `||`. -/
def cmd (fixed : Bool) (c : Str) : M σ Unit :=
  bindM (send D c) fun _ =>
  bindM (check (cutNL c).1) fun n1 =>
  bindM (if (cutNL c).2.isEmpty then pureM n1
         else bindM (check (cutNL c).2) fun n2 => pureM (if fixed then n1 || n2 else n2)) fun need =>
  if need then extendReload D else pureM ()

inductive WmStep | done | retry
  deriving DecidableEq, Repr

/-- one round of the loop in `writeMem`. -/
def writeMemRound : M σ WmStep :=
  bindM (issueCmd D writeCmd "#[ ]?|\\[confirm\\]" [(lit "#", true), (lit "[confirm]", false)]) fun out =>
  bindM (if containsLit (lit "Overwrite the previous NVRAM configuration") out
         then bindM (send D []) fun _ => bindM getOutput (stripEcho [])
         else pureM out) fun out =>
  if containsLit (lit "[OK]") out then pureM .done
  else if containsLit (lit "startup-config file open failed") out then pureM .retry
  else abortM (.writeMemUnexpected out)

/-- `writeMem` with its retry counter (`retries := 2`). -/
def writeMem : Nat → M σ Unit
  | 0 => bindM (writeMemRound D) fun r =>
      match r with
      | .done => pureM ()
      | .retry => abortM .writeMemGiveUp
  | n + 1 => bindM (writeMemRound D) fun r =>
      match r with
      | .done => pureM ()
      | .retry => writeMem n

/-- The changes: `for _, chg := range s.Changes { s.cmd(chg) }`. -/
def changeLoop (fixed : Bool) (cs : List Str) : M σ Unit := forEach (cmd D fixed) cs

/-- what runs between `defer cancelReload()` and its execution -/
def guardedBody (fixed : Bool) (cs : List Str) : M σ Unit :=
  bindM (sendCmd D confCmd) fun _ => finally_ (changeLoop D fixed cs) (sendCmd D endCmd)

/-- The guarded block: `scheduleReload(); defer cancelReload(); SendCmd("configure terminal");
defer SendCmd("end"); loop`. -/
def guarded (fixed : Bool) (cs : List Str) : M σ Unit :=
  bindM (scheduleReload D) fun _ => finally_ (guardedBody D fixed cs) (cancelReload D)

/-- `ApplyCommands`. -/
def applyCommands (fixed : Bool) (cs : List Str) : M σ Unit :=
  bindM (prepareDevice D) fun _ => bindM (guarded D fixed cs) fun _ => writeMem D 2

end ios

end NA.Ios
