import NA.Model.Cursor
/-
C20 — model of `pkg/linux/parse.go`: `ParseConfig`, `parseRoutes`, `parseIPTables` as total
functions into `Res`, with a bounds check wherever Go indexes or slices.  `normalizeIPTables`
only rewrites map values (no index expression) and is not modelled; the pairs are kept as parsed.
Loops over the words of a rule carry explicit fuel; running out of fuel is a `panic`, so the
no-panic theorem contains the termination argument.
-/
namespace NA.C20.Linux
open NA.C20 NA.C20.Res

/-- `strings.TrimSpace`. -/
def trimSpace (s : Str) : Str := trimRight (s.dropWhile isSpace)

/-- all suffixes of a string. -/
def tails : Str → List Str
  | [] => [[]]
  | c :: cs => (c :: cs) :: tails cs

def isInfix (pat s : Str) : Bool := (tails s).any (fun t => pat.isPrefixOf t)

/-- the regular expression ` proto (?:kernel|boot|[0-9]+)` (unanchored). -/
def protoRe (s : Str) : Bool :=
  (tails s).any fun t =>
    (lit " proto ").isPrefixOf t &&
      (let r := t.drop 7
       (lit "kernel").isPrefixOf r || (lit "boot").isPrefixOf r ||
         (match r with | c :: _ => isDigit c | [] => false))

def cutPrefix (pre s : Str) : Option Str := if pre.isPrefixOf s then some (s.drop pre.length) else none

/-- `strconv.Atoi` with the error ignored (0 on syntax error, clamped on range error). -/
def atoi (s : Str) : Int :=
  let (neg, d) := match s with
    | '-' :: r => (true, r)
    | '+' :: r => (false, r)
    | r => (false, r)
  if d = [] ∨ ¬ d.all isDigit then 0
  else
    let v : Int := digitsVal d
    let v := if neg then -v else v
    if v > 9223372036854775807 then 9223372036854775807
    else if v < -9223372036854775808 then -9223372036854775808 else v

structure Route where
  ip : Str
  pfx : Int
  hop : Str
  orig : Str
  deriving Repr

def unexpectedRoute (line : Str) : Str := lit "Unexpected route: " ++ line

/-- body of the loop of `parseRoutes`: `none` = line ignored. -/
def parseRoute (line : Str) : Res (Option Route) :=
  match cutPrefix (lit "ip route add ") line with
  | none => .diag (unexpectedRoute line)
  | some rest =>
    if isInfix (lit " scope link") rest then .ok none
    else if protoRe rest then .ok none
    else
      match fields rest with
      | w0 :: w1 :: w2 :: more =>
        if w1 ≠ lit "via" then .diag (unexpectedRoute line)
        else if more ≠ [] ∧ ¬ (more.length = 2 ∧ more.head? = some (lit "dev")) then
          .diag (unexpectedRoute line)
        else
          let (ip, pfx) : Str × Int :=
            match cut '/' w0 with
            | some (a, b) => (a, atoi b)
            | none => if w0 = lit "default" then (lit "0.0.0.0", 0) else (w0, 32)
          .ok (some { ip := ip, pfx := pfx, hop := w2, orig := line })
      | _ => .diag (unexpectedRoute line)     -- !(len(words) >= 3 && …): short-circuit, no index

def parseRoutes : List Str → Res (List Route)
  | [] => .ok []
  | l :: ls =>
    (parseRoute l).bind fun r => (parseRoutes ls).bind fun rs =>
      .ok (match r with | some x => x :: rs | none => rs)

structure Rule where
  orig : Str
  pairs : List (Str × Str)     -- in insertion order; a later pair with the same key wins
  app : Bool
  deriving Repr

structure Chain where
  name : Str
  policy : Str
  rules : List Rule
  deriving Repr

structure Table where
  name : Str
  chains : List Chain
  deriving Repr

/-- first character of a word: `words[i][0]`. -/
def firstChar (site : String) (w : Str) : Res Char :=
  match w with
  | c :: _ => .ok c
  | [] => .panic (.index site)

/-- `for len(words) > 0 && words[0][0] != '-' && words[0] != "!"`: collect arguments. -/
def takeArgs : List Str → Res (List Str × List Str)
  | [] => .ok ([], [])
  | w :: ws =>
    (firstChar "words[0][0]" w).bind fun c =>
      if c ≠ '-' ∧ w ≠ lit "!" then
        (takeArgs ws).bind fun (a, r) => .ok (w :: a, r)
      else .ok ([], w :: ws)

/-- key may be preceded by negation: `if words[0] == "!" { … words = words[1:]; if len(words) == 0 { Abort } }`,
then `key := words[0]; words = words[1:]`. -/
def negKey (line : Str) (w : Str) (ws : List Str) : Res (Str × Str × List Str) :=
  if w = lit "!" then
    match ws with
    | [] => .diag (lit "Unexpected trailing '!' in line\n " ++ line)
    | k :: ws' => .ok (lit "!", k, ws')
  else .ok ([], w, ws)

/-- first argument may be preceded by negation:
`if len(words) >= 2 && words[0] == "!" && words[1][0] != '-'`. -/
def negArg (neg : Str) (ws1 : List Str) : Res (Str × List Str) :=
  match ws1 with
  | a :: b :: more =>
    if a = lit "!" then
      (firstChar "words[1][0]" b).bind fun c =>
        if c ≠ '-' then .ok (lit "!", b :: more) else .ok (neg, ws1)
    else .ok (neg, ws1)
  | _ => .ok (neg, ws1)

def mkPair (key neg2 : Str) (args : List Str) : Str × Str :=
  let v := neg2 ++ join args
  -- `[!] --tcp-flags FIN,SYN,RST,ACK SYN ==> [!] --syn` (upstream 1350e50: negated or not)
  if key = lit "--tcp-flags" ∧ join args = lit "FIN,SYN,RST,ACK SYN" then (lit "--syn", neg2) else (key, v)

/-- the `for len(words) > 0` loop over the options of one rule. -/
def parsePairs (line : Str) : Nat → List Str → Res (List (Str × Str))
  | _, [] => .ok []
  | 0, _ :: _ => .panic (.explicit "out of fuel: loop over words does not terminate")
  | fuel + 1, w :: ws =>
    (negKey line w ws).bind fun r1 =>
      (negArg r1.1 r1.2.2).bind fun r2 =>
        (takeArgs r2.2).bind fun r3 =>
          (parsePairs line fuel r3.2).bind fun ps => .ok (mkPair r1.2.1 r2.1 r3.1 :: ps)

structure IptSt where
  tables : List Table         -- most recent first
  cur : Bool                  -- cMap != nil (the current table is the head of `tables` … by name)
  curName : Str
  app : Bool
  deriving Repr

def setTable (ts : List Table) (t : Table) : List Table :=
  t :: ts.filter (fun x => x.name ≠ t.name)

def getTable (ts : List Table) (n : Str) : Table :=
  (ts.find? (fun x => x.name = n)).getD { name := n, chains := [] }

def setChain (cs : List Chain) (c : Chain) : List Chain :=
  if cs.any (fun x => x.name = c.name) then cs.map (fun x => if x.name = c.name then c else x)
  else cs ++ [c]

def quote (s : Str) : Str := '"' :: s ++ ['"']

/-- body of the loop of `parseIPTables`. -/
def iptLine (st : IptSt) (raw : Str) : Res IptSt :=
  let line := trimSpace raw
  match line with
  | [] => .ok st
  | c :: rest =>
    if c = '*' then
      if st.tables.any (fun x => x.name = rest) then .diag (lit "Duplicate definition of table " ++ quote rest)
      else .ok { tables := setTable st.tables { name := rest, chains := [] }, cur := true, curName := rest, app := false }
    else if c = ':' then
      if ¬ st.cur then .diag (lit "Found chain policy outside of table: " ++ quote line)
      else
        match fields rest with
        | n :: p :: _ =>
          let t := getTable st.tables st.curName
          if t.chains.any (fun x => x.name = n) then .diag (lit "Duplicate definition of chain " ++ quote n)
          else .ok { st with tables := setTable st.tables { t with chains := setChain t.chains { name := n, policy := p, rules := [] } } }
        | _ => .ok st
    else if c = '-' then
      if ¬ st.cur then .diag (lit "Found rule outside of table: " ++ quote line)
      else
        match fields line with
        | [] => .panic (.index "words[0]")
        | w0 :: ws =>
          if w0 ≠ lit "-A" then .diag (lit "Unsupported command " ++ quote w0)
          else
            match ws with
            | [] => .diag (lit "Incomplete command " ++ quote line)
            | name :: opts =>
              let t := getTable st.tables st.curName
              match t.chains.find? (fun x => x.name = name) with
              | none => .diag (lit "Must define policy before adding rules of chain " ++ quote name)
              | some ch =>
                (parsePairs line (opts.length + 1) opts).bind fun pairs =>
                  let ch' := { ch with rules := ch.rules ++ [{ orig := line, pairs := pairs, app := st.app }] }
                  .ok { st with tables := setTable st.tables { t with chains := setChain t.chains ch' } }
    else if line = lit "[APPEND]" then .ok { st with app := true }
    else if line = lit "COMMIT" then .ok st
    else .diag (lit "Unknown command: " ++ quote line)

def iptLines : IptSt → List Str → Res IptSt
  | st, [] => .ok st
  | st, l :: ls => (iptLine st l).bind fun st' => iptLines st' ls

/-- `strings.Split(s, "\n")`. -/
def splitNl : Str → List Str
  | [] => [[]]
  | c :: cs =>
    if c = '\n' then [] :: splitNl cs
    else match splitNl cs with
      | l :: ls => (c :: l) :: ls
      | [] => [[c]]

/-- `ParseConfig` of package linux. -/
def parseConfig (data : Str) : Res (List Route × List Table) :=
  let ls := (splitNl data).map trimSpace |>.filter (fun l => l ≠ [] ∧ l.head? ≠ some '#')
  let rLines := ls.filter (fun l => (lit "ip route").isPrefixOf l)
  let tLines := ls.filter (fun l => ¬ (lit "ip route").isPrefixOf l)
  (parseRoutes rLines).bind fun routes =>
    (iptLines { tables := [], cur := false, curName := [], app := false } tLines).bind fun st =>
      .ok (routes, st.tables)

/-- `MergeSpoc` (linux/config.go): `i := len(rules); for i > 0 && rules[i-1].pairs["-j"] == "DROP" { i-- }`.
`revDrop` = for every rule of the chain, last rule first, whether its target is DROP.
`bounded = false` is the loop without the `i > 0` bound. -/
def appendIndex (bounded : Bool) : List Bool → Res Nat
  | [] => if bounded then .ok 0 else .panic (.index "aChain.rules[i-1]")
  | d :: rest => if d then appendIndex bounded rest else .ok (rest.length + 1)

end NA.C20.Linux
