/-! Token types of the interaction skeleton (shared by the generated `NA/Gen/IosSkel.lean` and
`NA/Model/IosSessionProg.lean`).  Only literal strings are compared; no string is ever built. -/
namespace NA.Ios

/-- one step of a path -/
inductive Atom where
  /-- an interaction: `SendCmd("end")`, `IssueCmd(_,"…")`, `needReload|=_`, `Abort()`, … -/
  | step (s : String)
  /-- a condition that reads a watched variable, with the branch taken -/
  | cond (v : String) (b : Bool)
  /-- a deferred call running at the end of its scope -/
  | deferred (s : String)
  deriving DecidableEq, Repr

inductive Tok where
  | atom (a : Atom)
  /-- `range` over the changes: the paths of its body -/
  | range (body : List (List Atom × Bool))
  deriving DecidableEq, Repr

/-- a path: its steps, and whether it ends in an abort -/
abbrev SkelPath := List Tok × Bool

/-- the body of a `range` loop: a set of paths -/
abbrev Body := List (List Atom × Bool)

def bodyEq (a b : Body) : Bool := a.all (b.contains ·) && b.all (a.contains ·)

def bodiesOf (ps : List SkelPath) : List Body :=
  ps.flatMap fun p => p.1.filterMap fun t => match t with
    | .range b => some b
    | _ => none

/-- a path with the bodies of its `range` loops blanked -/
def stripBodies (p : SkelPath) : SkelPath :=
  (p.1.map fun t => match t with
    | .range _ => .range []
    | t => t, p.2)

/-- Equality of two path lists as sets, the bodies of `range` loops being sets themselves.  Decided by a
sufficient condition that is cheap to evaluate: the lists are equal as sets once the loop bodies are
blanked, AND all loop bodies that occur on either side are one and the same set (true for the
functions compared here: one `range` loop; a function with two different loops would need a
position-wise comparison — the check would fail, not pass wrongly). -/
def sameSet (a b : List SkelPath) : Bool :=
  let sa := a.map stripBodies
  let sb := b.map stripBodies
  sa.all (sb.contains ·) && sb.all (sa.contains ·) &&
  match (bodiesOf a ++ bodiesOf b).eraseDups with
  | [] => true
  | r :: rest => rest.all (bodyEq r)

end NA.Ios
