/-! Token types of the interaction skeleton (shared by the generated `NA/Gen/IosSkel.lean` and
`NA/Model/IosSessionProg.lean`).  Only literal strings are compared; no string is ever built. -/
namespace NA.Ios

/-- one step of a path -/
inductive Atom where
  /-- an interaction: `SendCmd("end")`, `IssueCmd(_,"…")`, `needReload|=_`, `Abort()`, … -/
  | step (s : String)
  /-- a condition that reads a watched variable, with the branch taken -/
  | cond (v : String) (b : Bool)
  /-- a deferred call running at the end of its scope -/
  | deferred (s : String)
  deriving DecidableEq, Repr

inductive Tok where
  | atom (a : Atom)
  /-- `range` over the changes: the paths of its body -/
  | range (body : List (List Atom × Bool))
  deriving DecidableEq, Repr

/-- a path: its steps, and whether it ends in an abort -/
abbrev SkelPath := List Tok × Bool

/-! ## the control structure of a program, without its semantics -/

/-- what `Prog.paths` looks at: the steps and the control structure (`NA/Model/IosSessionProg.lean`
`Prog.shape` forgets the semantics of the leaves and applies every continuation to a default value) -/
inductive Shape where
  | stmt (tok : String)
  | abort (tok : String)
  | quiet
  | seq (a b : Shape)
  | ite (watch : Option String) (t e : Shape)
  | defer_ (d body : Shape)
  | closure (body : Shape)
  | range (body : Shape)
  | loop (body : Shape)
  deriving Repr

/-- a step of a deferred call -/
def asDeferred : Tok → Tok
  | .atom (.step s) => .atom (.deferred s)
  | t => t

def toAtoms : List Tok → List Atom
  | [] => []
  | .atom a :: r => a :: toAtoms r
  | .range _ :: r => .step "?nested-range" :: toAtoms r

/-- the set of acyclic paths of interaction steps -/
def Shape.paths : Shape → List SkelPath
  | .stmt tok => [([.atom (.step tok)], false)]
  | .abort tok => [([.atom (.step tok)], true)]
  | .quiet => [([], false)]
  | .seq a b =>
    (paths a).flatMap fun x => if x.2 then [x] else (paths b).map fun y => (x.1 ++ y.1, y.2)
  | .ite watch t e =>
    let mark (v : Bool) : List Tok := match watch with
      | some n => [.atom (.cond n v)]
      | none => []
    (paths t).map (fun a => (mark true ++ a.1, a.2)) ++ (paths e).map (fun a => (mark false ++ a.1, a.2))
  | .defer_ d body =>
    (paths body).flatMap fun a => (paths d).map fun dp => (a.1 ++ dp.1.map asDeferred, a.2)
  | .closure body => paths body
  | .range body => [([.range ((paths body).map fun a => (toAtoms a.1, a.2))], false)]
  | .loop body => paths body

/-! ## comparison through an atom table

The regenerated side lists its atoms once (`atomTable`) and writes its paths over the INDICES; the
paths of the Lean program are translated through the same table (an atom that is not in the table gets
the index `table.length`, which no regenerated path uses) and the two sets are compared as sets of
number lists: the kernel compares strings only while translating, not while searching. -/

/-- a token over atom indices -/
inductive CTok where
  | atom (n : Nat)
  | range (body : List (List Nat × Bool))
  deriving DecidableEq, Repr

abbrev CPath := List CTok × Bool

/-- the body of a `range` loop: a set of paths -/
abbrev CBody := List (List Nat × Bool)

def codeAtom (tbl : List Atom) (a : Atom) : Nat := tbl.idxOf a

def codeTok (tbl : List Atom) : Tok → CTok
  | .atom a => .atom (codeAtom tbl a)
  | .range b => .range (b.map fun p => (p.1.map (codeAtom tbl), p.2))

def codePath (tbl : List Atom) (p : SkelPath) : CPath := (p.1.map (codeTok tbl), p.2)

/-- one number per path of a loop body: the indices as digits (each + 1, so no digit is 0) in a base
larger than every digit, behind a leading 1, the abort flag as the last bit — injective; the kernel
compares numbers fast, lists slowly -/
def encPath (base : Nat) (q : List Nat × Bool) : Nat :=
  2 * q.1.foldl (fun acc k => acc * base + (k + 1)) 1 + (if q.2 then 1 else 0)

def natSetEq (a b : List Nat) : Bool := a.all (b.contains ·) && b.all (a.contains ·)

def bodyEq (base : Nat) (a b : CBody) : Bool := natSetEq (a.map (encPath base)) (b.map (encPath base))

def bodiesOf (ps : List CPath) : List CBody :=
  ps.flatMap fun p => p.1.filterMap fun t => match t with
    | .range b => some b
    | _ => none

/-- a path with the bodies of its `range` loops blanked -/
def stripBodies (p : CPath) : CPath :=
  (p.1.map fun t => match t with
    | .range _ => .range []
    | t => t, p.2)

/-- Equality of two coded path lists as sets, the bodies of `range` loops being sets themselves
(`base` > every index + 1: indices are at most the length of the table).
Decided by a sufficient condition that is cheap to evaluate: the lists are equal as sets once the loop
bodies are blanked, AND all loop bodies that occur on either side are one and the same set (true for
the functions compared here: one `range` loop; a function with two different loops would need a
position-wise comparison — the check would fail, not pass wrongly). -/
def sameSetN (base : Nat) (a b : List CPath) : Bool :=
  let sa := a.map stripBodies
  let sb := b.map stripBodies
  sa.all (sb.contains ·) && sb.all (sa.contains ·) &&
  match (bodiesOf a ++ bodiesOf b).eraseDups with
  | [] => true
  | r :: rest => rest.all (bodyEq base r)

/-- every index used by the regenerated paths is an index of the table -/
def indicesOK (n : Nat) (g : List CPath) : Bool :=
  g.all fun p => p.1.all fun t => match t with
    | .atom k => k < n
    | .range b => b.all fun q => q.1.all (· < n)

/-- the table has no duplicates: the translation is injective on the atoms of the table -/
def tableOK (tbl : List Atom) : Bool := tbl.eraseDups.length == tbl.length

/-- **the comparison**: `g` (regenerated, over `tbl`) and `m` (paths of the Lean program) are the same set -/
def sameSet (tbl : List Atom) (g : List CPath) (m : List SkelPath) : Bool :=
  tableOK tbl && indicesOK tbl.length g && sameSetN (tbl.length + 2) g (m.map (codePath tbl))

end NA.Ios
