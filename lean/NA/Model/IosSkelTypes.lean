/-! Token types of the interaction skeleton (shared by the generated `NA/Gen/IosSkel.lean` and
`NA/Model/IosSessionProg.lean`).  Only literal strings are compared; no string is ever built. -/
namespace NA.Ios

/-- one step of a path -/
inductive Atom where
  /-- an interaction: `SendCmd("end")`, `IssueCmd(_,"…")`, `needReload|=_`, `Abort()`, … -/
  | step (s : String)
  /-- a condition that reads a watched variable, with the branch taken -/
  | cond (v : String) (b : Bool)
  /-- a deferred call running at the end of its scope -/
  | deferred (s : String)
  deriving DecidableEq, Repr

inductive Tok where
  | atom (a : Atom)
  /-- `range` over the changes: the paths of its body -/
  | range (body : List (List Atom × Bool))
  deriving DecidableEq, Repr

/-- a path: its steps, and whether it ends in an abort -/
abbrev SkelPath := List Tok × Bool

/-- equality of two path lists as sets -/
def sameSet (a b : List SkelPath) : Bool := a.all (b.contains ·) && b.all (a.contains ·)

end NA.Ios
