import NA.Model.PanOs
/-
The planner model AS IT WAS on the unchanged tree, before the three repairs of this property
(7da130b: names of groups inserted into an existing list are adapted; 86e0d84: generated names
also avoid the other target names; cfbdae7: a group referenced by its new name stays to be
transferred).  Generated from `NA/Model/PanOs.lean` by undoing exactly these three changes; used
only by the `…_counterexample` theorems that document the repaired findings (the witnesses were
replayed on the real planner before the repairs).  Core Lean only.
-/
namespace NA.PanOs

/-- One element of `adaptGroupsOld`. -/
def adaptStepOld (acc : List String × St) (adr : String) : List String × St :=
  let (res, st) := acc
  match st.bGrpIdx adr with
  | none => (res ++ [adr], st)
  | some gbi =>
    let gb := st.bGrp[gbi]?.getD default
    if gb.onDev != "" then (res ++ [gb.onDev], st)
    else
      let (name, st) := findGroupOnDevice st gbi
      if name != "" then (res ++ [name], st) else (res ++ [gb.newName], st)

def adaptGroupsOld (st : St) (lb : List String) : List String × St := lb.foldl adaptStepOld ([], st)

/-! ### `equalizeOld` -/

/-- `hasEqualizedGroups(ga, gb)` for the groups with indices `gai`, `gbi`; `recur` is
`hasEqualizedLists` (one level deeper). -/
def eqGroupsOld (recur : St → List String → List String → MPath → Bool × St) (st : St) (gai gbi : Nat) :
    Bool × St :=
  let ga := st.aGrp[gai]?.getD default
  let gb := st.bGrp[gbi]?.getD default
  if gb.onDev != "" then (gb.onDev == ga.g.name, st)
  else if ga.needed then (false, st)
  else
    let (b, st) := recur st ga.g.members gb.g.members (.group ga.g.name)
    if b then
      (true, { st with
        aGrp := modAt st.aGrp gai (fun g => { g with needed := true }),
        bGrp := modAt st.bGrp gbi (fun g => { g with needed := false, onDev := ga.g.name }) })
    else (false, st)

/-- One pair of an equal range (`ok = false`: an earlier step has returned `false`). -/
def pairStepOld (recur : St → List String → List String → MPath → Bool × St) (la lb : List String)
    (r : Range) (acc : Bool × St × List String) (k : Nat) : Bool × St × List String :=
  let (ok, st, ins) := acc
  if !ok then acc
  else
    match st.aGrpIdx (la.getD (r.lowA + k) "") with
    | none => acc
    | some gai =>
      match st.bGrpIdx (lb.getD (r.lowB + k) "") with
      | none => (false, st, ins)
      | some gbi =>
        let (b, st) := eqGroupsOld recur st gai gbi
        (b, st, ins)

/-- One range of the second loop of `hasEqualizedLists`. -/
def rangeStepOld (recur : St → List String → List String → MPath → Bool × St) (la lb : List String)
    (path : MPath) (acc : Bool × St × List String) (r : Range) : Bool × St × List String :=
  let (ok, st, ins) := acc
  if !ok then acc
  else match r.kind with
    | .del => (true, st.emitAll ((la.extract r.lowA r.highA).map path.delCmd), ins)
    | .ins =>
      (true, st, ins ++ lb.extract r.lowB r.highB)
    | .eq => (List.range (r.highA - r.lowA)).foldl (pairStepOld recur la lb r) (true, st, ins)

/-- `hasEqualizedLists` (with `hasEqualizedGroups` as `eqGroupsOld`). -/
def hasEqListsOld (diff : Differ) : Nat → St → List String → List String → MPath → Bool × St
  | 0, st, _, _, _ => (false, st)
  | fuel + 1, st, la, lb, path =>
    let rs := diff la.length lb.length
      (fun i j => memberEq st (la.getD i "") (lb.getD j ""))
    if replaceInstead la.length (deletedCount rs) then (false, st)
    else
      let (ok, st, ins) := rs.foldl (rangeStepOld (hasEqListsOld diff fuel) la lb path) (true, st, [])
      if !ok then (false, st)
      else if ins.isEmpty then (true, st)
      else (true, st.emit (path.addCmd ins))

def equalizeListOld (diff : Differ) (fuel : Nat) (st : St) (la lb : List String) (n : String) (f : Fld) : St :=
  let (ok, st) := hasEqListsOld diff fuel st la lb (.rule n f)
  if ok then st
  else
    let (lb', st) := adaptGroupsOld st lb
    st.emit (.editList n f lb')

def equalizeOld (diff : Differ) (fuel : Nat) (st : St) (ra rb : Rule) : St :=
  let st := equalizeListOld diff fuel st ra.src rb.src ra.name .src
  let st := equalizeListOld diff fuel st ra.dst rb.dst ra.name .dst
  if ra.srv != rb.srv then st.emit (.editList ra.name .srv rb.srv) else st

/-! ### `diffRulesOld` -/

/-- The rule-order skeleton of `diffRulesOld`: which device rules are deleted, and which target
rules (by index range) are inserted before which device rule. -/
structure InsGroupOld where
  anchor : Option String
  lowB : Nat
  highB : Nat
  deriving Repr

/-- First loop of `diffRulesOld`: deletes and equalisations in range order; inserts are only
collected (`delIdx` is the index after the rules deleted last). -/
def rulePhase1Old (diff : Differ) (fuel : Nat) (_a _b : Vsys) (aRules bRules : List Rule)
    (rs : List Range) (st : St) : St × Nat × List InsGroupOld :=
  rs.foldl (fun (acc : St × Nat × List InsGroupOld) r =>
    let (st, delIdx, inserts) := acc
    match r.kind with
    | .del =>
      (st.emitAll ((aRules.extract r.lowA r.highA).map (fun ru => Cmd.delRule ru.name)), r.highA, inserts)
    | .ins =>
      let aPos := max r.lowA delIdx
      let anchor := (aRules[aPos]?).map (·.name)
      (st, delIdx, inserts ++ [⟨anchor, r.lowB, r.highB⟩])
    | .eq =>
      let st := (List.range (r.highA - r.lowA)).foldl (fun st k =>
        equalizeOld diff fuel st (aRules.getD (r.lowA + k) default) (bRules.getD (r.lowB + k) default)) st
      (st, delIdx, inserts)) (st, 0, [])

/-- Second loop of `diffRulesOld`: every collected rule is appended (`set`) and, unless it belongs
at the end, moved before its anchor. -/
def rulePhase2Old (st : St) (bRules : List Rule) (inserts : List InsGroupOld) : St :=
  inserts.foldl (fun st ins =>
    (bRules.extract ins.lowB ins.highB).foldl (fun st ru =>
      let (src, st) := adaptGroupsOld st ru.src
      let (dst, st) := adaptGroupsOld st ru.dst
      let st := st.emit (.setRule { ru with src := src, dst := dst })
      match ins.anchor with
      | some dst => st.emit (.move ru.name dst)
      | none => st) st) st

def diffRulesOld (diff : Differ) (fuel : Nat) (st : St) (a b : Vsys) (aRules bRules : List Rule) : St :=
  let rs := diff aRules.length bRules.length
    (fun i j => ruleEqual a b (aRules.getD i default) (bRules.getD j default))
  let (st, _, inserts) := rulePhase1Old diff fuel a b aRules bRules rs st
  rulePhase2Old st bRules inserts

/-- Final planner state of `diffConfig(a, b)`; `out` holds the rule commands. -/
def planStateOld (diff : Differ) (a0 b0 : Vsys) : St :=
  let a := sortVsys a0
  let b := sortVsys b0
  let fuel := planFuel a b
  let newGroupNames := uniqNamesOld (a.groups.map (·.name)) (b.groups.map (·.name))
  let st := initSt a b newGroupNames
  let st := markObjects fuel st b.rules
  let newRuleNames := uniqNamesOld (ruleNames a.rules) (ruleNames b.rules)
  let bRules := (b.rules.zip newRuleNames).map (fun (r, n) => { r with name := n })
  diffRulesOld diff fuel st a b a.rules bRules

/-- `diffConfig(a, b, vsysPath)` as requests below `vsysPath`. -/
def planVsysOld (diff : Differ) (a b : Vsys) : List Cmd :=
  let st := planStateOld diff a b
  transferCmds st ++ st.out ++ removeCmds st


end NA.PanOs
