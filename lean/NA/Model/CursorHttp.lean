import NA.Model.Cursor
/-
C20 — accessor paths over the decoded NSX (JSON) and PAN-OS (XML) structures.
Pointers that `encoding/json` can leave nil (`null` inside a list) are `Option`; lists may be
empty.  Every `x[0]` and every field access through a pointer has an explicit check.
`fixed = false` is the snapshot, `fixed = true` the code after the `fix:` commits.
-/
namespace NA.C20.Nsx
open NA.C20 NA.C20.Res

structure Expr where
  ips : List Str
  deriving Repr

structure Group where
  id : Str
  expression : List (Option Expr)
  deriving Repr

structure Rule where
  id : Str
  src : List Str
  dst : List Str
  srv : List Str
  deriving Repr

structure Policy where
  id : Str
  rules : List (Option Rule)
  deriving Repr

structure Service where
  id : Str
  deriving Repr

structure Config where
  policies : List (Option Policy)
  groups : List (Option Group)
  services : List (Option Service)
  deriving Repr

/-- dereference of a possibly nil pointer. -/
def deref {α : Type} (site : String) : Option α → Res α
  | some a => .ok a
  | none => .panic (.nilDeref site)

/-- `for _, x := range l { body }` where `body` may fail. -/
def forAll {α : Type} (f : α → Res Unit) : List α → Res Unit
  | [] => .ok ()
  | a :: as => (f a).bind fun _ => forAll f as

/-- `checkNoNull` (added by the fix). -/
def checkNoNull (c : Config) : Res Unit :=
  (forAll (fun (p : Option Policy) =>
      match p with
      | none => .diag (lit "Unexpected null in list of policies")
      | some p => forAll (fun (r : Option Rule) =>
          match r with
          | none => .diag (lit "Unexpected null in rules of policy " ++ p.id)
          | some _ => .ok ()) p.rules) c.policies).bind fun _ =>
  (forAll (fun (g : Option Group) =>
      match g with
      | none => .diag (lit "Unexpected null in list of groups")
      | some g => forAll (fun (e : Option Expr) =>
          match e with
          | none => .diag (lit "Unexpected null in expression of group " ++ g.id)
          | some _ => .ok ()) g.expression) c.groups).bind fun _ =>
  forAll (fun (s : Option Service) =>
      match s with
      | none => .diag (lit "Unexpected null in list of services")
      | some _ => .ok ()) c.services

/-- `^r\d`. -/
def reRNum : Str → Bool
  | 'r' :: d :: _ => isDigit d
  | _ => false

/-- `^Netspoc-g\d`. -/
def reGNum (s : Str) : Bool :=
  (lit "Netspoc-g").isPrefixOf s && (match s.drop 9 with | d :: _ => isDigit d | [] => false)

/-- `checkRaw`. -/
def checkRaw (c : Config) : Res Unit :=
  (forAll (fun (p : Option Policy) =>
      (deref "p.Rules" p).bind fun p =>
        forAll (fun (r : Option Rule) =>
          (deref "r.Id" r).bind fun r =>
            if reRNum r.id then .diag (lit "Must not use rule name starting with 'r<NUM>': " ++ r.id)
            else .ok ()) p.rules) c.policies).bind fun _ =>
  (forAll (fun (p : Option Policy) =>
      (deref "p.Id" p).bind fun p =>
        if ¬ (lit "Netspoc").isPrefixOf p.id then
          .diag (lit "Must only define policy where name has prefix 'Netspoc': " ++ p.id)
        else .ok ()) c.policies).bind fun _ =>
  (forAll (fun (g : Option Group) =>
      (deref "g.Id" g).bind fun g =>
        if ¬ (lit "Netspoc").isPrefixOf g.id then
          .diag (lit "Must only define group where name has prefix 'Netspoc': " ++ g.id)
        else if reGNum g.id then
          .diag (lit "Must not use group name starting with 'Netspoc-g<NUM>': " ++ g.id)
        else .ok ()) c.groups).bind fun _ =>
  forAll (fun (s : Option Service) =>
      (deref "g.Id" s).bind fun s =>
        if ¬ (lit "Netspoc-raw").isPrefixOf s.id then
          .diag (lit "Must only define service where name has prefix 'Netspoc-raw': " ++ s.id)
        else .ok ()) c.services

/-- `checkConfigValidity`. -/
def checkConfigValidity (c : Config) : Res Unit :=
  (forAll (fun (p : Option Policy) =>
      (deref "p.Rules" p).bind fun p =>
        forAll (fun (r : Option Rule) =>
          (deref "r.SourceGroups" r).bind fun r =>
            if r.src.length ≠ 1 ∨ r.dst.length ≠ 1 ∨ r.srv.length ≠ 1 then
              .diag (lit "Expecting exactly one element in source/destination/service of rule " ++ r.id)
            else .ok ()) p.rules) c.policies).bind fun _ =>
  forAll (fun (g : Option Group) =>
      (deref "g.Expression" g).bind fun g =>
        if g.expression.length ≠ 1 then
          .diag (lit "Expecting exactly one expression in group " ++ g.id)
        else .ok ()) c.groups

/-- `ParseConfig` after `json.Unmarshal` succeeded on a non-empty file. -/
def validate (fixed : Bool) (isRaw : Bool) (c : Config) : Res Unit :=
  (if fixed then checkNoNull c else .ok ()).bind fun _ =>
  (if isRaw then checkRaw c else .ok ()).bind fun _ =>
  checkConfigValidity c

/-- `group.Expression[0].IPAddresses` (sortGroups, findGroupOnDevice, groupPair, sortRules). -/
def groupAddrs (g : Option Group) : Res (List Str) :=
  (deref "group.Expression" g).bind fun g =>
    match g.expression with
    | [] => .panic (.index "group.Expression[0]")
    | e :: _ => (deref "group.Expression[0].IPAddresses" e).bind fun e => .ok e.ips

/-- `sortGroups`: touches `Expression[0].IPAddresses` of every group. -/
def sortGroups (c : Config) : Res Unit := forAll (fun g => (groupAddrs g).bind fun _ => .ok ()) c.groups

/-- what `sortRules` compares of a group: the first address
(snapshot: `IPAddresses[0]`; fixed: `firstAddr`, "" for an empty list). -/
def firstAddr (fixed : Bool) (g : Option Group) : Res Str :=
  (groupAddrs g).bind fun l =>
    match l with
    | a :: _ => .ok a
    | [] => if fixed then .ok [] else .panic (.index "IPAddresses[0]")

/-- `ra.Services[0]`, `ra.SourceGroups[0]`, `ra.DestinationGroups[0]` (Equal, sortRules, adaptGroup, equalize). -/
def ruleKeys (r : Option Rule) : Res (Str × Str × Str) :=
  (deref "ra.Services" r).bind fun r =>
    match r.srv, r.src, r.dst with
    | s :: _, a :: _, b :: _ => .ok (s, a, b)
    | [], _, _ => .panic (.index "Services[0]")
    | _, [], _ => .panic (.index "SourceGroups[0]")
    | _, _, [] => .panic (.index "DestinationGroups[0]")

/-- the head of `equalize` in `equalizeGroups`: `ga == nil` returns, then `gb.nameOnDevice`
is read (snapshot) / `gb == nil` is reported (fixed).  `ok true` = goes on with both groups. -/
def equalizeHead (fixed : Bool) (ruleId path : Str) (ga gb : Option Group) : Res Bool :=
  match ga with
  | none => .ok false
  | some _ =>
    match gb with
    | some _ => .ok true
    | none =>
      failAt fixed (.nilDeref "gb.nameOnDevice")
        (lit "Rule " ++ ruleId ++ lit " references group " ++ path ++ lit " not defined in Netspoc config")

def allRules (c : Config) : List (Option Rule) :=
  c.policies.flatMap fun p => match p with | some p => p.rules | none => []

end NA.C20.Nsx

namespace NA.C20.PanOs
open NA.C20 NA.C20.Res

structure Vsys where
  name : Str
  nRules : Nat
  deriving Repr

structure Device where
  name : Str
  vsys : List Vsys
  deriving Repr

/-- `PanConfig`: `Devices` is a pointer that stays nil when the XML has no `<devices>`;
`encoding/xml` never leaves nil inside the slices. -/
structure Config where
  devices : Option (List Device)
  deriving Repr

/-- `checkRaw`: ranges over `c.Devices.Entries`. -/
def checkRaw (fixed : Bool) (c : Config) : Res Unit :=
  match c.devices with
  | some _ => .ok ()          -- the loop only reads r.Name of existing entries
  | none => if fixed then .ok () else .panic (.nilDeref "c.Devices.Entries")

/-- `getDevVsysMap`: first device or an empty one. -/
def firstDevice (c : Config) : Device :=
  match c.devices with
  | some (d :: _) => d
  | _ => { name := [], vsys := [] }

/-- the `v1 == nil` branch of `MergeSpoc`: make sure `p1.Devices.Entries[0]` exists and add the
vsys.  Snapshot: a new device is created only if `p1.Devices == nil`. -/
def addVsys (fixed : Bool) (p1 : Config) (v : Vsys) : Res Config :=
  match p1.devices with
  | none => .ok { devices := some [{ name := [], vsys := [v] }] }
  | some [] =>
    if fixed then .ok { devices := some [{ name := [], vsys := [v] }] }
    else .panic (.index "p1.Devices.Entries[0]")
  | some (d :: ds) => .ok { devices := some ({ d with vsys := d.vsys ++ [v] } :: ds) }

/-- `MergeSpoc`: every vsys of `p2`'s first device whose name `p1`'s first device did not have
(map `m1`, built once) is added. -/
def mergeNew (fixed : Bool) : Config → List Vsys → Res Config
  | p1, [] => .ok p1
  | p1, v :: vs => (addVsys fixed p1 v).bind fun p1' => mergeNew fixed p1' vs

/-- rules of a vsys that both first devices have are concatenated (no index expression). -/
def mergeCommon (p1 p2 : Config) : Config :=
  match p1.devices with
  | some (d :: ds) =>
    { devices := some ({ d with vsys := d.vsys.map fun v =>
        match (firstDevice p2).vsys.reverse.find? (fun x => x.name = v.name) with
        | some w => { v with nRules := v.nRules + w.nRules }
        | none => v } :: ds) }
  | _ => p1

def mergeSpoc (fixed : Bool) (p1 p2 : Config) : Res Config :=
  -- processVsysPairs returns an error before any pair is visited; MergeSpoc aborts with it (9053b7c)
  if (firstDevice p1).name ≠ [] ∧ (firstDevice p2).name ≠ [] ∧ (firstDevice p1).name ≠ (firstDevice p2).name then
    .diag (lit "Different names in <device> of XML: netspoc='" ++ (firstDevice p1).name ++
      lit "', netspoc='" ++ (firstDevice p2).name ++ lit "'")
  else
    mergeNew fixed (mergeCommon p1 p2)
      ((firstDevice p2).vsys.filter fun v => ¬ (firstDevice p1).vsys.any (fun x => x.name = v.name))

/-- `GetChanges`: `p1.Devices.Entries[0].Name` is read only for a vsys `v1` found in the first
device of `p1`. -/
def devNameFor (p1 : Config) (vname : Str) : Res Str :=
  if (firstDevice p1).vsys.any (fun x => x.name = vname) then
    match p1.devices with
    | some (d :: _) => .ok d.name
    | some [] => .panic (.index "p1.Devices.Entries[0]")
    | none => .panic (.nilDeref "p1.Devices.Entries")
  else .ok []

/-- `getDevName` (LoadDevice → checkDeviceName): hostname of the first device entry.
Snapshot: `c.Devices.Entries[0].Hostname` unguarded. -/
def getDevName (fixed : Bool) (hostnames : Option (List Str)) : Res Str :=
  match hostnames with
  | some (h :: _) => .ok h
  | some [] => if fixed then .ok [] else .panic (.index "c.Devices.Entries[0]")
  | none => if fixed then .ok [] else .panic (.nilDeref "c.Devices.Entries")

/-- result of `getObjListType`. -/
inductive ObjT | unknownT | listT | groupT | anyT
  deriving DecidableEq, Repr

/-- `getObjListType(l, v)` (panos/diff.go): recursion through single-member lists that name an
address-group.  The Go stack is modelled by fuel; running out of it is the unrecoverable
`fatal error: stack overflow`. -/
def objListType (groups : Str → Option (List Str)) (isAddr : Str → Bool) : Nat → List Str → Res ObjT
  | 0, _ => .panic (.explicit "fatal error: stack overflow")
  | fuel + 1, l =>
    let flat : Res ObjT := .ok (if l.all isAddr then .listT else .unknownT)
    match l with
    | [e] =>
      if e = lit "any" then .ok .anyT
      else match groups e with
        | some ms =>
          (objListType groups isAddr fuel ms).bind fun t => .ok (if t = .listT then .groupT else .unknownT)
        | none => flat
    | _ => flat

/-- `markAddresses(l)`: visits every member of every named group, recursively. -/
def markAddresses (groups : Str → Option (List Str)) : Nat → List Str → Res Unit
  | 0, _ => .panic (.explicit "fatal error: stack overflow")
  | _ + 1, [] => .ok ()
  | fuel + 1, e :: rest =>
    (match groups e with
      | some ms => markAddresses groups fuel ms
      | none => .ok ()).bind fun _ => markAddresses groups (fuel + 1) rest
termination_by fuel l => (fuel, l.length)

end NA.C20.PanOs


namespace NA.C20.Files
open NA.C20 NA.C20.Res

/-- what opening one `.info` file can do. -/
inductive OpenRes
  | notExist
  | otherErr            -- e.g. permission denied
  | content (decodes : Bool) (isNull : Bool) (hasIP : Bool)
  deriving Repr, DecidableEq

/-- `LoadInfoFile`: loop over [path, path6].  Returns whether an IP list was found.
`panic(err)` for an unreadable or undecodable file is an explicit panic (pinned by the suite:
drc.t "Bad info file", "Unreadable info file"); JSON `null` sets the pointer `info` to nil in the
snapshot (`Decode(&info)`) and `info.IPList` dereferences it. -/
def loadInfoFile (fixed : Bool) : List OpenRes → Res Bool
  | [] => .ok false
  | .notExist :: rest => loadInfoFile fixed rest
  | .otherErr :: _ => .panic (.explicit "panic(err) // open")
  | .content dec isNull hasIP :: rest =>
    if ¬ dec then .panic (.explicit "panic(err) // decode")
    else if isNull ∧ ¬ fixed then .panic (.nilDeref "info.IPList")
    else if hasIP ∧ ¬ isNull then .ok true
    else loadInfoFile fixed rest

end NA.C20.Files
