import NA.Spec.PanOs
import NA.Model.PanOsScript
/-
Executable model of the PAN-OS planner `panos/diff.go` (`diffConfig` and everything below it)
and of `processVsysPairs` / `GetChanges`, on the decoded structs.  It mirrors what the code
DOES: pointer flags (`needed`, `edit`, `nameOnDevice`) become fields of list entries that are
addressed by index, Go maps keyed by name become "last entry with that name", commands that
were already appended stay when a helper returns `false`, slices that are rewritten in place
are rewritten here as well.  The Myers edit script is a parameter (`Differ`).

Recursion through nested groups is cut by a fuel parameter (the Go code does not terminate on
cyclic groups; the fuel is larger than any acyclic nesting depth).  Core Lean only.
-/
namespace NA.PanOs

/-- `myers.Diff` on a pair given by its two lengths and its `Equal` method. -/
abbrev Differ := Nat → Nat → (Nat → Nat → Bool) → List Range

/-! ### `sort.Strings` -/

def insertSorted (x : String) : List String → List String
  | [] => [x]
  | y :: ys => if y < x then y :: insertSorted x ys else x :: y :: ys

def sortStrings (l : List String) : List String := l.foldr insertSorted []

/-- `sortMembers`. -/
def sortVsys (v : Vsys) : Vsys :=
  { v with
    rules := v.rules.map (fun r =>
      { r with src := sortStrings r.src, dst := sortStrings r.dst, srv := sortStrings r.srv }),
    groups := v.groups.map (fun g => { g with members := sortStrings g.members }) }

/-! ### Planner state -/

structure AObj where
  o : Obj
  needed : Bool := false
  deriving Repr, Inhabited

structure BObj where
  o : Obj
  needed : Bool := false
  edit : Bool := false
  deriving Repr, Inhabited

structure AGrp where
  g : Grp
  needed : Bool := false
  deriving Repr, Inhabited

structure BGrp where
  g : Grp                 -- name under which rules and the map `ab.b.groups` know the group
  newName : String        -- `g.Name` after `genUniqGroupNames`
  needed : Bool := false
  onDev : String := ""    -- `nameOnDevice`
  deriving Repr, Inhabited

structure St where
  aAddr : List AObj := []
  bAddr : List BObj := []
  aGrp  : List AGrp := []
  bGrp  : List BGrp := []
  aSvc  : List AObj := []
  bSvc  : List BObj := []
  aSG   : List AGrp := []
  bSG   : List AGrp := []
  out   : List Cmd := []
  deriving Repr, Inhabited

def St.emit (st : St) (c : Cmd) : St := { st with out := st.out ++ [c] }
def St.emitAll (st : St) (cs : List Cmd) : St := { st with out := st.out ++ cs }

/-- Go map built by `m[o.Name] = o` in list order: the last entry with the name. -/
def lastIdxFrom (n : String) : List String → Nat → Option Nat → Option Nat
  | [], _, acc => acc
  | x :: xs, i, acc => lastIdxFrom n xs (i + 1) (if x == n then some i else acc)

def lastIdx (names : List String) (n : String) : Option Nat := lastIdxFrom n names 0 none

def modAt {α} (l : List α) (i : Nat) (f : α → α) : List α :=
  match l, i with
  | [], _ => []
  | x :: xs, 0 => f x :: xs
  | x :: xs, i + 1 => x :: modAt xs i f

def St.aAddrIdx (st : St) (n : String) := lastIdx (st.aAddr.map (·.o.name)) n
def St.bAddrIdx (st : St) (n : String) := lastIdx (st.bAddr.map (·.o.name)) n
def St.aGrpIdx (st : St) (n : String) := lastIdx (st.aGrp.map (·.g.name)) n
def St.bGrpIdx (st : St) (n : String) := lastIdx (st.bGrp.map (·.g.name)) n
def St.aSvcIdx (st : St) (n : String) := lastIdx (st.aSvc.map (·.o.name)) n
def St.bSvcIdx (st : St) (n : String) := lastIdx (st.bSvc.map (·.o.name)) n
def St.aSGIdx (st : St) (n : String) := lastIdx (st.aSG.map (·.g.name)) n
def St.bSGIdx (st : St) (n : String) := lastIdx (st.bSG.map (·.g.name)) n

def initSt (a b : Vsys) (newGroupNames : List String) : St :=
  { aAddr := a.addrs.map (fun o => { o := o }),
    bAddr := b.addrs.map (fun o => { o := o }),
    aGrp := a.groups.map (fun g => { g := g }),
    bGrp := (b.groups.zip newGroupNames).map (fun (g, n) => { g := g, newName := n }),
    aSvc := a.svcs.map (fun o => { o := o }),
    bSvc := b.svcs.map (fun o => { o := o }),
    aSG := a.sgroups.map (fun g => { g := g }),
    bSG := b.sgroups.map (fun g => { g := g }) }

/-! ### Rule equality (`rulesPair.Equal`) -/

inductive ListType | unknownT | listT | groupT | anyT
  deriving DecidableEq, Repr

/-- `getObjListType` for one side: `grp` is the group map, `isAddr` the address map. -/
def objListType (grp : String → Option (List String)) (isAddr : String → Bool) :
    Nat → List String → ListType
  | fuel, l =>
    let rest := if l.all isAddr then ListType.listT else ListType.unknownT
    match l with
    | [e] =>
      if e == "any" then .anyT
      else match grp e with
        | some ms =>
          match fuel with
          | 0 => .unknownT
          | f + 1 => if objListType grp isAddr f ms == .listT then .groupT else .unknownT
        | none => rest
    | _ => rest

def grpMap (gs : List Grp) (n : String) : Option (List String) :=
  (lastIdx (gs.map (·.name)) n).bind (fun i => gs[i]?.map (·.members))

def objMap (os : List Obj) (n : String) : Option Obj :=
  (lastIdx (os.map (·.name)) n).bind (fun i => os[i]?)

def vsysListType (v : Vsys) (l : List String) : ListType :=
  objListType (grpMap v.groups) (fun n => (objMap v.addrs n).isSome) (v.groups.length + 1) l

/-- `servicesEq(x, y)`: looks `x`-names up in the services of `a` and `y`-names in those of `b`,
whatever the caller passes. -/
def servicesEq (aSvcs bSvcs : List Obj) : List String → List String → Bool
  | [], [] => true
  | x :: xs, y :: ys =>
    (x == y ||
      (match objMap aSvcs x, objMap bSvcs y with
       | some sa, some sb => sa.val == sb.val
       | _, _ => false)) && servicesEq aSvcs bSvcs xs ys
  | _, _ => false

/-- `rulesPair.Equal` on the (sorted) rules. -/
def ruleEqual (a b : Vsys) (ra rb : Rule) : Bool :=
  ra.hdr == rb.hdr &&
    vsysListType a ra.src == vsysListType b rb.src &&
    vsysListType a ra.dst == vsysListType b rb.dst &&
    servicesEq a.svcs b.svcs ra.srv rb.srv

/-! ### `markObjects` -/

def markAddrs : Nat → St → List String → St
  | 0, st, _ => st
  | fuel + 1, st, l =>
    l.foldl (fun st name =>
      match st.bGrpIdx name with
      | some gi =>
        let st := { st with bGrp := modAt st.bGrp gi (fun g => { g with needed := true }) }
        markAddrs fuel st ((st.bGrp[gi]?.map (·.g.members)).getD [])
      | none =>
        match st.bAddrIdx name with
        | none => st
        | some bi =>
          match st.aAddrIdx name with
          | some ai =>
            let st := { st with aAddr := modAt st.aAddr ai (fun o => { o with needed := true }) }
            let va := (st.aAddr[ai]?.map (·.o.val)).getD ""
            let vb := (st.bAddr[bi]?.map (·.o.val)).getD ""
            if va != vb then { st with bAddr := modAt st.bAddr bi (fun o => { o with edit := true }) }
            else st
          | none => { st with bAddr := modAt st.bAddr bi (fun o => { o with needed := true }) }) st

def markSrvs : Nat → St → List String → St
  | 0, st, _ => st
  | fuel + 1, st, l =>
    l.foldl (fun st name =>
      match st.bSGIdx name with
      | some gi =>
        let st := { st with bSG := modAt st.bSG gi (fun g => { g with needed := true }) }
        let ms := (st.bSG[gi]?.map (·.g.members)).getD []
        let st := markSrvs fuel st ms
        match st.aSGIdx name with
        | some ai =>
          let st := { st with aSG := modAt st.aSG ai (fun g => { g with needed := true }) }
          let msA := (st.aSG[ai]?.map (·.g.members)).getD []
          -- `ab.servicesEq(g.Members, sA.Members)`: arguments in this order
          if servicesEq (st.aSvc.map (·.o)) (st.bSvc.map (·.o)) ms msA then
            { st with bSG := modAt st.bSG gi (fun g => { g with needed := false }) }
          else st
        | none => st
      | none =>
        match st.bSvcIdx name with
        | none => st
        | some bi =>
          match st.aSvcIdx name with
          | some ai =>
            let st := { st with aSvc := modAt st.aSvc ai (fun o => { o with needed := true }) }
            let va := (st.aSvc[ai]?.map (·.o.val)).getD ""
            let vb := (st.bSvc[bi]?.map (·.o.val)).getD ""
            if va != vb then { st with bSvc := modAt st.bSvc bi (fun o => { o with edit := true }) }
            else st
          | none => { st with bSvc := modAt st.bSvc bi (fun o => { o with needed := true }) }) st

def markObjects (fuel : Nat) (st : St) (rules : List Rule) : St :=
  rules.foldl (fun st r => markSrvs fuel (markAddrs fuel (markAddrs fuel st r.src) r.dst) r.srv) st

/-! ### `genUniqRuleNames`, `genUniqGroupNames` -/

/-- First `name-i` (i = 1, 2, …) that is not taken. -/
def freshName (taken : List String) (name : String) : String :=
  match (List.range (taken.length + 1)).find? (fun i => !taken.contains s!"{name}-{i + 1}") with
  | some i => s!"{name}-{i + 1}"
  | none => name

/-- `genUniq*Names` before the repair (commit 86e0d84): an entry whose name exists on the
device is renamed, each independently of the others and of the other target names. -/
def uniqNamesOld (taken : List String) (names : List String) : List String :=
  names.map (fun n => if taken.contains n then freshName taken n else n)

/-- The renaming loop: `used` holds the names of the device, of the target, and the names
generated so far. -/
def uniqNamesFrom (taken : List String) : List String → List String → List String
  | _, [] => []
  | used, n :: ns =>
    if taken.contains n then
      let n' := freshName used n
      n' :: uniqNamesFrom taken (n' :: used) ns
    else n :: uniqNamesFrom taken used ns

/-- New names of the target's entries (`genUniqRuleNames`, `genUniqGroupNames`): an entry
whose name exists on the device gets the first `name-i` that neither the device nor the target
nor an earlier renaming uses. -/
def uniqNames (taken : List String) (names : List String) : List String :=
  uniqNamesFrom taken (taken ++ names) names

/-! ### `findGroupOnDevice`, `adaptGroups` -/

def findGroupOnDeviceFrom (ms : List String) : List AGrp → Nat → Option (Nat × String)
  | [], _ => none
  | ga :: rest, i =>
    if !ga.needed && ga.g.members == ms then some (i, ga.g.name)
    else findGroupOnDeviceFrom ms rest (i + 1)

/-- Returns the name (`""` if none) and the state with the flags moved. -/
def findGroupOnDevice (st : St) (gbi : Nat) : String × St :=
  let ms := (st.bGrp[gbi]?.map (·.g.members)).getD []
  match findGroupOnDeviceFrom ms st.aGrp 0 with
  | none => ("", st)
  | some (i, name) =>
    (name, { st with
      aGrp := modAt st.aGrp i (fun g => { g with needed := true }),
      bGrp := modAt st.bGrp gbi (fun g => { g with needed := false, onDev := name }) })

/-- One element of `adaptGroups`. -/
def adaptStep (acc : List String × St) (adr : String) : List String × St :=
  let (res, st) := acc
  match st.bGrpIdx adr with
  | none => (res ++ [adr], st)
  | some gbi =>
    let gb := st.bGrp[gbi]?.getD default
    if gb.onDev != "" then (res ++ [gb.onDev], st)
    else
      let (name, st) := findGroupOnDevice st gbi
      if name != "" then (res ++ [name], st)
      else
        -- the group will be transferred under this name; it must not be mapped to a device
        -- group later (repair cfbdae7, F-C03f)
        (res ++ [gb.newName],
          { st with bGrp := modAt st.bGrp gbi (fun g => { g with onDev := gb.newName }) })

def adaptGroups (st : St) (lb : List String) : List String × St := lb.foldl adaptStep ([], st)

/-! ### `equalize` -/

/-- Where a member list lives. -/
inductive MPath
  | rule (n : String) (f : Fld)
  | group (g : String)
  deriving Repr

def MPath.delCmd : MPath → String → Cmd
  | .rule n f, m => .delMem n f m
  | .group g, m => .delGMem g m

def MPath.addCmd : MPath → List String → Cmd
  | .rule n f, ms => .addMem n f ms
  | .group g, ms => .setGrp g ms

/-- `addrListPair.Equal` on names. -/
def memberEq (st : St) (a b : String) : Bool :=
  if (st.aGrpIdx a).isSome then (st.bGrpIdx b).isSome
  else if (st.bGrpIdx b).isSome then false
  else a == b

def deletedCount (rs : List Range) : Nat :=
  rs.foldl (fun d r => if r.isDelete then d + (r.highA - r.lowA) else d) 0

/-- The heuristic of `hasEqualizedLists`: replace instead of changing incrementally. -/
def replaceInstead (oldLen d : Nat) : Bool := 2 * d > (oldLen - d) + 1

/-- `hasEqualizedGroups(ga, gb)` for the groups with indices `gai`, `gbi`; `recur` is
`hasEqualizedLists` (one level deeper). -/
def eqGroups (recur : St → List String → List String → MPath → Bool × St) (st : St) (gai gbi : Nat) :
    Bool × St :=
  let ga := st.aGrp[gai]?.getD default
  let gb := st.bGrp[gbi]?.getD default
  if gb.onDev != "" then (gb.onDev == ga.g.name, st)
  else if ga.needed then (false, st)
  else
    let (b, st) := recur st ga.g.members gb.g.members (.group ga.g.name)
    if b then
      (true, { st with
        aGrp := modAt st.aGrp gai (fun g => { g with needed := true }),
        bGrp := modAt st.bGrp gbi (fun g => { g with needed := false, onDev := ga.g.name }) })
    else (false, st)

/-- One pair of an equal range (`ok = false`: an earlier step has returned `false`). -/
def pairStep (recur : St → List String → List String → MPath → Bool × St) (la lb : List String)
    (r : Range) (acc : Bool × St × List String) (k : Nat) : Bool × St × List String :=
  let (ok, st, ins) := acc
  if !ok then acc
  else
    match st.aGrpIdx (la.getD (r.lowA + k) "") with
    | none => acc
    | some gai =>
      match st.bGrpIdx (lb.getD (r.lowB + k) "") with
      | none => (false, st, ins)
      | some gbi =>
        let (b, st) := eqGroups recur st gai gbi
        (b, st, ins)

/-- One range of the second loop of `hasEqualizedLists`. -/
def rangeStep (recur : St → List String → List String → MPath → Bool × St) (la lb : List String)
    (path : MPath) (acc : Bool × St × List String) (r : Range) : Bool × St × List String :=
  let (ok, st, ins) := acc
  if !ok then acc
  else match r.kind with
    | .del => (true, st.emitAll ((la.extract r.lowA r.highA).map path.delCmd), ins)
    | .ins =>
      -- names of groups as known or created on the device (repair 7da130b)
      let (l, st) := adaptGroups st (lb.extract r.lowB r.highB)
      (true, st, ins ++ l)
    | .eq => (List.range (r.highA - r.lowA)).foldl (pairStep recur la lb r) (true, st, ins)

/-- `hasEqualizedLists` (with `hasEqualizedGroups` as `eqGroups`). -/
def hasEqLists (diff : Differ) : Nat → St → List String → List String → MPath → Bool × St
  | 0, st, _, _, _ => (false, st)
  | fuel + 1, st, la, lb, path =>
    let rs := diff la.length lb.length
      (fun i j => memberEq st (la.getD i "") (lb.getD j ""))
    if replaceInstead la.length (deletedCount rs) then (false, st)
    else
      let (ok, st, ins) := rs.foldl (rangeStep (hasEqLists diff fuel) la lb path) (true, st, [])
      if !ok then (false, st)
      else if ins.isEmpty then (true, st)
      else (true, st.emit (path.addCmd ins))

def equalizeList (diff : Differ) (fuel : Nat) (st : St) (la lb : List String) (n : String) (f : Fld) : St :=
  let (ok, st) := hasEqLists diff fuel st la lb (.rule n f)
  if ok then st
  else
    let (lb', st) := adaptGroups st lb
    st.emit (.editList n f lb')

def equalize (diff : Differ) (fuel : Nat) (st : St) (ra rb : Rule) : St :=
  let st := equalizeList diff fuel st ra.src rb.src ra.name .src
  let st := equalizeList diff fuel st ra.dst rb.dst ra.name .dst
  if ra.srv != rb.srv then st.emit (.editList ra.name .srv rb.srv) else st

/-! ### `diffRules` -/

/-- The rule-order skeleton of `diffRules`: which device rules are deleted, and which target
rules (by index range) are inserted before which device rule. -/
structure InsGroup where
  anchor : Option String
  lowB : Nat
  highB : Nat
  deriving Repr

/-- One range of the first loop of `diffRules` (`delIdx` is the index after the rules deleted
last). -/
def phase1Step (diff : Differ) (fuel : Nat) (aRules bRules : List Rule)
    (acc : St × Nat × List InsGroup) (r : Range) : St × Nat × List InsGroup :=
  let (st, delIdx, inserts) := acc
  match r.kind with
  | .del =>
    (st.emitAll ((aRules.extract r.lowA r.highA).map (fun ru => Cmd.delRule ru.name)), r.highA, inserts)
  | .ins =>
    let aPos := max r.lowA delIdx
    let anchor := (aRules[aPos]?).map (·.name)
    (st, delIdx, inserts ++ [⟨anchor, r.lowB, r.highB⟩])
  | .eq =>
    let st := (List.range (r.highA - r.lowA)).foldl (fun st k =>
      equalize diff fuel st (aRules.getD (r.lowA + k) default) (bRules.getD (r.lowB + k) default)) st
    (st, delIdx, inserts)

/-- First loop of `diffRules`: deletes and equalisations in range order; inserts are only
collected. -/
def rulePhase1 (diff : Differ) (fuel : Nat) (_a _b : Vsys) (aRules bRules : List Rule)
    (rs : List Range) (st : St) : St × Nat × List InsGroup :=
  rs.foldl (phase1Step diff fuel aRules bRules) (st, 0, [])

/-- One inserted rule: `set`, then `move` unless it belongs at the end. -/
def insertRule (anchor : Option String) (st : St) (ru : Rule) : St :=
  let (src, st) := adaptGroups st ru.src
  let (dst, st) := adaptGroups st ru.dst
  let st := st.emit (.setRule { ru with src := src, dst := dst })
  match anchor with
  | some dst => st.emit (.move ru.name dst)
  | none => st

def insertGroup (bRules : List Rule) (st : St) (ins : InsGroup) : St :=
  (bRules.extract ins.lowB ins.highB).foldl (insertRule ins.anchor) st

/-- Second loop of `diffRules`: every collected rule is appended (`set`) and, unless it belongs
at the end, moved before its anchor. -/
def rulePhase2 (st : St) (bRules : List Rule) (inserts : List InsGroup) : St :=
  inserts.foldl (insertGroup bRules) st

def diffRules (diff : Differ) (fuel : Nat) (st : St) (a b : Vsys) (aRules bRules : List Rule) : St :=
  let rs := diff aRules.length bRules.length
    (fun i j => ruleEqual a b (aRules.getD i default) (bRules.getD j default))
  let (st, _, inserts) := rulePhase1 diff fuel a b aRules bRules rs st
  rulePhase2 st bRules inserts

/-! #### The rule-order skeleton of `diffRules` as pure functions of the script -/

/-- Names of the device rules deleted, in the order of the delete requests. -/
def delNamesOf (a : List String) : List Range → List String
  | [] => []
  | r :: rs =>
    match r.kind with
    | .del => a.extract r.lowA r.highA ++ delNamesOf a rs
    | _ => delNamesOf a rs

/-- The insert groups with their anchors (`d` = `delIdx`). -/
def insGroupsFrom (a : List String) : Nat → List Range → List InsGroup
  | _, [] => []
  | d, r :: rs =>
    match r.kind with
    | .del => insGroupsFrom a r.highA rs
    | .ins => ⟨a[max r.lowA d]?, r.lowB, r.highB⟩ :: insGroupsFrom a d rs
    | .eq => insGroupsFrom a d rs

/-- What remains of the device's rule list after the deletes. -/
def survivors (a : List String) : List Range → List String
  | [] => []
  | r :: rs =>
    match r.kind with
    | .eq => a.extract r.lowA r.highA ++ survivors a rs
    | _ => survivors a rs

/-- The rule sequence the target asks for, in device names for kept rules and new names for
inserted ones. -/
def targetOrder (a b : List String) : List Range → List String
  | [] => []
  | r :: rs =>
    match r.kind with
    | .del => targetOrder a b rs
    | .ins => b.extract r.lowB r.highB ++ targetOrder a b rs
    | .eq => a.extract r.lowA r.highA ++ targetOrder a b rs

/-! ### `transferNeededObjects`, `removeUnneededObjects` -/

def transferCmds (st : St) : List Cmd :=
  st.bAddr.filterMap (fun o =>
    if o.edit then some (.editAddr o.o.name o.o.val)
    else if o.needed then some (.setAddr o.o.name o.o.val) else none) ++
  st.bGrp.filterMap (fun g => if g.needed then some (.setGrp g.newName g.g.members) else none) ++
  st.bSvc.filterMap (fun o =>
    if o.edit then some (.editSvc o.o.name o.o.val)
    else if o.needed then some (.setSvc o.o.name o.o.val) else none) ++
  st.bSG.filterMap (fun g => if g.needed then some (.setSGrp g.g.name g.g.members) else none)

def removeCmds (st : St) : List Cmd :=
  st.aGrp.filterMap (fun g => if !g.needed then some (.delGrp g.g.name) else none) ++
  st.aAddr.filterMap (fun o => if !o.needed then some (.delAddr o.o.name) else none) ++
  st.aSG.filterMap (fun g => if !g.needed then some (.delSGrp g.g.name) else none) ++
  st.aSvc.filterMap (fun o => if !o.needed then some (.delSvc o.o.name) else none)

/-! ### `diffConfig` -/

/-- `genUniqGroupNames`: new names of the target's address-groups.  A group whose name exists on
the device gets the first `name-i` that is not the name of an address-group or of an address
(address and address-group share a name space on the device) of either side, and not generated
before (repair of F-C03g). -/
def groupNamesFor (a b : Vsys) : List String :=
  uniqNamesFrom (a.groups.map (·.name))
    (a.groups.map (·.name) ++ b.groups.map (·.name) ++ (a.addrs.map (·.name) ++ b.addrs.map (·.name)))
    (b.groups.map (·.name))

def planFuel (a b : Vsys) : Nat := a.groups.length + b.groups.length + b.sgroups.length + 2

/-- Final planner state of `diffConfig(a, b)`; `out` holds the rule commands. -/
def planState (diff : Differ) (a0 b0 : Vsys) : St :=
  let a := sortVsys a0
  let b := sortVsys b0
  let fuel := planFuel a b
  let newGroupNames := groupNamesFor a b
  let st := initSt a b newGroupNames
  let st := markObjects fuel st b.rules
  let newRuleNames := uniqNames (ruleNames a.rules) (ruleNames b.rules)
  let bRules := (b.rules.zip newRuleNames).map (fun (r, n) => { r with name := n })
  diffRules diff fuel st a b a.rules bRules

/-- `diffConfig(a, b, vsysPath)` as requests below `vsysPath`. -/
def planVsys (diff : Differ) (a b : Vsys) : List Cmd :=
  let st := planState diff a b
  transferCmds st ++ st.out ++ removeCmds st

/-! ### `GetChanges` / `processVsysPairs` -/

def vsysMap (vs : List Vsys) (n : String) : Option Vsys :=
  (lastIdx (vs.map (·.name)) n).bind (fun i => vs[i]?)

/-- Per device vsys that the target names: the requests for it (omitted when there are none).
Different names of the two `<devices><entry>` elements, or a target vsys the device does not
have, is an error and nothing is emitted. -/
def planDevice (diff : Differ) (devA devB : String) (dev tgt : List Vsys) :
    Except String (List (String × List Cmd)) :=
  if devA != "" && devB != "" && devA != devB then .error "Different names in <device> of XML"
  else
  match tgt.find? (fun v2 => (vsysMap dev v2.name).isNone) with
  | some v2 => .error s!"Unknown name '{v2.name}' in VSYS of device configuration"
  | none =>
    .ok (dev.filterMap (fun v1 =>
      match vsysMap tgt v1.name with
      | none => none
      | some v2 =>
        let l := planVsys diff v1 v2
        if l.isEmpty then none else some (v2.name, l)))

end NA.PanOs
