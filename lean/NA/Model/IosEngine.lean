import NA.Model.AclPlan
import NA.Model.AsaEngine
/-!
# The IOS diff engine of `cisco/diff.go` on fragment F2 (executable model)

Fragment F2: `interface X` anchors with the sub-commands `ip access-group NAME in|out` (compared) and
`ip address` / `ip unnumbered` / `shutdown` / `[ip] vrf forwarding` / `ip inspect` (extracted by
`checkIOSInterfaces`), `ip access-list extended NAME` objects with their entry lines (remarks
included), `ip route [vrf V] …`.  Unknown lines never reach the engine (the parser drops them).
The model's input is the *parsed* structure of both configurations; parsing is outside.  The model
produces the exact list of change lines that `drc` prints and the messages it writes to stderr.

Architecture (chosen so that the proofs are compositional):

    engine  : marks machine  ⟶  List MA      the DECISIONS of the code (which object is adopted, edited,
                                              transferred, bound, removed), function by function
    expand  : MA ⟶ List Ev                   the emission details of one decision (`diffIOSACLs`,
                                              `addCmds`/`addCmd`, `delCmds`, `diffRoutes`, `deleteUnused`)
    render  : List Ev ⟶ List Chg             `State.subCmdOf` / `setCmdConfMode` / `addToplevel`
                                              (mode lines and `exit`)

`State.subCmdOf` is written only by the emission primitives and read only by `setCmdConfMode` and by
`deleteUnused`, so threading it through `render` is the same computation as in the Go code.

What is mirrored (function names of `cisco/diff.go`): `GetChanges`, `alignVRFs` (+ `markNeeded`),
`checkIOSInterfaces`, `diffConfig` (prefixes in sorted order: interface, ip access-list extended — no
anchors —, ip route), `generateNamesForTransfer`, `sortRoutes`, `diffAnchors`/`diffNamedCmds2`,
`diffCmds` (all branches F2 reaches: needed short-cut, ready short-cut, "no parts equal" → `delCmds`/
`markDeleted` + `addCmds`, name adoption, delete-then-add for unordered sub-commands, `diffIOSACLs`),
`diffUnordered` (shared with the ASA model), `makeEqual` (reference followed into the ACL object, changed
reference ⇒ the sub-command is re-added), `diffIOSACLs` (line planner delegated to `NA.Acl.planIOS`;
resequence lines, dropped resequence when nothing changes), `addCmds`/`addCmd`/`addToplevel`/
`setCmdConfMode`, `delCmds`, `markDeleted`, `diffRoutes` (per VRF: `chgVRF`, replace in one transaction,
"No IPv4 routing specified …" info), `deleteUnused`, `getPrintableCmd`, `ShowChanges`.

Code facts used (checked by the correspondence on every run):
* interface and route commands have no `$NAME`; `generateNamesForTransfer` gives them the unused name
  `-DRC-0`; only `ip access-list extended` objects get printed generated names;
* `ip access-list extended` is not an ANCHOR: ACLs are reached only through references;
* the sub-commands of an interface left after `extractIntfInfo` are the `ip access-group` lines
  (`crypto map` is outside F2);
* a reference to an ACL that is not defined in the same file is dropped by `checkReferences`
  (`parsed = orig`, no `$REF`).
-/
namespace NA.F2
open NA.Acl (Range Act Cell)
open NA.F1 (genName isTagged sortS diffUnordered lookupD slice addSet)

abbrev Name := String

/-- One entry of an `ip access-list extended`.  `text`: `cmd.parsed` (normalised; what the Myers diff
compares and what is printed when the line is added); `nolog`: `text` with the regular expression
` log(?:-input)?` of `diffIOSACLs` removed (computed by the caller with Go's `regexp`); `orig`: the
line as it stands in the file (printed by `no <orig>`); `act`: first word (`getIOSAction`). -/
structure ALine where
  text  : String
  nolog : String
  orig  : String
  act   : Act
  deriving DecidableEq, Repr, Inhabited

/-- `ip access-group ACL in|out`. -/
structure Bind where
  acl : Name
  dir : String
  deriving DecidableEq, Repr, Inhabited

/-- `interface NAME` with what `extractIntfInfo` / `alignVRFs` read from its sub-commands.
`vrf`: `""` for the global table; `addr`: sorted addresses joined by `,` (`negotiated`,
`unnumbered` as they come). -/
structure Intf where
  name    : String
  vrf     : String := ""
  addr    : String := ""
  shut    : Bool := false
  inspect : Bool := false
  binds   : List Bind := []
  deriving DecidableEq, Repr, Inhabited

/-- `ip route TEXT`; `vrf`/`dst`: what `dstOfRoute` yields; `sortKey`: the byte `128 - bits`. -/
structure Route where
  text    : String
  vrf     : String
  dst     : String
  sortKey : Nat
  deriving DecidableEq, Repr, Inhabited

structure Config where
  intfs  : List Intf := []
  acls   : List (Name × List ALine) := []
  routes : List Route := []
  deriving Repr, Inhabited

/-- Myers scripts of the ACL pairs (device name, target name) on the `text` keys, computed by the
caller with the real library. -/
structure Scripts where
  acl : List ((Name × Name) × List Range) := []
  deriving Repr, Inhabited

def Config.hasAcl (c : Config) (n : Name) : Bool := c.acls.any (·.1 == n)
def Config.lines (c : Config) (n : Name) : List ALine := lookupD c.acls n

/-! ## Change lines -/

inductive Mode
  | acl (n : Name)         -- `ip access-list extended N`
  | intf (n : String)      -- `interface N`
  deriving DecidableEq, Repr, Inhabited

inductive Chg
  | reseq (acl : Name) (start step : Nat)      -- ip access-list resequence ACL s t
  | aclMode (n : Name)                         -- ip access-list extended N
  | intfMode (n : String)                      -- interface N
  | exit
  | entry (l : ALine)                          -- TEXT            (appended)
  | numEntry (n : Nat) (l : ALine)             -- N TEXT
  | noNum (n : Nat)                            -- no N
  | noEntry (l : ALine)                        -- no ORIG
  | move (dn an : Nat) (l : ALine)             -- no DN\N AN TEXT (one command line)
  | bind (acl : Name) (dir : String)           -- ip access-group ACL dir
  | noBind (acl : Name) (dir : String)         -- no ip access-group ACL dir
  | route (r : String)                         -- ip route R
  | noRoute (r : String)                       -- no ip route R
  | replRoute (old new : String)               -- no ip route OLD\N ip route NEW
  | noAcl (n : Name)                           -- no ip access-list extended N
  | bad                                        -- the passed script is not a script for this pair
  deriving DecidableEq, Repr, Inhabited

def Mode.line : Mode → Chg
  | .acl n => .aclMode n
  | .intf n => .intfMode n

def Chg.render : Chg → String
  | .reseq a s t => "ip access-list resequence " ++ a ++ " " ++ toString s ++ " " ++ toString t
  | .aclMode n => "ip access-list extended " ++ n
  | .intfMode n => "interface " ++ n
  | .exit => "exit"
  | .entry l => l.text
  | .numEntry n l => toString n ++ " " ++ l.text
  | .noNum n => "no " ++ toString n
  | .noEntry l => "no " ++ l.orig
  | .move dn an l => "no " ++ toString dn ++ "\\N " ++ toString an ++ " " ++ l.text
  | .bind a d => "ip access-group " ++ a ++ " " ++ d
  | .noBind a d => "no ip access-group " ++ a ++ " " ++ d
  | .route r => "ip route " ++ r
  | .noRoute r => "no ip route " ++ r
  | .replRoute o n => "no ip route " ++ o ++ "\\N ip route " ++ n
  | .noAcl n => "no ip access-list extended " ++ n
  | .bad => "<invalid script>"

/-- `ShowChanges`. -/
def showChanges (cs : List Chg) : List String := cs.map Chg.render

/-! ## Emission events and `subCmdOf` -/

inductive Ev
  | top (c : Chg)               -- `addToplevel`, `addCmd` of a command without sub-commands: `subCmdOf = ""`
  | openAcl (n : Name)          -- `addCmd` of an ACL header: printed, `subCmdOf = header` (no `exit`)
  | sub (p : Mode) (c : Chg)    -- `setCmdConfMode(p)`, then the command
  | reset                       -- `subCmdOf = ""` without output (resequence line added and dropped again)
  | exitIfSub                   -- `deleteUnused`: `exit` if `subCmdOf != ""`
  deriving DecidableEq, Repr, Inhabited

/-- One event: printed lines and the new value of `subCmdOf`. -/
def renderEv (m : Option Mode) : Ev → List Chg × Option Mode
  | .top c => ([c], none)
  | .openAcl n => ([.aclMode n], some (.acl n))
  | .sub p c =>
    if m == some p then ([c], m)
    else ((if m.isSome then [Chg.exit] else []) ++ [p.line, c], some p)
  | .reset => ([], none)
  | .exitIfSub => (if m.isSome then [Chg.exit] else [], m)

def render : Option Mode → List Ev → List Chg
  | _, [] => []
  | m, e :: es => (renderEv m e).1 ++ render (renderEv m e).2 es

/-! ## One ACL pair: `diffCmds` on the entry lines, `diffIOSACLs` -/

/-- Numeric identities for the line planner: `key` ↔ `text`, `mkey` ↔ `nolog` (first index in the
table of all texts of the pair). -/
def encLine (tk mk : List String) (l : ALine) : NA.Acl.Line :=
  { key := tk.idxOf l.text, mkey := mk.idxOf l.nolog, permit := l.act == .permit, remark := l.act == .remark }

def pairCells (al bl : List ALine) (rs : List Range) : Option (List Cell) :=
  let tk := (al ++ bl).map (·.text)
  let mk := (al ++ bl).map (·.nolog)
  NA.Acl.cellsOf (al.map (encLine tk mk)) (bl.map (encLine tk mk)) rs

/-- The line that carries `key` (its text is the text of every line with that key). -/
def lineOfKey (al bl : List ALine) (k : Nat) : ALine := (al ++ bl).getD k default

def opChg (al bl : List ALine) : NA.Acl.IOp → Chg
  | .add n l => .numEntry n (lineOfKey al bl l.key)
  | .del n => .noNum n
  | .move dn an l => .move dn an (lineOfKey al bl l.key)
  | _ => .bad

/-- Events of `diffCmds(A.sub, B.sub)` for the device ACL `aN` (both lists of entries, the Myers
script of the pair).  `al` empty: `diffUnordered` yields inserts only. -/
def editEvents (aN : Name) (al bl : List ALine) (rs : List Range) : List Ev :=
  let delAll := al.map fun l => Ev.sub (.acl aN) (.noEntry l)
  let addAll := bl.map fun l => Ev.sub (.acl aN) (.entry l)
  if al.isEmpty then addAll else
  match pairCells al bl rs with
  | none => [.top .bad]
  | some M =>
    if !(M.any fun c => c.old && c.new) then delAll ++ addAll
    else
      let ops := NA.Acl.planIOS M
      if ops.isEmpty then [.reset]
      else [.top (.reseq aN 10000 10000)] ++ ops.map (fun op => Ev.sub (.acl aN) (opChg al bl op)) ++
           [.top (.reseq aN 10 10)]

/-- Branch taken (for the measured distribution) and the ghost flag of `planIOS'`. -/
def editKind (al bl : List ALine) (rs : List Range) : String :=
  if al.isEmpty then (if bl.isEmpty then "lines:both-empty" else "lines:device-acl-empty") else
  match pairCells al bl rs with
  | none => "lines:INVALID-SCRIPT"
  | some M =>
    if !(M.any fun c => c.old && c.new) then "lines:no-parts-equal"
    else
      (if (NA.Acl.planIOS M).isEmpty then
        (if al.map (·.text) == bl.map (·.text) then "lines:identical" else "lines:all-moves-suppressed")
       else "lines:incremental") ++ (if (NA.Acl.planIOS' M).2 then "+remark-suppression" else "")

/-! ## Decisions -/

inductive MA
  | transfer (name : Name) (ls : List ALine)                     -- whole ACL under a new name
  | edit (aN : Name) (al bl : List ALine) (rs : List Range)      -- device ACL `aN` towards `bl`
  | bind (intf : String) (acl : Name) (dir : String)
  | unbind (intf : String) (acl : Name) (dir : String)
  | route (r : String)
  | replRoute (old new : String)
  | noRoute (r : String)
  | cleanup (names : List Name)                                  -- `deleteUnused`, non-empty
  deriving DecidableEq, Repr, Inhabited

def expand : MA → List Ev
  | .transfer n ls => .openAcl n :: ls.map fun l => Ev.sub (.acl n) (.entry l)
  | .edit aN al bl rs => editEvents aN al bl rs
  | .bind i a d => [.sub (.intf i) (.bind a d)]
  | .unbind i a d => [.sub (.intf i) (.noBind a d)]
  | .route r => [.top (.route r)]
  | .replRoute o n => [.top (.replRoute o n)]
  | .noRoute r => [.top (.noRoute r)]
  | .cleanup ns => .exitIfSub :: ns.map fun n => Ev.top (.noAcl n)

def scriptOf (acts : List MA) : List Chg := render none (acts.flatMap expand)

/-! ## Engine state (marks) -/

structure St where
  aNeeded : List Name := []            -- device ACLs: `needed`
  aToDel  : List Name := []            -- device ACLs: `toDelete`
  iNeeded : List Nat := []             -- device interfaces (index in the aligned list): `needed`
  bNeeded : List (Nat × Nat) := []     -- device `ip access-group` sub-commands (interface, position)
  aReady  : List Name := []            -- target ACLs: `ready`
  aName   : List (Name × Name) := []   -- target ACL ↦ current name (`cmd.name`)
  acts    : List MA := []
  msgs    : List String := []          -- stderr lines
  hits    : List String := []          -- ghost: branches taken
  deriving Repr, Inhabited

def St.hit (st : St) (h : String) : St := { st with hits := h :: st.hits }
def St.act (st : St) (a : MA) : St := { st with acts := st.acts ++ [a] }
def St.msg (st : St) (m : String) : St := { st with msgs := st.msgs ++ [m] }
def St.nameOf (st : St) (bN : Name) : Name := (st.aName.lookup bN).getD bN

structure Env where
  a  : Config          -- device, after `alignVRFs`
  b  : Config
  sc : Scripts
  deriving Inhabited

/-- `addCmds` of a whole target ACL (`add` + `addCmd`). -/
def transferAcl (e : Env) (st : St) (bN : Name) : St :=
  if st.aReady.contains bN then st else
  ({ st with aReady := bN :: st.aReady }.act (.transfer (st.nameOf bN) (e.b.lines bN))).hit "acl:transfer"

/-- `diffCmds(A.sub, B.sub, byParsedCmd)`. -/
def diffLines (e : Env) (st : St) (aN bN : Name) : St :=
  let al := e.a.lines aN
  let bl := e.b.lines bN
  let st := st.hit (editKind al bl (lookupD e.sc.acl (aN, bN)))
  if al.isEmpty && bl.isEmpty then st else st.act (.edit aN al bl (lookupD e.sc.acl (aN, bN)))

/-- `diffCmds(aRef, bRef, byParsedCmd)` for two ACL objects (both headers are
`ip access-list extended $NAME`, so the pair is always "equal": `makeEqual` adopts the device
name); returns the name to be referenced. -/
def diffAcl (e : Env) (st : St) (aN bN : Name) : St × Name :=
  if st.aNeeded.contains aN then
    let st := transferAcl e (st.hit "acl:device-acl-needed") bN
    (st, st.nameOf bN)
  else if st.aReady.contains bN then (st.hit "acl:target-acl-ready", st.nameOf bN)
  else
    let st := { st with aNeeded := aN :: st.aNeeded, aName := (bN, aN) :: st.aName,
                        aReady := bN :: st.aReady }.hit "acl:adopt"
    (diffLines e st aN bN, aN)

/-! ## `ip access-group` sub-commands of one interface pair -/

/-- `cmd.parsed` of the sub-command up to the common prefix `ip access-group `. -/
def bindKey (c : Config) (b : Bind) : String :=
  if c.hasAcl b.acl then "$REF " ++ b.dir else b.acl ++ " " ++ b.dir

/-- `markDeleted` of device sub-commands: the referenced ACLs get `toDelete`. -/
def markDeletedBinds (e : Env) (st : St) (bs : List Bind) : St :=
  { st with aToDel := bs.foldl (fun s b => if e.a.hasAcl b.acl then addSet b.acl s else s) st.aToDel }

/-- `delCmds` of device sub-commands `al[k]`, `k ∈ idx`, of device interface `i`. -/
def delBinds (e : Env) (st : St) (i : Nat) (intf : String) (al : List Bind) (idx : List Nat) : St :=
  let st := idx.foldl (fun st k =>
    if st.bNeeded.contains (i, k) then st else
    let b := al.getD k default
    ({ st with bNeeded := (i, k) :: st.bNeeded }.act (.unbind intf b.acl b.dir)).hit "bind:del") st
  if idx.isEmpty then st else markDeletedBinds e st (idx.map fun k => al.getD k default)

/-- `addCmds` of target sub-commands: referenced ACL first, then the sub-command. -/
def addBinds (e : Env) (st : St) (intf : String) (bs : List Bind) : St :=
  bs.foldl (fun st b =>
    if e.b.hasAcl b.acl then
      let st := transferAcl e st b.acl
      (st.act (.bind intf (st.nameOf b.acl) b.dir)).hit "bind:add"
    else (st.act (.bind intf b.acl b.dir)).hit "bind:add-dangling") st

/-- `makeEqual` for one pair of sub-commands. -/
def makeEqualBind (e : Env) (st : St) (i k : Nat) (intf : String) (a b : Bind) : St :=
  let st := { st with bNeeded := (i, k) :: st.bNeeded }
  if e.a.hasAcl a.acl && e.b.hasAcl b.acl then
    let (st, refName) := diffAcl e st a.acl b.acl
    if refName != a.acl then (st.act (.bind intf (st.nameOf b.acl) b.dir)).hit "bind:changed-ref" else st
  else st.hit "bind:equal-dangling"

/-- `diffCmds(a.sub, b.sub, byParsedCmd)` for the sub-commands of device interface `i`. -/
def diffBinds (e : Env) (st : St) (i : Nat) (intf : String) (al bl : List Bind) : St :=
  let diff := diffUnordered (al.map (bindKey e.a)) (bl.map (bindKey e.b))
  let all := List.range al.length
  if !(diff.any (·.isEqual)) then
    let st := if al.isEmpty then st else delBinds e (st.hit "bind:no-parts-equal") i intf al all
    if bl.isEmpty then st else addBinds e st intf bl
  else
    let st := diff.foldl (fun st r => if r.isDelete then delBinds e st i intf al (slice all r.lowA r.highA) else st) st
    diff.foldl (fun st r =>
      if r.isInsert then
        (if r.highB ≤ r.lowB then st else addBinds e st intf (slice bl r.lowB r.highB))
      else if r.isEqual then
        ((slice all r.lowA r.highA).zip (slice bl r.lowB r.highB)).foldl
          (fun st p => makeEqualBind e st i p.1 intf (al.getD p.1 default) p.2) st
      else st) st

/-! ## Interfaces -/

/-- `diffCmds` for the interface anchors (`al`: aligned device interfaces).  After
`checkIOSInterfaces` every target interface has a partner, so there is no insert range; delete
ranges and "no parts equal" print nothing (`delCmds`/`markDeleted`/`addCmd` return for
`interface`). -/
def diffIntfs (e : Env) (st : St) (al bl : List Intf) : St :=
  let diff := diffUnordered (al.map (·.name)) (bl.map (·.name))
  if !(diff.any (·.isEqual)) then (if al.isEmpty && bl.isEmpty then st else st.hit "intf:no-parts-equal")
  else
    diff.foldl (fun st r =>
      if r.isInsert then (if r.highB ≤ r.lowB then st else st.hit "intf:UNREACHABLE-insert")
      else if r.isEqual then
        ((slice (List.range al.length) r.lowA r.highA).zip (slice bl r.lowB r.highB)).foldl
          (fun st p =>
            let a := al.getD p.1 default
            diffBinds e ({ st with iNeeded := p.1 :: st.iNeeded }.hit "intf:pair") p.1 a.name a.binds p.2.binds) st
      else st.hit "intf:device-only") st

/-! ## Routes -/

def routeLe (x y : Route) : Bool :=
  x.sortKey < y.sortKey || (x.sortKey == y.sortKey && decide (x.text ≤ y.text))
def insertR (x : Route) : List Route → List Route
  | [] => [x]
  | y :: ys => if routeLe x y then x :: y :: ys else y :: insertR x ys
/-- `sortRoutes` (keys are pairwise different for pairwise different lines). -/
def sortRoutes (l : List Route) : List Route := l.foldr insertR []

def vrfInfo (vrf : String) : String :=
  "No IPv4 routing specified" ++ (if vrf == "" then "" else " for VRF " ++ vrf) ++ ", leaving untouched"

/-- `diffCmds` + `diffRoutes` for the (sorted) route lists. -/
def diffRoutes (st : St) (al bl : List Route) : St :=
  if al.isEmpty then
    bl.foldl (fun st r => (st.act (.route r.text)).hit "route:add") st
  else
    let diff := diffUnordered (al.map (·.text)) (bl.map (·.text))
    let chgVRF := bl.map (·.vrf)
    let dels : List (Nat × Route) := diff.flatMap fun r =>
      if r.isDelete then (List.range (r.highA - r.lowA)).map fun i => (r.lowA + i, al.getD (r.lowA + i) default) else []
    let inss := diff.flatMap fun r => if r.isInsert then slice bl r.lowB r.highB else []
    -- inserts, joined with the delete of the (last) old route to the same destination;
    -- `used`: device routes removed that way; `gone`: destinations taken out of `delDst`
    let (st, used, _) := inss.foldl (fun (s : St × List Nat × List (String × String)) r =>
      let (st, used, gone) := s
      match (dels.filter fun d => d.2.vrf == r.vrf && d.2.dst == r.dst && !gone.contains (r.vrf, r.dst)).getLast? with
      | some d => ((st.act (.replRoute d.2.text r.text)).hit "route:replace", d.1 :: used, (r.vrf, r.dst) :: gone)
      | none => ((st.act (.route r.text)).hit "route:add", used, gone)) (st, [], [])
    -- remaining deletes, per VRF only if Netspoc specifies routes for that VRF
    (dels.foldl (fun (s : St × List String) d =>
      let (st, seen) := s
      if chgVRF.contains d.2.vrf then
        (if used.contains d.1 then st else (st.act (.noRoute d.2.text)).hit "route:del", seen)
      else if seen.contains d.2.vrf then (st, seen)
      else ((st.msg (vrfInfo d.2.vrf)).hit "route:vrf-left-untouched", d.2.vrf :: seen)) (st, [])).1

/-! ## `alignVRFs`, `checkIOSInterfaces` -/

def quote (s : String) : String := "\"" ++ s ++ "\""

/-- `markNeeded(c.sub)` for a removed interface: its sub-commands (never looked at again) and the
ACLs they reference. -/
def markNeededIntf (a : Config) (st : St) (i : Intf) : St :=
  { st with aNeeded := i.binds.foldl (fun s b => if a.hasAcl b.acl then addSet b.acl s else s) st.aNeeded }

/-- Returns the marks, the aligned device configuration. -/
def alignVRFs (a b : Config) (st : St) : St × Config :=
  let bVRF := b.intfs.map (·.vrf) ++ b.routes.map (·.vrf)
  if bVRF.isEmpty then (st.hit "align:empty-target", a) else
  let gone := a.intfs.filter fun i => !bVRF.contains i.vrf
  let st := gone.foldl (fun st i => (markNeededIntf a st i).hit "align:interface-removed") st
  let goneR := a.routes.filter fun r => !bVRF.contains r.vrf
  let st := if goneR.isEmpty then st else st.hit "align:routes-removed"
  let removed := (sortS (gone.map (·.vrf) ++ goneR.map (·.vrf))).eraseDups
  let st := removed.foldl (fun st v =>
    st.msg ("Leaving VRF " ++ (if v == "" then "<global>" else v) ++ " untouched")) st
  (st, { a with intfs := a.intfs.filter fun i => bVRF.contains i.vrf,
                routes := a.routes.filter fun r => bVRF.contains r.vrf })

def vrfShown (v : String) : String := if v == "" then "<global>" else v
def inspectShown (b : Bool) : String := if b then "enabled" else "disabled"

/-- `checkIOSInterfaces`; `none` = error (the message is the last of `msgs`). -/
def checkInterfaces (a b : Config) (st : St) : St × Bool :=
  let bFind := fun (n : String) => (b.intfs.reverse.find? fun i => i.name == n)
  let step := fun (s : St × Bool) (ai : Intf) =>
    if !s.2 then s else
    let st := s.1
    match bFind ai.name with
    | some bi =>
      let st := if ai.addr != bi.addr && bi.addr != "negotiated" then
          (st.msg ("WARNING>>> Different address defined for interface " ++ ai.name ++
            ": Device: " ++ quote ai.addr ++ ", Netspoc: " ++ quote bi.addr)).hit "check:address-differs"
        else st
      if ai.inspect != bi.inspect then
        ((st.msg ("ERROR>>> Different 'ip inspect' defined for interface " ++ ai.name ++
          ": Device: " ++ inspectShown ai.inspect ++ ", Netspoc: " ++ inspectShown bi.inspect)).hit "check:inspect-differs", false)
      else if ai.vrf != bi.vrf then
        ((st.msg ("ERROR>>> Different VRFs defined for interface " ++ ai.name ++
          ": Device: " ++ vrfShown ai.vrf ++ ", Netspoc: " ++ vrfShown bi.vrf)).hit "check:vrf-differs", false)
      else (st, true)
    | none =>
      if !ai.shut && ai.addr != "" && !b.intfs.isEmpty then
        ((st.msg ("WARNING>>> Interface '" ++ ai.name ++ "' on device is not known by Netspoc")).hit "check:unknown-interface", true)
      else (st.hit "check:unknown-interface-silent", true)
  let s := a.intfs.foldl step (st, true)
  if !s.2 then s else
  match b.intfs.find? fun bi => !(a.intfs.any fun ai => ai.name == bi.name) with
  | some bi => ((s.1.msg ("ERROR>>> Interface '" ++ bi.name ++ "' from Netspoc not known on device")).hit "check:netspoc-interface-missing", false)
  | none => s

/-! ## `deleteUnused` -/

/-- What is in `toDelete` after the `stillReferenced` filter (sorted), and whether that filter
removed something.  Protected: ACLs referenced by a sub-command that is not `needed` of an interface
that is not `needed` (an interface unknown to Netspoc in a managed VRF). -/
def duPending (e : Env) (st : St) : List Name × Bool :=
  let cand := (e.a.acls.map (·.1)).filter fun n => !st.aNeeded.contains n && (st.aToDel.contains n || isTagged n)
  let still := ((List.range e.a.intfs.length).filter fun i => !st.iNeeded.contains i).flatMap fun i =>
    let bs := (e.a.intfs.getD i default).binds
    ((List.range bs.length).filter fun k => !st.bNeeded.contains (i, k)).filterMap fun k =>
      let n := (bs.getD k default).acl
      if e.a.hasAcl n && !st.aNeeded.contains n then some n else none
  (sortS ((cand.filter fun n => !still.contains n).eraseDups), cand.any still.contains)

def deleteUnused (e : Env) (st : St) : St :=
  let (p, sr) := duPending e st
  let st := if sr then st.hit "du:still-referenced" else st
  if p.isEmpty then st else (st.act (.cleanup p)).hit "du:cleanup"

/-! ## `GetChanges` -/

/-- `generateNamesForTransfer` for the target's access lists. -/
def generateNames (a b : Config) (st : St) : St :=
  { st with aName := b.acls.map fun x => (x.1, genName x.1 (a.acls.map (·.1))) }

structure Result where
  ok     : Bool            -- `false`: GetChanges returns an error (exit status 1, nothing printed)
  acts   : List MA
  script : List Chg
  msgs   : List String
  hits   : List String
  deriving Repr, Inhabited

def engine (a b : Config) (sc : Scripts) : Result :=
  let (st, a') := alignVRFs a b {}
  let (st, ok) := checkInterfaces a' b st
  if !ok then ⟨false, [], [], st.msgs, st.hits⟩ else
  let e : Env := ⟨a', b, sc⟩
  let st := generateNames a' b st
  let st := diffIntfs e st a'.intfs b.intfs
  let st := diffRoutes st (sortRoutes a'.routes) (sortRoutes b.routes)
  let st := deleteUnused e st
  ⟨true, st.acts, scriptOf st.acts, st.msgs, st.hits⟩

end NA.F2
