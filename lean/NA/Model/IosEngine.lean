import NA.Model.AclPlan
import NA.Model.AsaEngine
/-!
# The IOS diff engine of `cisco/diff.go` on fragment F2 (executable model)

Fragment F2: `interface X` anchors with the sub-commands `ip access-group NAME in|out` (compared) and
`ip address` / `ip unnumbered` / `shutdown` / `[ip] vrf forwarding` / `ip inspect` (extracted by
`checkIOSInterfaces`), `ip access-list extended NAME` objects with their entry lines (remarks
included), `ip route [vrf V] …`.  Unknown lines never reach the engine (the parser drops them).
The model's input is the *parsed* structure of both configurations; parsing is outside.  The model
produces the exact list of change lines that `drc` prints and the messages it writes to stderr.

Architecture (chosen so that the proofs are compositional):

    engine  : marks machine  ⟶  List MA      the DECISIONS of the code (which object is adopted, edited,
                                              transferred, bound, removed), function by function
    expand  : MA ⟶ List Ev                   the emission details of one decision (`diffIOSACLs`,
                                              `addCmds`/`addCmd`, `delCmds`, `diffRoutes`, `deleteUnused`)
    render  : List Ev ⟶ List Chg             `State.subCmdOf` / `setCmdConfMode` / `addToplevel`
                                              (mode lines and `exit`)

`State.subCmdOf` is written only by the emission primitives and read only by `setCmdConfMode` and by
`deleteUnused`, so threading it through `render` is the same computation as in the Go code.

What is mirrored (function names of `cisco/diff.go`): `GetChanges`, `alignVRFs` (+ `markNeeded`),
`checkIOSInterfaces`, `diffConfig` (prefixes in sorted order: interface, ip access-list extended — no
anchors —, ip route), `generateNamesForTransfer`, `sortRoutes`, `diffAnchors`/`diffNamedCmds2`,
`diffCmds` (all branches F2 reaches: needed short-cut, ready short-cut, "no parts equal" → `delCmds`/
`markDeleted` + `addCmds`, name adoption, delete-then-add for unordered sub-commands, `diffIOSACLs`),
`diffUnordered` (shared with the ASA model), `makeEqual` (reference followed into the ACL object, changed
reference ⇒ the sub-command is re-added), `diffIOSACLs` (line planner delegated to `NA.Acl.planIOS`;
resequence lines, dropped resequence when nothing changes), `addCmds`/`addCmd`/`addToplevel`/
`setCmdConfMode`, `delCmds`, `markDeleted`, `diffRoutes` (per VRF: `chgVRF`, replace in one transaction,
"No IPv4 routing specified …" info), `deleteUnused`, `getPrintableCmd`, `ShowChanges`.

Code facts used (checked by the correspondence on every run):
* interface and route commands have no `$NAME`; `generateNamesForTransfer` gives them the unused name
  `-DRC-0`; only `ip access-list extended` objects get printed generated names;
* `ip access-list extended` is not an ANCHOR: ACLs are reached only through references;
* the sub-commands of an interface left after `extractIntfInfo` are the `ip access-group` lines
  (`crypto map` is outside F2);
* a reference to an ACL that is not defined in the same file is dropped by `checkReferences`
  (`parsed = orig`, no `$REF`).
-/
namespace NA.F2
open NA.Acl (Range Act Cell)
open NA.F1 (genName isTagged sortS diffUnordered lookupD slice addSet)

abbrev Name := String

/-- One entry of an `ip access-list extended`.  `text`: `cmd.parsed` (normalised; what the Myers diff
compares and what is printed when the line is added); `nolog`: `text` with the regular expression
` log(?:-input)?` of `diffIOSACLs` removed (computed by the caller with Go's `regexp`); `orig`: the
line as it stands in the file (printed by `no <orig>`); `act`: first word (`getIOSAction`). -/
structure ALine where
  text  : String
  nolog : String
  orig  : String
  act   : Act
  deriving DecidableEq, Repr, Inhabited

/-- `ip access-group ACL in|out`. -/
structure Bind where
  acl : Name
  dir : String
  deriving DecidableEq, Repr, Inhabited

/-- `interface NAME` with what `extractIntfInfo` / `alignVRFs` read from its sub-commands.
`vrf`: `""` for the global table; `addr`: sorted addresses joined by `,` (`negotiated`,
`unnumbered` as they come). -/
structure Intf where
  name    : String
  vrf     : String := ""
  addr    : String := ""
  shut    : Bool := false
  inspect : Bool := false
  binds   : List Bind := []
  deriving DecidableEq, Repr, Inhabited

/-- `ip route TEXT`; `vrf`/`dst`: what `dstOfRoute` yields; `sortKey`: the byte `128 - bits`. -/
structure Route where
  text    : String
  vrf     : String
  dst     : String
  sortKey : Nat
  deriving DecidableEq, Repr, Inhabited

structure Config where
  intfs  : List Intf := []
  acls   : List (Name × List ALine) := []
  routes : List Route := []
  deriving Repr, Inhabited

/-- Myers scripts of the ACL pairs (device name, target name) on the `text` keys, computed by the
caller with the real library. -/
structure Scripts where
  acl : List ((Name × Name) × List Range) := []
  deriving Repr, Inhabited

def Config.hasAcl (c : Config) (n : Name) : Bool := c.acls.any (·.1 == n)
def Config.lines (c : Config) (n : Name) : List ALine := lookupD c.acls n

/-! ## Change lines -/

inductive Mode
  | acl (n : Name)         -- `ip access-list extended N`
  | intf (n : String)      -- `interface N`
  deriving DecidableEq, Repr, Inhabited

inductive Chg
  | reseq (acl : Name) (start step : Nat)      -- ip access-list resequence ACL s t
  | aclMode (n : Name)                         -- ip access-list extended N
  | intfMode (n : String)                      -- interface N
  | exit
  | entry (l : ALine)                          -- TEXT            (appended)
  | numEntry (n : Nat) (l : ALine)             -- N TEXT
  | noNum (n : Nat)                            -- no N
  | noEntry (l : ALine)                        -- no ORIG
  | move (dn an : Nat) (l : ALine)             -- no DN\N AN TEXT (one command line)
  | bind (acl : Name) (dir : String)           -- ip access-group ACL dir
  | noBind (acl : Name) (dir : String)         -- no ip access-group ACL dir
  | route (r : String)                         -- ip route R
  | noRoute (r : String)                       -- no ip route R
  | replRoute (old new : String)               -- no ip route OLD\N ip route NEW
  | noAcl (n : Name)                           -- no ip access-list extended N
  | bad                                        -- the passed script is not a script for this pair
  deriving DecidableEq, Repr, Inhabited

def Mode.line : Mode → Chg
  | .acl n => .aclMode n
  | .intf n => .intfMode n

def Chg.render : Chg → String
  | .reseq a s t => "ip access-list resequence " ++ a ++ " " ++ toString s ++ " " ++ toString t
  | .aclMode n => "ip access-list extended " ++ n
  | .intfMode n => "interface " ++ n
  | .exit => "exit"
  | .entry l => l.text
  | .numEntry n l => toString n ++ " " ++ l.text
  | .noNum n => "no " ++ toString n
  | .noEntry l => "no " ++ l.orig
  | .move dn an l => "no " ++ toString dn ++ "\\N " ++ toString an ++ " " ++ l.text
  | .bind a d => "ip access-group " ++ a ++ " " ++ d
  | .noBind a d => "no ip access-group " ++ a ++ " " ++ d
  | .route r => "ip route " ++ r
  | .noRoute r => "no ip route " ++ r
  | .replRoute o n => "no ip route " ++ o ++ "\\N ip route " ++ n
  | .noAcl n => "no ip access-list extended " ++ n
  | .bad => "<invalid script>"

/-- `ShowChanges`. -/
def showChanges (cs : List Chg) : List String := cs.map Chg.render

/-! ## Emission events and `subCmdOf` -/

inductive Ev
  | top (c : Chg)               -- `addToplevel`, `addCmd` of a command without sub-commands: `subCmdOf = ""`
  | openAcl (n : Name)          -- `addCmd` of an ACL header: printed, `subCmdOf = header` (no `exit`)
  | sub (p : Mode) (c : Chg)    -- `setCmdConfMode(p)`, then the command
  | reset                       -- `subCmdOf = ""` without output (resequence line added and dropped again)
  | exitTop (c : Chg)           -- `deleteUnused`: `exit` if `subCmdOf != ""`, then `addToplevel`
  deriving DecidableEq, Repr, Inhabited

/-- One event: printed lines and the new value of `subCmdOf`. -/
def renderEv (m : Option Mode) : Ev → List Chg × Option Mode
  | .top c => ([c], none)
  | .openAcl n => ([.aclMode n], some (.acl n))
  | .sub p c =>
    if m == some p then ([c], m)
    else ((if m.isSome then [Chg.exit] else []) ++ [p.line, c], some p)
  | .reset => ([], none)
  | .exitTop c => ((if m.isSome then [Chg.exit] else []) ++ [c], none)

def render : Option Mode → List Ev → List Chg
  | _, [] => []
  | m, e :: es => (renderEv m e).1 ++ render (renderEv m e).2 es

/-- Ghost: the same with the parent (`some p` for a sub-command emitted for parent `p`). -/
def renderEvP (m : Option Mode) : Ev → List (Option Mode × Chg)
  | .sub p c =>
    if m == some p then [(some p, c)]
    else (if m.isSome then [(none, Chg.exit)] else []) ++ [(none, p.line), (some p, c)]
  | e => (renderEv m e).1.map fun c => (none, c)

def renderP : Option Mode → List Ev → List (Option Mode × Chg)
  | _, [] => []
  | m, e :: es => renderEvP m e ++ renderP (renderEv m e).2 es

/-! ## One ACL pair: `diffCmds` on the entry lines, `diffIOSACLs` -/

/-- Numeric identities for the line planner: `key` ↔ `text`, `mkey` ↔ `nolog` (first index in the
table of all texts of the pair). -/
def encLine (tk mk : List String) (l : ALine) : NA.Acl.Line :=
  { key := tk.idxOf l.text, mkey := mk.idxOf l.nolog, permit := l.act == .permit, remark := l.act == .remark }

def pairCells (al bl : List ALine) (rs : List Range) : Option (List Cell) :=
  let tk := (al ++ bl).map (·.text)
  let mk := (al ++ bl).map (·.nolog)
  NA.Acl.cellsOf (al.map (encLine tk mk)) (bl.map (encLine tk mk)) rs

/-- The line that carries `key` (its text is the text of every line with that key). -/
def lineOfKey (al bl : List ALine) (k : Nat) : ALine := (al ++ bl).getD k default

def opEv (aN : Name) (al bl : List ALine) : NA.Acl.IOp → Ev
  | .add n l => .sub (.acl aN) (.numEntry n (lineOfKey al bl l.key))
  | .del n => .sub (.acl aN) (.noNum n)
  | .move dn an l => .sub (.acl aN) (.move dn an (lineOfKey al bl l.key))
  | _ => .top .bad

/-- Events of `diffCmds(A.sub, B.sub)` for the device ACL `aN` (both lists of entries, the Myers
script of the pair).  `al` empty: `diffUnordered` yields inserts only. -/
def editEvents (aN : Name) (al bl : List ALine) (rs : List Range) : List Ev :=
  let delAll := al.map fun l => Ev.sub (.acl aN) (.noEntry l)
  let addAll := bl.map fun l => Ev.sub (.acl aN) (.entry l)
  if al.isEmpty then addAll else
  match pairCells al bl rs with
  | none => [.top .bad]
  | some M =>
    if !(M.any fun c => c.old && c.new) then delAll ++ addAll
    else
      let ops := NA.Acl.planIOS M
      if ops.isEmpty then [.reset]
      else [.top (.reseq aN 10000 10000)] ++ ops.map (opEv aN al bl) ++ [.top (.reseq aN 10 10)]

/-- Branch taken (for the measured distribution) and the ghost flag of `planIOS'`. -/
def editKind (al bl : List ALine) (rs : List Range) : String :=
  if al.isEmpty then (if bl.isEmpty then "lines:both-empty" else "lines:device-acl-empty") else
  match pairCells al bl rs with
  | none => "lines:INVALID-SCRIPT"
  | some M =>
    if !(M.any fun c => c.old && c.new) then "lines:no-parts-equal"
    else
      (if (NA.Acl.planIOS M).isEmpty then
        (if al.map (·.text) == bl.map (·.text) then "lines:identical" else "lines:all-moves-suppressed")
       else "lines:incremental") ++ (if (NA.Acl.planIOS' M).2 then "+remark-suppression" else "")

/-! ## Decisions -/

inductive MA
  | transfer (name : Name) (ls : List ALine)                     -- whole ACL under a new name
  | edit (aN : Name) (al bl : List ALine) (rs : List Range)      -- device ACL `aN` towards `bl`
  | bind (intf : String) (acl : Name) (dir : String)
  | unbind (intf : String) (acl : Name) (dir : String)
  | route (r : String)
  | replRoute (old new : String)
  | noRoute (r : String)
  | cleanup (names : List Name)                                  -- `deleteUnused`, non-empty
  deriving DecidableEq, Repr, Inhabited

def expand : MA → List Ev
  | .transfer n ls => .openAcl n :: ls.map fun l => Ev.sub (.acl n) (.entry l)
  | .edit aN al bl rs => editEvents aN al bl rs
  | .bind i a d => [.sub (.intf i) (.bind a d)]
  | .unbind i a d => [.sub (.intf i) (.noBind a d)]
  | .route r => [.top (.route r)]
  | .replRoute o n => [.top (.replRoute o n)]
  | .noRoute r => [.top (.noRoute r)]
  | .cleanup [] => []
  | .cleanup (n :: ns) => .exitTop (.noAcl n) :: ns.map fun n => Ev.top (.noAcl n)

def scriptOf (acts : List MA) : List Chg := render none (acts.flatMap expand)

/-! ## Engine state (marks) -/

structure St where
  aNeeded : List Name := []            -- device ACLs: `needed`
  aToDel  : List Name := []            -- device ACLs: `toDelete`
  iNeeded : List Nat := []             -- device interfaces (index in the aligned list): `needed`
  bNeeded : List (Nat × Nat) := []     -- device `ip access-group` sub-commands (interface, position)
  aReady  : List Name := []            -- target ACLs: `ready`
  aName   : List (Name × Name) := []   -- target ACL ↦ current name (`cmd.name`)
  acts    : List MA := []
  msgs    : List String := []          -- stderr lines
  hits    : List String := []          -- ghost: branches taken
  deriving Repr, Inhabited

def St.hit (st : St) (h : String) : St := { st with hits := h :: st.hits }
def St.act (st : St) (a : MA) : St := { st with acts := st.acts ++ [a] }
def St.msg (st : St) (m : String) : St := { st with msgs := st.msgs ++ [m] }
def St.nameOf (st : St) (bN : Name) : Name := (st.aName.lookup bN).getD bN

structure Env where
  a  : Config          -- device, after `alignVRFs`
  b  : Config
  sc : Scripts
  deriving Inhabited

/-- `addCmds` of a whole target ACL (`add` + `addCmd`). -/
def transferAcl (e : Env) (st : St) (bN : Name) : St :=
  if st.aReady.contains bN then st else
  ({ st with aReady := bN :: st.aReady }.act (.transfer (st.nameOf bN) (e.b.lines bN))).hit "acl:transfer"

/-- `diffCmds(A.sub, B.sub, byParsedCmd)`. -/
def diffLines (e : Env) (st : St) (aN bN : Name) : St :=
  let al := e.a.lines aN
  let bl := e.b.lines bN
  let st := st.hit (editKind al bl (lookupD e.sc.acl (aN, bN)))
  if al.isEmpty && bl.isEmpty then st else st.act (.edit aN al bl (lookupD e.sc.acl (aN, bN)))

/-- `makeEqual` of two ACL objects: the device ACL is `needed`, the target ACL takes its name and is `ready`. -/
def adoptSt (st : St) (aN bN : Name) : St :=
  { st with aNeeded := aN :: st.aNeeded, aName := (bN, aN) :: st.aName, aReady := bN :: st.aReady }.hit "acl:adopt"

/-- `diffCmds(aRef, bRef, byParsedCmd)` for two ACL objects (both headers are
`ip access-list extended $NAME`, so the pair is always "equal": `makeEqual` adopts the device
name); returns the name to be referenced. -/
def diffAcl (e : Env) (st : St) (aN bN : Name) : St × Name :=
  if st.aNeeded.contains aN then
    let st := transferAcl e (st.hit "acl:device-acl-needed") bN
    (st, st.nameOf bN)
  else if st.aReady.contains bN then (st.hit "acl:target-acl-ready", st.nameOf bN)
  else
    (diffLines e (adoptSt st aN bN) aN bN, aN)

/-! ## `ip access-group` sub-commands of one interface pair -/

/-- `cmd.parsed` of the sub-command up to the common prefix `ip access-group `. -/
def bindKey (c : Config) (b : Bind) : String :=
  if c.hasAcl b.acl then "$REF " ++ b.dir else b.acl ++ " " ++ b.dir

/-- `delCmds` + `markDeleted` for one device sub-command `al[k]` of device interface `i`: the command
is removed unless it is `needed` already; the referenced ACL gets `toDelete`.  (The Go code first
prints all removals of the slice and then marks; the marks are not read in between, so doing both
per command gives the same state.) -/
def delBind1 (e : Env) (i : Nat) (intf : String) (al : List Bind) (st : St) (k : Nat) : St :=
  let b := al.getD k default
  let st := if st.bNeeded.contains (i, k) then st else
    ({ st with bNeeded := (i, k) :: st.bNeeded }.act (.unbind intf b.acl b.dir)).hit "bind:del"
  if e.a.hasAcl b.acl then { st with aToDel := addSet b.acl st.aToDel } else st

/-- `delCmds` of device sub-commands `al[k]`, `k ∈ idx`, of device interface `i`. -/
def delBinds (e : Env) (st : St) (i : Nat) (intf : String) (al : List Bind) (idx : List Nat) : St :=
  idx.foldl (delBind1 e i intf al) st

/-- `addCmds` of one target sub-command: referenced ACL first, then the sub-command. -/
def addBind1 (e : Env) (intf : String) (st : St) (b : Bind) : St :=
  if e.b.hasAcl b.acl then
    let st := transferAcl e st b.acl
    (st.act (.bind intf (st.nameOf b.acl) b.dir)).hit "bind:add"
  else (st.act (.bind intf b.acl b.dir)).hit "bind:add-dangling"

def addBinds (e : Env) (st : St) (intf : String) (bs : List Bind) : St := bs.foldl (addBind1 e intf) st

/-- `makeEqual` for one pair of sub-commands. -/
def makeEqualBind (e : Env) (st : St) (i k : Nat) (intf : String) (a b : Bind) : St :=
  let st := { st with bNeeded := (i, k) :: st.bNeeded }
  if e.a.hasAcl a.acl && e.b.hasAcl b.acl then
    let (st, refName) := diffAcl e st a.acl b.acl
    if refName != a.acl then (st.act (.bind intf (st.nameOf b.acl) b.dir)).hit "bind:changed-ref" else st
  else st.hit "bind:equal-dangling"

/-- `diffCmds(a.sub, b.sub, byParsedCmd)` for the sub-commands of device interface `i`. -/
def diffBinds (e : Env) (st : St) (i : Nat) (intf : String) (al bl : List Bind) : St :=
  let diff := diffUnordered (al.map (bindKey e.a)) (bl.map (bindKey e.b))
  let all := List.range al.length
  if !(diff.any (·.isEqual)) then
    let st := if al.isEmpty then st else delBinds e (st.hit "bind:no-parts-equal") i intf al all
    if bl.isEmpty then st else addBinds e st intf bl
  else
    let st := diff.foldl (fun st r => if r.isDelete then delBinds e st i intf al (slice all r.lowA r.highA) else st) st
    diff.foldl (fun st r =>
      if r.isInsert then
        (if r.highB ≤ r.lowB then st else addBinds e st intf (slice bl r.lowB r.highB))
      else if r.isEqual then
        ((slice all r.lowA r.highA).zip (slice bl r.lowB r.highB)).foldl
          (fun st p => makeEqualBind e st i p.1 intf (al.getD p.1 default) p.2) st
      else st) st

/-! ## Interfaces -/

/-- `makeEqual` for one pair of interfaces (`p.1`: index of the device interface). -/
def pairStep (e : Env) (al : List Intf) (st : St) (p : Nat × Intf) : St :=
  let a := al.getD p.1 default
  diffBinds e ({ st with iNeeded := p.1 :: st.iNeeded }.hit "intf:pair") p.1 a.name a.binds p.2.binds

/-- `diffCmds` for the interface anchors (`al`: aligned device interfaces).  After
`checkIOSInterfaces` every target interface has a partner, so there is no insert range; delete
ranges and "no parts equal" print nothing (`delCmds`/`markDeleted`/`addCmd` return for
`interface`).  The second fold only counts branches (ghost). -/
def diffIntfs (e : Env) (st : St) (al bl : List Intf) : St :=
  let diff := diffUnordered (al.map (·.name)) (bl.map (·.name))
  let st := diff.foldl (fun st r =>
      if r.isInsert then st
      else if r.isEqual then
        ((slice (List.range al.length) r.lowA r.highA).zip (slice bl r.lowB r.highB)).foldl (pairStep e al) st
      else st) st
  diff.foldl (fun st r =>
      if r.isInsert then (if r.highB ≤ r.lowB then st else st.hit "intf:UNREACHABLE-insert")
      else if r.isEqual then st else st.hit "intf:device-only")
    (if !(diff.any (·.isEqual)) && !(al.isEmpty && bl.isEmpty) then st.hit "intf:no-parts-equal" else st)

/-! ## Routes -/

def routeLe (x y : Route) : Bool :=
  x.sortKey < y.sortKey || (x.sortKey == y.sortKey && decide (x.text ≤ y.text))
def insertR (x : Route) : List Route → List Route
  | [] => [x]
  | y :: ys => if routeLe x y then x :: y :: ys else y :: insertR x ys
/-- `sortRoutes` (keys are pairwise different for pairwise different lines). -/
def sortRoutes (l : List Route) : List Route := l.foldr insertR []

def vrfInfo (vrf : String) : String :=
  "No IPv4 routing specified" ++ (if vrf == "" then "" else " for VRF " ++ vrf) ++ ", leaving untouched"

/-- `(vrf, destination)`: the key of `delDst`. -/
def Route.key (r : Route) : String × String := (r.vrf, r.dst)

/-- Second loop of `diffRoutes` for one added route `r`: `dels` are the deleted device routes (index,
route); `used`: device routes removed by a replacement so far; `gone`: keys taken out of `delDst`.
The last deleted route with the key of `r` is replaced, once. -/
def insStep (dels : List (Nat × Route)) (s : List MA × List Nat × List (String × String)) (r : Route) :
    List MA × List Nat × List (String × String) :=
  match (dels.filter fun d => d.2.key == r.key && !s.2.2.contains r.key).getLast? with
  | some d => (s.1 ++ [.replRoute d.2.text r.text], d.1 :: s.2.1, r.key :: s.2.2)
  | none => (s.1 ++ [.route r.text], s.2.1, s.2.2)

/-- `diffCmds` + `diffRoutes` for the (sorted) route lists: decisions and info messages. -/
def routePlan (al bl : List Route) : List MA × List String :=
  if al.isEmpty then (bl.map fun r => MA.route r.text, [])
  else
    let diff := diffUnordered (al.map (·.text)) (bl.map (·.text))
    let chgVRF := bl.map (·.vrf)
    let dels : List (Nat × Route) := diff.flatMap fun r =>
      if r.isDelete then (List.range (r.highA - r.lowA)).map fun i => (r.lowA + i, al.getD (r.lowA + i) default) else []
    let inss := diff.flatMap fun r => if r.isInsert then slice bl r.lowB r.highB else []
    -- inserts, joined with the delete of the (last) old route to the same destination
    let s := inss.foldl (insStep dels) ([], [], [])
    -- remaining deletes, per VRF only if Netspoc specifies routes for that VRF
    let acts2 := dels.filterMap fun d =>
      if chgVRF.contains d.2.vrf && !s.2.1.contains d.1 then some (MA.noRoute d.2.text) else none
    (s.1 ++ acts2, (((dels.map (·.2.vrf)).filter fun v => !chgVRF.contains v).eraseDups).map vrfInfo)

def routeHit : MA → String
  | .route _ => "route:add"
  | .replRoute _ _ => "route:replace"
  | .noRoute _ => "route:del"
  | _ => "route:?"

def diffRoutes (st : St) (al bl : List Route) : St :=
  let p := routePlan al bl
  { st with acts := st.acts ++ p.1, msgs := st.msgs ++ p.2,
            hits := (p.2.map fun _ => "route:vrf-left-untouched") ++ p.1.map routeHit ++ st.hits }

/-! ## `alignVRFs`, `checkIOSInterfaces` -/

def quote (s : String) : String := "\"" ++ s ++ "\""

/-- `markNeeded(c.sub)` for a removed interface: its sub-commands (never looked at again) and the
ACLs they reference. -/
def markNeededIntf (a : Config) (st : St) (i : Intf) : St :=
  { st with aNeeded := i.binds.foldl (fun s b => if a.hasAcl b.acl then addSet b.acl s else s) st.aNeeded }

/-- Returns the marks, the aligned device configuration. -/
def alignVRFs (a b : Config) (st : St) : St × Config :=
  let bVRF := b.intfs.map (·.vrf) ++ b.routes.map (·.vrf)
  if bVRF.isEmpty then (st.hit "align:empty-target", a) else
  let gone := a.intfs.filter fun i => !bVRF.contains i.vrf
  let st := gone.foldl (fun st i => (markNeededIntf a st i).hit "align:interface-removed") st
  let goneR := a.routes.filter fun r => !bVRF.contains r.vrf
  let st := if goneR.isEmpty then st else st.hit "align:routes-removed"
  let removed := (sortS (gone.map (·.vrf) ++ goneR.map (·.vrf))).eraseDups
  let st := removed.foldl (fun st v =>
    st.msg ("Leaving VRF " ++ (if v == "" then "<global>" else v) ++ " untouched")) st
  (st, { a with intfs := a.intfs.filter fun i => bVRF.contains i.vrf,
                routes := a.routes.filter fun r => bVRF.contains r.vrf })

def vrfShown (v : String) : String := if v == "" then "<global>" else v
def inspectShown (b : Bool) : String := if b then "enabled" else "disabled"

/-- The partner of a device interface: `bIntf[name]` (the last definition wins). -/
def bFind (b : Config) (n : String) : Option Intf := b.intfs.reverse.find? fun i => i.name == n

/-- One round of the loop over the device interfaces in `checkIOSInterfaces` (`s.2 = false`: an
error has been returned). -/
def checkStep (a b : Config) (s : St × Bool) (ai : Intf) : St × Bool :=
  if !s.2 then s else
  let st := s.1
  match bFind b ai.name with
  | some bi =>
    let st := if ai.addr != bi.addr && bi.addr != "negotiated" then
        (st.msg ("WARNING>>> Different address defined for interface " ++ ai.name ++
          ": Device: " ++ quote ai.addr ++ ", Netspoc: " ++ quote bi.addr)).hit "check:address-differs"
      else st
    if ai.inspect != bi.inspect then
      ((st.msg ("ERROR>>> Different 'ip inspect' defined for interface " ++ ai.name ++
        ": Device: " ++ inspectShown ai.inspect ++ ", Netspoc: " ++ inspectShown bi.inspect)).hit "check:inspect-differs", false)
    else if ai.vrf != bi.vrf then
      ((st.msg ("ERROR>>> Different VRFs defined for interface " ++ ai.name ++
        ": Device: " ++ vrfShown ai.vrf ++ ", Netspoc: " ++ vrfShown bi.vrf)).hit "check:vrf-differs", false)
    else (st, true)
  | none =>
    -- ACLs bound to an interface unknown to Netspoc must not be changed or deleted (repaired F-C07c)
    let st := markNeededIntf a st ai
    if !ai.shut && ai.addr != "" && !b.intfs.isEmpty then
      ((st.msg ("WARNING>>> Interface '" ++ ai.name ++ "' on device is not known by Netspoc")).hit "check:unknown-interface", true)
    else (st.hit "check:unknown-interface-silent", true)

/-- `checkIOSInterfaces`; `false` = error (the message is the last of `msgs`). -/
def checkInterfaces (a b : Config) (st : St) : St × Bool :=
  let s := a.intfs.foldl (checkStep a b) (st, true)
  if !s.2 then s else
  match b.intfs.find? fun bi => !(a.intfs.any fun ai => ai.name == bi.name) with
  | some bi => ((s.1.msg ("ERROR>>> Interface '" ++ bi.name ++ "' from Netspoc not known on device")).hit "check:netspoc-interface-missing", false)
  | none => s

/-! ## `deleteUnused` -/

/-- What is in `toDelete` after the `stillReferenced` filter (sorted), and whether that filter
removed something (ACL names are the keys of a map in the Go code: pairwise different).  Protected: ACLs referenced by a sub-command that is not `needed` of an interface
that is not `needed` (an interface unknown to Netspoc in a managed VRF). -/
def duPending (e : Env) (st : St) : List Name × Bool :=
  let cand := (e.a.acls.map (·.1)).filter fun n => !st.aNeeded.contains n && (st.aToDel.contains n || isTagged n)
  let still := ((List.range e.a.intfs.length).filter fun i => !st.iNeeded.contains i).flatMap fun i =>
    let bs := (e.a.intfs.getD i default).binds
    ((List.range bs.length).filter fun k => !st.bNeeded.contains (i, k)).filterMap fun k =>
      let n := (bs.getD k default).acl
      if e.a.hasAcl n && !st.aNeeded.contains n then some n else none
  (sortS (cand.filter fun n => !still.contains n), cand.any still.contains)

def deleteUnused (e : Env) (st : St) : St :=
  let (p, sr) := duPending e st
  let st := if sr then st.hit "du:still-referenced" else st
  if p.isEmpty then st else (st.act (.cleanup p)).hit "du:cleanup"

/-! ## `GetChanges` -/

/-- `generateNamesForTransfer` for the target's access lists. -/
def generateNames (a b : Config) (st : St) : St :=
  { st with aName := b.acls.map fun x => (x.1, genName x.1 (a.acls.map (·.1))) }

structure Result where
  ok     : Bool            -- `false`: GetChanges returns an error (exit status 1, nothing printed)
  acts   : List MA
  script : List Chg
  msgs   : List String
  hits   : List String
  deriving Repr, Inhabited

def engine (a b : Config) (sc : Scripts) : Result :=
  let (st, a') := alignVRFs a b {}
  let (st, ok) := checkInterfaces a' b st
  if !ok then ⟨false, [], [], st.msgs, st.hits⟩ else
  let e : Env := ⟨a', b, sc⟩
  let st := generateNames a' b st
  let st := diffIntfs e st a'.intfs b.intfs
  let st := diffRoutes st (sortRoutes a'.routes) (sortRoutes b.routes)
  let st := deleteUnused e st
  ⟨true, st.acts, scriptOf st.acts, st.msgs, st.hits⟩

end NA.F2
