/-
Text side of the gate model (C06 / C11): the string functions and regular expressions the Go code
applies to what a device sends.  Everything here is kernel-reducible (through `String.toList`),
so that concrete statements about strings are decided by evaluation.

* `hasSuffix`, `contains`, `trimSuffixL`, `trimSpaceL`, `lowerL` — strings.HasSuffix, Contains,
  TrimSuffix, TrimSpace, ToLower (ASCII letters; the marker words are ASCII).
* `Rx` — the fragment of Go's regexp (RE2) syntax that `checkbanner` values and the prompt
  patterns of the code use: literals, `.`, classes, `|`, `*`, `+`, `?`, `{n}`, groups, `^`, `$`,
  `(?i)`.  `Rx.search` = `FindStringIndex(s) != nil`.  `Rx.parse` reads the Go syntax (driver and
  differential test only); theorems use the AST.
-/
namespace NA.Gate

/-! ## strings -/

def hasSuffix (s suf : String) : Bool := suf.toList.isSuffixOf s.toList
def hasPrefix (s pre : String) : Bool := pre.toList.isPrefixOf s.toList

/-- `p` occurs in `l` as a contiguous block -/
def infixL : List Char → List Char → Bool
  | [], p => p.isEmpty
  | c :: cs, p => p.isPrefixOf (c :: cs) || infixL cs p

def contains (s sub : String) : Bool := infixL s.toList sub.toList

def isSpaceC (c : Char) : Bool := c == ' ' || c == '\n' || c == '\t' || c == '\r'

def trimSuffixL (l suf : List Char) : List Char :=
  if suf.isSuffixOf l then l.take (l.length - suf.length) else l

def trimSpaceL (l : List Char) : List Char :=
  ((l.dropWhile isSpaceC).reverse.dropWhile isSpaceC).reverse

def lowerL (l : List Char) : List Char := l.map Char.toLower

/-! ## regular expressions -/

inductive Rx
  | eps
  | chr (c : Char)
  /-- case-insensitive letter, stored in lower case -/
  | chrI (c : Char)
  /-- `.`: any character but newline -/
  | any
  /-- `[a-z…]`, `[^…]`; `ci`: under `(?i)` -/
  | cls (neg ci : Bool) (ranges : List (Char × Char))
  | seq (a b : Rx)
  | alt (a b : Rx)
  | star (a : Rx)
  /-- `^` and `$` (without `(?m)`: begin and end of the text) -/
  | bol
  | eol
  deriving Repr, Inhabited

namespace Rx

def inRanges (rs : List (Char × Char)) (x : Char) : Bool := rs.any fun r => r.1 ≤ x && x ≤ r.2

def starLoop (ma : Bool → List Char → (Bool → List Char → Bool) → Bool) :
    Nat → Bool → List Char → (Bool → List Char → Bool) → Bool
  | 0, st, s, k => k st s
  | n + 1, st, s, k =>
    k st s || ma st s (fun st' s' => decide (s'.length < s.length) && starLoop ma n st' s' k)

/-- Backtracking matcher in continuation style: `m r atStart s k` — some prefix of `s` matches
`r` and the continuation accepts the rest.  `atStart`: nothing has been consumed since the
beginning of the text. -/
def m : Rx → Bool → List Char → (Bool → List Char → Bool) → Bool
  | .eps, st, s, k => k st s
  | .chr c, _, x :: s, k => x == c && k false s
  | .chr _, _, [], _ => false
  | .chrI c, _, x :: s, k => x.toLower == c && k false s
  | .chrI _, _, [], _ => false
  | .any, _, x :: s, k => x != '\n' && k false s
  | .any, _, [], _ => false
  | .cls neg ci rs, _, x :: s, k =>
    ((inRanges rs x || (ci && (inRanges rs x.toLower || inRanges rs x.toUpper))) != neg) && k false s
  | .cls _ _ _, _, [], _ => false
  | .seq a b, st, s, k => m a st s (fun st' s' => m b st' s' k)
  | .alt a b, st, s, k => m a st s k || m b st s k
  | .star a, st, s, k => starLoop (m a) (s.length + 1) st s k
  | .bol, st, s, k => st && k st s
  | .eol, st, s, k => s.isEmpty && k st s

def searchFrom (r : Rx) : Bool → List Char → Bool
  | st, [] => m r st [] (fun _ _ => true)
  | st, c :: cs => m r st (c :: cs) (fun _ _ => true) || searchFrom r false cs

/-- `regexp.FindStringIndex(s) != nil` -/
def search (r : Rx) (s : List Char) : Bool := searchFrom r true s

/-- the regexp that is a plain word -/
def ofWord : List Char → Rx
  | [] => .eps
  | c :: cs => .seq (.chr c) (ofWord cs)

/-! ### reading Go syntax (not used in theorems) -/

def plus (a : Rx) : Rx := .seq a (.star a)
def opt (a : Rx) : Rx := .alt a .eps
def rep (a : Rx) : Nat → Rx
  | 0 => .eps
  | n + 1 => .seq a (rep a n)

def letter (ci : Bool) (c : Char) : Rx := if ci && c.isAlpha then .chrI c.toLower else .chr c

def hexVal (c : Char) : Nat :=
  if c.isDigit then c.toNat - '0'.toNat
  else if 'a' ≤ c ∧ c ≤ 'f' then c.toNat - 'a'.toNat + 10
  else if 'A' ≤ c ∧ c ≤ 'F' then c.toNat - 'A'.toNat + 10 else 0

/-- class for an escape like `\s`, `\d`, `\w` (and their negations) -/
def escClass (ci : Bool) : Char → Option Rx
  | 's' => some (.cls false ci [(' ', ' '), ('\t', '\t'), ('\n', '\n'), ('\r', '\r'), ('\x0c', '\x0c')])
  | 'S' => some (.cls true ci [(' ', ' '), ('\t', '\t'), ('\n', '\n'), ('\r', '\r'), ('\x0c', '\x0c')])
  | 'd' => some (.cls false ci [('0', '9')])
  | 'D' => some (.cls true ci [('0', '9')])
  | 'w' => some (.cls false ci [('0', '9'), ('A', 'Z'), ('a', 'z'), ('_', '_')])
  | 'W' => some (.cls true ci [('0', '9'), ('A', 'Z'), ('a', 'z'), ('_', '_')])
  | _ => none

def escChar : Char → Char
  | 'n' => '\n' | 'r' => '\r' | 't' => '\t' | 'f' => '\x0c' | 'a' => '\x07'
  | c => c

/-- items of a bracket class up to `]` -/
partial def parseClassItems (acc : List (Char × Char)) : List Char → Option (List (Char × Char) × List Char)
  | [] => none
  | ']' :: rest => if acc.isEmpty then parseClassItems [(']', ']')] rest else some (acc.reverse, rest)
  | '\\' :: 'x' :: h1 :: h2 :: rest =>
    let c := Char.ofNat (hexVal h1 * 16 + hexVal h2)
    parseClassItems ((c, c) :: acc) rest
  | '\\' :: c :: rest =>
    match escClass false c with
    | some (.cls false _ rs) => parseClassItems (rs.reverse ++ acc) rest
    | _ => parseClassItems ((escChar c, escChar c) :: acc) rest
  | a :: '-' :: b :: rest =>
    if b == ']' then parseClassItems (('-', '-') :: (a, a) :: acc) (b :: rest)
    else parseClassItems ((a, b) :: acc) rest
  | a :: rest => parseClassItems ((a, a) :: acc) rest

mutual
  /-- alternation level -/
  partial def parseAlt (ci : Bool) (s : List Char) : Option (Rx × List Char) := do
    let (a, rest) ← parseSeq ci .eps s
    match rest with
    | '|' :: rest' =>
      let (b, rest'') ← parseAlt ci rest'
      pure (.alt a b, rest'')
    | _ => pure (a, rest)

  partial def parseSeq (ci : Bool) (acc : Rx) (s : List Char) : Option (Rx × List Char) :=
    match s with
    | [] => some (acc, [])
    | '|' :: _ => some (acc, s)
    | ')' :: _ => some (acc, s)
    | _ => do
      let (a, rest) ← parseAtom ci s
      let (a', rest') := parsePostfix a rest
      parseSeq ci (match acc with | .eps => a' | _ => .seq acc a') rest'

  partial def parseAtom (ci : Bool) (s : List Char) : Option (Rx × List Char) :=
    match s with
    | '(' :: '?' :: ':' :: rest => do
      let (a, rest') ← parseAlt ci rest
      match rest' with | ')' :: r => pure (a, r) | _ => none
    | '(' :: '?' :: 'i' :: ')' :: rest => do
      -- the flag holds to the end of the enclosing group
      let (a, rest') ← parseAlt true rest
      pure (a, rest')
    | '(' :: rest => do
      let (a, rest') ← parseAlt ci rest
      match rest' with | ')' :: r => pure (a, r) | _ => none
    | '[' :: '^' :: rest => do
      let (rs, rest') ← parseClassItems [] rest
      pure (.cls true ci rs, rest')
    | '[' :: rest => do
      let (rs, rest') ← parseClassItems [] rest
      pure (.cls false ci rs, rest')
    | '.' :: rest => some (.any, rest)
    | '^' :: rest => some (.bol, rest)
    | '$' :: rest => some (.eol, rest)
    | '\\' :: 'x' :: h1 :: h2 :: rest => some (.chr (Char.ofNat (hexVal h1 * 16 + hexVal h2)), rest)
    | '\\' :: c :: rest =>
      match escClass ci c with
      | some r => some (r, rest)
      | none => some (.chr (escChar c), rest)
    | '*' :: _ => none
    | '+' :: _ => none
    | '?' :: _ => none
    | c :: rest => some (letter ci c, rest)
    | [] => none

  partial def parsePostfix (a : Rx) (s : List Char) : Rx × List Char :=
    match s with
    | '*' :: '?' :: rest => parsePostfix (.star a) rest
    | '+' :: '?' :: rest => parsePostfix (plus a) rest
    | '*' :: rest => parsePostfix (.star a) rest
    | '+' :: rest => parsePostfix (plus a) rest
    | '?' :: rest => parsePostfix (opt a) rest
    | '{' :: rest =>
      let digits := rest.takeWhile Char.isDigit
      let after := rest.dropWhile Char.isDigit
      match digits, after with
      | _ :: _, '}' :: r => parsePostfix (rep a (String.ofList digits).toNat!) r
      | _, _ => (a, s)
    | _ => (a, s)
end

/-- Go regexp source → AST (`none`: outside the supported fragment). -/
def parse (src : String) : Option Rx :=
  match parseAlt false src.toList with
  | some (r, []) => some r
  | _ => none

end Rx

end NA.Gate
