import NA.Model.IosSession
/-!
# Timings other than the fast device: data arriving in pieces

`goexpect` keeps a buffer; every time new bytes arrive the pattern is tried on the whole buffer
(leftmost match); the first buffer that matches wins, what follows the match goes back to the
buffer.  `expectChunks m buf chunks`: `buf` = what has arrived, `chunks` = the pieces that will
arrive (slow echo, prompt in pieces, any split at any byte); `none` = time-out (nothing more comes).

`tryChunks` is `TryPrompt` (time-out 0): only what HAS arrived is looked at, and it is discarded
if it contains no prompt; the pieces still to come stay in the stream.
-/
namespace NA.Ios

/-- consumed text, rest of the buffer, pieces still to come -/
def expectChunks (m : Str → Option Nat) (buf : Str) : List Str → Option (Str × Str × List Str)
  | [] => (m buf).map fun e => (buf.take e, buf.drop e, [])
  | c :: cs =>
    match m buf with
    | some e => some (buf.take e, buf.drop e, c :: cs)
    | none => expectChunks m (buf ++ c) cs

def promptEnd (s : Str) : Option Nat := (promptFind s).map (·.2)
def hashEnd (s : Str) : Option Nat := if endsWithHash s then some s.length else none

/-- `TryPrompt` on what has arrived: found?, rest of the buffer -/
def tryArrived (buf : Str) : Bool × Str :=
  match promptFind buf with
  | some r => (true, buf.drop r.2)
  | none => (false, [])


/-- strip a trailing `\nrouter#\nrouter#` (the fresh prompt + the regular prompt at the end of a
form-C answer): what is sent now, what is held back -/
def splitLate (out : Str) : Str × Str :=
  let tail := lit "\nrouter#\nrouter#"
  if tail.isPrefixOf (out.drop (out.length - tail.length)) && tail.length ≤ out.length
  then (out.take (out.length - 8), lit "\nrouter#") else (out, [])

/-- A timing other than the fast device, expressed as a device: the second prompt of an answer
that ends in two prompts arrives LATE — only together with the answer to the next packet. -/
def lateDevice {σ : Type} (D : Device σ) : Device (σ × Str) where
  step st s :=
    let r := D.step st.1 s
    let sp := splitLate r.2
    ((r.1, sp.2), st.2 ++ sp.1)

end NA.Ios
