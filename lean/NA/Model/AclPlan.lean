import NA.Core.Cells
/-
Executable models of the two incremental ACL planners of `cisco/diff.go`, on cells
(NA.Core.Cells): `diffASAACLs` (ASA, `line N` arithmetic kept in a position map) and
`diffIOSACLs` (IOS, resequenced numbers, permit/deny blocks, suppressed moves).
The Myers script is a parameter (any cell list).  Object-groups are not part of this model
(lines are compared as whole texts); see DESIGN.md C01/C02 for what that excludes.
-/
namespace NA.Acl

/-! ## ASA -/

inductive Op
  | add (pos : Nat) (l : Line)                          -- access-list N line pos+1 …
  | del (pos : Nat) (l : Line)                          -- no access-list N line pos+1 …
  | move (dpos : Nat) (a : Line) (apos : Nat) (b : Line) -- both, sent as one command
  | bad                                                  -- bookkeeping of the code is corrupted
  deriving DecidableEq, Repr

structure AsaSt where
  pos    : List Nat          -- the Go map `pos`, one entry per cell
  needed : List Nat := []    -- device lines already deleted / moved (`needed` flag)
  ops    : List Op := []     -- reversed
  deriving Repr

def countOld (M : List Cell) (i : Nat) : Nat := ((M.take i).filter (·.old)).length

/-- Initial positions: `pos[b] = r.LowA`, `pos[a] = index`: the number of device lines before. -/
def pos0 (M : List Cell) : List Nat := (List.range M.length).map (countOld M)

def addIdx (M : List Cell) : List Nat := (List.range M.length).filter fun i => (M.getD i default).new && !(M.getD i default).old
def delIdx (M : List Cell) : List Nat := (List.range M.length).filter fun i => (M.getD i default).old && !(M.getD i default).new

/-- `delMap[p] = a` over `del` in order: the last deleted line with that key wins. -/
def delLookup (M : List Cell) (mk : Nat) : Option Nat :=
  ((delIdx M).filter fun i => (M.getD i default).line.mkey == mk).getLast?

def asaDelACL (M : List Cell) (st : AsaSt) (i : Nat) : AsaSt × Option Op :=
  let p := st.pos.getD i 0
  let emit := if st.needed.contains i then none else some (Op.del p (M.getD i default).line)
  ({ st with pos := st.pos.map (fun q => if q > p then q - 1 else q), needed := i :: st.needed }, emit)

def asaAddACL (M : List Cell) (st : AsaSt) (j : Nat) : AsaSt × Op :=
  let p := st.pos.getD j 0
  ({ st with pos := st.pos.map (fun q => if q ≥ p then q + 1 else q) }, Op.add p (M.getD j default).line)

def asaAddStep (M : List Cell) (st : AsaSt) (j : Nat) : AsaSt :=
  match delLookup M (M.getD j default).line.mkey with
  | some i =>
    let (st1, d) := asaDelACL M st i
    let (st2, a) := asaAddACL M st1 j
    match d, a with
    | some (Op.del dp la), Op.add ap lb => { st2 with ops := Op.move dp la ap lb :: st2.ops }
    | _, _ => { st2 with ops := Op.bad :: st2.ops }
  | none =>
    let (st1, a) := asaAddACL M st j
    { st1 with ops := a :: st1.ops }

def asaDelStep (M : List Cell) (st : AsaSt) (i : Nat) : AsaSt :=
  if st.needed.contains i then st else
  let (st1, d) := asaDelACL M st i
  match d with
  | some op => { st1 with ops := op :: st1.ops }
  | none => st1

/-- `diffASAACLs` for lines without object-group references. -/
def planASA (M : List Cell) : List Op :=
  let st := (addIdx M).foldl (asaAddStep M) { pos := pos0 M }
  let st := (delIdx M).reverse.foldl (asaDelStep M) st
  st.ops.reverse

/-! ## IOS -/

inductive Act | permit | deny | remark
  deriving DecidableEq, Repr, Inhabited

def Line.act (l : Line) : Act := if l.remark then .remark else if l.permit then .permit else .deny

inductive IOp
  | add (num : Nat) (l : Line)                  -- `<num> <line>`
  | del (num : Nat)                             -- `no <num>`
  | move (dnum : Nat) (anum : Nat) (l : Line)   -- both, sent as one command
  | delText (l : Line)                          -- `no <line>` (branch "no parts equal")
  | append (l : Line)                           -- `<line>` without number
  | bad
  deriving DecidableEq, Repr

/-- `markIOSPermitDenyBlocks`: block id per device line (remarks belong to the current block). -/
def markBlocks : List Line → Nat → Option Act → List Nat
  | [], _, _ => []
  | l :: ls, id, cur =>
    let a := l.act
    if a == .remark || some a == cur then id :: markBlocks ls id cur
    else
      let id' := if cur.isSome then id + 1 else id
      id' :: markBlocks ls id' (some a)

def blocksOf (al : List Line) : List Nat := markBlocks al 1 none
def maxBlock (al : List Line) : Nat := (blocksOf al).foldl max 1

/-- `insideBlock(pos)`: `(action, id)` if the insert position lies strictly inside a block. -/
def insideBlock (al : List Line) (blk : List Nat) (pos : Nat) : Option (Act × Nat) :=
  let below := ((List.range pos).reverse.filter fun i => (al.getD i default).act != .remark).head?
  let above := ((List.range (al.length - pos)).map (· + pos) |>.filter fun i => (al.getD i default).act != .remark).head?
  let lowAct := below.map fun i => (al.getD i default).act
  let highAct := above.map fun i => (al.getD i default).act
  let id := match above, below with
    | some i, _ => blk.getD i 0
    | none, some i => blk.getD i 0
    | none, none => 0
  if lowAct == highAct then lowAct.map (·, id) else none

/-- Renumber the tail of a block that is split by an insert: entries from `lowA` on that carry `id`. -/
def splitFrom : List Nat → Nat → Nat → Nat → List Nat
  | [], _, _, _ => []
  | x :: xs, 0, id, newId => if x == id then newId :: splitFrom xs 0 id newId else x :: xs
  | x :: xs, k + 1, id, newId => x :: splitFrom xs k id newId

/-- Insert ranges of the script: maximal runs of new-only cells, with `before = r.LowA`
and the index of the first cell of the run. -/
def insertRuns : List Cell → Nat → Nat → List (Nat × Nat × List Line)
  | [], _, _ => []
  | c :: M, idx, before =>
    if c.new && !c.old then
      match insertRuns M (idx + 1) before with
      | (b, i, ls) :: rest => if b == before && i == idx + 1 then (before, idx, c.line :: ls) :: rest
                              else (before, idx, [c.line]) :: (b, i, ls) :: rest
      | [] => [(before, idx, [c.line])]
    else insertRuns M (idx + 1) (if c.old then before + 1 else before)

def blockPass (al : List Line) (runs : List (Nat × Nat × List Line)) (blk : List Nat) (maxID : Nat) : List Nat × Nat :=
  runs.foldl (fun (s : List Nat × Nat) run =>
    let (before, _, ls) := run
    match insideBlock al s.1 before with
    | some (action, id) =>
      if ls.any (fun c => c.act != action) then (splitFrom s.1 before id (s.2 + 1), s.2 + 1) else s
    | none => s) (blk, maxID)

structure IosSt where
  moved : List Nat := []     -- a-indices whose cmd was set to nil
  ops   : List IOp := []     -- reversed
  remarkSuppr : Bool := false  -- ghost: a move was suppressed next to / of a remark line

/-- a-index of the last deleted device line with that key (`delMap`). -/
def iosDelLookup (M : List Cell) (mk : Nat) : Option Nat :=
  (delLookup M mk).map (countOld M)

def iosRun (M : List Cell) (blk : List Nat) (st : IosSt) (run : Nat × Nat × List Line) : IosSt :=
  let (before, _, ls) := run
  let al := olds M
  let action0 := (ls.headD default).act
  let sameAct := ls.all fun c => c.act == action0
  let rec go (ls : List Line) (i : Nat) (moveOK : Bool) (st : IosSt) : IosSt :=
    match ls with
    | [] => st
    | b :: rest =>
      let moveOK := moveOK && action0 == b.act
      let num := before * 10000 + i + 1
      let st' := match iosDelLookup M b.mkey with
        | some ai =>
          if st.moved.contains ai then { st with ops := IOp.bad :: st.ops } else
          let oldID := blk.getD ai 0
          let suppressed := moveOK &&
            ((before > 0 && blk.getD (before - 1) 0 == oldID) || (sameAct && before < blk.length && blk.getD before 0 == oldID))
          let nearRemark := b.remark || (before > 0 && (al.getD (before - 1) default).remark)
            || (al.getD before default).remark
          if suppressed then { st with moved := ai :: st.moved, remarkSuppr := st.remarkSuppr || nearRemark }
          else { st with moved := ai :: st.moved, ops := IOp.move ((ai + 1) * 10000) num b :: st.ops }
        | none => { st with ops := IOp.add num b :: st.ops }
      go rest (i + 1) moveOK st'
  go ls 0 true st

/-- `diffIOSACLs` (without the two resequence commands, which the caller adds iff the result is non-empty);
`diffCmds`' branch "no parts equal" when the script keeps no line.  Second component: ghost flag
"some move was suppressed next to, or of, a remark line". -/
def planIOS' (M : List Cell) : List IOp × Bool :=
  let al := olds M
  if !(M.any fun c => c.old && c.new) then
    (al.map IOp.delText ++ (news M).map IOp.append, false)
  else
    let runs := insertRuns M 0 0
    let (blk, _) := blockPass al runs (blocksOf al) (maxBlock al)
    let st := runs.foldl (iosRun M blk) {}
    let dels := (delIdx M).map (countOld M)
    let st := dels.reverse.foldl (fun (st : IosSt) ai =>
      if st.moved.contains ai then st else { st with ops := IOp.del ((ai + 1) * 10000) :: st.ops }) st
    (st.ops.reverse, st.remarkSuppr)

def planIOS (M : List Cell) : List IOp := (planIOS' M).1

end NA.Acl
