/-
String helpers for the Linux models (C05).  Core Lean only; executable; everything works on
`List Char` (`Str`) so that the kernel can evaluate the functions (`decide`) and so that proofs go by
plain list induction — Lean's `String` is a byte array and its library functions do not reduce.
Only ASCII behaviour of the Go functions is modelled (`strings.ToLower`, `EqualFold`, `Fields`,
`TrimSpace` are Unicode aware in Go; the harness generates ASCII).
-/
namespace NA.Linux

abbrev Str := List Char

/-- Literal. -/
@[reducible] def s (x : String) : Str := x.toList

def Str.toS (x : Str) : String := String.ofList x

/-! ### prefixes, suffixes, search -/

def hasPrefix : Str → Str → Bool
  | _, [] => true
  | [], _ :: _ => false
  | a :: as, b :: bs => a == b && hasPrefix as bs

/-- `strings.CutPrefix`. -/
def cutPrefix : Str → Str → Option Str
  | x, [] => some x
  | [], _ :: _ => none
  | a :: as, b :: bs => if a == b then cutPrefix as bs else none

/-- `strings.CutSuffix` (returns the part before the suffix). -/
def cutSuffix (x suf : Str) : Option Str :=
  (cutPrefix x.reverse suf.reverse).map List.reverse

def hasSuffix (x suf : Str) : Bool := hasPrefix x.reverse suf.reverse

/-- `strings.Contains`. -/
def contains : Str → Str → Bool
  | [], sub => sub.isEmpty
  | x@(_ :: xs), sub => hasPrefix x sub || contains xs sub

/-- `strings.Cut(x, sep)` for a one-character separator: (before, after, found). -/
def cutChar (x : Str) (c : Char) : Str × Str × Bool :=
  match x.dropWhile (· != c) with
  | [] => (x, [], false)
  | _ :: a => (x.takeWhile (· != c), a, true)

/-- `strings.Split(x, sep)` for a one-character separator (always at least one element). -/
def splitChar (x : Str) (c : Char) : List Str :=
  let rec go : Str → Str → List Str
    | [], cur => [cur.reverse]
    | d :: ds, cur => if d == c then cur.reverse :: go ds [] else go ds (d :: cur)
  go x []

def joinWith (sep : Str) : List Str → Str
  | [] => []
  | [x] => x
  | x :: xs => x ++ sep ++ joinWith sep xs

/-- `strings.Replace(x, old, new, 1)` for non-empty `old`. -/
def replaceFirst : Str → Str → Str → Str
  | [], _, _ => []
  | x@(c :: cs), old, new =>
    match cutPrefix x old with
    | some rest => new ++ rest
    | none => c :: replaceFirst cs old new

/-! ### white space -/

def isSpace (c : Char) : Bool :=
  c == ' ' || c == '\t' || c == '\n' || c == '\r' || c == '\x0b' || c == '\x0c'

def trimLeftSpace : Str → Str
  | [] => []
  | c :: cs => if isSpace c then trimLeftSpace cs else c :: cs

/-- `strings.TrimSpace` (ASCII). -/
def trimSpace (x : Str) : Str := (trimLeftSpace (trimLeftSpace x).reverse).reverse

/-- `strings.Fields` (ASCII). -/
def fields (x : Str) : List Str :=
  let rec go : Str → Str → List Str
    | [], cur => if cur.isEmpty then [] else [cur.reverse]
    | c :: cs, cur =>
      if isSpace c then (if cur.isEmpty then go cs [] else cur.reverse :: go cs [])
      else go cs (c :: cur)
  go x []

/-! ### case -/

def lowerC (c : Char) : Char := if 'A' ≤ c ∧ c ≤ 'Z' then Char.ofNat (c.toNat + 32) else c

/-- `strings.ToLower` (ASCII). -/
def lower (x : Str) : Str := x.map lowerC

/-- `strings.EqualFold` (ASCII). -/
def equalFold (a b : Str) : Bool := lower a == lower b

/-- `strings.TrimLeft(x, "0")`. -/
def trimLeft0 : Str → Str
  | [] => []
  | c :: cs => if c == '0' then trimLeft0 cs else c :: cs

/-! ### byte-wise order (`sort.Strings`, `slices.Sorted` of string keys) -/

def strLe : Str → Str → Bool
  | [], _ => true
  | _ :: _, [] => false
  | a :: as, b :: bs => a.toNat < b.toNat || (a.toNat == b.toNat && strLe as bs)

def insertSorted (le : α → α → Bool) (x : α) : List α → List α
  | [] => [x]
  | y :: ys => if le x y then x :: y :: ys else y :: insertSorted le x ys

/-- Stable insertion sort (`le x y` = "x may stay before y"). -/
def isort (le : α → α → Bool) : List α → List α
  | [] => []
  | x :: xs => insertSorted le x (isort le xs)

def sortStrs (l : List Str) : List Str := isort strLe l

/-! ### numbers -/

def isDigit (c : Char) : Bool := '0' ≤ c && c ≤ '9'

def natToStr (n : Nat) : Str := (toString n).toList

def intToStr (i : Int) : Str := if i < 0 then '-' :: natToStr i.natAbs else natToStr i.toNat

/-- value of a digit in bases up to 36, as `strconv.ParseUint` reads it. -/
def digitVal (c : Char) : Option Nat :=
  if isDigit c then some (c.toNat - '0'.toNat)
  else let l := lowerC c
    if 'a' ≤ l ∧ l ≤ 'z' then some (l.toNat - 'a'.toNat + 10) else none

/-- `strconv.underscoreOK`. -/
def underscoreOK (x : Str) : Bool :=
  let x := match x with | '-' :: r => r | '+' :: r => r | _ => x
  let (x, saw0, hex) := match x with
    | '0' :: c :: r =>
      let l := lowerC c
      if l == 'b' || l == 'o' || l == 'x' then (r, '0', l == 'x') else (x, '^', false)
    | _ => (x, '^', false)
  let rec go : Str → Char → Bool
    | [], saw => saw != '_'
    | c :: cs, saw =>
      if isDigit c || (hex && 'a' ≤ lowerC c && lowerC c ≤ 'f') then go cs '0'
      else if c == '_' then (if saw != '0' then false else go cs '_')
      else if saw == '_' then false
      else go cs '!'
  go x saw0

/-- base prefix of `ParseUint(x, 0, _)`: (base, digits) -/
def basePrefix (x : Str) : Nat × Str :=
  match x with
  | '0' :: c :: r =>
    let l := lowerC c
    if r.length ≥ 1 && l == 'b' then (2, r)
    else if r.length ≥ 1 && l == 'o' then (8, r)
    else if r.length ≥ 1 && l == 'x' then (16, r)
    else (8, c :: r)
  | '0' :: r => (8, r)
  | _ => (10, x)

/-- the digit loop of `ParseUint`: value and "saw an underscore" -/
def uintDigits (base : Nat) : Str → Nat → Bool → Option (Nat × Bool)
  | [], n, us => some (n, us)
  | c :: cs, n, us =>
    if c == '_' then uintDigits base cs n true
    else match digitVal c with
      | none => none
      | some d => if d ≥ base then none else uintDigits base cs (n * base + d) us

/-- `strconv.ParseUint(x, 0, _)` without the range check: the value, or none on a syntax error. -/
def parseUint0 (x : Str) : Option Nat :=
  if x.isEmpty then none else
  match uintDigits (basePrefix x).1 (basePrefix x).2 0 false with
  | none => none
  | some (n, us) => if us && !underscoreOK x then none else some n

/-- optional sign of `ParseInt` -/
def splitSign (x : Str) : Bool × Str :=
  match x with
  | '+' :: r => (false, r)
  | '-' :: r => (true, r)
  | _ => (false, x)

/-- `strconv.ParseInt(x, 0, 32)`: the value if no error. -/
def parseInt32 (x : Str) : Option Int :=
  if x.isEmpty then none else
  match parseUint0 (splitSign x).2 with
  | none => none
  | some n =>
    if !(splitSign x).1 && n ≥ 2147483648 then none
    else if (splitSign x).1 && n > 2147483648 then none
    else some (if (splitSign x).1 then - (n : Int) else n)

/-- `strconv.Atoi` with the error ignored (`prefix, _ = strconv.Atoi(..)`): 0 on a syntax error, the
clamped value on a range error. -/
def atoiOrZero (x : Str) : Int :=
  let (neg, r) := match x with | '+' :: r => (false, r) | '-' :: r => (true, r) | _ => (false, x)
  if r.isEmpty || !r.all isDigit then 0 else
  let n := r.foldl (fun acc c => acc * 10 + (c.toNat - '0'.toNat)) 0
  if neg then (if n > 9223372036854775808 then -9223372036854775808 else - (n : Int))
  else (if n > 9223372036854775807 then 9223372036854775807 else n)

/-- Go's `%q` for the ASCII strings the harness generates. -/
def goQuote (x : Str) : Str :=
  '"' :: (x.flatMap fun c =>
    if c == '"' then ['\\', '"'] else if c == '\\' then ['\\', '\\']
    else if c == '\t' then ['\\', 't'] else [c]) ++ ['"']

end NA.Linux
