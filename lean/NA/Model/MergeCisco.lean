import NA.Model.Merge
/-
General model of `cisco.(*Config).MergeSpoc` (round 3 of C18): the complete recursion
`MergeSpoc → mergeCmds → {mergeCryptoMap, mergeCryptoDynMap, mergeASAACLs, mergeIOSACLs, generic} →
mergeSubCmds / mergeRefs → mergeCmds …` over the command table that `ParseConfig` produces
(every prefix: routes, interfaces, access-groups, ACLs, object-groups, crypto maps, dynamic maps,
transform sets, group-policies, tunnel-groups, usernames, …).

Input and output are the tables the hook `cisco.VerifConfDump` shows; the parser is not modelled, its
real output is fed to this model by the harness.  Core Lean only; executable.

Pointers of the Go code become values: a function that mutates a command returns the new command.
`isReferenced` is keyed by the lookup key (prefix, name) of the raw / IPv6 table, which identifies
`bl[0]`.  One deliberate gap: the Go code also mutates the commands of `b` it has already merged; reading
them a second time (possible only for an IPv6 file that references a non-simple object from two new
commands) is answered with `.unmodelled`.
-/
namespace NA.C18.G

structure Sub where
  parsed    : String
  name      : String := ""
  seq       : Nat := 0
  ref       : List String := []
  refPrefix : List String := []
  app       : Bool := false
  deriving DecidableEq, Repr, Inhabited

structure Cmd where
  typPrefix : String := ""
  parsed    : String
  name      : String := ""
  seq       : Nat := 0
  ref       : List String := []
  refPrefix : List String := []
  app       : Bool := false
  anchor    : Bool := false
  simple    : Bool := false
  sub       : List Sub := []
  deriving DecidableEq, Repr, Inhabited

/-- prefix ↦ name ↦ commands (`objLookup`); first entry with a key counts. -/
abbrev NameTbl := List (String × List Cmd)
abbrev Tbl := List (String × NameTbl)

inductive Err
  | onlyOnce (pfx name : String)      -- "Must reference '…' only once in raw"
  | nameClash (pfx name : String)     -- "Name clash for '…' from raw"
  | notSupported (pfx : String)       -- "Command '…' not supported in raw file"
  | missingPeer (name : String) (seq : Nat)  -- "Missing peer or dynamic in crypto map …"
  | panic                             -- Go runtime panic (index out of range, nil)
  | depth                             -- reference chain longer than the model's fuel
  | unmodelled                        -- see header
  deriving DecidableEq, Repr, Inhabited

/-! ### Tables -/

def assocGet {β : Type} (t : List (String × β)) (k : String) : Option β :=
  (t.find? (fun p => p.1 == k)).map (·.2)

def assocSet {β : Type} : List (String × β) → String → β → List (String × β)
  | [], k, v => [(k, v)]
  | p :: t, k, v => if p.1 == k then (k, v) :: t else p :: assocSet t k v

def Tbl.names (t : Tbl) (pfx : String) : NameTbl := (assocGet t pfx).getD []
/-- `lookup[prefix][name]` (nil if absent). -/
def Tbl.get (t : Tbl) (pfx name : String) : List Cmd := (assocGet (t.names pfx) name).getD []
/-- `_, found := lookup[prefix][name]`. -/
def Tbl.has (t : Tbl) (pfx name : String) : Bool := (assocGet (t.names pfx) name).isSome
def Tbl.set (t : Tbl) (pfx name : String) (l : List Cmd) : Tbl :=
  assocSet t pfx (assocSet (t.names pfx) name l)

def insertSorted (k : String) : List String → List String
  | [] => [k]
  | x :: xs => if k ≤ x then k :: x :: xs else x :: insertSorted k xs
def sortStrings (l : List String) : List String := l.foldl (fun acc k => insertSorted k acc) []

abbrev Key := String × String

structure St where
  a    : Tbl
  refT : List Key := []     -- `isReferenced[c] == true`
  seen : List Key := []     -- keys entered into `isReferenced` with value false (they may turn true later)
  log  : List Key := []     -- ghost: non-simple objects of `b` handed to `mergeCmds` by `mergeRefs`, in order
  writes : List (Key × List Cmd) := []   -- ghost: every `a.lookup[prefix][name] = …` of the merge, in order
  deriving Repr, Inhabited

def St.isRefd (st : St) (k : Key) : Bool := st.refT.contains k
/-- `isReferenced[c] = true`. -/
def St.markRef (st : St) (k : Key) : St := { st with refT := k :: st.refT }
/-- `isReferenced[c] = false` (done only while `!isReferenced[c]`). -/
def St.markSeen (st : St) (k : Key) : St := { st with seen := st.seen ++ [k] }
/-- `a.lookup[prefix][name] = l` (the only way the table changes). -/
def St.store (st : St) (pfx name : String) (l : List Cmd) : St :=
  { st with a := st.a.set pfx name l, writes := st.writes ++ [((pfx, name), l)] }

def listSet {α : Type} (l : List α) (i : Nat) (v : α) : List α := l.set i v

/-! ### String helpers (`strings.Contains`, `strings.Cut`, `strings.Split`) -/

def isPrefixL : List Char → List Char → Bool
  | [], _ => true
  | _ :: _, [] => false
  | p :: ps, c :: cs => p == c && isPrefixL ps cs

def containsL (pat : List Char) : List Char → Bool
  | [] => pat.isEmpty
  | c :: cs => isPrefixL pat (c :: cs) || containsL pat cs

/-- Text behind the first occurrence of `pat`. -/
def cutAfterL (pat : List Char) : List Char → Option (List Char)
  | [] => if pat.isEmpty then some [] else none
  | c :: cs => if isPrefixL pat (c :: cs) then some ((c :: cs).drop pat.length) else cutAfterL pat cs

/-- `strings.Split(s, " ")`. -/
def wordsL : List Char → List Char → List String
  | [], cur => [String.ofList cur.reverse]
  | c :: cs, cur => if c == ' ' then String.ofList cur.reverse :: wordsL cs [] else wordsL cs (c :: cur)

def startsWith (s pat : String) : Bool := isPrefixL pat.toList s.toList
def contains (s pat : String) : Bool := containsL pat.toList s.toList
def cutAfter (s pat : String) : Option String := (cutAfterL pat.toList s.toList).map String.ofList

/-- `key` of `mergeCryptoCommon`: 5th and 6th word. -/
def cryptoKey (parsed : String) : String × String :=
  let t := wordsL parsed.toList []
  (t.getD 4 "", t.getD 5 "")

/-! ### Line kinds of ACLs (for the placement rules of `Merge.lean`) -/

def asaKind (parsed : String) : Kind :=
  if parsed == "access-list $NAME extended deny ip any6 any6" then .any6
  else if contains parsed "$NAME extended permit" then .permit else .deny

def iosKind (parsed : String) : Kind := if startsWith parsed "permit " then .permit else .deny

/-- Run a list merge of `Merge.lean` on arbitrary elements: tag them with their position, merge the
tags, read the elements back.  So every law proved about the tag lists holds for the elements. -/
def tagList {α : Type} (kind : α → Kind) (app : α → Bool) : Nat → List α → List Entry
  | _, [] => []
  | off, x :: xs => { id := off, kind := kind x, app := app x } :: tagList kind app (off + 1) xs

def pick {α : Type} (all : List α) (es : List Entry) : List α := es.filterMap (fun e => all[e.id]?)

def mergeVia {α : Type} (f : List Entry → List Entry → List Entry) (kind : α → Kind) (app : α → Bool)
    (al bl : List α) : List α :=
  pick (al ++ bl) (f (tagList kind app 0 al) (tagList kind app al.length bl))

/-! ### `mergeRefs` -/

/-- The recursive call `mergeCmds(&refPair, storeName, prefix)`. -/
abbrev Rec := St → (al bl : List Cmd) → (name pfx : String) → Except Err St

/-- `findSimpleObject` + `simpleObjEqual`. -/
def simpleEq (ac bc : Cmd) : Bool :=
  ac.parsed == bc.parsed &&
    sortStrings (ac.sub.map (·.parsed)) == sortStrings (bc.sub.map (·.parsed))

def findSimple (bl : List Cmd) (a : Tbl) : Option (List Cmd) :=
  match bl with
  | [] => none
  | bc :: _ =>
    let m := a.names bc.typPrefix
    let names := sortStrings (m.map (·.1))
    names.findSome? (fun n =>
      let al := (assocGet m n).getD []
      match al with
      | ac :: _ => if simpleEq ac bc then some al else none
      | [] => none)

/-- Simple object found (or added): write its name into `a.ref[i]` resp. `b.ref[i]`. -/
def simpleFinish (st : St) (al : List Cmd) (aref : Option (List String)) (bref : List String) (i : Nat) :
    St × Option (List String) × List String :=
  let objName := (al.head?.map (·.name)).getD ""
  match aref with
  | some ar => (st, some (listSet ar i objName), bref)
  | none => (st, none, listSet bref i objName)

/-- One reference `b.ref[i]`.  `aref`: the references of the command of `a` that `b` was matched with
(`none` = `a == nil`).  Returns the new state and the new values of `a.ref`, `b.ref`. -/
def refStep (rec : Rec) (b : Tbl) (raw : Bool)
    (acc : St × Option (List String) × List String) (i : Nat) (bName pfx : String) :
    Except Err (St × Option (List String) × List String) :=
  let (st, aref, bref) := acc
  match b.get pfx bName with
  | [] => .error .panic
  | refCmd :: rest =>
    let bl := refCmd :: rest
    let key : Key := (pfx, bName)
    if refCmd.simple then
      let st := st.markRef key
      match findSimple bl st.a with
      | some al => .ok (simpleFinish st al aref bref i)
      | none =>
        if st.a.has pfx bName && raw then .error (.nameClash pfx bName)
        else .ok (simpleFinish (st.store pfx bName bl) bl aref bref i)
    else
      match aref with
      | some ar =>
        if st.isRefd key then .error (.onlyOnce pfx bName)
        else
          let storeName := ar.getD i ""
          let al := st.a.get pfx storeName
          let bl' := bl.map (fun c => { c with name := storeName })
          match rec { st.markRef key with log := st.log ++ [key] } al bl' storeName pfx with
          | .ok st' => .ok (st', aref, bref)
          | .error e => .error e
      | none =>
        if raw && st.a.has pfx bName then .error (.nameClash pfx bName)
        else if raw && st.isRefd key then .error (.onlyOnce pfx bName)
        else if st.isRefd key then .error .unmodelled
        else match rec { st.markRef key with log := st.log ++ [key] } [] bl bName pfx with
          | .ok st' => .ok (st', aref, bref)
          | .error e => .error e

def foldE {σ β : Type} (f : σ → β → Except Err σ) : σ → List β → Except Err σ
  | s, [] => .ok s
  | s, x :: xs => match f s x with
    | .ok s' => foldE f s' xs
    | .error e => .error e

/-- `mergeRefs(ab, a, b)`: all references of `b` in order. -/
def mergeRefs (rec : Rec) (b : Tbl) (raw : Bool) (st : St) (aref : Option (List String))
    (bref brefPfx : List String) : Except Err (St × Option (List String) × List String) :=
  foldE (fun acc (p : Nat × String × String) => refStep rec b raw acc p.1 p.2.1 p.2.2)
    (st, aref, bref) ((List.range bref.length).zip (bref.zip (brefPfx ++ List.replicate bref.length "?")))

/-! ### `mergeSubCmds` and the generic branch of `mergeCmds` -/

/-- Index of the last element equal to `k` (the Go maps `m[a.parsed] = a`, `m[key(aCmd)] = aCmd`:
the last command with a key wins). -/
def lastIdxFrom {β : Type} [BEq β] (k : β) : Nat → List β → Option Nat → Option Nat
  | _, [], acc => acc
  | i, x :: xs, acc => lastIdxFrom k (i + 1) xs (if x == k then some i else acc)

def lastIdxOf {β : Type} [BEq β] (l : List β) (k : β) : Option Nat := lastIdxFrom k 0 l none

def lastIdx (ps : List String) (p : String) : Option Nat := lastIdxOf ps p

def subStep (rec : Rec) (b : Tbl) (raw : Bool) (keys : List String)
    (acc : St × List Sub) (bs : Sub) : Except Err (St × List Sub) :=
  let (st, asub) := acc
  match lastIdx keys bs.parsed with
  | some j =>
    match asub[j]? with
    | none => .error .panic
    | some as =>
      match mergeRefs rec b raw st (some as.ref) bs.ref bs.refPrefix with
      | .ok (st', ar, _) => .ok (st', listSet asub j { as with ref := ar.getD as.ref })
      | .error e => .error e
  | none =>
    match mergeRefs rec b raw st none bs.ref bs.refPrefix with
    | .ok (st', _, br) => .ok (st', asub ++ [{ bs with ref := br }])
    | .error e => .error e

/-- `mergeSubCmds(ab, a, b)`. -/
def mergeSubCmds (rec : Rec) (b : Tbl) (raw : Bool) (st : St) (a bc : Cmd) : Except Err (St × Cmd) :=
  match foldE (subStep rec b raw (a.sub.map (·.parsed))) (st, a.sub) bc.sub with
  | .ok (st', asub) => .ok (st', { a with sub := asub })
  | .error e => .error e

/-- New subcommands: `for _, bs := range b.sub { mergeRefs(ab, nil, bs) }`. -/
def newSubStep (rec : Rec) (b : Tbl) (raw : Bool) (acc : St × List Sub) (bs : Sub) : Except Err (St × List Sub) :=
  match mergeRefs rec b raw acc.1 none bs.ref bs.refPrefix with
  | .ok (st', _, br) => .ok (st', acc.2 ++ [{ bs with ref := br }])
  | .error e => .error e

def genericStep (rec : Rec) (b : Tbl) (raw : Bool) (keys : List String)
    (acc : St × List Cmd) (bc : Cmd) : Except Err (St × List Cmd) :=
  let (st, al) := acc
  match lastIdx keys bc.parsed with
  | some j =>
    match al[j]? with
    | none => .error .panic
    | some a =>
      match mergeSubCmds rec b raw st a bc with
      | .error e => .error e
      | .ok (st1, a1) =>
        match mergeRefs rec b raw st1 (some a1.ref) bc.ref bc.refPrefix with
        | .ok (st2, ar, _) => .ok (st2, listSet al j { a1 with ref := ar.getD a1.ref })
        | .error e => .error e
  | none =>
    match foldE (newSubStep rec b raw) (st, []) bc.sub with
    | .error e => .error e
    | .ok (st1, subs) =>
      match mergeRefs rec b raw st1 none bc.ref bc.refPrefix with
      | .ok (st2, _, br) => .ok (st2, al ++ [{ bc with ref := br, sub := subs }])
      | .error e => .error e

def mergeGeneric (rec : Rec) (b : Tbl) (raw : Bool) (st : St) (al bl : List Cmd) (name pfx : String) :
    Except Err St :=
  match foldE (genericStep rec b raw (al.map (·.parsed))) (st, al) bl with
  | .ok (st', al') => .ok (st'.store pfx name al')
  | .error e => .error e

/-! ### ACLs -/

def aclRefStep (rec : Rec) (b : Tbl) (raw : Bool) (acc : St × List Cmd) (bc : Cmd) : Except Err (St × List Cmd) :=
  match mergeRefs rec b raw acc.1 none bc.ref bc.refPrefix with
  | .ok (st', _, br) => .ok (st', acc.2 ++ [{ bc with ref := br }])
  | .error e => .error e

/-- `mergeASAACLs`: references of the new lines first, then the placement of `Merge.mergeASA`. -/
def mergeAsaAcl (rec : Rec) (b : Tbl) (raw : Bool) (st : St) (al bl : List Cmd) (name pfx : String) :
    Except Err St :=
  match foldE (aclRefStep rec b raw) (st, []) bl with
  | .error e => .error e
  | .ok (st', bl') =>
    .ok (st'.store pfx name (mergeVia mergeASA (fun c => asaKind c.parsed) (·.app) al bl'))

/-- `mergeIOSACLs`: lines of all blocks of the raw ACL; the result is stored in the first raw block. -/
def mergeIosAcl (st : St) (al bl : List Cmd) (name pfx : String) : Except Err St :=
  match bl with
  | [] => .error .panic
  | b0 :: _ =>
    let acl := (al.head?.map (·.sub)).getD []
    let lines := bl.flatMap (·.sub)
    let merged : Cmd := { b0 with sub := mergeVia mergeIOS (fun (s : Sub) => iosKind s.parsed) (·.app) acl lines }
    .ok (st.store pfx name [merged])

/-! ### Crypto maps -/

/-- `mergeCryptoCommon`: a raw command whose 5th/6th word equal those of a Netspoc command replaces it
(or, if identical, merges its subcommands and references); other raw commands are added.
`subs = false` is the code as found: the subcommands of an identical command (IOS crypto map entry) were
not merged (F-C18i). -/
def cryptoStepG (subs : Bool) (rec : Rec) (b : Tbl) (raw : Bool) (keys : List (String × String)) (al0 : List Cmd)
    (acc : St × List Cmd × List Cmd) (bc : Cmd) : Except Err (St × List Cmd × List Cmd) :=
  let (st, al, add) := acc
  match lastIdxOf keys (cryptoKey bc.parsed) with
  | some j =>
    match al[j]? with
    | none => .error .panic
    | some a =>
      if a.parsed == bc.parsed then
        match (if subs then mergeSubCmds rec b raw st a bc else .ok (st, a)) with
        | .error e => .error e
        | .ok (st1, a1) =>
          match mergeRefs rec b raw st1 (some a1.ref) bc.ref bc.refPrefix with
          | .ok (st', ar, _) => .ok (st', listSet al j { a1 with ref := ar.getD a1.ref }, add)
          | .error e => .error e
      else
        match mergeRefs rec b raw st none bc.ref bc.refPrefix with
        | .ok (st', _, br) =>
          .ok (st', listSet al j { a with parsed := bc.parsed, ref := br, refPrefix := bc.refPrefix }, add)
        | .error e => .error e
  | none =>
    let bc := match al0.head? with
      | some a0 => { bc with seq := a0.seq }
      | none => bc
    match (if subs then foldE (newSubStep rec b raw) (st, []) bc.sub else .ok (st, bc.sub)) with
    | .error e => .error e
    | .ok (st1, bsub) =>
      match mergeRefs rec b raw st1 none bc.ref bc.refPrefix with
      | .ok (st', _, br) => .ok (st', al, add ++ [{ bc with ref := br, sub := bsub }])
      | .error e => .error e

def cryptoStep := cryptoStepG true
def cryptoStepOld := cryptoStepG false

def cryptoCommon (rec : Rec) (b : Tbl) (raw : Bool) (st : St) (al bl : List Cmd) :
    Except Err (St × List Cmd × List Cmd) :=
  foldE (cryptoStep rec b raw (al.map (fun c => cryptoKey c.parsed)) al) (st, al, []) bl

def mergeDynMap (rec : Rec) (b : Tbl) (raw : Bool) (st : St) (al bl : List Cmd) (name pfx : String) :
    Except Err St :=
  match cryptoCommon rec b raw st al bl with
  | .ok (st', al', add) => .ok (st'.store pfx name (al' ++ add))
  | .error e => .error e

/-- `getPeer`. -/
def getPeer (l : List Cmd) : Except Err String :=
  match l with
  | [] => .error .panic
  | c0 :: rest =>
    let texts : List (String × List String) :=
      if rest.isEmpty && !c0.sub.isEmpty then c0.sub.map (fun s => (s.parsed, s.ref))
      else l.map (fun c => (c.parsed, c.ref))
    let r := texts.findSome? (fun t =>
      match cutAfter t.1 "set peer " with
      | some p => some (some ("peer " ++ p))
      | none => if contains t.1 "ipsec-isakmp dynamic " then some (t.2.head?) else none)
    match r with
    | some (some p) => if p == "" then .error (.missingPeer c0.name c0.seq) else .ok p
    | some none => .error .panic
    | none => .error (.missingPeer c0.name c0.seq)

/-- Insert into an ascending list without repetition. -/
def insSeq (k : Nat) : List Nat → List Nat
  | [] => [k]
  | x :: xs => if k < x then k :: x :: xs else if k == x then x :: xs else x :: insSeq k xs

/-- The sequence numbers of a crypto map, ascending, each once (`slices.Sorted(maps.Keys(mapBySeq(l)))`). -/
def seqsOf (l : List Cmd) : List Nat := l.foldl (fun acc c => insSeq c.seq acc) []

/-- A call `f(aSeqL, bSeqL)` of `matchCryptoMap`: positions in `al` and the commands of `b`;
`bSeq` (ghost) = the sequence number the commands of `b` had in the file. -/
structure Call where
  aIdx : List Nat
  bl   : List Cmd
  bSeq : Option Nat := none
  deriving Repr

/-- Next free number: counting up (static peer) or down (dynamic) from `s`, at most `fuel` candidates. -/
def freeSeq (used : List Nat) (static : Bool) : Nat → Nat → Nat
  | 0, s => s
  | fuel + 1, s => if used.contains s then freeSeq used static fuel (if static then s + 1 else s - 1) else s

def grp (l : List Cmd) (s : Nat) : List Cmd := l.filter (fun c => c.seq == s)

/-- Positions (counted from `k`) of the commands with sequence number `s`. -/
def idxFrom (s : Nat) : Nat → List Cmd → List Nat
  | _, [] => []
  | k, c :: cs => (if c.seq == s then [k] else []) ++ idxFrom s (k + 1) cs

def peerD (l : List Cmd) : String := match getPeer l with | .ok p => p | .error _ => ""

/-- The first entry without peer: entries of `b` in ascending order (`mapPeerToSeq`), then those of `a`. -/
def firstPeerErr (al bl : List Cmd) : Option Err :=
  (((seqsOf bl).map (grp bl)) ++ ((seqsOf al).map (grp al))).findSome? (fun g =>
    match getPeer g with | .error e => some e | .ok _ => none)

/-- `mapPeerToSeq`: first sequence number of every peer. -/
def firstSeqs (bl : List Cmd) : List (String × Nat) :=
  (seqsOf bl).foldl (fun acc s =>
    let p := peerD (grp bl s)
    if acc.any (fun q => q.1 == p) then acc else acc ++ [(p, s)]) []

/-- First loop: one call per entry of `a` (ascending); `acc.2` = entries of `b` not yet consumed. -/
def matchStep (al bl : List Cmd) (bPeers : List (String × Nat)) (acc : List Call × List Nat) (s : Nat) :
    List Call × List Nat :=
  match bPeers.find? (fun q => q.1 == peerD (grp al s)) with
  | some q =>
    if acc.2.contains q.2 then
      (acc.1 ++ [{ aIdx := idxFrom s 0 al, bl := grp bl q.2, bSeq := some q.2 }], acc.2.filter (· != q.2))
    else (acc.1 ++ [{ aIdx := idxFrom s 0 al, bl := [] }], acc.2)
  | none => (acc.1 ++ [{ aIdx := idxFrom s 0 al, bl := [] }], acc.2)

def matchLoop (al bl : List Cmd) : List Call × List Nat :=
  (seqsOf al).foldl (matchStep al bl (firstSeqs bl)) ([], seqsOf bl)

/-- Second loop: the remaining entries of `b` get fresh numbers and the name of `a`'s map. -/
def freshStep (al bl : List Cmd) (acc : List Call × Nat × Nat) (s : Nat) : List Call × Nat × Nat :=
  let nameOf := fun (c : Cmd) => match al.head? with | some a0 => { c with name := a0.name } | none => c
  let static := startsWith (peerD (grp bl s)) "peer "
  let q := freeSeq (seqsOf al) static 70000 (if static then acc.2.1 else acc.2.2)
  let call : Call := { aIdx := [], bl := (grp bl s).map (fun c => nameOf { c with seq := q }), bSeq := some s }
  if static then (acc.1 ++ [call], q + 1, acc.2.2) else (acc.1 ++ [call], acc.2.1, q - 1)

def matchCalls (al bl : List Cmd) : List Call :=
  ((matchLoop al bl).2.foldl (freshStep al bl) ((matchLoop al bl).1, 1, 65535)).1

/-- `matchCryptoMap` as the list of its callback calls. -/
def matchCryptoMap (al bl : List Cmd) : Except Err (List Call) :=
  match firstPeerErr al bl with
  | some e => .error e
  | none => .ok (matchCalls al bl)

def cryptoMapStep (rec : Rec) (b : Tbl) (raw : Bool) (acc : St × List Cmd) (c : Call) : Except Err (St × List Cmd) :=
  let (st, al) := acc
  let sub := c.aIdx.filterMap (fun i => al[i]?)
  match cryptoCommon rec b raw st sub c.bl with
  | .error e => .error e
  | .ok (st', sub', add) =>
    let al' := (c.aIdx.zip sub').foldl (fun l p => listSet l p.1 p.2) al
    .ok (st', al' ++ add)

def mergeCryptoMap (rec : Rec) (b : Tbl) (raw : Bool) (st : St) (al bl : List Cmd) (name pfx : String) :
    Except Err St :=
  match matchCryptoMap al bl with
  | .error e => .error e
  | .ok calls =>
    match foldE (cryptoMapStep rec b raw) (st, al) calls with
    | .ok (st', al') => .ok (st'.store pfx name al')
    | .error e => .error e

/-! ### `mergeCmds` and `MergeSpoc` -/

def mergeCmdsWith (rec : Rec) (b : Tbl) (raw : Bool) : Rec := fun st al bl name pfx =>
  if pfx == "crypto map" then mergeCryptoMap rec b raw st al bl name pfx
  else if pfx == "crypto dynamic-map" then mergeDynMap rec b raw st al bl name pfx
  else if pfx == "access-list" then mergeAsaAcl rec b raw st al bl name pfx
  else if pfx == "ip access-list extended" then mergeIosAcl st al bl name pfx
  else mergeGeneric rec b raw st al bl name pfx

/-- `mergeCmds` with reference chains of at most `fuel` objects. -/
def mergeCmds (b : Tbl) (raw : Bool) : Nat → Rec
  | 0 => fun _ _ _ _ _ => .error .depth
  | fuel + 1 => mergeCmdsWith (mergeCmds b raw fuel) b raw

def fuel : Nat := 12

/-- All lookup keys of a table, prefixes sorted, names sorted. -/
def Tbl.keys (t : Tbl) : List Key :=
  (sortStrings (t.map (·.1))).flatMap (fun p => (sortStrings ((t.names p).map (·.1))).map (fun n => (p, n)))

def topStep (b : Tbl) (raw : Bool) (st : St) (k : Key) : Except Err St :=
  let (pfx, name) := k
  if pfx == "tunnel-group-map" || pfx == "webvpn" then .error (.notSupported pfx)
  else match b.get pfx name with
    | [] => .error .panic
    | bc :: rest =>
      if bc.anchor then mergeCmds b raw fuel st (st.a.get pfx name) (bc :: rest) name pfx
      else if raw && !st.isRefd k then .ok (st.markSeen k)
      else .ok st

/-- Warnings "Ignoring unused '<typ.prefix> <name>' in raw", sorted as strings. -/
def warningsOf (b : Tbl) (st : St) : List String :=
  sortStrings ((st.seen.filter (fun k => !st.isRefd k)).filterMap (fun k =>
      match b.get k.1 k.2 with
      | c :: _ => some s!"Ignoring unused '{c.typPrefix} {c.name}' in raw"
      | [] => none))

/-- `a.MergeSpoc(b)`. -/
def mergeSpocSt (a b : Tbl) (raw : Bool) : Except Err St :=
  -- every prefix of b exists in a afterwards (`lookup[prefix] = make(map…)`)
  let a := b.foldl (fun a p => if (assocGet a p.1).isSome then a else a ++ [(p.1, [])]) a
  foldE (topStep b raw) { a := a } b.keys

def mergeSpoc (a b : Tbl) (raw : Bool) : Except Err (Tbl × List String) :=
  match mergeSpocSt a b raw with
  | .ok st => .ok (st.a, warningsOf b st)
  | .error e => .error e

/-- `loadSpoc` on parsed tables: IPv4 merged with IPv6, then with raw. -/
def loadSpoc (v4 v6 rawT : Tbl) : Except Err (Tbl × List String) :=
  match mergeSpoc v4 v6 false with
  | .error e => .error e
  | .ok (a, _) => mergeSpoc a rawT true

end NA.C18.G
