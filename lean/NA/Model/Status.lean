/-
Model of `pkg/status` (two-slot status file), of `missing-approve`'s `check`, and of the
abstract history the property C13 quantifies over.  Core Lean only; executable.

Policies are numbered 1,2,3,… (`0` is the empty policy name "").  The code of a device in a
policy is a list of six file contents (code, code.raw, code/ipv6/…, code/ipv4/…); content `0`
stands for "file absent or empty" — `check` cannot tell these apart because it compares
`readFile` results with `slices.Equal`, and `nil` equals `[]`.
-/
namespace NA.C13

abbrev Code := List Nat

/-- Result strings the tools write or read. -/
inductive Res | none | ok | warnings | failed | uptodate | diff
  deriving DecidableEq, Repr, Inhabited

def Res.toString : Res → String
  | .none => "" | .ok => "OK" | .warnings => "WARNINGS" | .failed => "FAILED"
  | .uptodate => "UPTODATE" | .diff => "DIFF"

structure Action where
  result : Res := .none
  policy : Nat := 0
  time   : Nat := 0
  deriving DecidableEq, Repr, Inhabited

structure Status where
  approve : Action := {}
  compare : Action := {}
  deriving DecidableEq, Repr, Inhabited

/-- `status.SetApprove`.  A failed approve first saves a successful approve that is newer than the
last compare into the compare slot (as UPTODATE for that policy and time), so that it is not lost
when the approve slot is overwritten. -/
def setApprove (v : Status) (policy : Nat) (failed : Bool) (now : Nat) : Status :=
  let keep := failed && decide (v.compare.time < v.approve.time) &&
    (v.approve.result == .ok || v.approve.result == .warnings)
  let cmp := if keep then ⟨.uptodate, v.approve.policy, v.approve.time⟩ else v.compare
  { approve := ⟨if failed then .failed else .ok, policy, now⟩, compare := cmp }

/-- `status.SetCompare`: DIFF is sticky unless the device was approved since. -/
def setCompare (v : Status) (policy : Nat) (changed : Bool) (now : Nat) : Status :=
  if !changed then { v with compare := ⟨.uptodate, policy, now⟩ }
  else if v.compare.result ≠ .diff ∨ v.compare.time < v.approve.time then
    { v with compare := ⟨.diff, policy, now⟩ }
  else v

/-- On-disk policies: `disk p = some c` if policy `p` is present (plain or .bz2), `none` if removed. -/
abbrev Disk := Nat → Option Code

def zeros : Code := [0, 0, 0, 0, 0, 0]

/-- What `readFile` yields for the six files of policy `p`. -/
def readPolicy (disk : Disk) (p : Nat) : Code := (disk p).getD zeros

/-- The policy `check` derives from the status file (0 = ""). -/
def devicePolicy (v : Status) : Nat :=
  let (dp, atm) := match v.approve.result with
    | .ok | .warnings => (v.approve.policy, v.approve.time)
    | _ => (0, 0)
  if atm < v.compare.time then
    match v.compare.result with
    | .uptodate => v.compare.policy
    | .diff => 0
    | _ => dp
  else dp

/-- `check`: is the device printed?  `cur` is the current policy, `curCode` its code. -/
def listed (v : Status) (disk : Disk) (cur : Nat) (curCode : Code) : Bool :=
  let dp := devicePolicy v
  if dp = 0 then true
  else if dp = cur then false
  else if (disk dp).isNone then true   -- the policy of the device has been removed (repair b82d07c)
  else readPolicy disk dp != curCode

/-! ### Histories -/

inductive Event
  | newPolicy (code : Code)      -- a new policy becomes current
  | approveOk                    -- device now carries the current code
  | approveFailed                -- device left as it was
  | compare                      -- result computed from the device's true code
  | compareErr                   -- compare that ends with errors: DIFF is recorded
  | drift (code : Code)          -- manual change on the device
  | bzip (p : Nat)               -- old policy compressed (still readable)
  | remove (p : Nat)             -- old policy deleted
  | damage                       -- status file truncated / emptied / garbled (no longer JSON)
  deriving DecidableEq, Repr

/-- Latest conclusive observation. -/
inductive Obs
  | nothing
  | carries (code : Code) (policy : Nat)   -- approve OK / compare UPTODATE at `policy`
  | differs                                -- compare found a difference
  deriving DecidableEq, Repr

structure World where
  codes   : List Code := []        -- code of policy i+1
  removed : List Nat := []
  dev     : Code := zeros          -- what the device really carries
  st      : Status := {}
  clock   : Nat := 0
  obs     : Obs := .nothing
  deriving Repr

def World.cur (w : World) : Nat := w.codes.length
def codeAt (codes : List Code) (p : Nat) : Code := if p = 0 then zeros else codes.getD (p - 1) zeros
def World.codeOf (w : World) (p : Nat) : Code := codeAt w.codes p
def World.curCode (w : World) : Code := w.codeOf w.cur
def World.disk (w : World) : Disk := fun p =>
  if p = 0 ∨ w.cur < p ∨ p ∈ w.removed then none else some (w.codeOf p)

/-- One event; `dt` is the (arbitrary) extra clock advance, so time is strictly increasing. -/
def step (w : World) (e : Event × Nat) : World :=
  let now := w.clock + e.2 + 1
  let w := { w with clock := now }
  match e.1 with
  | .newPolicy c => { w with codes := w.codes ++ [c] }
  | .approveOk =>
    if w.cur = 0 then w else
    { w with dev := w.curCode, st := setApprove w.st w.cur false now, obs := .carries w.curCode w.cur }
  | .approveFailed =>
    if w.cur = 0 then w else { w with st := setApprove w.st w.cur true now }
  | .compare =>
    if w.cur = 0 then w else
    let changed := w.dev != w.curCode
    { w with st := setCompare w.st w.cur changed now,
             obs := if changed then .differs else .carries w.curCode w.cur }
  | .compareErr =>
    if w.cur = 0 then w else { w with st := setCompare w.st w.cur true now }
  | .drift c => { w with dev := c }
  | .bzip _ => w
  | .remove p => if p < w.cur then { w with removed := p :: w.removed } else w
  | .damage => { w with st := {} }

def run (es : List (Event × Nat)) : World := es.foldl step {}

/-- Output of missing-approve for the one device, after the history. -/
def World.listed (w : World) : Bool := NA.C13.listed w.st w.disk w.cur w.curCode

/-- The specification: does the latest conclusive observation fail to establish that the
device carries the current policy's code? -/
def World.needsApprove (w : World) : Bool :=
  match w.obs with
  | .carries c _ => c != w.curCode
  | _ => true

end NA.C13
