import NA.Spec.C11Sess
import NA.Core.IOUtil
/-!
Driver logic of `nadrv-c11` for the session model of C09 in compare mode (the C06/C11 protocol
of `NA/Model/GateDrv.lean` stays as it is; these lines are recognised by their first field).

  SESS  backend  shape  planGenuine  planEmpty  iptGenuine  iptEmpty  faultPos  faultKind  fuel
        (TAB separated; fields as for nadrv-c09, the mode is always compare; faultKind `rejected`:
        the device answers the configuration retrieval at faultPos with a configuration the
        parser of the code rejects, see `rejectedAnswer`)
    →   dexit=<n> err=<0|1> warn=<0|1> chg=<0|1> ro=<0|1> blk=<…> sends=<role:line~line;…>
        `ro` = the specification predicate `ReadOnlyTrace` evaluated on the model's trace.
  VOCAB backend  line US line US …     (US = U+001F; canonicalised lines a REAL run put on the wire)
    →   blk=<out|conf|width|bad> ok=1 | blk=… ok=0 bad=<first line that is not in allowedLines backend>
        the specification side evaluated on the real transcript, no model of the code involved
        (`blk`: where the dialogue is with respect to configuration mode, `NA.Spec.C11.blkOf`).
-/
namespace NA.C11.SessDrv
open NA.Sess NA.Apply NA.Spec.C09 NA.Spec.C11 NA.IOUtil

def parseShape (s : String) : Shape := Id.run do
  let mut sh : Shape := {}
  for kv in splitComma s do
    match kv.splitOn "=" with
    | [k, v] =>
      let n := v.toNat?.getD 0
      match k with
      | "yesno" => sh := { sh with yesno := n != 0 }
      | "enablepw" => sh := { sh with enablepw := n != 0 }
      | "pageroff" => sh := { sh with pageroff := n != 0 }
      | "width511" => sh := { sh with width511 := n != 0 }
      | "saveask" => sh := { sh with saveask := n != 0 }
      | "overwrite" => sh := { sh with overwrite := n != 0 }
      | "nochanges" => sh := { sh with nochanges := n != 0 }
      | "pend" => sh := { sh with pend := n }
      | _ => pure ()
    | _ => pure ()
  return sh

def parsePlan (s : String) : List (List String) := (splitBar s).map (·.splitOn "~")

def parseBackend : String → Option Backend
  | "ASA" => some .asa | "IOS" => some .ios | "Linux" => some .linux
  | "PAN-OS" => some .panos | "NSX" => some .nsx | _ => none

def showRole : Role → String
  | .login => "login" | .setup => "setup" | .read => "read" | .change => "change"
  | .probe => "probe" | .save => "save" | .cleanup => "cleanup"

def b2s (b : Bool) : String := if b then "1" else "0"

def showSends (tr : List Ev) : String :=
  ";".intercalate (tr.filterMap fun e => match e with
    | .sent ρ ls => some (showRole ρ ++ ":" ++ "~".intercalate ls)
    | _ => none)

def showBlk : Blk → String
  | .out => "out" | .conf => "conf" | .width => "width" | .bad => "bad"

/-- **A device configuration the parser rejects** (dangling reference, bad indentation of
sub-commands, an unexpected route).  The session programs of C09 have `ParseConfig` as an
operation that cannot fail for the command-line backends, so this outcome is stated here, from the
control flow of the source: `LoadDevice` returns `While reading device: …` (ASA, IOS) —
`compareDevice` and `compare` hand the error up, `ApproveOrCompare` calls `CloseConnection` (the
line `exit`) and then `Abort`s; the Linux parsers `Abort` on the spot and its `CloseConnection` is
empty.  So: the lines of the fault-free run up to and including the retrieval (the `fp`-th line),
then `exit` on ASA / IOS, nothing else; exit status 1, the `ERROR>>>` marker, no `device changed`.
Tied like every other `SESS` answer: `harness/c11` compares it with the real run of every case of
kind `rejected`. -/
def rejectedAnswer (b : Backend) (env0 : Env) (fp : Nat) : String :=
  let s0 := runProg b env0
  let close := if b == .asa || b == .ios then ["exit"] else []
  let all := (sentLines s0.tr).take fp ++ close
  s!"dexit=1 err=1 warn=0 chg=0 ro={b2s (all.all (allowedLines b).contains)} blk={showBlk (stepLines .out all)} sends={";".intercalate (all.map ("read:" ++ ·))}"

def answer (line : String) : String :=
  match splitTab line with
  | ["SESS", bs, shape, pg, pe, ig, ie, fp, kind, fuel] =>
    match parseBackend bs with
    | none => "bad-backend"
    | some b =>
      let planG := parsePlan pg
      let planE := parsePlan pe
      let env : Env := {
        dev := mkDev b (parseShape shape) fp.toNat? kind
        plan := fun g => if g then planG else planE
        planIpt := fun g => if g then ig == "1" else ie == "1"
        compare := true
        simulated := true
        fuel := fuel.toNat?.getD 50 }
      if kind == "rejected" then
        rejectedAnswer b { env with dev := mkDev b (parseShape shape) none "-" } (fp.toNat?.getD 0)
      else
      let s := runProg b env
      s!"dexit={exitCode s} err={b2s (s.tr.contains .logErr)} warn={b2s (s.tr.contains .logWarn)} chg={b2s (s.tr.contains .logChanged)} ro={b2s (decide (ReadOnlyTrace b s.tr))} blk={showBlk (blkOf s.tr)} sends={showSends s.tr}"
  | ["VOCAB", bs, ls] =>
    match parseBackend bs with
    | none => "bad-backend"
    | some b =>
      let lines := if ls.isEmpty then [] else ls.splitOn "\x1f"
      let blk := "blk=" ++ showBlk (stepLines .out lines)
      match lines.find? (fun l => !(allowedLines b).contains l) with
      | none => blk ++ " ok=1"
      | some l => blk ++ " ok=0 bad=" ++ l
  | _ => "bad-input"

def isMine (line : String) : Bool := line.startsWith "SESS\t" || line.startsWith "VOCAB\t"

end NA.C11.SessDrv
