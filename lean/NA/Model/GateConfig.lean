import NA.Model.GateProgs
/-
C06, the configuration-file side of the gate: `program.LoadConfig` (go/pkg/program/config.go) as
far as it decides what `checkbanner` is.

  for each line:  words := strings.Fields(line)
                  empty or words[0] starts with '#'   → skipped
                  len(words) < 3 || words[1] != "="   → warning, ignored
                  key already seen                    → warning, ignored
                  insert(key, words[2:]...)
  insert:         server_ip_list                      → any number of values
                  len(values) != 1                    → error "Expected exactly one value"
                  checkbanner                         → regexp.Compile(val), error if invalid
                  timeout, login_timeout, keep_history, compress_at → non-negative integer or error
                  basedir, netspoc_git, admin_emails, systemuser → taken as is; other keys: warning
  afterwards:     defaults for unset integer keys; basedir unset → error

The dispatch (which keys may have several values, which key is compiled as a regexp) is DATA
(`multiKeys`, `singleKeys`) from which both the model and the expected skeleton items of
`LoadConfig` are computed (`NA.Props.C06Tie`).  Whether a regexp source compiles is a parameter
(`valid`); the driver uses `Rx.parse`.
-/
namespace NA.Gate.Config
open NA.Gate

inductive KeyKind | str | regexp | int
  deriving DecidableEq, Repr

/-- keys that may have several values (first `switch key` of `insert`) -/
def multiKeys : List String := ["server_ip_list"]

/-- keys with exactly one value, in the order of the second `switch key` of `insert` -/
def singleKeys : List (String × KeyKind) := [
  ("admin_emails", .str), ("basedir", .str), ("checkbanner", .regexp), ("compress_at", .int),
  ("keep_history", .int), ("login_timeout", .int), ("netspoc_git", .str), ("systemuser", .str),
  ("timeout", .int)]

def isSpaceF (c : Char) : Bool :=
  c == ' ' || c == '\t' || c == '\n' || c == '\r' || c == '\x0b' || c == '\x0c'

/-- `strings.Fields` on a list of characters (ASCII white space) -/
def fieldsL : List Char → List Char → List (List Char)
  | cur, [] => if cur.isEmpty then [] else [cur.reverse]
  | cur, c :: cs =>
    if isSpaceF c then (if cur.isEmpty then fieldsL [] cs else cur.reverse :: fieldsL [] cs)
    else fieldsL (c :: cur) cs

def fieldsS (line : String) : List String := (fieldsL [] line.toList).map String.ofList

def isNat (s : String) : Bool := !s.isEmpty && s.toList.all Char.isDigit

structure Acc where
  seen : List String := []
  banner : Option String := none
  baseDir : String := ""
  deriving Repr

/-- `insert(key, values...)` -/
def insert (valid : String → Bool) (acc : Acc) (key : String) (values : List String) : Except String Acc :=
  if multiKeys.contains key then .ok acc
  else match values with
    | [val] =>
      match singleKeys.lookup key with
      | some .regexp => if valid val then .ok { acc with banner := some val } else .error "regexp"
      | some .int => if isNat val then .ok acc else .error "int"
      | some .str => if key == "basedir" then .ok { acc with baseDir := val } else .ok acc
      | none => .ok acc
    | _ => .error "one-value"

/-- one line of the file -/
def step (valid : String → Bool) (acc : Acc) (line : String) : Except String Acc :=
  match fieldsS line with
  | [] => .ok acc
  | w0 :: rest =>
    if (w0.toList.head? == some '#') then .ok acc
    else match rest with
      | eq :: v :: vs =>
        if eq != "=" then .ok acc
        else if acc.seen.contains w0 then .ok acc
        else insert valid { acc with seen := w0 :: acc.seen } w0 (v :: vs)
      | _ => .ok acc

def go (valid : String → Bool) : Acc → List String → Except String Acc
  | acc, [] => .ok acc
  | acc, l :: ls =>
    match step valid acc l with
    | .ok acc' => go valid acc' ls
    | .error e => .error e

/-- Outcome of LoadConfig as far as the gate is concerned: an error kind, or the source of the
`checkbanner` regexp (`none`: no banner check). -/
def loadLines (valid : String → Bool) (lines : List String) : Except String (Option String) :=
  match go valid {} lines with
  | .error e => .error e
  | .ok acc => if acc.baseDir == "" then .error "basedir" else .ok acc.banner

def loadConfig (valid : String → Bool) (text : String) : Except String (Option String) :=
  loadLines valid (text.splitOn "\n")

/-- The state of a run that ended in LoadConfig: `Error: …`, exit status 1, no device contacted. -/
def configErrorSt (e : String) : St := { status := .failed ("config: " ++ e) }

/-- `drc` / `do-approve` with configuration file `text`: LoadConfig first; the gate then works
with the regexp compiled from the configured source. -/
def runWithConfig (b : Backend) (valid : String → Bool) (compile : String → Option Rx) (cfg : Cfg)
    (dev : Dev) (plan : List String) (text : String) : St :=
  match loadConfig valid text with
  | .error e => configErrorSt e
  | .ok none => runMain b ⟨{ cfg with banner := none, bannerSrc := "" }, dev, plan⟩
  | .ok (some src) => runMain b ⟨{ cfg with banner := compile src, bannerSrc := src }, dev, plan⟩

/-! ## expected skeleton items of `insert` (computed from the tables) -/

def kindItems : KeyKind → List Item
  | .str => []
  | .regexp => [(2, "assign", "v7.CheckBanner, err = regexp.Compile(c1p2[0])")]
  | .int => [(2, "call", "f2")]

/-- the branches of a dispatch on constants, in the normal form of the translator: sorted by the
test (`singleKeys` is kept in that order), branches that show nothing left out (the `default`
shows nothing), `if` for the first and `elif` for the others -/
def dispatchItems : Bool → List (String × KeyKind) → List Item
  | _, [] => []
  | first, k :: ks =>
    match kindItems k.2 with
    | [] => dispatchItems first ks
    | its => (1, if first then "if" else "elif", "c1p1 == " ++ q k.1) :: its ++ dispatchItems false ks

/-- `insert` = f1 (parameters c1p1 = key, c1p2 = values), `getInt` = f2, `getIPList` = f3 -/
def insertDispatchItems : List Item :=
  multiKeys.flatMap (fun k => [(1, "guard", "c1p1 == " ++ q k), (2, "call", "f3"), (2, "ret", "err")]) ++
  [(1, "guard", "len(c1p2) != 1"), (2, "ret", "Errorf(…)")] ++
  dispatchItems true singleKeys ++
  [(1, "ret", "err")]

/-- `words := strings.Fields(line)` is a single-assignment local: the normal form shows its
definition wherever it is used. -/
def words : String := "strings.Fields(v9)"

def loadConfigSkel : List Item :=
  [ (0, "for", "range v1"),
    (1, "assign", "v2, err ⇐ v3"),
    (1, "guard", "err == nil"), (2, "break", ""),
    (1, "guard", "!errors.Is(err, fs.ErrNotExist)"), (2, "ret", "nil, Errorf(…)"),
    (0, "guard", "v2 == nil"), (1, "ret", "nil, Errorf(…)"),
    (0, "closure", "f1"),
    (1, "closure", "f2"),
    (2, "guard", "err != nil"), (3, "ret", "v4, Errorf(…)"),
    (2, "guard", "v4 < 0"), (3, "ret", "0, Errorf(…)"),
    (2, "ret", "v4, nil"),
    (1, "closure", "f3"),
    (2, "for", "range c1p2"), (3, "guard", "err != nil"), (4, "ret", "nil, Errorf(…)"),
    (3, "assign", "v5 ⇐ v5, v6"),
    (2, "ret", "v5, nil") ] ++
  insertDispatchItems ++
  [ (0, "for", "range v8"),
    (1, "if", "!(len(" ++ words ++ ") == 0 || " ++ words ++ "[0][0] == '#')"),
    (2, "if", "!(len(" ++ words ++ ") < 3 || " ++ words ++ "[1] != \"=\")"),
    (3, "guard", "v10[" ++ words ++ "[0]]"), (4, "continue", ""),
    (3, "call", "f1"),
    (3, "guard", "err != nil"), (4, "ret", "nil, err"),
    (0, "for", "range defaultVals"),
    (1, "if", "!v10[v11]"),
    (2, "call", "f1"), (2, "guard", "err != nil"), (3, "ret", "nil, err"),
    (0, "guard", "v7.BaseDir == \"\""), (1, "ret", "nil, Errorf(…)"),
    (0, "ret", "&v7, nil") ]

end NA.Gate.Config
