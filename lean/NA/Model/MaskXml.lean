import NA.Model.MaskSinks
/-!
# Model of `panos.parseAPIKey` (property C17, round 3)

`parseAPIKey body` = `xml.Unmarshal(body, &PanResponse{})`, check `status == "success"`, re-marshal the
`<result>` element, `xml.Unmarshal` into `panKey{Key string `xml:"key"`}`.

The model follows Go's `encoding/xml` (strict mode) on a sub-grammar and says `unsupported` outside
it (the harness then does not compare):

* lexer `lex`: character data up to the next `<` (five named entities decoded, `]]>` is an error),
  start tags with quoted attributes, end tags (`</name` *spaces* `>`), self-closing tags, comments.
  Not supported: names with `:` or non-ASCII bytes, processing instructions, CDATA, directives,
  numeric character references, `&` `]` in attribute values, `\r`, control and non-ASCII bytes in text;
* `rootOf`: what `Unmarshal` reads — everything in front of the first start tag is skipped, the root
  element is built with a stack of open elements (mismatched end tag, end of input inside an element:
  syntax error), reading stops when the root closes (whatever follows is never looked at);
* `keyOfRoot`: root must be `response`; `status` = LAST attribute of that name; `msg`, `result`, `key`:
  the LAST direct child of that name wins; a string field gets the concatenated character data that
  stands directly in the element (nested elements and comments skipped).
-/
namespace NA.Mask

inductive Tok where
  | text (s : Str)
  | start (name : Str) (attrs : List (Str × Str)) (selfClose : Bool)
  | stop (name : Str)
  | comment
  /-- lexical error: `true` = a real XML syntax error, `false` = outside the modelled sub-grammar -/
  | bad (isSyntax : Bool)
  deriving Repr, DecidableEq

/-- Result of the modelled `parseAPIKey`. -/
inductive KeyRes where
  | ok (key : Str)
  /-- `No success: <msg>` -/
  | noSuccess (msg : Str)
  /-- `Parsing response: expected element type <response> but have <name>` -/
  | wrongRoot (name : Str)
  /-- `Parsing response: XML syntax error …` -/
  | syntaxErr
  /-- `Parsing response: EOF` (no element at all) -/
  | eofNoRoot
  /-- `EOF` (no `<result>` element: the second `Unmarshal` gets no input) -/
  | eofNoResult
  | unsupported
  deriving Repr, DecidableEq

/-! ## lexer -/

def isWs (c : Char) : Bool := c == ' ' || c == '\t' || c == '\n' || c == '\r'

def skipWs : Str → Str
  | [] => []
  | c :: r => if isWs c then skipWs r else c :: r

def nameChar (c : Char) : Bool := c.isAlphanum || c == '_' || c == '-' || c == '.'
def nameStart (c : Char) : Bool := c.isAlpha || c == '_'

/-- Bytes that may stand in character data and in attribute values as they are. -/
def plainChar (c : Char) : Bool :=
  ((' ' ≤ c && c < Char.ofNat 127) || c == '\t' || c == '\n') && c != '<' && c != '&' && c != ']'

/-- Longest prefix of name bytes. -/
def scanName : Str → Str × Str
  | [] => ([], [])
  | c :: r => if nameChar c then ((scanName r).1.cons c, (scanName r).2) else ([], c :: r)

/-- `some true`: valid name; `some false`: syntax error; `none`: outside the sub-grammar. -/
def nameOk (name rest : Str) : Option Bool :=
  match rest with
  | c :: _ => if c == ':' || c.toNat ≥ 128 then none else
    match name with
    | [] => some false
    | n :: _ => some (nameStart n)
  | [] =>
    match name with
    | [] => some false
    | n :: _ => some (nameStart n)

/-- Quoted attribute value: up to the closing quote. -/
def scanQuoted (q : Char) : Str → Option (Except Bool (Str × Str))
  | [] => some (.error true)
  | c :: r =>
    if c = q then some (.ok ([], r))
    else if c = '<' then some (.error true)
    else if plainChar c then
      match scanQuoted q r with
      | some (.ok (v, rest)) => some (.ok (c :: v, rest))
      | other => other
    else some (.error false)

inductive TagRes where
  | ok (t : Tok) (rest : Str)
  | err (isSyntax : Bool)
  deriving Repr, DecidableEq

/-- One attribute `name = "value"`: name, value, what follows. -/
def scanAttr (l : Str) : Except Bool (Str × Str × Str) :=
  match nameOk (scanName l).1 (scanName l).2 with
  | none => .error false
  | some false => .error true
  | some true =>
    match skipWs (scanName l).2 with
    | '=' :: r2 =>
      match skipWs r2 with
      | q :: r3 =>
        if q = '"' ∨ q = '\'' then
          match scanQuoted q r3 with
          | some (.ok (v, rest)) => .ok ((scanName l).1, v, rest)
          | some (.error s) => .error s
          | none => .error true
        else .error true
      | [] => .error true
    | _ => .error true

/-- Attribute list of a start tag; `fuel` bounds the number of attributes. -/
def scanAttrs (name : Str) : Nat → Str → List (Str × Str) → TagRes
  | 0, _, _ => .err true
  | n + 1, l, acc =>
    match skipWs l with
    | [] => .err true
    | c :: r =>
      if c = '/' then
        match r with
        | '>' :: rest => .ok (.start name acc.reverse true) rest
        | _ => .err true
      else if c = '>' then .ok (.start name acc.reverse false) r
      else
        match scanAttr (c :: r) with
        | .ok (an, v, rest) => scanAttrs name n rest ((an, v) :: acc)
        | .error e => .err e

/-- Comment body behind `<!--`: ends with `-->`; `--` not followed by `>` is an error. -/
def scanComment : Char → Char → Str → TagRes
  | _, _, [] => .err true
  | b0, b1, c :: r =>
    if b0 = '-' ∧ b1 = '-' then
      if c = '>' then .ok .comment r else .err true
    else scanComment b1 c r

/-- End tag behind `</`. -/
def lexClose (r : Str) : TagRes :=
  match nameOk (scanName r).1 (scanName r).2 with
  | none => .err false
  | some false => .err true
  | some true =>
    match skipWs (scanName r).2 with
    | '>' :: rest => .ok (.stop (scanName r).1) rest
    | _ => .err true

/-- Start tag: name and attributes. -/
def lexOpen (l : Str) : TagRes :=
  match nameOk (scanName l).1 (scanName l).2 with
  | none => .err false
  | some false => .err true
  | some true => scanAttrs (scanName l).1 ((scanName l).2.length + 1) (scanName l).2 []

def lexBang (r : Str) : TagRes :=
  match r with
  | '-' :: '-' :: r' => scanComment 'x' 'x' r'
  | _ => .err false

/-- One tag; the input starts behind the `<`. -/
def lexTag (l : Str) : TagRes :=
  match l with
  | [] => .err true
  | c :: r =>
    if c = '/' then lexClose r
    else if c = '?' then .err false
    else if c = '!' then lexBang r
    else lexOpen (c :: r)

def sLt : Str := ['l', 't', ';']
def sGt : Str := ['g', 't', ';']
def sAmp : Str := ['a', 'm', 'p', ';']
def sApos : Str := ['a', 'p', 'o', 's', ';']
def sQuot : Str := ['q', 'u', 'o', 't', ';']

def consOk (d : Char) : Except Bool (Str × Str) → Except Bool (Str × Str)
  | .ok (t, rest) => .ok (d :: t, rest)
  | .error e => .error e

/-- Behind an `&`: the decoded byte and how many bytes the entity name (with `;`) takes. -/
def entityAt (r : Str) : Except Bool (Char × Nat) :=
  match r with
  | 'l' :: 't' :: ';' :: _ => .ok ('<', 3)
  | 'g' :: 't' :: ';' :: _ => .ok ('>', 3)
  | 'a' :: 'm' :: 'p' :: ';' :: _ => .ok ('&', 4)
  | 'a' :: 'p' :: 'o' :: 's' :: ';' :: _ => .ok ('\'', 5)
  | 'q' :: 'u' :: 'o' :: 't' :: ';' :: _ => .ok ('"', 5)
  | '#' :: _ => .error false
  | _ => .error true

def closesCdata (r : Str) : Bool :=
  match r with
  | ']' :: '>' :: _ => true
  | _ => false

/-- Character data up to the next `<` (not consumed) or the end; `skip` bytes (the rest of an entity)
are passed over first. -/
def lexTextA : Nat → Str → Except Bool (Str × Str)
  | _, [] => .ok ([], [])
  | k + 1, _ :: r => lexTextA k r
  | 0, c :: r =>
    if c = '<' then .ok ([], c :: r)
    else if c = '&' then
      match entityAt r with
      | .ok (d, n) => consOk d (lexTextA n r)
      | .error e => .error e
    else if c = ']' then
      if closesCdata r then .error true else consOk c (lexTextA 0 r)
    else if plainChar c then consOk c (lexTextA 0 r)
    else .error false

def lexText (l : Str) : Except Bool (Str × Str) := lexTextA 0 l

/-- Token stream: text (possibly empty) and tags alternate; a lexical error ends the stream. -/
def lexF : Nat → Str → List Tok
  | 0, _ => [.bad true]
  | n + 1, l =>
    match lexText l with
    | .error e => [.bad e]
    | .ok (t, []) => [.text t]
    | .ok (t, _ :: r) =>
      match lexTag r with
      | .ok tg rest => .text t :: tg :: lexF n rest
      | .err e => [.text t, .bad e]

def lex (l : Str) : List Tok := lexF (l.length + 1) l

def sResp : Str := ['r', 'e', 's', 'p', 'o', 'n', 's', 'e']
def sResult : Str := ['r', 'e', 's', 'u', 'l', 't']
def sKeyN : Str := ['k', 'e', 'y']
def sMsg : Str := ['m', 's', 'g']
def sStatus : Str := ['s', 't', 'a', 't', 'u', 's']
def sSuccess : Str := ['s', 'u', 'c', 'c', 'e', 's', 's']

/-! ## `Unmarshal`: the root element -/

inductive Node where
  | text (s : Str)
  | elem (name : Str) (attrs : List (Str × Str)) (kids : List Node)
  deriving Repr

structure Frame where
  name : Str
  attrs : List (Str × Str)
  kids : List Node := []   -- reversed

def addKid (nd : Node) : List Frame → List Frame
  | [] => []
  | f :: fs => { f with kids := nd :: f.kids } :: fs

/-- Inside the root: `frames` are the open elements, innermost first. -/
def inside : List Tok → List Frame → Except KeyRes Node
  | [], _ => .error .syntaxErr
  | .bad true :: _, _ => .error .syntaxErr
  | .bad false :: _, _ => .error .unsupported
  | .text s :: r, fs => inside r (addKid (.text s) fs)
  | .comment :: r, fs => inside r fs
  | .start n a true :: r, fs => inside r (addKid (.elem n a []) fs)
  | .start n a false :: r, fs => inside r ({ name := n, attrs := a } :: fs)
  | .stop n :: r, fs =>
    match fs with
    | [] => .error .syntaxErr
    | f :: rest =>
      if f.name ≠ n then .error .syntaxErr
      else
        let nd := Node.elem f.name f.attrs f.kids.reverse
        match rest with
        | [] => .ok nd
        | _ :: _ => inside r (addKid nd rest)

/-- Skip to the first start tag; the root's name is checked before anything else is read. -/
def rootOf : List Tok → Except KeyRes Node
  | [] => .error .eofNoRoot
  | .bad true :: _ => .error .syntaxErr
  | .bad false :: _ => .error .unsupported
  | .text _ :: r => rootOf r
  | .comment :: r => rootOf r
  | .stop _ :: _ => .error .syntaxErr
  | .start n a sc :: r =>
    if n ≠ sResp then .error (.wrongRoot n)
    else if sc then .ok (.elem n a [])
    else inside r [{ name := n, attrs := a }]

/-! ## the struct fields -/

def lastAttr (name : Str) : List (Str × Str) → Option Str
  | [] => none
  | (k, v) :: r =>
    match lastAttr name r with
    | some x => some x
    | none => if k = name then some v else none

/-- Kids of the last direct child element called `name`. -/
def lastChild (name : Str) : List Node → Option (List Node)
  | [] => none
  | .text _ :: r => lastChild name r
  | .elem n _ ks :: r =>
    match lastChild name r with
    | some x => some x
    | none => if n = name then some ks else none

/-- Character data standing directly in an element. -/
def directText : List Node → Str
  | [] => []
  | .text s :: r => s ++ directText r
  | .elem _ _ _ :: r => directText r

def keyOfRoot : Node → KeyRes
  | .text _ => .syntaxErr
  | .elem _ attrs kids =>
    let status := (lastAttr sStatus attrs).getD []
    let msg := ((lastChild sMsg kids).map directText).getD []
    if status ≠ sSuccess then .noSuccess msg
    else
      match lastChild sResult kids with
      | none => .eofNoResult
      | some rk => .ok (((lastChild sKeyN rk).map directText).getD [])

/-- Model of `parseAPIKey`. -/
def parseAPIKeyM (body : Str) : KeyRes :=
  match rootOf (lex body) with
  | .error e => e
  | .ok root => keyOfRoot root

/-- The text of the error `parseAPIKey` returns (`none`: a key; syntax errors: class only). -/
def KeyRes.errText : KeyRes → Option Str
  | .ok _ => none
  | .noSuccess m => some ("No success: ".toList ++ m)
  | .wrongRoot n => some ("Parsing response: expected element type <response> but have <".toList ++ n ++ ['>'])
  | .syntaxErr => some "Parsing response: XML syntax error".toList
  | .eofNoRoot => some "Parsing response: EOF".toList
  | .eofNoResult => some "EOF".toList
  | .unsupported => some "unsupported".toList

/-! ## the PAN-OS keygen answer

`<response status = 'success'> <result> <key>K</key> </result> </response>` with arbitrary white space
at the nine places where the device (or a pretty printer) may put it, either quote, and anything
behind the root element. -/
def stdKeygen (w0 w1 w2 : Str) (q : Char) (w3 w4 w5 k w6 w7 tail : Str) : Str :=
  w0 ++ ("<response status".toList ++ (w1 ++ ('=' :: (w2 ++ (q :: ("success".toList ++ (q :: (w3 ++ ('>' :: (w4 ++
    ("<result>".toList ++ (w5 ++ (litOpen ++ (k ++ (litClose ++ (w6 ++ ("</result>".toList ++ (w7 ++
      ("</response>".toList ++ tail)))))))))))))))))))

/-- A PAN-OS run whose key is what the modelled parser extracts from the keygen answer. -/
def panosRunParsed (addr user pass name ip body : Str) (reqs : List Req) (reps : List Reply) : Sinks :=
  match parseAPIKeyM body with
  | .ok k => panosRun addr user pass name ip (.ok body) k reqs reps
  | r => panosRun addr user pass name ip (.fail body ((r.errText).getD [])) [] reqs reps

end NA.Mask
