import NA.Model.MapSites
/-!
# C16 — loop bodies as *descriptors* extracted from the source, and their semantics

Round 3, audit follow-up.  The translator (translate/mapranges, pass `descr.go`) reads the body of
every unsorted `range` over a map **and everything it transitively calls in the module** and, if
every effect it finds has one of the forms below, emits a `Body` value for the site
(`NA.Gen.MapRangesDescr.descrs`).  This file gives these descriptors a semantics: a step function
over an abstract program state, **for every way of computing the values that are written**
(`Sem`: uninterpreted functions of the entry and of the cells the entry owns).  What the body
reads and writes *where* comes from go/ast; *what* it computes is universally quantified.

Effects the translator may emit (`Eff`):

* `ownKey X`      — `X[k] = …`, `delete(X, k)`, `X[pair{…k…}] = …` with `k` the loop's key: the
                    cell of map `X` named by the own key; `X` is read nowhere else in the body;
* `ownField f`    — `o.f = …`, in-place sort of `o.f`, for objects `o` reached from the loop's key or
                    value (not through a field of reference type); `.f` is read on own objects only;
* `setInsert S`   — `S[x] = true` for arbitrary `x`; `S` is not read in the body;
* `sharedConst T` — a loop-invariant constant stored in a shared cell.

* `firstPayload x` — the body is `x = payload(entry); break`: the loop takes the payload of whichever
                    entry comes first ("any hit with equal payload"). Order-insensitive exactly when all
                    entries carry the same payload (`findSome?_perm_invariant_iff`); that is a hypothesis
                    about the data (`PayloadsAgree`), for the anchor probe of diffConfig the regenerated
                    table fact `anchor_table_agrees`.

* `guarded l`     — per entry the body either *complains* (returns an error, or prints a message in the
                    `default:` branch of a switch over the key) or performs the effects `l`; a complaint is
                    decided by the entry alone. Order-insensitive when no entry complains (`NoComplaint`,
                    a hypothesis about the data; for LoadConfig the regenerated table facts
                    `default_vals_parse` and `default_keys_known`). With complaints the loop reports
                    whichever complaining entry comes first — that is why it is a hypothesis.

Other body forms: `collectSorted` (only `out = append(out, …)`, the statement after the loop
sorts `out`), `anyHit` (no effect; leaves to an outer label on the first hit), `opaque` (the
translator cannot describe the body: early exit with a result, writes through shared pointers,
idempotent creation of shared maps, … — such a site is tied by its hashes only).
-/
namespace NA.C16.D
open NA.PermFold NA.C16

inductive Eff
  | ownKey (map : String)
  | ownField (field : String)
  | setInsert (set : String)
  | sharedConst (cell : String)
  deriving DecidableEq, Repr

inductive Body
  | effects (l : List Eff)
  | collectSorted (slice : String)
  | anyHit
  | firstPayload (target : String)
  | guarded (l : List Eff)
  | «opaque» (why : String)
  deriving DecidableEq, Repr

def Body.described : Body → Bool
  | .opaque _ => false
  | _ => true

/-- A generated site description. -/
structure SiteDescr where
  file : String
  fn : String
  mapExpr : String
  ord : Nat
  body : Body
  deriving DecidableEq, Repr

/-! ## Abstract state -/

/-- A cell of the heap: the slot of key `k` in the map named `m`, or field `f` of object `o`. -/
inductive Cell (K : Type)
  | slot (m : String) (k : K)
  | field (o : Nat) (f : String)
  deriving DecidableEq

/-- One map entry as the loop sees it: its key and the objects reachable from key and value. -/
structure Entry (K : Type) where
  key : K
  objs : List Nat
  deriving DecidableEq

/-- heap × sets × shared cells -/
abbrev Cells (K V : Type) := (Cell K → V) × (String → V → Bool) × (String → Option V)

/-- Everything the body computes, uninterpreted. `write e h c` = new content of the owned cell `c`
given the heap `h` **restricted to the cells `e` owns** (see `restrict`); `items` = the members the
entry inserts into a set; `stores` = whether the entry stores the constant `const n` in shared cell `n`. -/
structure Sem (K V : Type) where
  write : Entry K → (Cell K → V) → Cell K → V
  items : Entry K → String → V → Bool
  stores : Entry K → String → Bool
  const : String → V
  dflt : V

def owns {K : Type} [DecidableEq K] (l : List Eff) (e : Entry K) : Cell K → Bool
  | .slot m k => l.contains (.ownKey m) && decide (k = e.key)
  | .field o f => l.contains (.ownField f) && e.objs.contains o

/-- The body sees of the mutable heap only the cells it owns. -/
def restrict {K V : Type} [DecidableEq K] (l : List Eff) (sem : Sem K V) (e : Entry K)
    (h : Cell K → V) : Cell K → V :=
  fun c => if owns l e c then h c else sem.dflt

def heapFootprint {K V : Type} [DecidableEq K] (l : List Eff) (sem : Sem K V) :
    Footprint (Cell K) V (Entry K) where
  owns := owns l
  write e h c := sem.write e (restrict l sem e h) c
  «local» := by
    intro a s s' h i _
    have : restrict l sem a s = restrict l sem a s' := by
      funext c
      simp only [restrict]
      split
      · rename_i hc; exact h c hc
      · rfl
    rw [this]

def setsStep {K V : Type} (l : List Eff) (sem : Sem K V) (s : String → V → Bool) (e : Entry K) :
    String → V → Bool :=
  fun n x => s n x || (l.contains (.setInsert n) && sem.items e n x)

def sharedStep {K V : Type} (l : List Eff) (sem : Sem K V) (s : String → Option V) (e : Entry K) :
    String → Option V :=
  fun n => if l.contains (.sharedConst n) && sem.stores e n then some (sem.const n) else s n

/-- One iteration of a body with effects `l`. -/
def effStep {K V : Type} [DecidableEq K] (l : List Eff) (sem : Sem K V) :
    Cells K V → Entry K → Cells K V :=
  prodStep (heapFootprint l sem).step (prodStep (setsStep l sem) (sharedStep l sem))

/-- Objects reachable from different entries are different (heap separation). -/
def SeparateEntries {K : Type} (es : List (Entry K)) : Prop :=
  ∀ a, a ∈ es → ∀ b, b ∈ es → a ≠ b → ∀ i, ¬ (i ∈ a.objs ∧ i ∈ b.objs)

/-- Keys of the entries are pairwise different (entries of one Go map). -/
def DistinctKeys {K : Type} (es : List (Entry K)) : Prop := UniqueKeys Entry.key es

/-! ## Program state and stages -/

/-- Program state: the cells, the slices that collect-then-sort loops fill, the results of the
any-hit loops, and the rest of the program (`ctl`: everything the glue code between two loops
needs; opaque). -/
structure PState (K V C : Type) where
  cells : Cells K V
  slices : String → List String
  hits : String → Bool
  results : String → Option String
  ctl : C

/-- What a collect-then-sort / any-hit body computes per entry, uninterpreted. -/
structure Sem2 (K : Type) where
  keep : Entry K → Bool
  msg : Entry K → String
  hit : Entry K → Bool
  payload : Entry K → String
  complains : Entry K → Bool

/-- One iteration of a guarded body: once an entry has complained the loop is left. -/
def guardedStep {K V : Type} [DecidableEq K] (l : List Eff) (sem : Sem K V) (sem2 : Sem2 K)
    (st : Cells K V × Option String) (e : Entry K) : Cells K V × Option String :=
  match st.2 with
  | some _ => st
  | none => if sem2.complains e then (st.1, some (sem2.payload e)) else (effStep l sem st.1 e, none)

/-- The effect of running a *described* body over the entries in the order `es`. -/
def runBody {K V C : Type} [DecidableEq K] (site : String) (b : Body) (sem : Sem K V) (sem2 : Sem2 K)
    (p : PState K V C) (es : List (Entry K)) : PState K V C :=
  match b with
  | .effects l => { p with cells := es.foldl (effStep l sem) p.cells }
  | .collectSorted n =>
    { p with slices := fun m => if m = n then collectSorted strLe sem2.keep sem2.msg (p.slices n) es else p.slices m }
  | .anyHit =>
    { p with hits := fun m => if m = site then (firstIn (fun e => if sem2.hit e then some () else none) es).isSome else p.hits m }
  | .firstPayload t =>
    match es with
    | [] => p
    | e :: _ => { p with results := fun m => if m = t then some (sem2.payload e) else p.results m }
  | .guarded l =>
    let r := es.foldl (guardedStep l sem sem2) (p.cells, none)
    { p with cells := r.1, results := fun m => if m = site then r.2 else p.results m }
  | .opaque _ => p

/-- Data hypothesis of a `guarded` body: no entry complains. -/
def NoComplaint {K : Type} (b : Body) (sem2 : Sem2 K) (es : List (Entry K)) : Prop :=
  ∀ l, b = .guarded l → ∀ e, e ∈ es → sem2.complains e = false

/-- Data hypothesis of a `firstPayload` body: all entries carry the same payload. -/
def PayloadsAgree {K : Type} (b : Body) (sem2 : Sem2 K) (es : List (Entry K)) : Prop :=
  ∀ t, b = .firstPayload t → ∀ a, a ∈ es → ∀ a', a' ∈ es → sem2.payload a = sem2.payload a'

end NA.C16.D
