/-!
# Model of the masking functions of Netspoc-Approve (property C17)

Strings are `List Char`; every `Char` stands for one *byte* of the Go string (the driver maps
byte `b` to `Char.ofNat b`), which is exact for the three regular expressions below because Go's
`.` matches every byte sequence element except `\n` and all delimiters are ASCII.

Mirrored code (`/repo/go/pkg`):

* `panos/device.go getAPIKey`   : `passRE = (password=).*?(&|$)` → `${1}xxx$2`  (`maskPass`)
                                   `keyRE  = (?s)<[ns:]key[ attrs]>(.*</[ns:]key>|.*$)` → `<key>xxx</key>` (`maskKey`)
* `panos/device.go`             : request URLs are logged with the prefix `…/api/?key=xxx&` (`setAPIKey`; the
                                   regexp `[?]key=.*?&` was given up with fix c4a38c5)
* `errlog/msg.go DoLog`         : `url.QueryUnescape` iff the string starts with `http` or `action=`,
                                   the error of `QueryUnescape` is dropped (result `""`)  (`doLog`)
* `net/url`                     : `QueryEscape`, `QueryUnescape`, `Values.Encode` (sorted keys)

The regular expressions are written as explicit matchers that follow Go's leftmost-first
semantics literally: try to match at the current position; on failure emit one byte and retry at
the next position; after a match continue behind it (`replaceAllF`, which carries fuel — an upper
bound of the remaining length — so that it is structurally recursive and evaluates in the kernel).
-/
namespace NA.Mask

abbrev Str := List Char

/-! ## small string helpers -/

/-- `stripPrefix? p l = some r` iff `l = p ++ r`. -/
def stripPrefix? : Str → Str → Option Str
  | [], l => some l
  | _ :: _, [] => none
  | p :: ps, c :: cs => if p = c then stripPrefix? ps cs else none

def xxx : Str := ['x', 'x', 'x']
def litPass : Str := ['p', 'a', 's', 's', 'w', 'o', 'r', 'd', '=']
def litOpen : Str := ['<', 'k', 'e', 'y', '>']
def litClose : Str := ['<', '/', 'k', 'e', 'y', '>']
def litHttp : Str := ['h', 't', 't', 'p']
def litAction : Str := ['a', 'c', 't', 'i', 'o', 'n', '=']

/-! ## `Regexp.ReplaceAllString` for patterns that never match the empty string

`step l` tries to match the pattern at the beginning of `l`: `some (out, rest)` — it matched, the
replacement text is `out` and `rest` is what follows the match; `none` — no match starting here.
Leftmost-first semantics: on `none` one byte is copied and the next position is tried. -/
def replaceAllF (step : Str → Option (Str × Str)) : Nat → Str → Str
  | 0, l => l
  | _ + 1, [] => []
  | n + 1, c :: cs =>
    match step (c :: cs) with
    | some (out, rest) => out ++ replaceAllF step n rest
    | none => c :: replaceAllF step n cs

def replaceAll (step : Str → Option (Str × Str)) (l : Str) : Str := replaceAllF step l.length l

/-! ## lazy matcher  `LIT .*? (&|$)`  and  `LIT .*? &` -/

/-- The lazy part `.*?` followed by `&` (or, if `allowEnd`, by the end of the text):
`some (true, rest)` — stopped at the first `&`, `rest` is what follows it;
`some (false, [])` — reached the end of the text (only with `allowEnd`);
`none` — a newline (which `.` does not match) or the end came first: no match at this start. -/
def scanLazy (allowEnd : Bool) : Str → Option (Bool × Str)
  | [] => if allowEnd then some (false, []) else none
  | c :: r =>
    if c = '&' then some (true, r)
    else if c = '\n' then none
    else scanLazy allowEnd r

/-- One match of `(LIT).*?(&|$)` (`allowEnd`) resp. `LIT.*?&`, replaced by `LIT xxx <terminator>`. -/
def lazyStep (lit : Str) (allowEnd : Bool) (l : Str) : Option (Str × Str) :=
  match stripPrefix? lit l with
  | some body =>
    match scanLazy allowEnd body with
    | some (amp, rest) => some (lit ++ xxx ++ (if amp then ['&'] else []), rest)
    | none => none
  | none => none

def maskLazy (lit : Str) (allowEnd : Bool) (l : Str) : Str := replaceAll (lazyStep lit allowEnd) l

/-- `passRE.ReplaceAllString(s, "${1}xxx$2")`. -/
def maskPass (l : Str) : Str := maskLazy litPass true l
/-! ## greedy matcher for the key element

`keyRE = (?s)<(?:[^\s<>/:]+:)?key(?:\s[^>]*)?>(?:.*</(?:[^\s<>/:]+:)?key\s*>|.*$)` (fix for F-C17e):
an opening tag of element `key` in every spelling `encoding/xml` accepts — namespace prefix,
white space, attributes —, then everything up to the LAST closing tag of `key`, or, if there is none
(truncated answer), up to the end of the text.  No byte of a tag before its `>` is a `>`, so a tag is
the text up to the first `>` (`splitAtGt`) if that text has the right shape (`validOpen/validClose`). -/

def notNl (c : Char) : Bool := c != '\n'

def isWsRe (c : Char) : Bool := c == ' ' || c == '\t' || c == '\n' || c == '\r' || c == '\x0c'
def nameCh (c : Char) : Bool := !(isWsRe c || c == '<' || c == '>' || c == '/' || c == ':')

def splitAtGt : Str → Option (Str × Str)
  | [] => none
  | c :: r =>
    if c = '>' then some ([], r)
    else match splitAtGt r with
      | some (t, x) => some (c :: t, x)
      | none => none

def afterNs (r : Str) : Option Str :=
  match r.dropWhile nameCh with
  | ':' :: r'' => if (r.takeWhile nameCh).isEmpty then none else some r''
  | _ => none

def keyOpenTail : Str → Bool
  | 'k' :: 'e' :: 'y' :: r => match r with | [] => true | c :: _ => isWsRe c
  | _ => false

def keyCloseTail : Str → Bool
  | 'k' :: 'e' :: 'y' :: r => r.all isWsRe
  | _ => false

def validOpen : Str → Bool
  | '<' :: r => (match afterNs r with | some x => keyOpenTail x | none => false) || keyOpenTail r
  | _ => false

def validClose : Str → Bool
  | '<' :: '/' :: r => (match afterNs r with | some x => keyCloseTail x | none => false) || keyCloseTail r
  | _ => false

def tag? (valid : Str → Bool) (l : Str) : Option Str :=
  match splitAtGt l with
  | some (t, r) => if valid t then some r else none
  | none => none

/-- What follows the LAST closing tag of `key` (`none`: no occurrence). -/
def lastClose : Str → Option Str
  | [] => none
  | c :: cs =>
    match lastClose cs with
    | some r => some r
    | none => tag? validClose (c :: cs)

/-- One match of `keyRE`: `.` matches every byte (flag `s`), the greedy `.*` runs to the end of the text and
backtracks to the last closing tag; without one the second alternative `.*$` takes the rest. -/
def keyStep (l : Str) : Option (Str × Str) :=
  match tag? validOpen l with
  | some body => some (litOpen ++ xxx ++ litClose, (lastClose body).getD [])
  | none => none

/-- `keyRE.ReplaceAllString(s, "<key>xxx</key>")`. -/
def maskKey (l : Str) : Str := replaceAll keyStep l

/-! ## the two matchers as they were before fixes c4a38c5 and bb66815 (historic, for the counterexamples) -/

/-- `(?s)<key>.*</key>` as it was before the fix for F-C17e: only the literal tags. -/
def lastCloseLit : Str → Option Str
  | [] => none
  | c :: cs =>
    match lastCloseLit cs with
    | some r => some r
    | none => stripPrefix? litClose (c :: cs)

def keyStepLit (l : Str) : Option (Str × Str) :=
  match stripPrefix? litOpen l with
  | some body =>
    match lastCloseLit body with
    | some after => some (litOpen ++ xxx ++ litClose, after)
    | none => none
  | none => none

def maskKeyLit (l : Str) : Str := replaceAll keyStepLit l

/-- `apiRE = [?]key=.*?&` → `?key=xxx&`, applied to the whole request URL (given up with c4a38c5). -/
def maskApiOld (l : Str) : Str := maskLazy ['?', 'k', 'e', 'y', '='] false l

/-- `<key>.*</key>` without flag `s`: `.` stops at a line break (before bb66815). -/
def keyStepOld (l : Str) : Option (Str × Str) :=
  match stripPrefix? litOpen l with
  | some body =>
    match lastCloseLit (body.takeWhile notNl) with
    | some after => some (litOpen ++ xxx ++ litClose, after ++ body.dropWhile notNl)
    | none => none
  | none => none

def maskKeyOld (l : Str) : Str := replaceAll keyStepOld l

/-! ## `net/url` escaping -/

def hexDigit (n : Nat) : Char :=
  match n % 16 with
  | 0 => '0' | 1 => '1' | 2 => '2' | 3 => '3' | 4 => '4' | 5 => '5' | 6 => '6' | 7 => '7'
  | 8 => '8' | 9 => '9' | 10 => 'A' | 11 => 'B' | 12 => 'C' | 13 => 'D' | 14 => 'E' | _ => 'F'

/-- Bytes that `url.QueryEscape` leaves alone. -/
def unreserved (c : Char) : Bool :=
  c.isAlphanum || c == '-' || c == '_' || c == '.' || c == '~'

def escByte (c : Char) : Str :=
  if unreserved c then [c]
  else if c = ' ' then ['+']
  else ['%', hexDigit (c.toNat / 16), hexDigit c.toNat]

/-- `url.QueryEscape`. -/
def queryEscape : Str → Str
  | [] => []
  | c :: cs => escByte c ++ queryEscape cs

def hexVal? (c : Char) : Option Nat :=
  if '0' ≤ c ∧ c ≤ '9' then some (c.toNat - 48)
  else if 'a' ≤ c ∧ c ≤ 'f' then some (c.toNat - 87)
  else if 'A' ≤ c ∧ c ≤ 'F' then some (c.toNat - 55)
  else none

/-- `url.QueryUnescape`; `none` = `EscapeError`. -/
def queryUnescape : Str → Option Str
  | [] => some []
  | '%' :: h :: l :: rest =>
    match hexVal? h, hexVal? l, queryUnescape rest with
    | some a, some b, some r => some (Char.ofNat (16 * a + b) :: r)
    | _, _, _ => none
  | '%' :: _ => none
  | '+' :: rest => (queryUnescape rest).map (' ' :: ·)
  | c :: rest => (queryUnescape rest).map (c :: ·)

/-- The line `errlog.DoLog` writes (without the trailing newline). -/
def doLog (s : Str) : Str :=
  if (stripPrefix? litHttp s).isSome || (stripPrefix? litAction s).isSome then
    (queryUnescape s).getD []
  else s

/-! ## `url.Values.Encode` for single-valued keys: sorted by key, `k=v` joined by `&` -/

def strLt : Str → Str → Bool
  | [], [] => false
  | [], _ :: _ => true
  | _ :: _, [] => false
  | a :: as, b :: bs => if a.toNat < b.toNat then true else if b.toNat < a.toNat then false else strLt as bs

def insertKV (kv : Str × Str) : List (Str × Str) → List (Str × Str)
  | [] => [kv]
  | x :: xs => if strLt kv.1 x.1 then kv :: x :: xs else x :: insertKV kv xs

def sortKV : List (Str × Str) → List (Str × Str)
  | [] => []
  | x :: xs => insertKV x (sortKV xs)

def joinKV : List (Str × Str) → Str
  | [] => []
  | [kv] => queryEscape kv.1 ++ '=' :: queryEscape kv.2
  | kv :: rest => queryEscape kv.1 ++ '=' :: queryEscape kv.2 ++ '&' :: joinKV rest

def valuesEncode (kvs : List (Str × Str)) : Str := joinKV (sortKV kvs)

/-! ## Go's `%q` / `url.Error` as far as it is needed

`(*url.Error).Error()` is `Op + " " + strconv.Quote(URL) + ": " + Err`.  For URLs made of
printable ASCII `strconv.Quote` only escapes `"` and `\`. -/
def goQuote : Str → Str
  | [] => []
  | c :: cs =>
    if c = '"' then '\\' :: '"' :: goQuote cs
    else if c = '\\' then '\\' :: '\\' :: goQuote cs
    else c :: goQuote cs

def urlError (op url msg : Str) : Str :=
  op ++ ' ' :: '"' :: goQuote url ++ '"' :: ':' :: ' ' :: msg

end NA.Mask
