/-
Port of `github.com/pkg/diff/myers.Diff` (the version vendored by /repo: quadratic-space
variant, forward search with a trace of `v` arrays, backtracking, range combination) and of
`edit.Range`.  Used for stand-alone execution of the NSX planner model; the theorems take the
edit script as a parameter and only assume `validScript` (checked dynamically by the driver on
every script the port produces and, through the correspondence, on what the real library does).
Core Lean only.
-/
namespace NA.Nsx

structure Range where
  lowA : Nat
  highA : Nat
  lowB : Nat
  highB : Nat
  deriving DecidableEq, Repr, Inhabited

def Range.isInsert (r : Range) : Bool := r.lowA == r.highA
def Range.isDelete (r : Range) : Bool := r.lowB == r.highB
def Range.isEqual (r : Range) : Bool := r.highB - r.lowB == r.highA - r.lowA

/-- -1 delete, 0 equal, 1 insert, in the order `edit.Range.Op` tests. -/
def Range.op (r : Range) : Int := if r.isInsert then 1 else if r.isDelete then -1 else 0
def Range.len (r : Range) : Nat := if r.lowA == r.highA then r.highB - r.lowB else r.highA - r.lowA

private def geti (v : Array Int) (i : Int) : Int := v.getD i.toNat 0

/-- `combineRanges s t`. -/
def combineRanges (s t : Range) : Option Range :=
  if t.len == 0 then some s
  else if s.len == 0 then some t
  else if s.op != t.op then none
  else if s.op == 1 then some { s with highB := t.highB }
  else if s.op == -1 then some { s with highA := t.highA }
  else some { s with highA := t.highA, highB := t.highB }

/-- `appendToReversed`; the script is kept reversed with its last element first. -/
def appendToReversed (e : List Range) (seg : Range) : List Range :=
  match e with
  | [] => [seg]
  | last :: rest =>
    match combineRanges seg last with
    | some u => u :: rest
    | none => seg :: e

/-- `myers.Diff(nil, ab)` for a pair given by its lengths and its `Equal`. -/
def myers (aLen bLen : Nat) (eq : Nat → Nat → Bool) : List Range := Id.run do
  if aLen == 0 then return [⟨0, 0, 0, bLen⟩]
  if bLen == 0 then return [⟨0, aLen, 0, 0⟩]
  let max : Nat := aLen + bLen
  let maxI : Int := max
  let mut v : Array Int := Array.replicate (2 * max + 1) 0
  let mut trace : Array (Array Int) := #[]
  let mut found := false
  for d in [0:max] do
    if found then break
    let dI : Int := d
    trace := trace.push (v.extract (max - d) (max + d + 1))
    for j in [0:d + 1] do
      if found then break
      let k : Int := -dI + 2 * (j : Int)
      let mut x : Int :=
        if k == -dI || (k != dI && geti v (maxI + k - 1) < geti v (maxI + k + 1)) then
          geti v (maxI + k + 1)
        else geti v (maxI + k - 1) + 1
      let mut y : Int := x - k
      for _ in [0:aLen + 1] do
        if x < aLen && y < bLen && eq x.toNat y.toNat then
          x := x + 1
          y := y + 1
        else break
      v := v.setIfInBounds (maxI + k).toNat x
      if x == aLen && y == bLen then found := true
  if trace.size == max then return [⟨0, aLen, 0, 0⟩, ⟨0, 0, 0, bLen⟩]
  let mut x : Int := aLen
  let mut y : Int := bLen
  let mut e : List Range := []
  for i in [0:trace.size] do
    let d := trace.size - 1 - i
    let dI : Int := d
    let vd := trace[d]!
    let k := x - y
    let prevk : Int :=
      if k == -dI || (k != dI && geti vd (dI + k - 1) < geti vd (dI + k + 1)) then k + 1 else k - 1
    let idx := dI + prevk
    let prevx : Int := if 0 ≤ idx && idx < vd.size then geti vd idx else 0
    let prevy := prevx - prevk
    for _ in [0:aLen + bLen + 1] do
      if x > prevx && y > prevy then
        e := appendToReversed e ⟨(x - 1).toNat, x.toNat, (y - 1).toNat, y.toNat⟩
        x := x - 1
        y := y - 1
      else break
    if d > 0 then
      e := appendToReversed e ⟨prevx.toNat, x.toNat, prevy.toNat, y.toNat⟩
    x := prevx
    y := prevy
  return e

/-- The ranges walk from (0,0) to (aLen,bLen); each is a deletion (tested first, as the callers
do), an insertion, or a run of pairwise equal elements of the same length.  The side of a
deletion / insertion that is empty is not constrained (the library's "no commonality" script is
`[{0,aLen,0,0},{0,0,0,bLen}]`). -/
def validFrom (eq : Nat → Nat → Bool) (aLen bLen : Nat) : List Range → Nat → Nat → Bool
  | [], x, y => x == aLen && y == bLen
  | r :: rest, x, y =>
    if r.isDelete then r.lowA == x && r.lowA ≤ r.highA && validFrom eq aLen bLen rest r.highA y
    else if r.isInsert then r.lowB == y && r.lowB ≤ r.highB && validFrom eq aLen bLen rest x r.highB
    else
      r.lowA == x && r.lowB == y && r.lowA ≤ r.highA && r.highB == r.lowB + (r.highA - r.lowA) &&
      (List.range (r.highA - r.lowA)).all (fun i => eq (r.lowA + i) (r.lowB + i)) &&
      validFrom eq aLen bLen rest r.highA r.highB

def validScript (aLen bLen : Nat) (eq : Nat → Nat → Bool) (rs : List Range) : Bool :=
  validFrom eq aLen bLen rs 0 0

end NA.Nsx
