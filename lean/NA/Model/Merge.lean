/-
Models of the list merges behind `MergeSpoc` (property C18).  Core Lean only; executable.

One `Entry` stands for one ACL line (ASA / IOS), one iptables rule (Linux), one security rule
(PAN-OS) or one gateway-policy rule (NSX).  `a` is always the configuration merged so far (the
Netspoc IPv4 part, or IPv4 merged with IPv6), `b` the part that is merged into it (the IPv6 part
or the raw file).  `app` is the `[APPEND]` mark (`<APPEND/>` for PAN-OS).

Two generations of the code are modelled:
* `merge…Old` — the tree as found (snapshot ead8b0d): used by the `…_counterexample` theorems,
* `merge…`    — the tree after the `fix:` commits; this is what the harness compares with /repo.
-/
namespace NA.C18

/-- What the placement rules look at.
ASA: `permit` = parsed line contains "$NAME extended permit"; `any6` = the line
"access-list $NAME extended deny ip any6 any6"; `deny`/`other` = everything else (deny, remark, standard).
IOS: `permit` = sub-command starts with "permit ".
Linux: `deny` = `-j DROP`; `permit` = `-j ACCEPT`; `other` = LOG, jump to a chain, …  -/
inductive Kind | permit | deny | other | any6
  deriving DecidableEq, Repr, Inhabited

structure Entry where
  id   : Nat
  kind : Kind
  app  : Bool := false
  deriving DecidableEq, Repr, Inhabited

def Entry.isPermit (e : Entry) : Bool := e.kind == .permit
def Entry.notPermit (e : Entry) : Bool := !e.isPermit
/-- Linux: `pairs["-j"] == "DROP"`. -/
def Entry.isDrop (e : Entry) : Bool := e.kind == .deny
def Entry.isAny6 (e : Entry) : Bool := e.kind == .any6

/-- Lines of `b` before the `[APPEND]` marker (`prependACL`, `top`). -/
def nonApp (b : List Entry) : List Entry := b.filter (fun e => !e.app)
/-- Lines of `b` behind the `[APPEND]` marker (`appendACL`). -/
def appPart (b : List Entry) : List Entry := b.filter (fun e => e.app)

/-- The maximal suffix of `l` whose entries all satisfy `q` (the "trailing deny lines"). -/
def trailing (q : Entry → Bool) (l : List Entry) : List Entry := (l.reverse.takeWhile q).reverse
/-- `l` without that suffix: empty, or ending in an entry that does not satisfy `q`. -/
def upto (q : Entry → Bool) (l : List Entry) : List Entry := (l.reverse.dropWhile q).reverse

/-- `acl[:i] ++ A ++ acl[i:]` with `i` = index behind the last entry not satisfying `q`
(`slices.Insert(rules, i, …)`). -/
def insertBeforeTrailing (q : Entry → Bool) (l A : List Entry) : List Entry :=
  upto q l ++ A ++ trailing q l

/-! ### ASA (`mergeASAACLs`) -/

/-- The documented IPv6 exception: if the last non-APPEND line of `b` is
`deny ip any6 any6`, it is moved behind the lines of `a`.  Result: (lines that go on top, lines of `a`
plus the moved line). -/
def asaSplit (a b : List Entry) : List Entry × List Entry :=
  let p := nonApp b
  match p.getLast? with
  | some x => if x.isAny6 then (p.dropLast, a ++ [x]) else (p, a)
  | none => (p, a)

/-- Fixed code: the last permit line is searched only within the entries from Netspoc. -/
def mergeASA (a b : List Entry) : List Entry :=
  let s := asaSplit a b
  s.1 ++ insertBeforeTrailing Entry.notPermit s.2 (appPart b)

/-- Code as found: the search runs over the whole list built so far (raw lines included) and the
index is −1 when there is no permit line: `acl[:-1]` panics (`none`). -/
def mergeASAOld (a b : List Entry) : Option (List Entry) :=
  let s := asaSplit a b
  let acl := s.1 ++ s.2
  if appPart b = [] then some acl
  else if acl.any Entry.isPermit then some (insertBeforeTrailing Entry.notPermit acl (appPart b))
  else none

/-! ### IOS (`mergeIOSACLs`): the same without the IPv6 exception -/

def mergeIOS (a b : List Entry) : List Entry :=
  nonApp b ++ insertBeforeTrailing Entry.notPermit a (appPart b)

def mergeIOSOld (a b : List Entry) : Option (List Entry) :=
  let acl := nonApp b ++ a
  if appPart b = [] then some acl
  else if acl.any Entry.isPermit then some (insertBeforeTrailing Entry.notPermit acl (appPart b))
  else none

/-! ### Linux (`linux.MergeSpoc`, one chain) -/

/-- Fixed code: non-APPEND rules on top in file order, APPEND rules in file order in front of the
trailing DROP rules of the Netspoc chain. -/
def mergeLinux (a b : List Entry) : List Entry :=
  nonApp b ++ insertBeforeTrailing Entry.isDrop a (appPart b)

/-- Code as found: one `slices.Insert` per rule; a non-APPEND rule goes to index 0, an APPEND rule
in front of the trailing DROP rules of the list built so far. -/
def linuxStepOld (acc : List Entry) (ru : Entry) : List Entry :=
  if ru.app then insertBeforeTrailing Entry.isDrop acc [ru] else ru :: acc

def mergeLinuxOld (a b : List Entry) : List Entry := b.foldl linuxStepOld a

/-! ### PAN-OS (rules of one vsys) and NSX (rules of one policy) -/

/-- `top ++ v1.Rules ++ appended`. -/
def mergePan (a b : List Entry) : List Entry := nonApp b ++ a ++ appPart b

/-- `append(p1.Rules, p2.Rules...)`: NSX has no APPEND mark; the position on the device is given by
`sequence_number`, the list position of every rule of `b` is behind all rules of `a`. -/
def mergeNsx (a b : List Entry) : List Entry := a ++ b

/-! ### PAN-OS: the object classes of a vsys (`Addresses`, `AddressGroups`, `Services`, `ServiceGroups`) -/

structure PanObjs where
  addresses     : List Nat := []
  addressGroups : List Nat := []
  services      : List Nat := []
  serviceGroups : List Nat := []
  deriving DecidableEq, Repr, Inhabited

/-- Repaired code: all four classes of the raw / IPv6 vsys are appended. -/
def mergePanObjs (a b : PanObjs) : PanObjs :=
  { addresses := a.addresses ++ b.addresses, addressGroups := a.addressGroups ++ b.addressGroups,
    services := a.services ++ b.services, serviceGroups := a.serviceGroups ++ b.serviceGroups }

/-- Code as found: `ServiceGroups` of the second configuration are forgotten. -/
def mergePanObjsOld (a b : PanObjs) : PanObjs :=
  { addresses := a.addresses ++ b.addresses, addressGroups := a.addressGroups ++ b.addressGroups,
    services := a.services ++ b.services, serviceGroups := a.serviceGroups }

end NA.C18
