import NA.Spec.NsxStore
/-
Line format shared by the C04 driver and the Go harness (`harness/c04`).  Five nesting levels
use the ASCII separators FS GS RS US (0x1c–0x1f) and `,`; generated strings never contain them.

  config  := policies FS groups FS services
  list    := element GS element …
  policy  := id RS rule RS rule …
  rule    := id US direction US seq US action US logged US tag US disabled US dstExcl US srcExcl US
             svcEntries US ipProto US profiles(,) US scope(,) US service US src US dst US rev
  group   := id US exprId US rtype US addrs(,)
  service := id US defn
  calls   := call GS call …        call := kind RS field RS …
-/
namespace NA.Nsx.Wire
open NA.Nsx

def FS : String := "\x1c"
def GS : String := "\x1d"
def RS : String := "\x1e"
def US : String := "\x1f"

def splitL (sep s : String) : List String := if s.isEmpty then [] else s.splitOn sep
def commaL (s : String) : List String := splitL "," s
def b2s (b : Bool) : String := if b then "1" else "0"
def s2b (s : String) : Bool := s == "1"

def encRule (r : Rule) : String :=
  US.intercalate [r.id, r.attrs.direction, toString r.attrs.seq, r.attrs.action, b2s r.attrs.logged, r.attrs.tag,
    b2s r.attrs.disabled, b2s r.attrs.dstExcl, b2s r.attrs.srcExcl, r.attrs.svcEntries, r.attrs.ipProto,
    ",".intercalate r.attrs.profiles, ",".intercalate r.attrs.scope, r.service, r.src, r.dst, toString r.rev]

def decRule (s : String) : Option Rule :=
  match s.splitOn US with
  | [id, dir, seq, act, lg, tag, dis, de, se, sve, ipp, prof, scope, svc, src, dst, rev] => do
    let seq ← seq.toInt?
    let rev ← rev.toNat?
    pure { id := id, service := svc, src := src, dst := dst, rev := rev,
           attrs := { direction := dir, seq := seq, action := act, logged := s2b lg, tag := tag, disabled := s2b dis,
                      dstExcl := s2b de, srcExcl := s2b se, svcEntries := sve, ipProto := ipp,
                      profiles := commaL prof, scope := commaL scope } }
  | _ => none

def encGroup (g : Group) : String := US.intercalate [g.id, g.exprId, g.rtype, ",".intercalate g.addrs]
def decGroup (s : String) : Option Group :=
  match s.splitOn US with
  | [id, e, t, a] => some ⟨id, e, t, commaL a⟩
  | _ => none

def encService (s : Service) : String := US.intercalate [s.id, s.defn]
def decService (s : String) : Option Service :=
  match s.splitOn US with
  | [id, d] => some ⟨id, d⟩
  | _ => none

def encPolicy (p : Policy) : String := RS.intercalate (p.id :: p.rules.map encRule)
def decPolicy (s : String) : Option Policy :=
  match s.splitOn RS with
  | id :: rs => do pure ⟨id, ← rs.mapM decRule⟩
  | [] => none

def encConfig (c : Config) : String :=
  FS.intercalate [GS.intercalate (c.policies.map encPolicy), GS.intercalate (c.groups.map encGroup),
    GS.intercalate (c.services.map encService)]

def decConfig (s : String) : Option Config :=
  if s.isEmpty then some {} else
  match s.splitOn FS with
  | [p, g, sv] => do
    pure { policies := ← (splitL GS p).mapM decPolicy, groups := ← (splitL GS g).mapM decGroup,
           services := ← (splitL GS sv).mapM decService }
  | _ => none

def encCall : Call → String
  | .putService id d => RS.intercalate ["PS", id, d]
  | .patchService id d => RS.intercalate ["AS", id, d]
  | .deleteService id => RS.intercalate ["DS", id]
  | .putGroup id e t a => RS.intercalate ["PG", id, e, t, ",".intercalate a]
  | .postAddrs g e add a => RS.intercalate [if add then "XA" else "XR", g, e, ",".intercalate a]
  | .patchExpr g e t a => RS.intercalate ["AE", g, e, t, ",".intercalate a]
  | .deleteGroup id => RS.intercalate ["DG", id]
  | .putPolicy id rs => RS.intercalate ("PP" :: id :: rs.map encRule)
  | .deletePolicy id => RS.intercalate ["DP", id]
  | .putRule p r b => RS.intercalate ["PR", p, r, encRule b]
  | .patchRule p r b => RS.intercalate ["AR", p, r, encRule b]
  | .deleteRule p r => RS.intercalate ["DR", p, r]

def decCall (s : String) : Option Call :=
  match s.splitOn RS with
  | ["PS", id, d] => some (.putService id d)
  | ["AS", id, d] => some (.patchService id d)
  | ["DS", id] => some (.deleteService id)
  | ["PG", id, e, t, a] => some (.putGroup id e t (commaL a))
  | ["XA", g, e, a] => some (.postAddrs g e true (commaL a))
  | ["XR", g, e, a] => some (.postAddrs g e false (commaL a))
  | ["AE", g, e, t, a] => some (.patchExpr g e t (commaL a))
  | ["DG", id] => some (.deleteGroup id)
  | "PP" :: id :: rs => (rs.mapM decRule).map (.putPolicy id)
  | ["DP", id] => some (.deletePolicy id)
  | ["PR", p, r, b] => (decRule b).map (.putRule p r)
  | ["AR", p, r, b] => (decRule b).map (.patchRule p r)
  | ["DR", p, r] => some (.deleteRule p r)
  | _ => none

def encCalls (cs : List Call) : String := GS.intercalate (cs.map encCall)
def decCalls (s : String) : Option (List Call) := (splitL GS s).mapM decCall

end NA.Nsx.Wire
