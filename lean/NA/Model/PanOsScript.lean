/-
Edit scripts as `github.com/pkg/diff/edit` represents them, what the planners may assume about
the script `myers.Diff` returns (DESIGN.md 5.1), and a faithful executable port of that
function (used by the driver for stand-alone execution; tied to the real function by a
differential test on equality matrices and on every rule list the harness generates).

The theorems never mention the port: they quantify over every script satisfying
`validScript` and `normalised`.  Core Lean only.
-/
namespace NA.PanOs

structure Range where
  lowA  : Nat
  highA : Nat
  lowB  : Nat
  highB : Nat
  deriving DecidableEq, Repr, Inhabited

def Range.isInsert (r : Range) : Bool := r.lowA == r.highA
def Range.isDelete (r : Range) : Bool := r.lowB == r.highB
def Range.isEqual (r : Range) : Bool := r.highB - r.lowB == r.highA - r.lowA

inductive Op | del | eq | ins
  deriving DecidableEq, Repr

/-- `edit.Range.Op` (tests insert first). -/
def Range.op (r : Range) : Op :=
  if r.isInsert then .ins else if r.isDelete then .del else .eq

/-- The order in which `diffRules` and `hasEqualizedLists` test a range (delete first). -/
def Range.kind (r : Range) : Op :=
  if r.isDelete then .del else if r.isInsert then .ins else .eq

/-- All pairs of an equal range are equal. -/
def pairsEq (eq : Nat → Nat → Bool) (lowA lowB : Nat) : Nat → Bool
  | 0 => true
  | k + 1 => eq lowA lowB && pairsEq eq (lowA + 1) (lowB + 1) k

/-- The ranges walk from `(x,y)` to `(n,m)`; each is a delete, an insert, or an equal range of
the same length on both sides whose elements are pairwise equal. -/
def validFrom (eq : Nat → Nat → Bool) (n m : Nat) : Nat → Nat → List Range → Bool
  | x, y, [] => x == n && y == m
  | x, y, r :: rs =>
    r.lowA == x && r.lowB == y && r.lowA ≤ r.highA && r.lowB ≤ r.highB &&
    r.highA ≤ n && r.highB ≤ m &&
    (r.isInsert || r.isDelete ||
      (r.highB - r.lowB == r.highA - r.lowA && pairsEq eq r.lowA r.lowB (r.highA - r.lowA))) &&
    validFrom eq n m r.highA r.highB rs

/-- The script `myers.Diff` returns when the two sides have nothing in common: delete
everything, then insert everything — with the insert range anchored at A-position 0, not at
`n` (which is why `diffRules` takes `max(r.LowA, delIdx)`). -/
def nothingCommon (n m : Nat) : List Range := [⟨0, n, 0, 0⟩, ⟨0, 0, 0, m⟩]

def validScript (eq : Nat → Nat → Bool) (n m : Nat) (rs : List Range) : Bool :=
  validFrom eq n m 0 0 rs || (0 < n && 0 < m && rs == nothingCommon n m)

/-- What the sanity check at the end of `myers.Diff` enforces. -/
def normalised : List Range → Bool
  | [] => true
  | [_] => true
  | p :: c :: rs =>
    !(p.op == c.op || (p.op == .ins && c.op != .eq) || (c.op == .del && p.op != .eq)) &&
      normalised (c :: rs)

/-- A script for two lists that are equal element by element is the identity. -/
def identityScript (rs : List Range) : Bool := rs.all (fun r => r.isEqual)

/-! ### Port of `myers.Diff` -/

private def combineRanges (s t : Range) : Option Range :=
  let len (r : Range) := if r.lowA == r.highA then r.highB - r.lowB else r.highA - r.lowA
  if len t == 0 then some s
  else if len s == 0 then some t
  else if s.op != t.op then none
  else match s.op with
    | .ins => some { s with highB := t.highB }
    | .del => some { s with highA := t.highA }
    | .eq => some { s with highA := t.highA, highB := t.highB }

private def appendToReversed (e : Array Range) (seg : Range) : Array Range :=
  if e.size == 0 then e.push seg
  else
    match combineRanges seg e.back! with
    | none => e.push seg
    | some u => e.set! (e.size - 1) u

/-- `myers.Diff(nil, ab)` with `ab.LenA() = aLen`, `ab.LenB() = bLen`, `ab.Equal = eq`. -/
def myersDiff (aLen bLen : Nat) (eq : Nat → Nat → Bool) : List Range := Id.run do
  if aLen == 0 then return [⟨0, 0, 0, bLen⟩]
  if bLen == 0 then return [⟨0, aLen, 0, 0⟩]
  let max := aLen + bLen
  let imax : Int := max
  let mut v : Array Int := Array.replicate (2 * max + 1) 0
  let mut trace : Array (Array Int) := #[]
  let mut found := false
  for d in [0:max] do
    if found then break
    trace := trace.push (v.extract (max - d) (max + d + 1))
    let id : Int := d
    let mut k : Int := -id
    for _ in [0:d + 1] do
      if found then break
      let mut x : Int := 0
      if k == -id || (k != id && v[(imax + k - 1).toNat]! < v[(imax + k + 1).toNat]!) then
        x := v[(imax + k + 1).toNat]!
      else
        x := v[(imax + k - 1).toNat]! + 1
      let mut y : Int := x - k
      for _ in [0:aLen + 1] do
        if x < aLen && y < bLen && 0 ≤ x && 0 ≤ y && eq x.toNat y.toNat then
          x := x + 1
          y := y + 1
        else break
      v := v.set! (imax + k).toNat x
      if x == aLen && y == bLen then
        found := true
      k := k + 2
  if trace.size == max then
    return [⟨0, aLen, 0, 0⟩, ⟨0, 0, 0, bLen⟩]
  let mut x : Int := aLen
  let mut y : Int := bLen
  let mut e : Array Range := #[]
  for i in [0:trace.size] do
    let d := trace.size - 1 - i
    let id : Int := d
    let vv := trace[d]!
    let k := x - y
    let mut prevk : Int := 0
    if k == -id || (k != id && vv[(id + k - 1).toNat]! < vv[(id + k + 1).toNat]!) then
      prevk := k + 1
    else
      prevk := k - 1
    let mut prevx : Int := 0
    let idx := id + prevk
    if 0 ≤ idx && idx < vv.size then
      prevx := vv[idx.toNat]!
    let prevy := prevx - prevk
    for _ in [0:aLen + 1] do
      if x > prevx && y > prevy then
        e := appendToReversed e ⟨(x - 1).toNat, x.toNat, (y - 1).toNat, y.toNat⟩
        x := x - 1
        y := y - 1
      else break
    if d > 0 then
      e := appendToReversed e ⟨prevx.toNat, x.toNat, prevy.toNat, y.toNat⟩
    x := prevx
    y := prevy
  return e.toList.reverse

end NA.PanOs
