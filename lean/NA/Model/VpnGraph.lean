import NA.Model.CryptoMapEngine
/-!
# The ASA diff engine of `cisco/diff.go` on named object graphs (executable model)

Fragment G: anchors `username NAME` and address-named `tunnel-group NAME` (fixed names), the objects
they reference by name — `group-policy` (generated name, sections `internal` / `attributes`),
`access-list` (generated name; here an opaque list of lines that is either identical on both sides or
shares no line, so it is kept or replaced as a whole), `ip local pool` (simple object: found by
content), `aaa-server` (never created or changed: must exist) — and attribute sub-commands, plain or
carrying one reference (`vpn-filter value ACL`, `vpn-group-policy GP`, `address-pools value POOL`,
`default-group-policy GP`, `authentication-server-group AAA`).

Mirrored: `generateNamesForTransfer`, `diffConfig`/`diffNamedCmds2` (prefixes in sorted order, device
names first), `diffCmds` on the top-level commands of one object and on the sub-commands of one
section (needed / ready short cuts, hasEq, "no parts equal" ⇒ `markDeleted` + `addCmds`, name adoption,
delete before add), `diffUnordered`, `makeEqual` (changed reference ⇒ the sub-command is sent again),
`equalizeSimpleObject`/`findSimpleObject`, `addCmds`/`addCmd` (referenced objects first, `ready` of the
first command), `setCmdConfMode` (`exit`), `delCmds`, `markDeleted`, `deleteUnused` (`-DRC-`,
`stillReferenced`, referenced-last rounds, `clear configure` vs `no`).  Marks are kept per object
(all top-level commands of an object are marked together in this fragment).
-/
namespace NA.Vpn.G
open NA.Vpn (sortS insertS genName interleave unorderedA insertRuns)

inductive Kind | acl | gp | pool | tg | user | aaa | certmap
  deriving DecidableEq, Repr, Inhabited

/-- position of the prefix in sorted order: aaa-server < access-list < crypto ca certificate map < group-policy < ip local pool <
tunnel-group < username -/
def Kind.ord : Kind → Nat
  | .aaa => 0 | .acl => 1 | .certmap => 2 | .gp => 3 | .pool => 4 | .tg => 5 | .user => 6

def Kind.word : Kind → String
  | .aaa => "aaa-server" | .acl => "access-list" | .gp => "group-policy" | .pool => "ip local pool"
  | .tg => "tunnel-group" | .user => "username" | .certmap => "crypto ca certificate map"

/-- names of this kind are taken from the target unchanged (a tunnel-group only if it is an anchor: named by an address) -/
def Kind.fixed : Kind → Bool
  | .user => true | .aaa => true | _ => false

abbrev Ref := Kind × String

/-- a sub-command: `key` = parsed text (with `$REF`), `body` = key split at `$REF`, `orig` = the device's text -/
structure Sub where
  key : String
  body : List String := []
  ref : Option Ref := none
  orig : String := ""
  deriving DecidableEq, Repr, Inhabited

/-- a top-level command of an object: `head` = text behind the name (`internal`, `attributes`, `type ipsec-l2l`, …);
`mode` = the command opens a sub-mode (its template has sub-commands) -/
structure Sec where
  head : String
  mode : Bool := false
  subs : List Sub := []
  deriving DecidableEq, Repr, Inhabited

structure Obj where
  kind : Kind
  name : String
  drc : Bool := false           -- name contains "-DRC-"
  anchor : Bool := false        -- username, tunnel-group named by an address
  secs : List Sec := []         -- gp / tg / user
  lines : List String := []     -- acl: the lines behind the name; pool: its one content text
  deriving DecidableEq, Repr, Inhabited

def Obj.id (o : Obj) : Ref := (o.kind, o.name)
def Obj.refs (o : Obj) : List Ref := o.secs.flatMap fun s => s.subs.filterMap (·.ref)

/-! ## change lines -/

inductive Chg
  | sec (no : Bool) (k : Kind) (name head : String) (mode : Bool)   -- [no ]KIND NAME HEAD; `mode`: opens a sub-mode
  | sub (no : Bool) (text : String) (ref : Option Ref) (key : String) (body : List String)
      -- [no ]TEXT inside the open mode; `ref` = resolved reference, `key` = parsed text (with `$REF`), `body` = key split at `$REF`
  | exit
  | line (name text : String)                            -- access-list NAME TEXT
  | pool (no : Bool) (name content : String)
  | clear (k : Kind) (name : String)                     -- clear configure KIND NAME
  deriving DecidableEq, Repr, Inhabited

def noPre (b : Bool) : String := if b then "no " else ""

def Chg.render : Chg → String
  | .sec no k n h _ => noPre no ++ k.word ++ " " ++ n ++ " " ++ h
  | .sub no t _ _ _ => noPre no ++ t
  | .exit => "exit"
  | .line n t => "access-list " ++ n ++ " " ++ t
  | .pool no n c => noPre no ++ "ip local pool " ++ n ++ " " ++ c
  | .clear k n => "clear configure " ++ k.word ++ " " ++ n

/-! ## state -/

structure St where
  a : List Obj := []
  b : List Obj := []
  needed : List Ref := []            -- device objects marked needed
  toDel : List Ref := []             -- device objects marked toDelete
  ready : List (Ref × String) := []  -- target objects already on the device, with the name they have there
  gen : List (Ref × String) := []    -- generated names (fixed at the start)
  mode : Option (Kind × String × String) := none   -- `subCmdOf`: kind, name, head of the top-level command whose sub-mode is open
                                     -- (the Go code keeps the printed command; names contain no blanks)
  outside : Bool := false            -- two access-lists that share some but not all lines were compared: not this fragment
  out : List Chg := []
  deriving Repr, Inhabited

def St.emit (st : St) (c : Chg) : St := { st with out := st.out ++ [c] }
def St.aObj (st : St) (r : Ref) : Option Obj := st.a.find? fun o => o.id == r
def St.bObj (st : St) (r : Ref) : Option Obj := st.b.find? fun o => o.id == r
def St.isNeeded (st : St) (r : Ref) : Bool := st.needed.contains r
def St.isReady (st : St) (r : Ref) : Bool := st.ready.any fun p => p.1 == r
/-- the name a target object is printed with: the device name it was found under, else its generated name -/
def St.cur (st : St) (r : Ref) : String :=
  match st.ready.find? (fun p => p.1 == r) with
  | some p => p.2
  | none => match st.gen.find? (fun p => p.1 == r) with
    | some p => p.2
    | none => r.2
def St.markNeeded (st : St) (r : Ref) : St := if st.needed.contains r then st else { st with needed := r :: st.needed }
def St.setReady (st : St) (r : Ref) (n : String) : St :=
  { st with ready := (r, n) :: st.ready.filter fun p => p.1 != r }

/-- `setCmdConfMode` -/
def St.setMode (st : St) (k : Kind) (name head : String) : St :=
  if st.mode == some (k, name, head) then st else
  let st := if st.mode.isSome then st.emit .exit else st
  { (st.emit (.sec false k name head true)) with mode := some (k, name, head) }

/-- the printed sub-command of the target with the current names -/
def St.subText (st : St) (s : Sub) : String :=
  interleave s.body (match s.ref with | some r => [st.cur r] | none => [])
def St.subRef (st : St) (s : Sub) : Option Ref := s.ref.map fun r => (r.1, st.cur r)

/-! ## marks -/

/-- `markDeleted`: the object and everything it references (aaa-server is left alone) -/
def markDel : Nat → St → Ref → St
  | 0, st, _ => st
  | f + 1, st, r =>
    if r.1 == .aaa then st else
    match st.aObj r with
    | none => st
    | some o =>
      if st.toDel.contains r then st else
      o.refs.foldl (markDel f) { st with toDel := r :: st.toDel }

/-- `findSimpleObject` for pools -/
def findPool (st : St) (content : String) : Option String :=
  (sortS ((st.a.filter fun o => o.kind == .pool).map (·.name))).find? fun n =>
    match st.aObj (.pool, n) with
    | some o => o.lines == [content]
    | none => false

/-! ## transfer (`addCmds`) -/

/-- `addCmd` for one top-level command of a sectioned object, printed under `name` -/
def addSec (st : St) (k : Kind) (name : String) (sec : Sec) : St :=
  let st := { (st.emit (.sec false k name sec.head sec.mode)) with
              mode := if sec.mode then some (k, name, sec.head) else none }
  sec.subs.foldl (fun st s => st.emit (.sub false (st.subText s) (st.subRef s) s.key s.body)) st

/-- `follow(sc)` for the sub-commands of one top-level command: transfer what they reference -/
def followSubs (add : St → Ref → Option St) (st : St) (subs : List Sub) : Option St :=
  subs.foldl (fun (acc : Option St) s =>
    acc.bind fun st => match s.ref with
      | some x => add st x
      | none => some st) (some st)

/-- `for c in bl { follow(c); follow(subs); addCmd(c) }` for top-level commands printed under `name` -/
def addSecs (add : St → Ref → Option St) (st : St) (k : Kind) (name : String) (secs : List Sec) : Option St :=
  secs.foldl (fun (acc : Option St) sec =>
    acc.bind fun st => (followSubs add st sec.subs).map fun st => addSec st k name sec) (some st)

/-- `add(bl)` for the object `r` of the target; `none` = abort ("must be transferred manually") -/
def addAny : Nat → St → Ref → Option St
  | 0, st, _ => some st
  | f + 1, st, r =>
    match r.1 with
    | .aaa =>
      if (st.aObj r).isSome then some ((st.markNeeded r).setReady r r.2) else none
    | .acl =>
      match st.bObj r with
      | none => some st
      | some o =>
        if st.isReady r then some st else
        let n := st.cur r
        let st := st.setReady r n
        some { (o.lines.foldl (fun st l => st.emit (.line n l)) st) with mode := if o.lines.isEmpty then st.mode else none }
    | .pool =>
      match st.bObj r with
      | none => some st
      | some o =>
        if st.isReady r then some st else
        let n := st.cur r
        let st := st.setReady r n
        match findPool st (o.lines.headD "") with
        | some dn => some ((st.markNeeded (.pool, dn)).setReady r dn)
        | none => some { (st.emit (.pool false n (o.lines.headD ""))) with mode := none }
    | k =>
      match st.bObj r with
      | none => some st
      | some o =>
        if st.isReady r then some st else
        let n := st.cur r
        addSecs (addAny f) (st.setReady r n) k n o.secs

/-! ## comparison (`diffCmds` / `makeEqual`) -/

def keysOf (l : List Sub) : List String := l.map (·.key)

/-- `delCmds` for sub-commands of the device's section `k name head`, then `markDeleted` of what they reference -/
def delSubs (mark : St → Ref → St) (st : St) (k : Kind) (name head : String) (l : List Sub) : St :=
  let st := l.foldl (fun st s => (st.setMode k name head).emit (.sub true s.orig s.ref s.key s.body)) st
  (l.filterMap (·.ref)).foldl mark st

/-- `addCmds` for a run of sub-commands of the target's section, printed under `name` -/
def addSubs (add : St → Ref → Option St) (st : St) (k : Kind) (name head : String) (l : List Sub) : Option St :=
  l.foldl (fun (acc : Option St) s =>
    acc.bind fun st =>
      (match s.ref with
       | some x => add st x
       | none => some st).map fun (st : St) =>
        let st := st.setMode k name head
        st.emit (.sub false (st.subText s) (st.subRef s) s.key s.body)) (some st)

/-- `makeEqual` for pairs of equal sub-commands: compare what they reference; a changed name ⇒ send the sub-command again -/
def equalSubs (diff : St → Ref → Ref → Option (St × String)) (st : St) (k : Kind) (name head : String)
    (pairs : List (Sub × Sub)) : Option St :=
  pairs.foldl (fun (acc : Option St) q =>
    acc.bind fun st =>
      match q.1.ref, q.2.ref with
      | some xa, some xb =>
        (diff st xa xb).map fun r =>
          if r.2 != xa.2 then
            let st := r.1.setMode k name head
            st.emit (.sub false (st.subText q.2) (st.subRef q.2) q.2.key q.2.body)
          else r.1
      | _, _ => some st) (some st)

def pairsOf {α : Type} (la lb : List α) (idx : List (Nat × Nat)) : List (α × α) :=
  idx.filterMap fun p => match la[p.1]?, lb[p.2]? with
    | some x, some y => some (x, y)
    | _, _ => none

/-- `diffCmds(a.sub, b.sub)` inside `makeEqual` of two equal top-level commands -/
def diffSubs (add : St → Ref → Option St) (diff : St → Ref → Ref → Option (St × String)) (mark : St → Ref → St)
    (st : St) (k : Kind) (name head : String) (sa sb : List Sub) : Option St :=
  if sa.isEmpty && sb.isEmpty then some st else
  let v := unorderedA (keysOf sb) (keysOf sa) 0 []
  if v.1.isEmpty then
    let st := if sa.isEmpty then st else delSubs mark st k name head sa
    if sb.isEmpty then some st else addSubs add st k name head sb
  else
    let st := delSubs mark st k name head (v.2.1.filterMap fun i => sa[i]?)
    let st? := equalSubs diff st k name head (pairsOf sa sb v.1)
    (insertRuns v.2.2 (keysOf sb) 0 []).foldl (fun (acc : Option St) run =>
      acc.bind fun st => addSubs add st k name head (run.filterMap fun j => sb[j]?)) st?

/-- `delCmds` for top-level commands the target does not have -/
def delSecs (mark : St → Ref → St) (st : St) (k : Kind) (name : String) (secs : List Sec) : St :=
  secs.foldl (fun st sec =>
    let st := { (st.emit (.sec true k name sec.head sec.mode)) with mode := none }
    (sec.subs.filterMap (·.ref)).foldl mark st) st

/-- the part of `diffCmds` for two sectioned objects that share a top-level command -/
def diffSecs (add : St → Ref → Option St) (diff : St → Ref → Ref → Option (St × String)) (mark : St → Ref → St)
    (st : St) (k : Kind) (name : String) (a b : List Sec) (u : List (Nat × Nat) × List Nat × List String) : Option St :=
  let st := delSecs mark st k name (u.2.1.filterMap fun i => a[i]?)
  let st? := (pairsOf a b u.1).foldl (fun (acc : Option St) p =>
    acc.bind fun st => diffSubs add diff mark st k name p.2.head p.1.subs p.2.subs) (some st)
  st?.bind fun st =>
    addSecs add st k name ((insertRuns u.2.2 (b.map (·.head)) 0 []).flatten.filterMap fun j => b[j]?)

/-- result of comparing the object `ra` of the device with the object `rb` of the target: new state and the
name the reference has afterwards; `none` = abort -/
def diffAny : Nat → St → Ref → Ref → Option (St × String)
  | 0, st, _, rb => some (st, st.cur rb)
  | f + 1, st, ra, rb =>
    match st.aObj ra, st.bObj rb with
    | some a, some b =>
      match ra.1 with
      | .aaa =>
        if ra.2 != rb.2 then (addAny (f + 1) st rb).map fun st => (st, rb.2)
        else some ((st.markNeeded ra).setReady rb ra.2, ra.2)
      | .acl =>
        if st.isNeeded ra then (addAny (f + 1) st rb).map fun st => (st, st.cur rb)
        else if st.isReady rb then some (st, st.cur rb)
        else if a.lines == b.lines then some ((st.markNeeded ra).setReady rb ra.2, ra.2)
        else
          let st := if a.lines.any (fun l => b.lines.contains l) then { st with outside := true } else st
          (addAny (f + 1) (markDel (f + 1) st ra) rb).map fun st => (st, st.cur rb)
      | .pool =>
        if st.isNeeded ra then (addAny (f + 1) st rb).map fun st => (st, st.cur rb)
        else if st.isReady rb then some (st, st.cur rb)
        else if a.lines == b.lines then some ((st.markNeeded ra).setReady rb ra.2, ra.2)
        else
          let st := markDel (f + 1) st ra
          match findPool st (b.lines.headD "") with
          | some dn => some ((st.markNeeded (.pool, dn)).setReady rb dn, dn)
          | none => (addAny (f + 1) st rb).map fun st => (st, st.cur rb)
      | k =>
        if st.isNeeded ra then (addAny (f + 1) st rb).map fun st => (st, st.cur rb)
        else if st.isReady rb then some (st, st.cur rb)
        else
          let u := unorderedA (b.secs.map (·.head)) (a.secs.map (·.head)) 0 []
          if u.1.isEmpty then
            (addAny (f + 1) (markDel (f + 1) st ra) rb).map fun st => (st, st.cur rb)
          else
            (diffSecs (addAny f) (diffAny f) (markDel f) ((st.markNeeded ra).setReady rb ra.2) k ra.2 a.secs b.secs u).map
              fun st => (st, ra.2)
    | _, _ => some (st, st.cur rb)

/-! ## the anchors -/

def fuel : Nat := 4

/-- `diffNamedCmds2` for one anchor kind: device names first (sorted), then target names the device lacks -/
def diffAnchors (st : St) (k : Kind) : Option St :=
  let aN := sortS ((st.a.filter fun o => o.kind == k && o.anchor).map (·.name))
  let bN := sortS ((st.b.filter fun o => o.kind == k && o.anchor).map (·.name))
  let st? := aN.foldl (fun (acc : Option St) n =>
    acc.bind fun st =>
      if bN.contains n then (diffAny fuel st (k, n) (k, n)).map (·.1)
      else some (markDel fuel st (k, n))) (some st)
  bN.foldl (fun (acc : Option St) n =>
    acc.bind fun st => if aN.contains n then some st else addAny fuel st (k, n)) st?

/-! ## deleteUnused -/

/-- objects that stay although nothing needs them protect what they (transitively) reference -/
def stillFrom : Nat → St → List Ref → Ref → List Ref
  | 0, _, acc, _ => acc
  | f + 1, st, acc, r =>
    match st.aObj r with
    | none => acc
    | some o => o.refs.foldl (fun acc x =>
        if st.isNeeded x || (st.aObj x).isNone then acc
        else stillFrom f st (if acc.contains x then acc else x :: acc) x) acc

structure DelObj where
  id : Ref
  lines : List Chg
  refs : List Ref
  deriving Repr, Inhabited

def delLe (x y : DelObj) : Bool := x.id.1.ord < y.id.1.ord || (x.id.1.ord == y.id.1.ord && decide (x.id.2 ≤ y.id.2))
def insertD (x : DelObj) : List DelObj → List DelObj
  | [] => [x]
  | y :: ys => if delLe x y then x :: y :: ys else y :: insertD x ys

/-- the rounds of `for len(toDelete) > 0`: what no other pending object references goes first -/
def delRounds : Nat → List DelObj → List Chg
  | 0, _ => []
  | _, [] => []
  | f + 1, objs =>
    let isRef (o : DelObj) : Bool := objs.any fun x => x.refs.contains o.id
    (objs.filter fun o => !isRef o).flatMap (·.lines) ++ delRounds f (objs.filter isRef)

def delLines (o : Obj) : List Chg :=
  match o.kind with
  | .pool => [.pool true o.name (o.lines.headD "")]
  | k => [.clear k o.name]

/-- may be deleted: nothing needs it and it is marked `toDelete` or carries the generated-name tag -/
def eligible (st : St) (o : Obj) : Bool :=
  !st.isNeeded o.id && (st.toDel.contains o.id || o.drc) && o.kind != .aaa

/-- `stillReferenced` -/
def stillSet (st : St) : List Ref :=
  (st.a.filter fun o => !st.isNeeded o.id && !eligible st o).foldl (fun acc o => stillFrom fuel st acc o.id) []

/-- the objects `deleteUnused` removes, in sorted order -/
def pendingDel (st : St) : List DelObj :=
  ((st.a.filter fun o => eligible st o && !(stillSet st).contains o.id).map fun o =>
    ({ id := o.id, lines := delLines o, refs := o.refs } : DelObj)).foldr insertD []

def deleteUnused (st : St) : St :=
  let objs := pendingDel st
  let st := if !objs.isEmpty && st.mode.isSome then st.emit .exit else st
  { st with out := st.out ++ delRounds (objs.length + 1) objs, mode := if objs.isEmpty then st.mode else none }

/-! ## the whole run -/

def initSt (a b : List Obj) : St :=
  { a := a, b := b,
    gen := b.map fun o => (o.id, if o.kind.fixed || o.anchor then o.name
      else genName o.name ((a.filter fun x => x.kind == o.kind).map (·.name))) }

/-- The change list `drc` prints for the fragment; `none` = abort / outside the fragment. -/
def run (a b : List Obj) : Option St :=
  ((diffAnchors (initSt a b) .tg).bind fun st => diffAnchors st .user).map deleteUnused

def engine (a b : List Obj) : Option (List Chg) := (run a b).map (·.out)

def script (a b : List Obj) : Option (List String) := (engine a b).map (·.map Chg.render)

end NA.Vpn.G
