import NA.Spec.Flock
import NA.Model.LockSkelT
/-!
# C12 — model of the front-ends `drc FILE` and `do-approve approve|compare DEVICE` as processes

Core Lean only.  A process is a program counter over a step list (`LockSkel.Step`); the step
lists of the two front-ends (`drcProg`, `doApproveProg`) are hand-written here and proved equal to
the abstraction of the REGENERATED skeleton in `NA/Props/C12.lean`.

A scheduler chooses, one action at a time,
* `step i` — process `i` executes its next step,
* `fail i` — the same, but the step (if it can fail: reading the config, opening the lock file,
  `flock`, opening the history, or any call guarded by an `errReturn`) fails for an external reason,
* `kill i` — SIGKILL: the process is gone, the kernel closes its descriptors (lock released),
* `cexec i` — the child (ssh) that process `i` forked for its device session reaches its `exec`
  (until then it holds a copy of every descriptor of its parent, the lock file included),
* `reap i` — that child ends,
* `gc i`   — the Go runtime finalises the unreachable `*os.File` of the lock (closing it releases the
  lock): possible only while the process has neither executed nor still has ahead of it the
  `defer lockFH.Close()` that keeps the file reachable until `Main` returns.

`flock(LOCK_EX|LOCK_NB)` succeeds iff the table (NA/Spec/Flock) shows no holder for the lock file
`path.Base(argument)`.  Every executed step is appended to `trace` (newest first).
-/
namespace NA.Lock
open NA.Flock NA.LockSkel

inductive PSt
  | running | exited (code : Nat) | killed
  deriving DecidableEq, Repr

structure Proc where
  lockFile : String := ""
  prog : List Step := []
  st : PSt := .exited 0
  /-- holds the flock of `lockFile` (past a successful flock step, not yet released) -/
  holds : Bool := false
  /-- `defer lockFH.Close()` has been executed: the lock file stays open until the process ends -/
  pinned : Bool := false
  /-- a flock step of this process failed -/
  lost : Bool := false
  /-- ghost: a flock step of this process succeeded at some time -/
  everHeld : Bool := false
  deriving Repr

inductive LockOp
  | none | acquire | release
  deriving DecidableEq, Repr

/-- The error of the call just executed is checked: the next step, up to `defer` statements, is
`if err != nil { return … }`. -/
def guarded (rest : List Step) : Bool :=
  match rest.dropWhile (· == .deferClose) with
  | .errReturn :: _ => true
  | _ => false

/-- Continuation after a failed call: the guard prints the error and returns 1 — or, if there is no
guard, the error is ignored and the program just goes on. -/
def onError (rest : List Step) : List Step := if guarded rest then [.printErr, .exit 1] else rest

/-- `SetLock` returns before `flock` when the lock file cannot be opened. -/
def skipFlock : List Step → List Step
  | .flock :: r => r
  | r => r

structure Out where
  proc : Proc
  op : LockOp
  ok : Bool

/-- One step of a running process. `free`: the lock file has no holder; `fail`: injected failure. -/
def Proc.next (p : Proc) (free fail : Bool) : Out :=
  match p.prog with
  | [] => ⟨{ p with st := .exited 0, holds := false }, .release, true⟩
  | s :: rest =>
    match s with
    | .exit c => ⟨{ p with st := .exited c, holds := false, prog := rest }, .release, true⟩
    | .mayExit c =>
      -- a conditional early return: `fail` = the condition holds, the process returns now
      if fail then ⟨{ p with st := .exited c, holds := false, prog := rest }, .release, true⟩
      else ⟨{ p with prog := rest }, .none, true⟩
    | .flock =>
      if free && !fail then ⟨{ p with prog := rest, holds := true, everHeld := true }, .acquire, true⟩
      else ⟨{ p with prog := onError rest, lost := true }, .none, false⟩
    | .closeLock => ⟨{ p with prog := rest, holds := false }, .release, true⟩
    | .deferClose => ⟨{ p with prog := rest, pinned := true }, .none, true⟩
    | .errReturn =>
      if fail then ⟨{ p with prog := [.printErr, .exit 1] }, .none, false⟩
      else ⟨{ p with prog := rest }, .none, true⟩
    | .openLock =>
      -- SetLock returns early when the lock file cannot be opened: flock is not reached
      if fail then ⟨{ p with prog := onError (skipFlock rest) }, .none, false⟩
      else ⟨{ p with prog := rest }, .none, true⟩
    | .readConfig =>
      if fail then ⟨{ p with prog := onError rest }, .none, false⟩ else ⟨{ p with prog := rest }, .none, true⟩
    | .histOpen =>
      if fail then ⟨{ p with prog := onError rest }, .none, false⟩ else ⟨{ p with prog := rest }, .none, true⟩
    | _ => ⟨{ p with prog := rest }, .none, true⟩

/-- One executed step: who, on which lock file, what, and whether it succeeded. -/
structure Ev where
  pid : Pid
  file : String
  step : Step
  ok : Bool
  deriving DecidableEq, Repr

structure World where
  procs : Pid → Proc
  table : Table
  trace : List Ev
  /-- process `i` has a live child: the `ssh` (or simulator) it spawned for its device session.
  The child is not waited for (`Conn.Close` just sends `exit`) and survives a SIGKILL of its parent. -/
  kids : Pid → Bool := fun _ => false
  /-- that child is still between `fork` and `exec`: it is a copy of its parent and has a copy of
  EVERY descriptor, close-on-exec or not (observed on the real code: NA/Props/C12, F-C12a) -/
  preExec : Pid → Bool := fun _ => false
  /-- the lock file is opened close-on-exec (Go's `os.OpenFile` always is), so a child does not
  inherit the descriptor; `false` models an open without `O_CLOEXEC` -/
  cloexec : Bool := true

inductive Action
  | step (i : Pid) | fail (i : Pid) | kill (i : Pid) | gc (i : Pid)
  | reap (i : Pid)   -- the child of process `i` ends
  | cexec (i : Pid)  -- the child of process `i` reaches its `exec`: close-on-exec descriptors are closed
  deriving DecidableEq, Repr

/-- All descriptors of process `i` for its lock file are closed (exit, SIGKILL, Close, finaliser).
The flock belongs to the open file description: it disappears now unless a live child has a
descriptor of it — because it has not reached its `exec` yet, or because the file was opened without
close-on-exec. -/
def World.childHasFd (w : World) (i : Pid) : Bool := w.kids i && (w.preExec i || !w.cloexec)

def World.releaseOf (w : World) (i : Pid) : Table :=
  if w.childHasFd i then w.table else w.table.release i

def setProc (procs : Pid → Proc) (i : Pid) (p : Proc) : Pid → Proc :=
  fun j => if j = i then p else procs j

def applyOp (t released : Table) (f : String) (i : Pid) : LockOp → Table
  | .none => t
  | .acquire => t.acquire f i
  | .release => released

/-- the device session begins by spawning the child -/
def spawns (p : Proc) : Bool :=
  match p.prog with
  | .devBegin :: _ => true
  | _ => false

/-- The event recorded for the step a process is about to execute. -/
def evOf (p : Proc) (i : Pid) (ok : Bool) : List Ev :=
  match p.prog with
  | s :: _ => [⟨i, p.lockFile, s, ok⟩]
  | [] => []

def stepProc (w : World) (i : Pid) (fail : Bool) : World :=
  let p := w.procs i
  if p.st = .running then
    let o := p.next (w.table.free p.lockFile) fail
    { procs := setProc w.procs i o.proc
      table := applyOp w.table (w.releaseOf i) p.lockFile i o.op
      trace := evOf p i o.ok ++ w.trace
      kids := if spawns p then (fun j => if j = i then true else w.kids j) else w.kids
      preExec := if spawns p then (fun j => if j = i then true else w.preExec j) else w.preExec
      cloexec := w.cloexec }
  else w

/-- What an action appends to the trace. -/
def newEvents (w : World) : Action → List Ev
  | .step i => if (w.procs i).st = .running then
      evOf (w.procs i) i ((w.procs i).next (w.table.free (w.procs i).lockFile) false).ok else []
  | .fail i => if (w.procs i).st = .running then
      evOf (w.procs i) i ((w.procs i).next (w.table.free (w.procs i).lockFile) true).ok else []
  | _ => []

/-- The finaliser may close the lock file only when nothing keeps it reachable. -/
def Proc.gcable (p : Proc) : Bool :=
  p.st = .running && p.holds && !p.pinned && !p.prog.contains .deferClose

def exec (w : World) : Action → World
  | .step i => stepProc w i false
  | .fail i => stepProc w i true
  | .kill i =>
    let p := w.procs i
    if p.st = .running then
      { w with procs := setProc w.procs i { p with st := .killed, holds := false }
               table := w.releaseOf i }
    else w
  | .gc i =>
    let p := w.procs i
    if p.gcable then
      { w with procs := setProc w.procs i { p with holds := false }
               table := w.releaseOf i }
    else w
  | .cexec i =>
    if w.kids i && w.preExec i then
      { w with preExec := fun j => if j = i then false else w.preExec j
               -- close-on-exec descriptors of the child are closed now: if the parent has let go of the
               -- lock meanwhile (it died), this was the last descriptor
               table := if (w.procs i).holds || !w.cloexec then w.table else w.table.release i }
    else w
  | .reap i =>
    if w.kids i then
      { w with kids := fun j => if j = i then false else w.kids j
               preExec := fun j => if j = i then false else w.preExec j
               -- the child's copy of the descriptor (if it had one) is closed: the lock goes unless
               -- the parent still holds it
               table := if (w.procs i).holds then w.table else w.table.release i }
    else w

def run (as : List Action) (w : World) : World := as.foldl exec w

/-! ## Lock discipline of a program (decidable) -/

/-- `safe locked pinned prog`: every protected step (history, log, device, status) is executed only
while the lock is held and pinned; a `flock` is attempted only without the lock and its error is
checked; the lock is never closed explicitly. -/
def safe : Bool → Bool → List Step → Bool
  | _, _, [] => true
  | l, p, .flock :: rest => !l && guarded rest && safe true p rest
  | _, _, .closeLock :: _ => false
  | l, _, .deferClose :: rest => safe l true rest
  | l, p, .mayExit _ :: rest => safe l p rest
  | l, p, s :: rest => (!s.protected || (l && p)) && safe l p rest

/-! ## The two front-ends -/

/-- `drc [options] FILE` (one-argument mode), from `drc.Main`, `device.SetLock`,
`device.ApproveOrCompare`. -/
def drcProg : List Step :=
  [.mayExit 1, .errReturn,                       -- fs.Parse: -h | other error
   .mayExit 0,                                   -- -v
   .mayExit 1,                                   -- no argument / more than two: usage
   .readConfig, .errReturn,                      -- program.LoadConfig
   .mkdirLock, .openLock, .flock, .errReturn,    -- device.SetLock(fname, cfg); if err != nil { return abort }
   .deferClose,                                  -- defer lockFH.Close()
   .logOpen, .devBegin, .devTalk, .devEnd,       -- device.ApproveOrCompare
   .exit 0]

/-- `do-approve approve|compare DEVICE`, from `doapprove.Main`. -/
def doApproveProg : List Step :=
  [.mayExit 1, .errReturn,                       -- fs.Parse: -h | other error
   .mayExit 1,                                   -- len(args) != 2: usage
   .readConfig, .errReturn,                      -- program.LoadConfig
   .errReturn,                                   -- filepath.EvalSymlinks(policies/current)
   .mayExit 1,                                   -- unknown device
   .mayExit 1,                                   -- action neither approve nor compare: usage
   .mkdirLock, .openLock, .flock,                -- device.SetLock(devName, cfg)
   .deferClose, .errReturn,                      -- if lockFH != nil { defer lockFH.Close() }; if err != nil { return abort }
   .histOpen, .errReturn,                        -- openHistoryLog
   .hist "\"START:\"", .hist "\"POLICY:\"",
   .logOpen, .devBegin, .devTalk, .devEnd,       -- device.ApproveOrCompare
   .errReturn,                                   -- os.ReadFile(logFile)
   .hist "\"RES:\"",
   .status, .status,                             -- status.SetCompare | status.SetApprove (both branches)
   .hist "\"END:\"",
   .mayExit 1, .exit 0]                          -- if failed { return 1 }; return 0

inductive Front
  | drc | doApprove
  deriving DecidableEq, Repr

/-- One invocation: which front-end, and how the device is spelled (name or path of a code file). -/
structure Spec where
  front : Front
  arg : String
  deriving Repr

def Spec.prog (s : Spec) : List Step :=
  match s.front with
  | .drc => drcProg
  | .doApprove => doApproveProg

/-- The lock file is `basedir/lock/` + `path.Base(arg)` (`device.SetLock`). -/
def Spec.lockFile (s : Spec) : String := base s.arg

def mkProc (s : Spec) : Proc := { lockFile := s.lockFile, prog := s.prog, st := .running }

/-- `n` invocations started, none has executed anything yet. -/
def mkWorld (specs : List Spec) : World :=
  { procs := fun i => match specs[i]? with | some s => mkProc s | none => {}
    table := Table.empty
    trace := [] }

end NA.Lock
