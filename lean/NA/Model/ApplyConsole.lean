import NA.Model.Sess
/-!
# Session programs of the console backends (C09)

One Lean term per Go function, written so that `skel` of the term is the call-site skeleton
that `translate/skeleton` extracts from the source (theorems in `NA/Props/C09.lean`).
`pkg/console/console.go`, `pkg/asa/device.go`, `pkg/ios/device.go`, `pkg/linux/device.go`.

Assumptions built in (documented in docs/C09.md): no IOS reload banner arrives
(`needReload` stays false; C15 owns that), the banner check of the gate succeeds (C06 owns
that), the retrieved text parses (unknown lines are ignored by the Cisco parser).
-/
namespace NA.Apply
open NA.Sess

/-- a call whose callee has no behaviour the model observes -/
def op (name : String) (lits : List String := []) : Sess := .call name lits .skip

/-! ## pkg/console -/

def sendBody (ρ : Role) (t : Txt) : Sess := .send ρ t
def Send (ρ : Role) (t : Txt) (lits : List String := ["_"]) : Sess := .call "Send" lits (sendBody ρ t)

/-- `more = true`: the wait continues to read the reply the previous wait began. -/
def expectLogBody (ρ : Role) (p : Pat) (more : Bool := false) : Sess :=
  (if more then .recvMore p else .recv ρ p) ;; .ret .keep ["_", "err"]
def expectLog (ρ : Role) (p : Pat) (more : Bool := false) : Sess :=
  .call "expectLog" ["_", "_"] (expectLogBody ρ p more)

def waitPromptBody (ρ : Role) (p : Pat) : Sess :=
  expectLog ρ p ;;
  .ite .err "err != nil" (.abort ["while waiting for prompt '%s': %v", "_", "err"]) .skip ;;
  .ret .none ["_"]
def waitPrompt (ρ : Role) (p : Pat) : Sess := .call "waitPrompt" ["_"] (waitPromptBody ρ p)

def waitShortBody (ρ : Role) (p : Pat) (more : Bool := false) : Sess :=
  expectLog ρ p more ;;
  .ite .err "err != nil" (.abort ["while waiting for prompt '%s': %v", "_", "err"]) .skip ;;
  .ret .none ["_"]
def WaitShort (ρ : Role) (p : Pat) (lits : List String) (more : Bool := false) : Sess :=
  .call "WaitShort" lits (waitShortBody ρ p more)

def waitLoginBody (ρ : Role) (p : Pat) : Sess :=
  expectLog ρ p ;;
  .ite .err "err != nil" (.abort ["while waiting for login prompt '%s': %v", "_", "err"]) .skip ;;
  .ret .none ["_"]
def WaitLogin (ρ : Role) (p : Pat) (lits : List String) : Sess := .call "WaitLogin" lits (waitLoginBody ρ p)

def stripStdPromptBody : Sess :=
  -- the prompt has just been matched by waitPrompt, so it is found again
  .ite .never "¬$v != nil" (.abort ["Missing prompt '%s' in response:\n'%v'", "_", "_"]) .skip ;;
  .ret .none ["_"]
def StripStdPrompt : Sess := .call "StripStdPrompt" ["_"] stripStdPromptBody

def stripEchoBody : Sess :=
  .ite .echoBad "len($p2) < len($p1) || $p2[:len($p1)] != $p1"
    (.abort ["Got unexpected echo in response to '%s':\n%v", "_", "_"]) .skip ;;
  .ret .none ["_"]
def StripEcho : Sess := .call "StripEcho" ["_", "_"] stripEchoBody

def getOutputBody (ρ : Role) : Sess :=
  waitPrompt ρ .std ;; StripStdPrompt ;; .ret .none ["_"]
def GetOutput (ρ : Role) : Sess := .call "GetOutput" [] (getOutputBody ρ)

def sendCmdBody (ρ : Role) (t : Txt) : Sess := Send ρ t ;; waitPrompt ρ .std
def SendCmd (ρ : Role) (t : Txt) (lits : List String) : Sess := .call "SendCmd" lits (sendCmdBody ρ t)

def issueCmdBody (ρ : Role) (t : Txt) (p : Pat) : Sess := Send ρ t ;; waitPrompt ρ p ;; .ret .none ["_"]
def IssueCmd (ρ : Role) (t : Txt) (p : Pat) (lits : List String) : Sess :=
  .call "IssueCmd" lits (issueCmdBody ρ t p)

def getCmdOutputBody (ρ : Role) (t : Txt) : Sess :=
  Send ρ t ;; GetOutput ρ ;; StripEcho ;; .ret .none ["_"]
def GetCmdOutput (ρ : Role) (t : Txt) (lits : List String) : Sess :=
  .call "GetCmdOutput" lits (getCmdOutputBody ρ t)

def closeBody : Sess :=
  .ite (.not .never) "$r.con != nil" (.send .cleanup (.litNl "exit")) .skip
def Close : Sess := .call "Close" [] closeBody

def ciscoCloseConnectionBody : Sess := .ite (.not .never) "$r.Conn != nil" Close .skip

/-! ## pkg/asa -/

def asaCheckBody (ρ : Role) : Sess :=
  GetOutput ρ ;; StripEcho ;;
  .ite .outNonEmpty "$GetOutput != \"\""
    (.ite .outInvalid "¬isValidOutput($c1, $GetOutput)"
      (.abort ["Got unexpected output from '%s':\n%s", "_", "_"])
      (.ite .outWarn "" (.mark .logWarn) .skip))
    .skip
def asaCheck (ρ : Role) : Sess := .call "check" ["_"] (asaCheckBody ρ)

def asaCmdBody (ρ : Role) (t : Txt) : Sess :=
  Send ρ t ;; asaCheck ρ ;; .ite .joined "$v.2 != \"\"" (asaCheck ρ) .skip
def asaCmd (ρ : Role) (t : Txt) (lits : List String) : Sess := .call "cmd" lits (asaCmdBody ρ t)

def asaApplyBody : Sess :=
  asaCmd .setup (.lit "configure terminal") ["configure terminal"] ;;
  .forEach (asaCmd .change .cur ["_"]) ;;
  asaCmd .setup (.lit "end") ["end"] ;;
  (GetCmdOutput .save (.lit "write memory") ["write memory"] ;;
   .ite (.not (.flag .okMark)) "¬strings.Contains($GetCmdOutput, \"[OK]\")"
     (.abort ["Command 'write memory' failed, missing [OK] in output:\n%s", "_"]) .skip) ;;
  .ret .nil ["nil"]

/-- the closure `waitPrompt` of cisco.LoginEnable -/
def ciscoWaitPromptBody (t : Txt) : Sess :=
  IssueCmd .login t (.stdOr [.gt, .password]) ["_", "_"] ;; .ret .none ["_"]
def ciscoWaitPrompt (t : Txt) (lits : List String) : Sess := .call "waitPrompt" lits (ciscoWaitPromptBody t)

/-- cisco.LoginEnable (shared by ASA and IOS). -/
def ciscoLoginEnableBody : Sess :=
  WaitLogin .login (.special [.password, .yesNo]) ["(?i)password:|\\(yes/no.*\\)\\?"] ;;
  .ite (.flag .yesNo) "strings.HasSuffix($WaitLogin, \"?\")"
    (IssueCmd .login (.lit "yes") (.special [.password]) ["yes", "(?i)password:"]) .skip ;;
  ciscoWaitPrompt .secret ["_", ">"] ;;
  .ite (.flag .gt) "waitPrompt($p1, \">\")"
    (ciscoWaitPrompt (.lit "enable") ["enable", "#"] ;;
     .ite (.not (.flag .hash)) "¬waitPrompt(\"enable\", \"#\")"
       -- the password is sent only if the device asks for it; without `#` afterwards: abort
       (.when (.flag .password) (ciscoWaitPrompt .secret ["_", "#"]) ;;
        .ite (.not (.flag .hash))
          "!strings.HasSuffix(strings.ToLower($WaitLogin), \"password:\") || !waitPrompt($p1, \"#\")"
          (.abort ["Authentication for enable mode failed"]) .skip)
       .skip)
    (.ite (.not (.flag .hash)) "¬strings.HasSuffix($WaitLogin, \"#\")" (.abort ["Authentication failed"]) .skip) ;;
  IssueCmd .login (.lit "") .std ["", "#[ ]?"] ;;
  op "checkBanner" ["_", "_"]
def ciscoLoginEnable : Sess := .call "LoginEnable" ["_", "_"] ciscoLoginEnableBody

def asaSetTerminal : Sess :=
  GetCmdOutput .read (.lit "sh pager") ["sh pager"] ;;
  .ite (.not (.flag .noPager)) "¬strings.Contains($GetCmdOutput, \"no pager\")"
    (SendCmd .setup (.lit "terminal pager 0") ["terminal pager 0"]) .skip ;;
  GetCmdOutput .read (.lit "sh term") ["sh term"] ;;
  .ite (.not (.flag .w511)) "¬strings.Contains($GetCmdOutput, \"511\")"
    (SendCmd .setup (.lit "configure terminal") ["configure terminal"] ;;
     SendCmd .setup (.lit "terminal width 511") ["terminal width 511"] ;;
     SendCmd .setup (.lit "end") ["end"]) .skip

def checkNameAbort : Sess :=
  .ite (.not (.flag .nameOk)) "$p1 != $GetCmdOutput" (.abort ["Wrong device name: %q, expected: %q", "_", "_"]) .skip

/-- the prologue of the console backends' LoadDevice: credentials and the ssh process -/
def consolePrologue : Sess :=
  op "GetUserPass" ["_"] ;;
  .ite .never "err != nil" (.ret .keep ["nil", "err"]) .skip ;;
  op "GetSSHConn" ["_", "_", "_", "_"] ;;
  .ite .never "err != nil" (.ret .keep ["nil", "err"]) .skip

def asaLogVersionBody : Sess := GetCmdOutput .read (.lit "sh ver") ["sh ver"]
def asaCheckDeviceNameBody : Sess := GetCmdOutput .read (.lit "show hostname") ["show hostname"] ;; checkNameAbort

def asaLoadDevice : Sess :=
  consolePrologue ;;
  ciscoLoginEnable ;;
  .call "setTerminal" [] asaSetTerminal ;;
  .call "logVersion" [] asaLogVersionBody ;;
  .call "checkDeviceName" ["_"] asaCheckDeviceNameBody ;;
  GetCmdOutput .read (.lit "write term") ["write term"] ;;
  op "ParseConfig" ["_", "<device>"] ;;
  .setPlan ;;
  .ret .nil ["_", "err"]

/-! ## pkg/ios -/

def iosSendReloadCmdBody (withDo : Bool) : Sess :=
  IssueCmd .setup (.lit (if withDo then "do reload in 2" else "reload in 2")) (.special [.saveAsk, .confirm])
    ["_", "\\[yes\\/no\\]:\\ |\\[confirm\\]"] ;;
  .ite (.flag .saveAsk) "strings.Contains($r.Conn.IssueCmd($v, \"\\\\[yes\\\\/no\\\\]:\\\\ |\\\\[confirm\\\\]\"), \"[yes/no]\")"
    (IssueCmd .setup (.lit "n") (.special [.confirm]) ["n", "\\[confirm\\]"]) .skip ;;
  SendCmd .setup (.lit "") [""]
def iosSendReloadCmd (withDo : Bool) : Sess :=
  .call "sendReloadCmd" [if withDo then "true" else "false"] (iosSendReloadCmdBody withDo)
def iosScheduleReload : Sess := .call "scheduleReload" [] (iosSendReloadCmd false)
def iosExtendReload : Sess := .call "extendReload" [] (iosSendReloadCmd true)

def iosCancelReloadBody : Sess :=
  IssueCmd .setup (.lit "reload cancel") (.special [.aborted]) ["reload cancel", "--- SHUTDOWN ABORTED ---"] ;;
  WaitShort .setup .std ["[#] ?$"] true ;;
  SendCmd .setup (.lit "") [""]
def iosCancelReload : Sess := .call "cancelReload" [] iosCancelReloadBody

def iosPrepareDeviceBody : Sess :=
  SendCmd .setup (.lit "configure terminal") ["configure terminal"] ;;
  SendCmd .setup (.lit "no logging console") ["no logging console"] ;;
  SendCmd .setup (.lit "line vty 0 15") ["line vty 0 15"] ;;
  SendCmd .setup (.lit "logging synchronous level all") ["logging synchronous level all"] ;;
  SendCmd .setup (.lit "ip subnet-zero") ["ip subnet-zero"] ;;
  SendCmd .setup (.lit "ip classless") ["ip classless"] ;;
  SendCmd .setup (.lit "end") ["end"]
def iosPrepareDevice : Sess := .call "prepareDevice" [] iosPrepareDeviceBody

def iosCheckBody (ρ : Role) : Sess :=
  GetOutput ρ ;; op "stripReloadBanner" ["_"] ;; StripEcho ;;
  .ite .outNonEmpty "$GetOutput != \"\""
    (.ite .outInvalid "¬isValidOutput($c1, $GetOutput)"
      (.abort ["Got unexpected output from '%s':\n%s", "_", "_"])
      (.ite .outWarn "" (.mark .logWarn) .skip))
    .skip
def iosCheck (ρ : Role) : Sess := .call "check" ["_"] (iosCheckBody ρ)

def iosCmdBody (ρ : Role) (t : Txt) : Sess :=
  Send ρ t ;; iosCheck ρ ;; .ite .joined "$v.2 != \"\"" (iosCheck ρ) .skip ;;
  .ite .never "$v" iosExtendReload .skip
def iosCmd (ρ : Role) (t : Txt) (lits : List String) : Sess := .call "cmd" lits (iosCmdBody ρ t)

def iosWriteMemBody : Sess :=
  .setCtr 2 ;;
  .loopN 3 (
    IssueCmd .save (.lit "write memory") (.stdOr [.confirm]) ["write memory", "#[ ]?|\\[confirm\\]"] ;;
    .ite (.flag .overwrite) "strings.Contains($IssueCmd, \"Overwrite the previous NVRAM configuration\")"
      (GetCmdOutput .save (.lit "") [""]) .skip ;;
    .ite (.flag .okMark) "strings.Contains($IssueCmd, \"[OK]\")" (.ret .none []) .skip ;;
    .ite (.flag .openFailed) "strings.Contains($IssueCmd, \"startup-config file open failed\")"
      (.ite .ctrPos "$v > 0" (.decCtr ;; .cont) .skip ;;
       .abort ["write mem: startup-config open failed - giving up"]) .skip ;;
    .abort ["write mem: unexpected result: %s", "_"])
def iosWriteMem : Sess := .call "writeMem" [] iosWriteMemBody

def iosApplyBody : Sess :=
  iosPrepareDevice ;;
  (iosScheduleReload ;;
   .defer iosCancelReload
     (SendCmd .setup (.lit "configure terminal") ["configure terminal"] ;;
      .defer (SendCmd .setup (.lit "end") ["end"])
        (.forEach (iosCmd .change .cur ["_"])))) ;;
  iosWriteMem ;;
  .ret .nil ["nil"]

def iosSetTerminalBody : Sess :=
  SendCmd .setup (.lit "term len 0") ["term len 0"] ;; SendCmd .setup (.lit "term width 512") ["term width 512"]
def iosLogVersionBody : Sess := GetCmdOutput .read (.lit "sh ver") ["sh ver"]
/-- the name is taken from everything in front of the prompt: a garbled echo spoils it too -/
def iosCheckDeviceNameBody : Sess :=
  IssueCmd .read (.lit "") .std ["", "#[ ]?"] ;;
  .ite (.or (.not (.flag .nameOk)) .echoBad) "$p1 != $v" (.abort ["Wrong device name: %q, expected: %q", "_", "_"]) .skip

def iosLoadDevice : Sess :=
  consolePrologue ;;
  ciscoLoginEnable ;;
  .call "setTerminal" [] iosSetTerminalBody ;;
  .call "logVersion" [] iosLogVersionBody ;;
  .call "checkDeviceName" ["_"] iosCheckDeviceNameBody ;;
  GetCmdOutput .read (.lit "sh run") ["sh run"] ;;
  op "ParseConfig" ["_", "<device>"] ;;
  .setPlan ;;
  .ret .nil ["_", "err"]

/-! ## pkg/linux -/

def linuxCheckBody (ρ : Role) : Sess :=
  GetOutput ρ ;; StripEcho ;;
  .ite .outNonEmpty "$GetOutput != \"\"" (.abort ["Got unexpected output from '%s':\n%s", "_", "_"]) .skip
def linuxCheck (ρ : Role) : Sess := .call "check" ["_"] (linuxCheckBody ρ)

def linuxCmdBody (ρ : Role) (t : Txt) : Sess :=
  Send ρ t ;; linuxCheck ρ ;; .ite .joined "$v.2 != \"\"" (linuxCheck ρ) .skip ;;
  GetCmdOutput .probe (.lit "echo $?") ["echo $?"] ;;
  .ite (.not (.flag .status0)) "$r.conn.GetCmdOutput(\"echo $?\") != \"0\\n\""
    (.abort ["%s failed (exit status)", "_"]) .skip
def linuxCmd (ρ : Role) (t : Txt) (lits : List String) : Sess := .call "cmd" lits (linuxCmdBody ρ t)

def linuxPutScpBody (what : String) : Sess :=
  .mark (.scp what) ;;
  .ite .simulated "os.Getenv(\"SIMULATE_ROUTER\") != \"\"" (.ret .none []) .skip ;;
  .call "Run" [] (.send .save (.lit ("scp " ++ what)) ;; .recv .save .http) ;;
  .ite .err "err != nil" (.abort ["%s failed: %v", "_", "err"]) .skip
def linuxPutScp (what : String) : Sess := .call "putScp" ["_", "_"] (linuxPutScpBody what)

def linuxWriteStartupBody (what : String) : Sess := op "Close" ;; linuxPutScp what
def linuxWriteStartup (what : String) : Sess := .call "writeStartup" ["_", "_", "_"] (linuxWriteStartupBody what)

def linuxFindRestoreBody : Sess :=
  GetCmdOutput .read (.lit "which iptables-restore") ["which iptables-restore"] ;;
  .ite (.not (.flag .restorePath)) "¬strings.HasSuffix($v, \"iptables-restore\")"
    (.abort ["Can't find path of 'iptables-restore'"]) .skip ;;
  .ret .none ["_"]
def linuxFindRestore : Sess := .call "findIPTablesRestoreCmd" [] linuxFindRestoreBody

def linuxWriteStartupIPTablesBody : Sess := linuxFindRestore ;; linuxWriteStartup "iptables"
def linuxWriteStartupRoutingBody : Sess := linuxWriteStartup "routing"

def linuxApplyBody : Sess :=
  .forEach (linuxCmd .change .cur ["_"]) ;;
  .ite .ipt "$v.iptables != \"\""
    (.call "writeStartupIPTables" ["_", "_"] linuxWriteStartupIPTablesBody ;;
     linuxCmd .change (.lit "chmod a+x /etc/network/packet-filter.new") ["_"] ;;
     linuxCmd .change (.lit "/etc/network/packet-filter.new") ["_"] ;;
     linuxCmd .change (.lit "mv -f /etc/network/packet-filter.new /etc/network/packet-filter") ["_"]) .skip ;;
  .ite .planNonEmpty "len($v.routes) != 0"
    (.call "writeStartupRouting" ["_", "/etc/network/routing"] linuxWriteStartupRoutingBody) .skip ;;
  .ret .nil ["nil"]

def linuxLoginEnableBody : Sess :=
  WaitLogin .login (.special [.hash, .password, .yesNo]) ["_"] ;;
  .ite (.flag .yesNo) "strings.HasSuffix($WaitLogin, \"?\")" (IssueCmd .login (.lit "yes") (.special [.hash, .password]) ["yes", "_"]) .skip ;;
  .ite (.flag .password) "strings.HasSuffix($WaitLogin, \"word:\")" (IssueCmd .login .secret (.special [.hash, .password]) ["_", "_"]) .skip ;;
  .ite (.flag .password) "strings.HasSuffix($WaitLogin, \"word:\")" (.abort ["Authentication failed"]) .skip ;;
  IssueCmd .setup (.lit "PS1=router#") .std ["PS1=router#", "_"]

def linuxLogVersionBody : Sess :=
  GetCmdOutput .read (.lit "uname -r") ["uname -r"] ;; GetCmdOutput .read (.lit "uname -m") ["uname -m"]
def linuxCheckDeviceNameBody : Sess := GetCmdOutput .read (.lit "hostname -s") ["hostname -s"] ;; checkNameAbort
def linuxCheckBannerBody : Sess :=
  .ite .never "¬$p1.CheckBanner != nil" (.ret .none []) .skip ;;
  GetCmdOutput .read (.lit "grep 'NetSPoC' /etc/issue") ["_"] ;; .assumeBanner
def linuxGetDeviceIPTablesBody : Sess :=
  GetCmdOutput .read (.lit "iptables-save") ["iptables-save"] ;;
  .call "parseIPTables" ["_"] (.ite (.not (.flag .cfgParses)) "" (.abort ["Unknown command: %q", "_"]) .skip) ;;
  .ret .none ["_"]
def linuxGetDeviceRoutesBody : Sess :=
  GetCmdOutput .read (.lit "ip route show") ["ip route show"] ;;
  .call "parseRoutes" ["_"] (.ite (.not (.flag .cfgParses)) "" (.abort ["Unexpected route: %s", "_"]) .skip) ;;
  .ret .none ["_"]

def linuxLoadDevice : Sess :=
  consolePrologue ;;
  .call "loginEnable" ["_", "_"] linuxLoginEnableBody ;;
  .call "logVersion" [] linuxLogVersionBody ;;
  .call "checkDeviceName" ["_"] linuxCheckDeviceNameBody ;;
  .call "checkBanner" ["_"] linuxCheckBannerBody ;;
  .call "getDeviceIPTables" [] linuxGetDeviceIPTablesBody ;;
  .call "getDeviceRoutes" [] linuxGetDeviceRoutesBody ;;
  .setPlan ;;
  .ret .nil ["_", "err"]

end NA.Apply
