import NA.Model.IosSessionProg
/-!
# The login / enable dialogue (`go/pkg/cisco/device.go` `LoginEnable`) and `GetCmdOutput`

Same session monad, same timing (fast device), same `\r`-free stream as `NA/Model/IosSession.lean`.
The regular expressions of the dialogue are re-implemented explicitly:

* `(?i)password:|\(yes/no.*\)\?` (`WaitLogin`) — `(?i)` covers BOTH alternatives; `.*` is greedy and
  stays on its line: the match ends behind the LAST `)?` of the line;
* `(?i)password:|\n\r?[^#> ]+[>#] ?$` (`waitPrompt` closure) — `$` is the end of the pending bytes,
  `[^#> ]+` may span line ends; leftmost match: the alternatives start with different characters, so
  at most one of them matches at a position;
* RE2 case folding for the letters of the two literals: ASCII upper case, and U+017F (long s) for `s`
  (`strings.ToLower`, used for the later suffix test, does NOT map U+017F: modelled separately).

`loginEnable` returns what the Go code hands to `SetStdPrompt` (the two quoted parts of the prompt
`p[:i]`, `p[i:]`) and the collected `bannerLines`; the rest of the model uses the prompt of the
scripted device (`promptHead`), `login_sets_std_prompt` (Props/C15Login) shows that this is what the
dialogue computes there.
-/
namespace NA.Ios

def foldCI (c : Char) : Char :=
  if 'A'.toNat ≤ c.toNat ∧ c.toNat ≤ 'Z'.toNat then Char.ofNat (c.toNat + 32)
  else if c.toNat == 0x17F then 's' else c

/-- case-insensitive prefix; the pattern is in lower case -/
def ciPrefix : Str → Str → Bool
  | [], _ => true
  | _ :: _, [] => false
  | p :: ps, c :: cs => foldCI c == p && ciPrefix ps cs

/-- end (counted from `i`) of the LAST `)?` before the end of the line -/
def lastParenQ : Str → Nat → Option Nat → Option Nat
  | [], _, acc => acc
  | [_], _, acc => acc
  | a :: b :: r, i, acc =>
    if a == '\n' then acc else lastParenQ (b :: r) (i + 1) (if a == ')' && b == '?' then some (i + 2) else acc)

def pwAt (s : Str) : Option Nat := if ciPrefix (lit "password:") s then some 9 else none

def yesNoAt (s : Str) : Option Nat :=
  if ciPrefix (lit "(yes/no") s then lastParenQ (s.drop 7) 7 none else none

def loginAt (s : Str) : Option Nat :=
  match pwAt s with
  | some e => some e
  | none => yesNoAt s

/-- `[^#> ]+[>#] ?$` on the rest of the pending bytes -/
def promptRest (r : Str) : Bool :=
  let r' := match r.reverse with
    | ' ' :: t => t
    | t => t
  match r' with
  | t :: body => (t == '>' || t == '#') && !body.isEmpty && body.all (fun c => c != '#' && c != '>' && c != ' ')
  | [] => false

def pwOrPromptAt (s : Str) : Option Nat :=
  match pwAt s with
  | some e => some e
  | none =>
    match s with
    | '\n' :: r => if promptRest r then some (1 + r.length) else none
    | _ => none

/-- leftmost match of a pattern given by its anchored matcher: end of the match -/
def scanFind (at_ : Str → Option Nat) : Str → Option Nat
  | [] => none
  | c :: s =>
    match at_ (c :: s) with
    | some e => some e
    | none => (scanFind at_ s).map (· + 1)

/-- `strings.TrimSuffix(out, " ")`: ONE blank -/
def trimBlank (s : Str) : Str :=
  match s.reverse with
  | ' ' :: t => t.reverse
  | _ => s

def hasSuffixC (s : Str) (c : Char) : Bool := s.getLast? == some c

def lowerA (c : Char) : Char :=
  if 'A'.toNat ≤ c.toNat ∧ c.toNat ≤ 'Z'.toNat then Char.ofNat (c.toNat + 32) else c

/-- `strings.HasSuffix(strings.ToLower(out), "password:")` -/
def lowerSuffixPw (s : Str) : Bool := (lit "password:").reverse.isPrefixOf (s.map lowerA).reverse

/-- `strings.LastIndex(s, c)` -/
def lastIdx (c : Char) : Str → Nat → Option Nat → Option Nat
  | [], _, acc => acc
  | x :: r, i, acc => lastIdx c r (i + 1) (if x == c then some i else acc)

structure LoginRes where
  /-- `p[:i]`: line feed and host name -/
  head : Str
  /-- `p[i:]`: `#` and what follows -/
  tail : Str
  banner : Str
  deriving DecidableEq, Repr, Inhabited

def loginPat : String := "(?i)password:|\\n\\r?[^#> ]+[>#] ?$"

/-- the device side of a login dialogue (harness/c15/sim.go, the preamble with its `<!>` markers):
the n-th line received is echoed with its line end and followed by the n-th part; after the parts,
the standard answer echo + prompt -/
def echoDev (parts : List Str) : Device Nat where
  step n s := (n + 1, s ++ ['\n'] ++ (if n < parts.length then parts.getD n [] else prompt))

section login
variable {σ : Type} (D : Device σ)

def waitLogin : M σ Str := expectEnd "(?i)password:|\\(yes/no.*\\)\\?" (scanFind loginAt)

def issueYes : M σ Str := bindM (send D (lit "yes")) fun _ => expectEnd "(?i)password:" (scanFind pwAt)

def issueLogin (enter : Str) : M σ Str := bindM (send D enter) fun _ => expectEnd loginPat (scanFind pwOrPromptAt)

/-- the closure `waitPrompt(enter, suffix)`: (its result, the captured `out` after it, what it adds to
`bannerLines`) -/
def loginWaitPrompt (enter : Str) (suffix : Char) : M σ (Bool × Str × Str) :=
  bindM (issueLogin D enter) fun o => pureM (hasSuffixC (trimBlank o) suffix, trimBlank o, o)

/-- `i := LastIndex(out, "\n"); p := out[i:]; i = LastIndex(p, "#"); p[:i], p[i:]` — a missing
character makes the slice expression panic -/
def loginPrompt (o : Str) : M σ (Str × Str) :=
  match lastIdx '\n' o 0 none with
  | none => abortM .indexPanic
  | some i =>
    match lastIdx '#' (o.drop i) 0 none with
    | none => abortM .indexPanic
    | some j => pureM ((o.drop i).take j, (o.drop i).drop j)

/-- `LoginEnable` -/
def loginEnable (pass : Str) : M σ LoginRes :=
  bindM (waitLogin (σ := σ)) fun o0 =>
  bindM (if hasSuffixC o0 '?' then issueYes D else pureM o0) fun o1 =>
  bindM (loginWaitPrompt D pass '>') fun r1 =>
  bindM (if r1.1 then
          bindM (loginWaitPrompt D (lit "enable") '#') fun r2 =>
            if r2.1 then pureM (r1.2.2 ++ r2.2.2)
            else if !lowerSuffixPw r2.2.1 then abortM (.loginFailed true)
            else bindM (loginWaitPrompt D pass '#') fun r3 =>
              if r3.1 then pureM (r1.2.2 ++ r2.2.2 ++ r3.2.2) else abortM (.loginFailed true)
         else if !hasSuffixC r1.2.1 '#' then abortM (.loginFailed false)
         else pureM r1.2.2) fun bl =>
  bindM (issueCmd D [] "#[ ]?" [(lit "#", true)]) fun o =>
  bindM (loginPrompt (σ := σ) o) fun p =>
  pureM { head := p.1, tail := p.2, banner := o1 ++ bl }

/-- `GetCmdOutput(cmd)`: `Send`, `GetOutput`, `StripEcho` -/
def getCmdOutput (cmd : Str) : M σ Str :=
  bindM (send D cmd) fun _ => bindM (getOutput (σ := σ)) fun o => stripEcho cmd o

/-! ### the same as annotated programs -/

/-- the closure `waitPrompt` -/
def loginWaitPromptP (enter : Str) (suffix : Char) : Prog σ (Bool × Str × Str) :=
  .bind (.stmt "IssueCmd(_,\"(?i)password:|\\\\n\\\\r?[^#> ]+[>#] ?$\")" (issueLogin D enter)) fun o =>
  .quiet (pureM (hasSuffixC (trimBlank o) suffix, trimBlank o, o))

/-- `LoginEnable` -/
def loginEnableP (pass : Str) : Prog σ LoginRes :=
  .bind (.stmt "WaitLogin(\"(?i)password:|\\\\(yes/no.*\\\\)\\\\?\")" (waitLogin (σ := σ))) fun o0 =>
  .bind (.ite none (hasSuffixC o0 '?')
          (.stmt "IssueCmd(\"yes\",\"(?i)password:\")" (issueYes D))
          (.quiet (pureM o0))) fun o1 =>
  .bind (.stmt "args(_,\">\")" (pureM (σ := σ) ())) fun _ =>
  .bind (loginWaitPromptP D pass '>') fun r1 =>
  .bind (.ite none r1.1
          (.bind (.stmt "args(\"enable\",\"#\")" (pureM (σ := σ) ())) fun _ =>
           .bind (loginWaitPromptP D (lit "enable") '#') fun r2 =>
            .ite none r2.1 (.quiet (pureM (r1.2.2 ++ r2.2.2)))
              (.ite none (!lowerSuffixPw r2.2.1) (.abort "Abort()" (abortM (.loginFailed true)))
                (.bind (.stmt "args(_,\"#\")" (pureM (σ := σ) ())) fun _ =>
                 .bind (loginWaitPromptP D pass '#') fun r3 =>
                  .ite none r3.1 (.quiet (pureM (r1.2.2 ++ r2.2.2 ++ r3.2.2)))
                    (.abort "Abort()" (abortM (.loginFailed true))))))
          (.ite none (!hasSuffixC r1.2.1 '#') (.abort "Abort()" (abortM (.loginFailed false)))
            (.quiet (pureM r1.2.2)))) fun bl =>
  .bind (.stmt "IssueCmd(\"\",\"#[ ]?\")" (issueCmd D [] "#[ ]?" [(lit "#", true)])) fun o =>
  .bind (.stmt "SetStdPrompt(_)" (loginPrompt (σ := σ) o)) fun p =>
  .quiet (pureM { head := p.1, tail := p.2, banner := o1 ++ bl })

end login

end NA.Ios
