/-
Merged lists ("cells") of an edit script over ACL lines, presence masks, first-match
evaluation.  DESIGN.md 5.1 / 5.2.  Core Lean only.

An edit script between the device's line list `a` and the target's list `b` is represented
by its merged list: one cell per deleted a-line (old only), inserted b-line (new only) or
kept pair (both), in script order.  `olds M = a`, `news M = b`; every intermediate device
state during an incremental change is `M` restricted to a presence mask.
-/
namespace NA.Acl

/-- An ACL line as the planners see it. `key`: identity of the normalised text (what the
Myers diff compares); `mkey`: identity modulo the `log` attribute (what move detection and the
device's duplicate-entry rule compare); `mask`: the set of packets (bits over a finite packet
universe chosen by the caller) the line matches; remarks match nothing. -/
structure Line where
  key    : Nat
  mkey   : Nat
  permit : Bool
  remark : Bool := false
  mask   : Nat := 0
  deriving DecidableEq, Repr, Inhabited

def Line.hits (l : Line) (p : Nat) : Bool := !l.remark && l.mask.testBit p

/-- First-match evaluation with implicit deny: `true` = permitted. -/
def eval : List Line → Nat → Bool
  | [], _ => false
  | l :: ls, p => if l.hits p then l.permit else eval ls p

structure Cell where
  line : Line
  old  : Bool
  new  : Bool
  deriving DecidableEq, Repr, Inhabited

def olds (M : List Cell) : List Line := (M.filter (·.old)).map (·.line)
def news (M : List Cell) : List Line := (M.filter (·.new)).map (·.line)

/-- Lines of the cells that are present under mask `μ` (parallel list of booleans). -/
def masked : List Cell → List Bool → List Line
  | c :: M, true :: μ => c.line :: masked M μ
  | _ :: M, _ :: μ => masked M μ
  | _, _ => []

/-- Number of present cells among the first `i`. This is the position (0-based line index)
of cell `i` in the device's current list. -/
def cnt : List Bool → Nat → Nat
  | _, 0 => 0
  | [], _ => 0
  | b :: μ, i + 1 => (if b then 1 else 0) + cnt μ i

def oldMask (M : List Cell) : List Bool := M.map (·.old)
def newMask (M : List Cell) : List Bool := M.map (·.new)

theorem masked_old (M : List Cell) : masked M (oldMask M) = olds M := by
  induction M with
  | nil => rfl
  | cons c M ih =>
    cases h : c.old <;> simp [masked, oldMask, olds, h, List.filter] at * <;> exact ih

theorem masked_new (M : List Cell) : masked M (newMask M) = news M := by
  induction M with
  | nil => rfl
  | cons c M ih =>
    cases h : c.new <;> simp [masked, newMask, news, h, List.filter] at * <;> exact ih

/-! ### Edit scripts as produced by `github.com/pkg/diff` (ranges) -/

structure Range where
  lowA : Nat
  highA : Nat
  lowB : Nat
  highB : Nat
  deriving DecidableEq, Repr, Inhabited

def Range.isInsert (r : Range) : Bool := r.lowA == r.highA
def Range.isDelete (r : Range) : Bool := r.lowB == r.highB
def Range.isEqual (r : Range) : Bool := r.highB - r.lowB == r.highA - r.lowA

/-- Walk a script from position `(ia, ib)`; `none` if it is not a valid script for `a`,`b`
(ranges not contiguous, out of bounds, or an "equal" range whose elements differ).
The order of the kind tests (insert, delete, equal) is the order the Go code uses. -/
def cellsFrom (a b : List Line) : List Range → Nat → Nat → Option (List Cell)
  | [], ia, ib => if ia == a.length && ib == b.length then some [] else none
  | r :: rs, ia, ib =>
    if r.lowA != ia || r.lowB != ib || r.highA < ia || r.highB < ib
        || a.length < r.highA || b.length < r.highB then none
    else if r.isInsert then
      (cellsFrom a b rs r.highA r.highB).map
        (((b.drop ib).take (r.highB - ib)).map (fun l => ⟨l, false, true⟩) ++ ·)
    else if r.isDelete then
      (cellsFrom a b rs r.highA r.highB).map
        (((a.drop ia).take (r.highA - ia)).map (fun l => ⟨l, true, false⟩) ++ ·)
    else if r.isEqual && (a.drop ia).take (r.highA - ia) == (b.drop ib).take (r.highB - ib) then
      (cellsFrom a b rs r.highA r.highB).map
        (((a.drop ia).take (r.highA - ia)).map (fun l => ⟨l, true, true⟩) ++ ·)
    else none

/-- `myers.Diff` reports "no commonality at all" as the two ranges `{HighA: aLen}`, `{HighB: bLen}`
(the insert range does not continue at `aLen`); that special form is accepted here. -/
def cellsOf (a b : List Line) (rs : List Range) : Option (List Cell) :=
  match rs with
  | [d, i] =>
    if d == ⟨0, a.length, 0, 0⟩ && i == ⟨0, 0, 0, b.length⟩ && a.length != 0 && b.length != 0 then
      some (a.map (fun l => ⟨l, true, false⟩) ++ b.map (fun l => ⟨l, false, true⟩))
    else cellsFrom a b rs 0 0
  | _ => cellsFrom a b rs 0 0

/-- What the sanity check of the Myers implementation guarantees, on cells: an inserted run is
never directly followed by a deleted line (changes come as "delete then insert"). -/
def normalised : List Cell → Bool
  | c :: d :: M => !(c.new && !c.old && d.old && !d.new) && normalised (d :: M)
  | _ => true

end NA.Acl
