/-
Line-protocol helpers shared by all driver sub-commands (core only).
Every driver reads one case per line from stdin and writes exactly one line per case.
-/
namespace NA.IOUtil

/-- Feed every stdin line (without the trailing newline) to `f`, print its answer, flush. -/
partial def eachLine (f : String → String) : IO Unit := do
  let stdin ← IO.getStdin
  let stdout ← IO.getStdout
  let rec loop : IO Unit := do
    let line ← stdin.getLine
    if line.isEmpty then return ()
    let l := if line.back == '\n' then (line.dropEnd 1).toString else line
    stdout.putStrLn (f l)
    stdout.flush
    loop
  loop

/-- Stateful variant. -/
partial def foldLines {σ : Type} (init : σ) (f : σ → String → σ × String) : IO Unit := do
  let stdin ← IO.getStdin
  let stdout ← IO.getStdout
  let rec loop (s : σ) : IO Unit := do
    let line ← stdin.getLine
    if line.isEmpty then return ()
    let l := if line.back == '\n' then (line.dropEnd 1).toString else line
    let (s', out) := f s l
    stdout.putStrLn out
    stdout.flush
    loop s'
  loop init

def splitTab (s : String) : List String := s.splitOn "\t"
def splitBar (s : String) : List String := if s.isEmpty then [] else s.splitOn "|"
def splitComma (s : String) : List String := if s.isEmpty then [] else s.splitOn ","
def joinBar (l : List String) : String := "|".intercalate l
def joinComma (l : List String) : String := ",".intercalate l
def natList (s : String) : Option (List Nat) := (splitComma s).mapM String.toNat?

end NA.IOUtil
