/-
Permutation-invariant folds (DESIGN.md 5.3).  Core Lean only.

A Go `for k, v := range m { body }` visits the entries of `m` in an unspecified order that
differs between runs.  We model the loop as a left fold of a step function over the list of
entries *in iteration order*; "the output does not depend on the iteration order" is then
"the fold gives the same result for every permutation of the entry list".

* `foldl_perm`            a step that commutes on the members of the list: any permutation gives the same fold
* `sort_perm`             "collect then sort": sorting a permutation gives the same list
* `sortBy_perm`           the same for entries sorted by a key that is unique in the list (map keys)
* `find?_perm`, `find?_perm_invariant_iff`
                          "find first satisfying" is invariant iff at most one candidate satisfies
* `findSome?_perm`        early exit with a computed result: invariant if all possible results agree
* `findSome?_two_orders`  … and two candidates with different results give two orders with different outcome
-/
namespace NA.PermFold

/-! ### Folds -/

/-- The step commutes on every two members of the list. -/
def CommOn {σ α : Type} (step : σ → α → σ) (l : List α) : Prop :=
  ∀ x, x ∈ l → ∀ y, y ∈ l → ∀ s, step (step s x) y = step (step s y) x

/-- Right-commutative step (commutes for all arguments). -/
def RightComm {σ α : Type} (step : σ → α → σ) : Prop :=
  ∀ s x y, step (step s x) y = step (step s y) x

theorem CommOn.of_rightComm {σ α : Type} {step : σ → α → σ} (h : RightComm step) (l : List α) :
    CommOn step l := fun x _ y _ s => h s x y

theorem CommOn.perm {σ α : Type} {step : σ → α → σ} {l₁ l₂ : List α} (p : l₁.Perm l₂)
    (h : CommOn step l₁) : CommOn step l₂ :=
  fun x hx y hy s => h x (p.mem_iff.mpr hx) y (p.mem_iff.mpr hy) s

theorem CommOn.tail {σ α : Type} {step : σ → α → σ} {a : α} {l : List α}
    (h : CommOn step (a :: l)) : CommOn step l :=
  fun x hx y hy s => h x (List.mem_cons_of_mem _ hx) y (List.mem_cons_of_mem _ hy) s

/-- **foldl_perm**: a fold whose step commutes on the members of the list does not depend on
the order of the list. -/
theorem foldl_perm {σ α : Type} (step : σ → α → σ) {l₁ l₂ : List α} (p : l₁.Perm l₂)
    (comm : CommOn step l₁) (s : σ) : l₁.foldl step s = l₂.foldl step s := by
  induction p generalizing s with
  | nil => rfl
  | cons x _ ih => exact ih comm.tail (step s x)
  | swap x y l =>
    simp only [List.foldl_cons]
    rw [comm y (by simp) x (by simp) s]
  | trans p₁ _ ih₁ ih₂ => rw [ih₁ comm s, ih₂ (comm.perm p₁) s]

theorem foldl_perm_of_rightComm {σ α : Type} (step : σ → α → σ) (h : RightComm step)
    {l₁ l₂ : List α} (p : l₁.Perm l₂) (s : σ) : l₁.foldl step s = l₂.foldl step s :=
  foldl_perm step p (CommOn.of_rightComm h l₁) s

/-- Two step functions on separate components of the state. -/
def prodStep {σ₁ σ₂ α : Type} (f : σ₁ → α → σ₁) (g : σ₂ → α → σ₂) : σ₁ × σ₂ → α → σ₁ × σ₂ :=
  fun s a => (f s.1 a, g s.2 a)

theorem CommOn.prod {σ₁ σ₂ α : Type} {f : σ₁ → α → σ₁} {g : σ₂ → α → σ₂} {l : List α}
    (hf : CommOn f l) (hg : CommOn g l) : CommOn (prodStep f g) l := by
  intro x hx y hy s
  simp only [prodStep]
  rw [hf x hx y hy, hg x hx y hy]

/-! ### Entries of a map: distinct keys -/

/-- A key function is injective on the list (entries of a Go map: keys are distinct). -/
def UniqueKeys {α κ : Type} (key : α → κ) (l : List α) : Prop := (l.map key).Nodup

theorem UniqueKeys.eq_of_key_eq {α κ : Type} {key : α → κ} {l : List α} (h : UniqueKeys key l)
    {a b : α} (ha : a ∈ l) (hb : b ∈ l) (hk : key a = key b) : a = b := by
  induction l with
  | nil => cases ha
  | cons x xs ih =>
    simp only [UniqueKeys, List.map_cons, List.nodup_cons, List.mem_map, not_exists, not_and] at h
    rcases List.mem_cons.mp ha with rfl | ha' <;> rcases List.mem_cons.mp hb with rfl | hb'
    · rfl
    · exact absurd hk.symm (h.1 b hb')
    · exact absurd hk (h.1 a ha')
    · exact ih h.2 ha' hb'

theorem UniqueKeys.perm {α κ : Type} {key : α → κ} {l₁ l₂ : List α} (p : l₁.Perm l₂)
    (h : UniqueKeys key l₁) : UniqueKeys key l₂ :=
  (p.map key).nodup_iff.mp h

/-- Steps of entries with different keys commute ⇒ the step commutes on a list with unique keys. -/
theorem CommOn.of_keys {σ α κ : Type} {step : σ → α → σ} {key : α → κ} {l : List α}
    (hu : UniqueKeys key l)
    (h : ∀ x y, key x ≠ key y → ∀ s, step (step s x) y = step (step s y) x) : CommOn step l := by
  intro x hx y hy s
  by_cases hk : key x = key y
  · rw [hu.eq_of_key_eq hx hy hk]
  · exact h x y hk s

/-! ### Collect, then sort -/

/-- A total preorder given as a Boolean function, antisymmetric: a linear order. -/
structure LawfulLe {α : Type} (le : α → α → Bool) : Prop where
  total : ∀ a b, (le a b || le b a) = true
  trans : ∀ a b c, le a b = true → le b c = true → le a c = true
  antisymm : ∀ a b, le a b = true → le b a = true → a = b

/-- **sort_perm**: sorting two permutations of the same elements gives the same list. -/
theorem sort_perm {α : Type} {le : α → α → Bool} (h : LawfulLe le) {l₁ l₂ : List α}
    (p : l₁.Perm l₂) : l₁.mergeSort le = l₂.mergeSort le := by
  have s₁ := List.pairwise_mergeSort h.trans h.total l₁
  have s₂ := List.pairwise_mergeSort h.trans h.total l₂
  have pp : (l₁.mergeSort le).Perm (l₂.mergeSort le) :=
    ((List.mergeSort_perm l₁ le).trans p).trans (List.mergeSort_perm l₂ le).symm
  exact List.Perm.eq_of_pairwise (fun a b _ _ hab hba => h.antisymm a b hab hba) s₁ s₂ pp

/-- Sort entries by their key. -/
def sortBy {α κ : Type} (le : κ → κ → Bool) (key : α → κ) (l : List α) : List α :=
  l.mergeSort (fun a b => le (key a) (key b))

theorem sortBy_perm_self {α κ : Type} (le : κ → κ → Bool) (key : α → κ) (l : List α) :
    (sortBy le key l).Perm l := List.mergeSort_perm l _

/-- **sortBy_perm**: entries with unique keys, sorted by key: every permutation gives the same list. -/
theorem sortBy_perm {α κ : Type} {le : κ → κ → Bool} (h : LawfulLe le) (key : α → κ)
    {l₁ l₂ : List α} (hu : UniqueKeys key l₁) (p : l₁.Perm l₂) :
    sortBy le key l₁ = sortBy le key l₂ := by
  have tr : ∀ a b c : α, le (key a) (key b) = true → le (key b) (key c) = true →
      le (key a) (key c) = true := fun a b c => h.trans _ _ _
  have tot : ∀ a b : α, (le (key a) (key b) || le (key b) (key a)) = true := fun a b => h.total _ _
  have s₁ := List.pairwise_mergeSort tr tot l₁
  have s₂ := List.pairwise_mergeSort tr tot l₂
  have p₁ := List.mergeSort_perm l₁ (fun a b => le (key a) (key b))
  have p₂ := List.mergeSort_perm l₂ (fun a b => le (key a) (key b))
  have pp := (p₁.trans p).trans p₂.symm
  refine List.Perm.eq_of_pairwise (fun a b ha hb hab hba => ?_) s₁ s₂ pp
  have ha' : a ∈ l₁ := p₁.mem_iff.mp ha
  have hb' : b ∈ l₁ := p.mem_iff.mpr (p₂.mem_iff.mp hb)
  exact hu.eq_of_key_eq ha' hb' (h.antisymm _ _ hab hba)

/-- Whatever is computed from the sorted entry list does not depend on the iteration order. -/
theorem sorted_deterministic {α κ ρ : Type} {le : κ → κ → Bool} (h : LawfulLe le) (key : α → κ)
    (F : List α → ρ) {l₁ l₂ : List α} (hu : UniqueKeys key l₁) (p : l₁.Perm l₂) :
    F (sortBy le key l₁) = F (sortBy le key l₂) := by
  rw [sortBy_perm h key hu p]

/-- Lexicographic order on pairs. -/
def lexLe {κ₁ κ₂ : Type} [DecidableEq κ₁] (le₁ : κ₁ → κ₁ → Bool) (le₂ : κ₂ → κ₂ → Bool) :
    κ₁ × κ₂ → κ₁ × κ₂ → Bool :=
  fun a b => if a.1 = b.1 then le₂ a.2 b.2 else le₁ a.1 b.1

theorem LawfulLe.lex {κ₁ κ₂ : Type} [DecidableEq κ₁] {le₁ : κ₁ → κ₁ → Bool} {le₂ : κ₂ → κ₂ → Bool}
    (h₁ : LawfulLe le₁) (h₂ : LawfulLe le₂) : LawfulLe (lexLe le₁ le₂) where
  total := by
    intro a b
    simp only [lexLe]
    by_cases h : a.1 = b.1
    · simp [h, h₂.total]
    · have h' : ¬ b.1 = a.1 := fun e => h e.symm
      simp [h, h', h₁.total]
  trans := by
    intro a b c hab hbc
    simp only [lexLe] at hab hbc ⊢
    by_cases h1 : a.1 = b.1 <;> by_cases h2 : b.1 = c.1
    · have h3 : a.1 = c.1 := h1.trans h2
      rw [if_pos h1] at hab; rw [if_pos h2] at hbc; rw [if_pos h3]
      exact h₂.trans _ _ _ hab hbc
    · have h3 : ¬ a.1 = c.1 := fun e => h2 (h1.symm.trans e)
      rw [if_neg h2] at hbc; rw [if_neg h3, h1]
      exact hbc
    · have h3 : ¬ a.1 = c.1 := fun e => h1 (e.trans h2.symm)
      rw [if_neg h1] at hab; rw [if_neg h3, ← h2]
      exact hab
    · rw [if_neg h1] at hab; rw [if_neg h2] at hbc
      by_cases h3 : a.1 = c.1
      · exfalso
        rw [h3] at hab
        exact h2 (h₁.antisymm _ _ hbc hab)
      · rw [if_neg h3]
        exact h₁.trans _ _ _ hab hbc
  antisymm := by
    intro a b hab hba
    simp only [lexLe] at *
    by_cases h : a.1 = b.1
    · have h' : b.1 = a.1 := h.symm
      simp only [h, if_true] at hab
      simp only [h', if_true] at hba
      exact Prod.ext h (h₂.antisymm _ _ hab hba)
    · have h' : ¬ b.1 = a.1 := fun e => h e.symm
      simp only [h, if_false] at hab
      simp only [h', if_false] at hba
      exact absurd (h₁.antisymm _ _ hab hba) h

/-- Byte order of strings (what `sort.Strings` / `slices.Sorted` use for ASCII and UTF-8). -/
def strLe (a b : String) : Bool := decide (a ≤ b)

theorem strLe_lawful : LawfulLe strLe where
  total := by
    intro a b
    rcases String.le_total a b with h | h <;> simp [strLe, h]
  trans := by
    intro a b c hab hbc
    simp only [strLe, decide_eq_true_eq] at *
    exact String.le_trans hab hbc
  antisymm := by
    intro a b hab hba
    simp only [strLe, decide_eq_true_eq] at *
    exact String.le_antisymm hab hba

def natLe (a b : Nat) : Bool := decide (a ≤ b)

theorem natLe_lawful : LawfulLe natLe where
  total := by intro a b; simp only [natLe, Bool.or_eq_true, decide_eq_true_eq]; omega
  trans := by intro a b c; simp only [natLe, decide_eq_true_eq]; omega
  antisymm := by intro a b; simp only [natLe, decide_eq_true_eq]; omega

/-! ### Find first -/

/-- At most one member satisfies `p`. -/
def AtMostOne {α : Type} (p : α → Bool) (l : List α) : Prop :=
  ∀ a, a ∈ l → ∀ b, b ∈ l → p a = true → p b = true → a = b

theorem find?_mem_and {α : Type} {p : α → Bool} {l : List α} {a : α} (h : l.find? p = some a) :
    a ∈ l ∧ p a = true := ⟨List.mem_of_find?_eq_some h, List.find?_some h⟩

/-- "find first satisfying" gives the same answer for every order if at most one candidate satisfies. -/
theorem find?_perm {α : Type} {p : α → Bool} {l₁ l₂ : List α} (h : AtMostOne p l₁)
    (perm : l₁.Perm l₂) : l₁.find? p = l₂.find? p := by
  cases h₁ : l₁.find? p with
  | none =>
    have hn : ∀ x ∈ l₁, ¬ p x = true := by simpa using h₁
    symm
    simp only [List.find?_eq_none]
    intro x hx
    exact hn x (perm.mem_iff.mpr hx)
  | some a =>
    obtain ⟨ha, hpa⟩ := find?_mem_and h₁
    cases h₂ : l₂.find? p with
    | none =>
      have hn : ∀ x ∈ l₂, ¬ p x = true := by simpa using h₂
      exact absurd hpa (hn a (perm.mem_iff.mp ha))
    | some b =>
      obtain ⟨hb, hpb⟩ := find?_mem_and h₂
      rw [h a ha b (perm.mem_iff.mpr hb) hpa hpb]

/-- **find?_perm_invariant_iff**: "find first satisfying" is invariant under reordering
iff at most one candidate satisfies. -/
theorem find?_perm_invariant_iff {α : Type} [DecidableEq α] (p : α → Bool) (l : List α) :
    (∀ l₁ l₂ : List α, l₁.Perm l → l₂.Perm l → l₁.find? p = l₂.find? p) ↔ AtMostOne p l := by
  constructor
  · intro h a ha b hb hpa hpb
    have pa : (a :: l.erase a).Perm l := (List.perm_cons_erase ha).symm
    have pb : (b :: l.erase b).Perm l := (List.perm_cons_erase hb).symm
    have := h _ _ pa pb
    simpa [List.find?_cons, hpa, hpb] using this
  · intro h l₁ l₂ p₁ p₂
    have h₁ : AtMostOne p l₁ := fun a ha b hb => h a (p₁.mem_iff.mp ha) b (p₁.mem_iff.mp hb)
    exact find?_perm h₁ (p₁.trans p₂.symm)

/-! ### Early exit with a computed result -/

/-- All results that some member could produce agree. -/
def Agree {α ρ : Type} (f : α → Option ρ) (l : List α) : Prop :=
  ∀ a, a ∈ l → ∀ b, b ∈ l → ∀ x y, f a = some x → f b = some y → x = y

theorem findSome?_mem {α ρ : Type} {f : α → Option ρ} {l : List α} {x : ρ}
    (h : l.findSome? f = some x) : ∃ a, a ∈ l ∧ f a = some x := by
  induction l with
  | nil => simp at h
  | cons a l ih =>
    simp only [List.findSome?_cons] at h
    cases hfa : f a with
    | some y =>
      rw [hfa] at h
      exact ⟨a, by simp, by rw [hfa]; exact h⟩
    | none =>
      rw [hfa] at h
      obtain ⟨b, hb, hfb⟩ := ih h
      exact ⟨b, List.mem_cons_of_mem _ hb, hfb⟩

theorem findSome?_none_iff {α ρ : Type} {f : α → Option ρ} {l : List α} :
    l.findSome? f = none ↔ ∀ a, a ∈ l → f a = none := by
  induction l with
  | nil => simp
  | cons a l ih =>
    simp only [List.findSome?_cons]
    cases hfa : f a with
    | some y =>
      constructor
      · intro h; cases h
      · intro h; have := h a (by simp); rw [hfa] at this; cases this
    | none =>
      simp only [ih, List.mem_cons]
      constructor
      · intro h b hb
        rcases hb with rfl | hb
        · exact hfa
        · exact h b hb
      · intro h b hb; exact h b (Or.inr hb)

/-- **findSome?_perm**: a loop that leaves at the first entry producing a result gives the same
result for every order if all possible results agree. -/
theorem findSome?_perm {α ρ : Type} {f : α → Option ρ} {l₁ l₂ : List α} (h : Agree f l₁)
    (perm : l₁.Perm l₂) : l₁.findSome? f = l₂.findSome? f := by
  cases h₁ : l₁.findSome? f with
  | none =>
    symm
    rw [findSome?_none_iff] at h₁ ⊢
    intro a ha
    exact h₁ a (perm.mem_iff.mpr ha)
  | some x =>
    obtain ⟨a, ha, hfa⟩ := findSome?_mem h₁
    cases h₂ : l₂.findSome? f with
    | none =>
      rw [findSome?_none_iff] at h₂
      have := h₂ a (perm.mem_iff.mp ha)
      rw [hfa] at this; cases this
    | some y =>
      obtain ⟨b, hb, hfb⟩ := findSome?_mem h₂
      rw [h a ha b (perm.mem_iff.mpr hb) x y hfa hfb]

/-- … and conversely two members with different results give two orders with different outcome. -/
theorem findSome?_two_orders {α ρ : Type} [DecidableEq α] {f : α → Option ρ} {l : List α}
    {a b : α} {x y : ρ} (ha : a ∈ l) (hb : b ∈ l) (hfa : f a = some x) (hfb : f b = some y)
    (hxy : x ≠ y) :
    ∃ l₁ l₂ : List α, l₁.Perm l ∧ l₂.Perm l ∧ l₁.findSome? f ≠ l₂.findSome? f := by
  refine ⟨a :: l.erase a, b :: l.erase b, (List.perm_cons_erase ha).symm,
    (List.perm_cons_erase hb).symm, ?_⟩
  simp only [List.findSome?_cons, hfa, hfb]
  intro h
  exact hxy (Option.some.inj h)

theorem findSome?_perm_invariant_iff {α ρ : Type} [DecidableEq α] (f : α → Option ρ) (l : List α) :
    (∀ l₁ l₂ : List α, l₁.Perm l → l₂.Perm l → l₁.findSome? f = l₂.findSome? f) ↔ Agree f l := by
  constructor
  · intro h a ha b hb x y hfa hfb
    apply Classical.byContradiction
    intro hxy
    obtain ⟨l₁, l₂, p₁, p₂, hne⟩ := findSome?_two_orders ha hb hfa hfb hxy
    exact hne (h l₁ l₂ p₁ p₂)
  · intro h l₁ l₂ p₁ p₂
    have h₁ : Agree f l₁ := fun a ha b hb => h a (p₁.mem_iff.mp ha) b (p₁.mem_iff.mp hb)
    exact findSome?_perm h₁ (p₁.trans p₂.symm)

/-! ### Messages emitted in iteration order -/

/-- A loop that emits a message for some entries (in iteration order): the emitted list is the
same for every order iff … at most one entry emits (sufficient direction). -/
theorem filterMap_perm_of_atMostOne {α ρ : Type} {f : α → Option ρ} {l₁ l₂ : List α}
    (h : ∀ a, a ∈ l₁ → ∀ b, b ∈ l₁ → (f a).isSome → (f b).isSome → a = b)
    (perm : l₁.Perm l₂) : l₁.filterMap f = l₂.filterMap f := by
  induction perm with
  | nil => rfl
  | cons x _ ih =>
    have := ih (fun a ha b hb => h a (List.mem_cons_of_mem _ ha) b (List.mem_cons_of_mem _ hb))
    simp only [List.filterMap_cons, this]
  | swap x y l =>
    simp only [List.filterMap_cons]
    cases hx : f x <;> cases hy : f y <;> simp only []
    have := h x (by simp) y (by simp) (by simp [hx]) (by simp [hy])
    subst this
    rw [hx] at hy; cases hy; rfl
  | trans p₁ _ ih₁ ih₂ =>
    rw [ih₁ h]
    exact ih₂ (fun a ha b hb => h a (p₁.mem_iff.mpr ha) b (p₁.mem_iff.mpr hb))

end NA.PermFold
