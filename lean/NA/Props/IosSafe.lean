import NA.Proofs.IosSafeRun
import NA.Props.IosAcl
/-!
# C14 for the real IOS planner model: every command of `planIOS M` is safe

For EVERY merged list `M` (any length; `mkey`s pairwise different in `olds M` and in `news M`, at
least one kept line, no junk cells, insert runs shorter than 10000) the strict IOS device accepts
`planIOS M` on the resequenced device, and after EVERY command each packet gets the old verdict or
the verdict of the FINAL state (`ios_steps_old_or_final`) — provided

* `NoCrossIos M`: every move that `planIOS M` really emits (not the suppressed ones) and that goes
  DOWNWARD only crosses old lines commuting with the moved line (same test as `NoCross` of ASA);
* `MoveSem M`: a re-added line hits the same packets as the line it replaces.

Suppressed moves need nothing: the line simply stays.  The final state is the target except for
the positions of the suppressed lines; for ACLs without remark lines it filters like the target
(`ios_plan_block_equiv_partial`), which gives the property of C14 relative to `news M`
(`ios_steps_safe_partial`).  Without `NoCrossIos` the statement is false
(`ios_steps_safe_needs_noCross`, F-C14), and so it is for scripts that keep no line
(`ios_no_common_line_unsafe`, F-C14b; excluded by the both-cell hypothesis).
-/
namespace NA.IosSafe
open NA.Acl

attribute [-simp] List.getD_eq_getElem?_getD

/-- Every move EMITTED by `planIOS M` (joined `no <n>` / `<m> line`) that goes downward crosses
only old lines that commute with the moved line. -/
def NoCrossIos (M : List Cell) : Bool :=
  (addIdx M).all fun j =>
    match delLookup M (M.getD j default).line.mkey with
    | none => true
    | some i =>
      !(planIOS M).contains (IOp.move (numOf M i) (numOf M j) (M.getD j default).line) ||
      (List.range j).all fun c =>
        !(decide (i < c) && (M.getD c default).old) ||
          commutesAll (M.getD i default).line (M.getD c default).line

/-- The partner in the re-labelled list is the partner in `M`, and the move was emitted. -/
theorem kc_partner (M : List Cell) (g : Nat → Bool)
    (hplan : planIOS M = (addIdx M).flatMap (cellOpsG M g) ++ delsOf M)
    (hno : ((olds M).map (·.mkey)).Nodup) {i j : Nat}
    (hj : j ∈ addIdx (keepCells M ((addIdx M).filter (supprAt M g))))
    (hd : delLookup (keepCells M ((addIdx M).filter (supprAt M g)))
      ((keepCells M ((addIdx M).filter (supprAt M g))).getD j default).line.mkey = some i) :
    j ∈ addIdx M ∧ i < M.length ∧ delLookup M (M.getD j default).line.mkey = some i ∧
      IOp.move (numOf M i) (numOf M j) (M.getD j default).line ∈ planIOS M := by
  have hSsub : ∀ j ∈ (addIdx M).filter (supprAt M g), j ∈ addIdx M :=
    fun j hj => (List.mem_filter.mp hj).1
  obtain ⟨hjM, hjS⟩ := (mem_addIdx_kc M _ hSsub j).1 hj
  have hjl := ((mem_addIdx M j).1 hjM).1
  obtain ⟨hil, hio, hin, hik⟩ := delLookup_some _ _ i hd
  rw [kc_length] at hil
  have hid' : i ∈ delIdx (keepCells M ((addIdx M).filter (supprAt M g))) :=
    (mem_delIdx _ i).2 ⟨by rw [kc_length]; exact hil, hio, hin⟩
  have hid : i ∈ delIdx M := ((mem_delIdx_kc M _ hSsub i).1 hid').1
  rw [kc_mkey M _ i hil, kc_mkey M _ j hjl] at hik
  have hl : delLookup M (M.getD j default).line.mkey = some i := by
    rw [← hik]; exact delLookup_of M hno hid
  have hsup : supprAt M g j = false := by
    cases hsup : supprAt M g j with
    | false => rfl
    | true => exact absurd (List.mem_filter.mpr ⟨hjM, hsup⟩) hjS
  have hg : g j = false := by
    simp only [supprAt, hl, Option.isSome_some, Bool.and_true] at hsup; exact hsup
  have hio' := ((mem_delIdx M i).1 hid).2.1
  have hops : cellOpsG M g j = [IOp.move (numOf M i) (numOf M j) (M.getD j default).line] := by
    simp [cellOpsG, itemOps, newItem, iosDelLookup, hl, hg, numOf_old M i hio']
  refine ⟨hjM, hil, hl, ?_⟩
  rw [hplan]
  apply List.mem_append_left
  exact List.mem_flatMap.mpr ⟨j, hjM, by rw [hops]; exact List.mem_singleton.mpr rfl⟩

theorem crossOK_kc (M : List Cell) (g : Nat → Bool)
    (hplan : planIOS M = (addIdx M).flatMap (cellOpsG M g) ++ delsOf M)
    (hno : ((olds M).map (·.mkey)).Nodup) (hcross : NoCrossIos M = true) :
    CrossOK (keepCells M ((addIdx M).filter (supprAt M g))) := by
  have hSsub : ∀ j ∈ (addIdx M).filter (supprAt M g), j ∈ addIdx M :=
    fun j hj => (List.mem_filter.mp hj).1
  intro i j hj hd c hic hcj hco p
  obtain ⟨hjM, hil, hl, hop⟩ := kc_partner M g hplan hno hj hd
  have hjl := ((mem_addIdx M j).1 hjM).1
  have hcl : c < M.length := by omega
  rw [kc_old M _ hSsub c hcl] at hco
  rw [kc_line M _ i hil, kc_line M _ c hcl]
  have h1 := List.all_eq_true.1 hcross j hjM
  simp only [hl] at h1
  have hc : (planIOS M).contains (IOp.move (numOf M i) (numOf M j) (M.getD j default).line) = true :=
    List.contains_iff_mem.mpr hop
  simp only [hc, Bool.not_true, Bool.false_or] at h1
  have h2 := List.all_eq_true.1 h1 c (List.mem_range.2 hcj)
  simp only [hic, hco, decide_true, Bool.and_self, Bool.not_true, Bool.false_or] at h2
  exact commutesAll_spec _ _ h2 p

theorem semOK_kc (M : List Cell) (g : Nat → Bool)
    (hplan : planIOS M = (addIdx M).flatMap (cellOpsG M g) ++ delsOf M)
    (hno : ((olds M).map (·.mkey)).Nodup) (hsem : MoveSem M = true) :
    SemOK (keepCells M ((addIdx M).filter (supprAt M g))) := by
  intro i j hj hd p
  obtain ⟨hjM, hil, hl, _⟩ := kc_partner M g hplan hno hj hd
  have hjl := ((mem_addIdx M j).1 hjM).1
  rw [kc_line M _ i hil, kc_line M _ j hjl]
  have h1 := List.all_eq_true.1 hsem j hjM
  simp only [hl] at h1
  exact sameHits_spec _ _ h1 p

/-- After every command each packet gets the old verdict or the verdict of the final state;
the final state is the target with the lines of the suppressed moves at their old positions. -/
theorem ios_steps_old_or_final (M : List Cell)
    (hboth : (M.any fun c => c.old && c.new) = true) (hjunk : noJunk M = true)
    (hruns : runsShort M)
    (hno : ((olds M).map (·.mkey)).Nodup) (hnn : ((news M).map (·.mkey)).Nodup)
    (hcross : NoCrossIos M = true) (hsem : MoveSem M = true)
    (dev : IosAcl) (hdev : iosLines dev = olds M) :
    ∃ tr fin, iosTrace (iosReseq dev 10000 10000) (planIOS M) = some tr ∧
      (iosReseq dev 10000 10000 :: tr).getLast? = some fin ∧
      (∃ S, (∀ j ∈ S, j ∈ addIdx M) ∧ iosLines fin = masked M (finalMask M S)) ∧
      ∀ s ∈ tr, ∀ p, eval (iosLines s) p = eval (olds M) p ∨
        eval (iosLines s) p = eval (iosLines fin) p := by
  obtain ⟨g, hplan⟩ := plan_general M hboth hnn
  have hSsub : ∀ j ∈ (addIdx M).filter (supprAt M g), j ∈ addIdx M :=
    fun j hj => (List.mem_filter.mp hj).1
  obtain ⟨s', hrun⟩ := plan_irun M hjunk hruns hno hnn g
  have hex := exec_general M hjunk hruns hno hnn g
  rw [← hplan, ← reseq_numbered M dev hdev] at hrun hex
  obtain ⟨tr, htr, hall, hlast⟩ := hrun.trace
  obtain ⟨tr', htr', hlast'⟩ := iosExec_trace _ _ _ hex
  have htt : tr = tr' := Option.some.inj (htr.symm.trans htr')
  subst htt
  have hfin : s' = numbered M (finalMask M ((addIdx M).filter (supprAt M g))) :=
    Option.some.inj (hlast.symm.trans hlast')
  subst hfin
  refine ⟨tr, _, htr, hlast, ⟨_, hSsub, numbered_lines M _⟩, ?_⟩
  intro s hs p
  obtain ⟨ν, rfl, hshape⟩ := hall s hs
  have := hshape.old_or_new (crossOK_kc M g hplan hno hcross) (semOK_kc M g hplan hno hsem) p
  rw [masked_kc, olds_kc M _ hSsub, news_kc M _ hSsub] at this
  rw [numbered_lines, numbered_lines]
  exact this

/-- Step safety of C14 for the IOS planner model, ACLs without remark lines: a packet on which the
old and the new ACL agree keeps that verdict after every command.  (`_partial`: the unconditional
property is false, F-C14; with remark lines even the final state can be wrong, F-C02r.) -/
theorem ios_steps_safe_partial (M : List Cell)
    (hboth : (M.any fun c => c.old && c.new) = true) (hjunk : noJunk M = true)
    (hruns : runsShort M)
    (hno : ((olds M).map (·.mkey)).Nodup) (hnn : ((news M).map (·.mkey)).Nodup)
    (hcross : NoCrossIos M = true) (hsem : MoveSem M = true)
    (hnr : ∀ c ∈ M, c.line.remark = false)
    (hwf : ∀ i ∈ delIdx M, ∀ j ∈ addIdx M,
      (M.getD i default).line.mkey = (M.getD j default).line.mkey →
      LineEqv (M.getD i default).line (M.getD j default).line)
    (dev : IosAcl) (hdev : iosLines dev = olds M) :
    ∃ tr, iosTrace (iosReseq dev 10000 10000) (planIOS M) = some tr ∧
      ∀ s ∈ tr, ∀ p, eval (olds M) p = eval (news M) p → eval (iosLines s) p = eval (olds M) p := by
  obtain ⟨tr, fin, htr, hlast, _, hall⟩ :=
    ios_steps_old_or_final M hboth hjunk hruns hno hnn hcross hsem dev hdev
  obtain ⟨tr', s', htr', hlast', _, heq⟩ :=
    IosAclProps.ios_plan_block_equiv_partial M hboth hjunk hruns hno hnn hnr hwf dev hdev
  have htt : tr = tr' := Option.some.inj (htr.symm.trans htr')
  subst htt
  have hfin : fin = s' := Option.some.inj (hlast.symm.trans hlast')
  subst hfin
  refine ⟨tr, htr, fun s hs p hp => ?_⟩
  rcases hall s hs p with h | h
  · exact h
  · rw [h, heq p, hp]

/-- No suppressed move (the plan holds an `add` or `move` for every new-only cell): old or NEW
verdict after every command; remark lines allowed. -/
theorem ios_steps_old_or_new_no_suppression (M : List Cell)
    (hboth : (M.any fun c => c.old && c.new) = true) (hjunk : noJunk M = true)
    (hruns : runsShort M)
    (hno : ((olds M).map (·.mkey)).Nodup) (hnn : ((news M).map (·.mkey)).Nodup)
    (hcross : NoCrossIos M = true) (hsem : MoveSem M = true)
    (hcount : ((planIOS M).filter IOp.isAddMove).length = (addIdx M).length)
    (dev : IosAcl) (hdev : iosLines dev = olds M) :
    ∃ tr, iosTrace (iosReseq dev 10000 10000) (planIOS M) = some tr ∧
      ∀ s ∈ tr, ∀ p, eval (iosLines s) p = eval (olds M) p ∨ eval (iosLines s) p = eval (news M) p := by
  obtain ⟨tr, fin, htr, hlast, _, hall⟩ :=
    ios_steps_old_or_final M hboth hjunk hruns hno hnn hcross hsem dev hdev
  obtain ⟨tr', s', htr', hlast', heq⟩ :=
    IosAclProps.ios_plan_converges_no_suppression_partial M hboth hjunk hruns hno hnn hcount dev hdev
  have htt : tr = tr' := Option.some.inj (htr.symm.trans htr')
  subst htt
  have hfin : fin = s' := Option.some.inj (hlast.symm.trans hlast')
  subst hfin
  refine ⟨tr, htr, fun s hs p => ?_⟩
  rw [← heq]
  exact hall s hs p

theorem ios_steps_safe_no_suppression_partial (M : List Cell)
    (hboth : (M.any fun c => c.old && c.new) = true) (hjunk : noJunk M = true)
    (hruns : runsShort M)
    (hno : ((olds M).map (·.mkey)).Nodup) (hnn : ((news M).map (·.mkey)).Nodup)
    (hcross : NoCrossIos M = true) (hsem : MoveSem M = true)
    (hcount : ((planIOS M).filter IOp.isAddMove).length = (addIdx M).length)
    (dev : IosAcl) (hdev : iosLines dev = olds M) :
    ∃ tr, iosTrace (iosReseq dev 10000 10000) (planIOS M) = some tr ∧
      ∀ s ∈ tr, ∀ p, eval (olds M) p = eval (news M) p → eval (iosLines s) p = eval (olds M) p := by
  obtain ⟨tr, htr, hall⟩ :=
    ios_steps_old_or_new_no_suppression M hboth hjunk hruns hno hnn hcross hsem hcount dev hdev
  refine ⟨tr, htr, fun s hs p hp => ?_⟩
  rcases hall s hs p with h | h
  · exact h
  · rw [h, hp]

theorem noCrossIos_of_noMoves (M : List Cell) (h : NoMoves M = true) : NoCrossIos M = true := by
  apply List.all_eq_true.2
  intro j hj
  have h1 := List.all_eq_true.1 h j hj
  cases hd : delLookup M (M.getD j default).line.mkey with
  | none => rfl
  | some i => simp [hd] at h1

theorem moveSem_of_noMoves (M : List Cell) (h : NoMoves M = true) : MoveSem M = true := by
  apply List.all_eq_true.2
  intro j hj
  have h1 := List.all_eq_true.1 h j hj
  cases hd : delLookup M (M.getD j default).line.mkey with
  | none => rfl
  | some i => simp [hd] at h1

/-- Without moves no side condition is needed. -/
theorem ios_steps_safe_no_moves (M : List Cell)
    (hboth : (M.any fun c => c.old && c.new) = true) (hjunk : noJunk M = true)
    (hruns : runsShort M)
    (hno : ((olds M).map (·.mkey)).Nodup) (hnn : ((news M).map (·.mkey)).Nodup)
    (hnm : NoMoves M = true) (dev : IosAcl) (hdev : iosLines dev = olds M) :
    ∃ tr, iosTrace (iosReseq dev 10000 10000) (planIOS M) = some tr ∧
      ∀ s ∈ tr, ∀ p, eval (olds M) p = eval (news M) p → eval (iosLines s) p = eval (olds M) p := by
  obtain ⟨tr, fin, htr, hlast, _, hall⟩ :=
    ios_steps_old_or_final M hboth hjunk hruns hno hnn (noCrossIos_of_noMoves M hnm)
      (moveSem_of_noMoves M hnm) dev hdev
  have hnm' : ∀ i ∈ delIdx M, ∀ j ∈ addIdx M,
      (M.getD i default).line.mkey ≠ (M.getD j default).line.mkey := by
    intro i hi j hj
    have h1 := List.all_eq_true.1 hnm j hj
    cases hd : delLookup M (M.getD j default).line.mkey with
    | none => exact delLookup_noneI hd i hi
    | some x => simp [hd] at h1
  obtain ⟨tr', s', htr', hlast', heq⟩ :=
    IosAclProps.ios_plan_converges_no_moves_partial M hboth hjunk hruns hno hnn hnm' dev hdev
  have htt : tr = tr' := Option.some.inj (htr.symm.trans htr')
  subst htt
  have hfin : fin = s' := Option.some.inj (hlast.symm.trans hlast')
  subst hfin
  refine ⟨tr, htr, fun s hs p hp => ?_⟩
  rcases hall s hs p with h | h
  · exact h
  · rw [h, heq, hp]

/-! ## Witnesses -/

namespace W
def sfA : Line := { key := 1, mkey := 1, permit := true, mask := 3 }
def sfA' : Line := { key := 11, mkey := 1, permit := true, mask := 3 }   -- `log` changed
def sfB : Line := { key := 2, mkey := 2, permit := false, mask := 1 }    -- overlaps A, other action
def sfC : Line := { key := 3, mkey := 3, permit := true, mask := 4 }
def sfD : Line := { key := 4, mkey := 4, permit := false, mask := 8 }    -- disjoint from A
def sfE : Line := { key := 5, mkey := 5, permit := true, mask := 16 }

/-- F-C14 on IOS: device `[permit A, deny B, permit C]`, target `[permit C, permit A]`. -/
def cex : List Cell :=
  [⟨sfA, true, false⟩, ⟨sfB, true, false⟩, ⟨sfC, true, true⟩, ⟨sfA, false, true⟩]

/-- device `A D C B`, target `D C A' E`: a downward move across a disjoint deny and a permit,
an add, a delete. -/
def ok : List Cell :=
  [⟨sfA, true, false⟩, ⟨sfD, true, true⟩, ⟨sfC, true, true⟩, ⟨sfA', false, true⟩,
   ⟨sfE, false, true⟩, ⟨sfB, true, false⟩]

/-- a suppressed move: device `A C D`, target `C A D` -/
def sup : List Cell := [⟨sfA, true, false⟩, ⟨sfC, true, true⟩, ⟨sfA, false, true⟩, ⟨sfD, true, true⟩]

/-- F-C14b: no line in common.  device `[permit A, deny any log]`, target
`[permit A ∪ C, deny any]`. -/
def mgmt : Line := { key := 1, mkey := 1, permit := true, mask := 1 }
def denyLog : Line := { key := 2, mkey := 2, permit := false, mask := 7 }
def mgmt2 : Line := { key := 3, mkey := 3, permit := true, mask := 5 }
def denyNoLog : Line := { key := 4, mkey := 2, permit := false, mask := 7 }
def nocommon : List Cell :=
  [⟨mgmt, true, false⟩, ⟨denyLog, true, false⟩, ⟨mgmt2, false, true⟩, ⟨denyNoLog, false, true⟩]
end W

open W in
/-- `NoCrossIos` is necessary (F-C14 on IOS): all other hypotheses hold, `NoCrossIos` fails, and
packet 0 (same verdict before and after) is denied in between. -/
theorem ios_steps_safe_needs_noCross :
    (cex.any fun c => c.old && c.new) = true ∧ noJunk cex = true ∧ runsShort cex ∧
    ((olds cex).map (·.mkey)).Nodup ∧ ((news cex).map (·.mkey)).Nodup ∧
    MoveSem cex = true ∧ (∀ c ∈ cex, c.line.remark = false) ∧ NoCrossIos cex = false ∧
    ∃ tr, iosTrace (iosReseq ((olds cex).map fun l => (0, l)) 10000 10000) (planIOS cex) = some tr ∧
      ∃ s ∈ tr, ∃ p, eval (olds cex) p = eval (news cex) p ∧
        eval (iosLines s) p ≠ eval (olds cex) p := by
  refine ⟨by decide, by decide, (runsShortB_iff _).mp (by decide), by decide, by decide, by decide,
    by decide, by decide,
    [[(20000, sfB), (30000, sfC), (30001, sfA)], [(30000, sfC), (30001, sfA)]], by decide,
    [(20000, sfB), (30000, sfC), (30001, sfA)], by simp, 0, by decide, by decide⟩

open W in
/-- F-C14b: a script that keeps no line (`cellsOf` special form, "no parts equal" branch) deletes
all lines top-down first; after the first command the management permit is gone while the deny is
still there.  Packet 0 is permitted before and after, denied in between. -/
theorem ios_no_common_line_unsafe
    :
    cellsOf [mgmt, denyLog] [mgmt2, denyNoLog] [⟨0, 2, 0, 0⟩, ⟨0, 0, 0, 2⟩] = some nocommon ∧
    (nocommon.any fun c => c.old && c.new) = false ∧
    planIOS nocommon = [IOp.delText mgmt, IOp.delText denyLog, IOp.append mgmt2, IOp.append denyNoLog] ∧
    ∃ tr, iosTrace (iosReseq ((olds nocommon).map fun l => (0, l)) 10000 10000) (planIOS nocommon)
        = some tr ∧ tr.getLast?.map iosLines = some (news nocommon) ∧
      ∃ s ∈ tr, ∃ p, eval (olds nocommon) p = eval (news nocommon) p ∧
        eval (iosLines s) p ≠ eval (olds nocommon) p := by
  refine ⟨by decide, by decide, by decide,
    [[(20000, denyLog)], [], [(10, mgmt2)], [(10, mgmt2), (20, denyNoLog)]], by decide, by decide,
    [(20000, denyLog)], by simp, 0, by decide, by decide⟩

/-! ## Non-vacuity -/

open W in
example : NoCrossIos ok = true ∧ MoveSem ok = true ∧ NoMoves ok = false ∧
    planIOS ok = [IOp.move 10000 30001 sfA', IOp.add 30002 sfE, IOp.del 40000] := by decide

open W in
example : ∃ tr, iosTrace (iosReseq ((olds ok).map fun l => (0, l)) 10000 10000) (planIOS ok) = some tr ∧
    ∀ s ∈ tr, ∀ p, eval (olds ok) p = eval (news ok) p → eval (iosLines s) p = eval (olds ok) p :=
  ios_steps_safe_partial ok (by decide) (by decide) ((runsShortB_iff _).mp (by decide)) (by decide)
    (by decide) (by decide) (by decide) (by decide) (by decide) _ (by decide)

open W in
/-- with a suppressed move (empty plan) the hypotheses hold as well -/
example : planIOS sup = [] ∧ NoCrossIos sup = true ∧ MoveSem sup = true ∧ olds sup ≠ news sup := by
  decide

open W in
example : NoMoves [⟨sfA, true, false⟩, ⟨sfB, true, true⟩, ⟨sfC, false, true⟩] = true := by decide

def obligations : List Lean.Name := [
  ``ios_steps_old_or_final, ``ios_steps_safe_partial, ``ios_steps_old_or_new_no_suppression,
  ``ios_steps_safe_no_suppression_partial, ``ios_steps_safe_no_moves,
  ``ios_steps_safe_needs_noCross, ``ios_no_common_line_unsafe,
  ``plan_irun, ``shape_of_addSt, ``shape_of_delSt, ``crossOK_kc, ``semOK_kc]

end NA.IosSafe
