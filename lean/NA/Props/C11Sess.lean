import NA.Proofs.C11Sess
import NA.Proofs.C11Block
import NA.Proofs.C09Skel
/-!
# C11 — compare never changes the device: the session model with arbitrary device answers

Model: `NA.Apply.runProg b env` — the whole run of `device.ApproveOrCompare` (login, terminal
set-up, configuration retrieval, diff, `compare` / `approve`, `CloseConnection`, `HandleAbort`) in
the session language of C09 (`NA/Model/Sess.lean`, `NA/Model/Apply*.lean`; imported, not edited),
executed against `env.dev : List Ev → Reply`, **an arbitrary function of the whole history**: any
answer (prompt or no prompt, silence, closed connection, garbled echo, error text, warning, HTTP
status, malformed body, any feature flags) to any request, any number of times.

`compare_session_readonly`: for every backend and every such device, every change script
`env.plan` (any length, any content, depending on what was retrieved), every value of the other
parameters: each packet a compare run puts on the wire has a role among login / set-up / read /
clean-up and consists of lines of the finite vocabulary `allowedLines b` — the login dialogue, the
show / GET commands, the terminal settings (on ASA `configure terminal`, `terminal width 511`,
`end`), `exit`; no start-up file is copied.  Proof: the reflective checker `ro` accepts the five
programs (kernel evaluation of a closed term), and `ro_ext` — induction on the program, inside it
induction on the number of unread answers (`recvLoop_ext`) — lifts that to every device.

The programs are tied to the source: the call-site skeletons of `device.ApproveOrCompare`,
`compare`, `compareDevice`, `showCompareInfo`, of the `pkg/console` primitives, of `httpGet`,
`httpPrefixGetLog`, `sendRequest` and of every `CloseConnection` are regenerated
(`translate/skeleton`) and proved equal (`NA.C09.skel_*`, listed in `obligations` below); the
`LoadDevice` programs are tied by `harness/c11`: the real `drc -C` / `do-approve compare` against
the stateful simulators with a fault of every kind at every step, transcripts predicted by
`runProg` through `nadrv-c11`.
-/
namespace NA.C11S
open NA.Sess NA.Apply NA.Spec.C11 NA.C11

/-- the checker accepts the whole run of every backend -/
theorem run_checked (b : Backend) : ro b (approveOrCompareBody b) = true := by
  cases b <;> decide

/-- **Every backend, every device, every change script: a compare run sends only harmless
things.** -/
theorem compare_session_readonly (b : Backend) (env : Env) (h : env.compare = true) :
    ReadOnlyTrace b (runProg b env).tr := by
  obtain ⟨l, hl, hall⟩ := ro_ext b (approveOrCompareBody b) (run_checked b) env {} h
  unfold runProg
  rw [hl]
  intro e he
  simp only [List.nil_append] at he
  exact hall e he

/-- … spelled out per line: whatever is put on the wire is a word of the vocabulary. -/
theorem compare_session_lines (b : Backend) (env : Env) (h : env.compare = true) :
    ∀ l ∈ sentLines (runProg b env).tr, l ∈ allowedLines b :=
  linesOf_allowed b _ (compare_session_readonly b env h)

/-- **For every answer sequence**: the device that gives the answers `answers` in order (any
list, then `d` for ever), any script, any fuel for the poll loop. -/
theorem compare_session_any_answers (b : Backend) (answers : List Reply) (d : Reply)
    (plan : Bool → List (List String)) (ipt : Bool → Bool) (sim : Bool) (fuel : Nat) :
    ReadOnlyTrace b (runProg b { dev := answerDev answers d, plan := plan, planIpt := ipt,
                                 compare := true, simulated := sim, fuel := fuel }).tr :=
  compare_session_readonly b _ rfl

/-- **None of the computed change commands is sent** (unless the command happens to be a word of
the login / show vocabulary), whatever the device answered before the script was computed. -/
theorem compare_sends_nothing_of_script (b : Backend) (env : Env) (h : env.compare = true)
    (g : Bool) (c : String) (_ : c ∈ scriptLines (env.plan g)) (hc : c ∉ allowedLines b) :
    c ∉ sentLines (runProg b env).tr :=
  fun hin => hc (compare_session_lines b env h c hin)

/-- **No change command, no exit-status probe, no save / commit / job poll, no copy of a start-up
file** in the trace of a compare run. -/
theorem compare_no_change_no_save (b : Backend) (env : Env) (h : env.compare = true) :
    ∀ e ∈ (runProg b env).tr,
      (∀ ls, e ≠ .sent .change ls) ∧ (∀ ls, e ≠ .sent .save ls) ∧ (∀ ls, e ≠ .sent .probe ls) ∧
      (∀ w, e ≠ .scp w) := by
  intro e he
  have := compare_session_readonly b env h e he
  refine ⟨?_, ?_, ?_, ?_⟩ <;> intro x hx <;> subst hx <;> simp [sentAllowed, allowedRole] at this

/-- `write memory`, `commit`, `show jobs`, `reload …`, the Linux activation commands are not words
of any vocabulary; configuration mode is entered on ASA only, and the only words of the ASA
vocabulary that belong to configuration mode are the terminal-width block. -/
theorem vocabulary_has_no_save :
    (∀ b, ∀ w ∈ ["write memory", "commit", "show jobs", "reload in 2", "do reload in 2", "reload cancel",
                 "copy running-config startup-config", "echo $?", "which iptables-restore"],
        w ∉ allowedLines b) ∧
    (∀ b, "configure terminal" ∈ allowedLines b → b = .asa) ∧
    configModeLines .asa = ["configure terminal", "terminal width 511", "end"] ∧
    (∀ b, ∀ w ∈ configModeLines b, w ∈ allowedLines b) := by
  refine ⟨?_, ?_, rfl, ?_⟩
  · intro b; cases b <;> decide
  · intro b; cases b <;> decide
  · intro b; cases b <;> decide

/-- Configuration mode is entered by a compare run of ASA only. -/
theorem compare_config_mode_only_asa (b : Backend) (env : Env) (h : env.compare = true)
    (hs : "configure terminal" ∈ sentLines (runProg b env).tr) : b = .asa :=
  vocabulary_has_no_save.2.1 b (compare_session_lines b env h _ hs)

/-! ### configuration mode: entered only for the terminal width, and left right after it -/

set_option maxRecDepth 100000 in
/-- The abstract interpreter finds no way into `bad` for any backend; every backend but ASA stays
outside configuration mode altogether. -/
theorem block_checked :
    (∀ b, (Trun (approveOrCompareBody b) .out).all (fun a => a.2 != .bad) = true) ∧
    (∀ b, b ≠ .asa → (Trun (approveOrCompareBody b) .out).all (fun a => a.2 == .out) = true) := by
  refine ⟨?_, ?_⟩
  · intro b; cases b <;> decide
  · intro b hb; cases b <;> first | exact absurd rfl hb | decide

/-- **Every backend, every device: the only thing a compare run ever sends in configuration mode
is `terminal width 511`, followed by `end`** — or by nothing at all, if the device stops answering
in the middle (then the run is over: no `exit`, no further line).  `blkOf` of the whole trace is
not `bad`; `bad` is absorbing, so no prefix of the dialogue was `bad` either. -/
theorem compare_config_block (b : Backend) (env : Env) (h : env.compare = true) :
    ConfigBlockOk (runProg b env).tr := by
  have hs := T_sound (approveOrCompareBody b) env {} h
  have hall := block_checked.1 b
  simp only [lift, α] at hs
  have hm := List.all_eq_true.mp hall _ hs
  intro hbad
  unfold runProg at hbad
  simp [hbad] at hm

/-- … and IOS, Linux, PAN-OS, NSX never enter configuration mode in a compare run. -/
theorem compare_never_in_config_mode (b : Backend) (hb : b ≠ .asa) (env : Env) (h : env.compare = true) :
    blkOf (runProg b env).tr = .out := by
  have hs := T_sound (approveOrCompareBody b) env {} h
  have hall := block_checked.2 b hb
  simp only [lift, α] at hs
  have hm := List.all_eq_true.mp hall _ hs
  unfold runProg
  simpa [α] using hm

set_option maxRecDepth 100000 in
/-- **A compare run that is not aborted ends outside configuration mode** (exit status 0 ⇒ the
`end` was sent), for every backend and device. -/
theorem compare_leaves_config_mode (b : Backend) (env : Env) (h : env.compare = true)
    (hx : exitCode (runProg b env) = 0) : blkOf (runProg b env).tr = .out := by
  have hs := T_sound (approveOrCompareBody b) env {} h
  have hall : (Trun (approveOrCompareBody b) .out).all (fun a => a.1 == .panic || a.2 == .out) = true := by
    cases b <;> decide
  simp only [lift, α] at hs
  have hm := List.all_eq_true.mp hall _ hs
  unfold exitCode runProg at hx
  unfold runProg
  by_cases hp : (exec (approveOrCompareBody b) env {}).mode = .panic
  · simp [hp] at hx
  · simpa [hp] using hm

/-- the absorbing state: once something else was sent in configuration mode no continuation repairs it -/
theorem bad_absorbing (ls : List String) : stepLines .bad ls = .bad := by
  induction ls with
  | nil => rfl
  | cons l t ih => simpa [stepLines, Blk.step] using ih

set_option maxRecDepth 100000 in
/-- Non-vacuity / positive control: approve of the same environment does get `bad` (change
commands are sent in configuration mode), and the aborted compare of the example below ends
inside the block (`conf`), which is allowed. -/
theorem approve_block_is_bad :
    blkOf (runProg .asa { dev := NA.Spec.C09.mkDev .asa {} none "", plan := fun _ => [["route inside 10.20.0.0 255.255.0.0 10.1.2.3"]],
                          compare := false }).tr = .bad ∧
    blkOf (runProg .asa { dev := NA.Spec.C09.mkDev .asa {} (some 7) "silence", plan := fun _ => [["x"]],
                          compare := true }).tr = .conf := by
  decide

/-! ### non-vacuity and positive control -/

/-- a conforming ASA with two pending changes -/
def demoEnv (cmp : Bool) : Env :=
  { dev := NA.Spec.C09.mkDev .asa {} none "", plan := fun _ => [["route inside 10.20.0.0 255.255.0.0 10.1.2.3"],
      ["no route inside 10.21.0.0 255.255.0.0 10.1.2.3", "route inside 10.21.0.0 255.255.0.0 10.1.2.4"]],
    compare := cmp }

set_option maxRecDepth 100000 in
/-- The hypotheses are satisfiable and the run is not trivial: compare logs in, sets the terminal
width in configuration mode, retrieves the configuration, finds the device changed, leaves — 13
packets, none of them of the script. -/
example :
    sentLines (runProg .asa (demoEnv true)).tr =
      ["<secret>", "enable", "", "sh pager", "terminal pager 0", "sh term", "configure terminal",
       "terminal width 511", "end", "sh ver", "show hostname", "write term", "exit"] ∧
    Ev.logChanged ∈ (runProg .asa (demoEnv true)).tr ∧ exitCode (runProg .asa (demoEnv true)) = 0 := by
  decide

set_option maxRecDepth 100000 in
/-- Positive control: the same environment without the compare flag does send the script and
saves — `ReadOnlyTrace` is false there, so the theorem is about the flag, not about the model
being unable to send. -/
theorem approve_is_not_readonly :
    ¬ ReadOnlyTrace .asa (runProg .asa (demoEnv false)).tr ∧
    "write memory" ∈ sentLines (runProg .asa (demoEnv false)).tr ∧
    "route inside 10.20.0.0 255.255.0.0 10.1.2.3" ∈ sentLines (runProg .asa (demoEnv false)).tr := by
  decide

set_option maxRecDepth 100000 in
/-- An answer sequence with a fault in the middle of the configuration-mode block: the device
does not answer `configure terminal`; the run aborts, nothing else is sent (not even `exit`). -/
example :
    let env : Env := { dev := NA.Spec.C09.mkDev .asa {} (some 7) "silence", plan := fun _ => [["x"]], compare := true }
    sentLines (runProg .asa env).tr =
      ["<secret>", "enable", "", "sh pager", "terminal pager 0", "sh term", "configure terminal"] ∧
    exitCode (runProg .asa env) = 1 := by
  decide

def obligations : List Lean.Name := [
  ``run_checked, ``compare_session_readonly, ``compare_session_lines, ``compare_session_any_answers,
  ``compare_sends_nothing_of_script, ``compare_no_change_no_save, ``vocabulary_has_no_save,
  ``compare_config_mode_only_asa, ``approve_is_not_readonly, ``NA.C11.ro_ext, ``NA.C11.recvLoop_ext,
  ``block_checked, ``compare_config_block, ``compare_never_in_config_mode, ``compare_leaves_config_mode, ``bad_absorbing,
  ``approve_block_is_bad, ``NA.C11.T_sound,
  -- the tie of the session programs on the compare path to the source (regenerated skeletons):
  -- C09's theorems for everything reachable from compare — front ends, ApproveOrCompare / compare /
  -- compareDevice / showCompareInfo, HandleAbort / Abort, the pkg/console primitives, the login
  -- dialogues, LoadDevice and its helpers of all five backends, the HTTP helpers, every CloseConnection
  ``NA.C09.skel_device_ApproveOrCompare, ``NA.C09.skel_device_compare, ``NA.C09.skel_device_compareDevice,
  ``NA.C09.skel_device_showCompareInfo, ``NA.C09.skel_errlog_HandleAbort, ``NA.C09.skel_errlog_Abort,
  ``NA.C09.skel_doapprove_Main, ``NA.C09.skel_status_SetCompare, ``NA.C09.skel_console_Send,
  ``NA.C09.skel_console_SendCmd, ``NA.C09.skel_console_IssueCmd, ``NA.C09.skel_console_GetCmdOutput,
  ``NA.C09.skel_console_GetOutput, ``NA.C09.skel_console_waitPrompt, ``NA.C09.skel_console_WaitShort,
  ``NA.C09.skel_console_WaitLogin, ``NA.C09.skel_console_expectLog, ``NA.C09.skel_console_StripEcho,
  ``NA.C09.skel_console_StripStdPrompt, ``NA.C09.skel_console_Close, ``NA.C09.skel_cisco_LoginEnable,
  ``NA.C09.skel_cisco_LoginEnable_waitPrompt, ``NA.C09.skel_httpdevice_TryReachableHTTPLogin,
  ``NA.C09.skel_asa_LoadDevice, ``NA.C09.skel_asa_setTerminal, ``NA.C09.skel_asa_logVersion,
  ``NA.C09.skel_asa_checkDeviceName, ``NA.C09.skel_asa_CloseConnection, ``NA.C09.skel_ios_LoadDevice,
  ``NA.C09.skel_ios_setTerminal, ``NA.C09.skel_ios_logVersion, ``NA.C09.skel_ios_checkDeviceName,
  ``NA.C09.skel_ios_CloseConnection, ``NA.C09.skel_linux_LoadDevice, ``NA.C09.skel_linux_loginEnable,
  ``NA.C09.skel_linux_logVersion, ``NA.C09.skel_linux_checkDeviceName, ``NA.C09.skel_linux_checkBanner,
  ``NA.C09.skel_linux_getDeviceRoutes, ``NA.C09.skel_linux_getDeviceIPTables, ``NA.C09.skel_linux_CloseConnection,
  ``NA.C09.skel_panos_LoadDevice, ``NA.C09.skel_panos_getAPIKey, ``NA.C09.skel_panos_checkHA,
  ``NA.C09.skel_panos_httpPrefixGetLog, ``NA.C09.skel_panos_httpGet, ``NA.C09.skel_panos_CloseConnection,
  ``NA.C09.skel_nsx_LoadDevice, ``NA.C09.skel_nsx_getRawJSON, ``NA.C09.skel_nsx_sendRequest,
  ``NA.C09.skel_nsx_CloseConnection]

def isC09 : Lean.Name → Bool
  | .str p _ => p == `NA.C09
  | _ => false

/-- the skeleton theorems listed above are in C09's list of everything reachable from compare
(`NA.C09.comparePathSkel`, maintained next to the theorems), and there are 51 of them -/
example : (obligations.filter isC09).all NA.C09.comparePathSkel.contains = true ∧
    (obligations.filter isC09).length = 51 := by decide

end NA.C11S
