import NA.Proofs.C12
import NA.Gen.LockSkel
/-!
# C12 — at most one approve or compare session per device at any time

Property theorems only.  `run as w0` executes an arbitrary schedule `as` (any length; steps of any
process in any order, injected failures, SIGKILL of any process at any point, finaliser runs) from
a start world `w0` of any number of processes.  `Init w0` only asks that nothing has happened yet
and that every process runs a program obeying the lock discipline `safe`; `mkWorld specs` (any list
of invocations of `drc FILE` / `do-approve … DEVICE`, any spelling of the device) is such a world.

Part A — theorems over all schedules (induction over the schedule through the invariant `Inv`).
Part B — theorems about the REGENERATED skeleton `NA.Gen.LockSkel` of `drc.Main`,
`doapprove.Main`, `device.SetLock`, `device.ApproveOrCompare` (kernel evaluation of finite data),
which tie the step lists of the model to the source.
-/
namespace NA.C12
open NA.Lock NA.Flock NA.LockSkel

/-! ## Part A: all schedules -/

/-- **Mutual exclusion.** At no point of any schedule are two different processes with the same
lock file both past their flock step (and alive). -/
theorem mutex (w0 : World) (h0 : Init w0) (as : List Action) (i j : Pid) (hij : i ≠ j)
    (hf : (w0.procs i).lockFile = (w0.procs j).lockFile) :
    ¬ (((run as w0).procs i).holds = true ∧ ((run as w0).procs j).holds = true) := by
  intro ⟨hi, hj⟩
  have inv := inv_run as w0 (inv_init w0 h0)
  have ti := inv.table i hi
  have tj := inv.table j hj
  rw [lockFile_run] at ti tj
  rw [hf, tj] at ti
  exact hij (Option.some.inj ti).symm

/-- Mutual exclusion for the two real front-ends: any number of invocations, any mix of `drc` and
`do-approve`, any spellings; two invocations whose arguments have the same `path.Base` never both
hold. -/
theorem mutex_frontends (specs : List Spec) (as : List Action) (i j : Pid) (hij : i ≠ j)
    (hf : ((mkWorld specs).procs i).lockFile = ((mkWorld specs).procs j).lockFile) :
    ¬ (((run as (mkWorld specs)).procs i).holds = true ∧
       ((run as (mkWorld specs)).procs j).holds = true) :=
  mutex _ (init_mkWorld specs) as i j hij hf

/-- Every write to history, log or status and every step of the device session is executed by the
process that holds (kernel table) the lock of its device at that moment. -/
theorem effects_require_lock (w0 : World) (h0 : Init w0) (as : List Action) (a : Action) (ev : Ev)
    (hev : ev ∈ newEvents (run as w0) a) (hprot : ev.step.protected = true) :
    (run as w0).table ev.file = some ev.pid ∧ ((run as w0).procs ev.pid).holds = true := by
  have inv := inv_run as w0 (inv_init w0 h0)
  obtain ⟨hh, _, _, _, ht⟩ := new_protected _ inv a ev hev hprot
  exact ⟨ht, hh⟩

/-- **Sessions never overlap.** When a process executes a protected step for a device, every other
process that ever executed a protected step for that device is dead (exited or killed) — and the
dead do not come back (`dead_run`).  So the protected steps of different runs for one device form
disjoint consecutive blocks of the trace. -/
theorem sessions_never_overlap (w0 : World) (h0 : Init w0) (as : List Action) (a : Action) (ev ev' : Ev)
    (hev : ev ∈ newEvents (run as w0) a) (hprot : ev.step.protected = true)
    (hold : ev' ∈ (run as w0).trace) (hprot' : ev'.step.protected = true)
    (hfile : ev'.file = ev.file) (hpid : ev'.pid ≠ ev.pid) :
    ((run as w0).procs ev'.pid).st ≠ .running ∧
    ∀ bs, ((run bs (run as w0)).procs ev'.pid).st ≠ .running := by
  have inv := inv_run as w0 (inv_init w0 h0)
  have hdead : ((run as w0).procs ev'.pid).st ≠ .running := by
    intro hrun
    obtain ⟨_, _, _, _, ht⟩ := new_protected _ inv a ev hev hprot
    obtain ⟨hh', _⟩ := inv.writers ev' hold hprot' hrun
    have ht' := inv.table ev'.pid hh'
    rw [← (inv.traceEver ev' hold hprot').2, hfile, ht] at ht'
    exact hpid (Option.some.inj ht').symm
  exact ⟨hdead, fun bs => by rw [dead_run bs _ _ hdead]; exact hdead⟩

/-- **Runs never interleave.** In the trace of any schedule, once a protected step of one run for a
device is followed by a protected step of another run for the same device, the first run never
executes a protected step again: history, log, status writes and device dialogues of different
runs form disjoint consecutive blocks. -/
theorem runs_never_interleave (w0 : World) (h0 : Init w0) (as : List Action) :
    Separated (run as w0).trace := by
  have hd : EarlierDead w0 := by
    intro t1 e t2 heq; rw [h0.trace] at heq; cases t1 <;> cases heq
  have hs : Separated w0.trace := by
    intro t1 e t2 heq; rw [h0.trace] at heq; cases t1 <;> cases heq
  exact (sep_run as w0 (inv_init w0 h0) hd hs).2

/-- **The loser touches nothing.** A process whose flock failed has, at every later point of every
schedule, executed no protected step (no write to history, status, log; no device session); it does
not hold the lock; and if it has exited, its exit status is 1 and it has printed the error
(`Error: Approve in progress for …`). -/
theorem loser_no_effects (w0 : World) (h0 : Init w0) (as : List Action) (i : Pid)
    (hl : ((run as w0).procs i).lost = true) :
    (∀ ev ∈ (run as w0).trace, ev.pid = i → ev.step.protected = false) ∧
    ((run as w0).procs i).holds = false ∧
    (∀ c, ((run as w0).procs i).st = .exited c →
      c = 1 ∧ ∃ ev ∈ (run as w0).trace, ev.pid = i ∧ ev.step = .printErr) := by
  have inv := inv_run as w0 (inv_init w0 h0)
  have hnever := (inv.ok i).lostNever hl
  refine ⟨?_, ?_, fun c hc => ⟨(inv.ok i).lostExit hl c hc, ?_⟩⟩
  rotate_left 2
  · rcases inv.msg i hl with ⟨hr, _⟩ | hk | hm
    · rw [hc] at hr; cases hr
    · rw [hc] at hk; cases hk
    · exact hm
  · intro ev hev hpid
    cases hp : ev.step.protected with
    | false => rfl
    | true =>
      have := (inv.traceEver ev hev hp).1
      rw [hpid, hnever] at this; cases this
  · cases hh : ((run as w0).procs i).holds with
    | false => rfl
    | true => have := (inv.ok i).heldEver hh; rw [hnever] at this; cases this

/-- **Fails immediately.** In any reachable world, a contender whose next step is `flock` on a lock
file that somebody holds becomes a loser in that very step: nothing is left of its program but
"print the error (`Approve in progress …`), exit 1", and the lock table is untouched. -/
theorem contender_fails_immediately (w0 : World) (h0 : Init w0) (as : List Action) (j i : Pid)
    (rest : List Step) (hr : ((run as w0).procs j).st = .running)
    (hp : ((run as w0).procs j).prog = .flock :: rest)
    (hb : (run as w0).table ((run as w0).procs j).lockFile = some i) :
    let w' := exec (run as w0) (.step j)
    (w'.procs j).lost = true ∧ (w'.procs j).holds = false ∧
    (w'.procs j).prog = [.printErr, .exit 1] ∧ w'.table = (run as w0).table :=
  flock_busy _ (inv_run as w0 (inv_init w0 h0)) j i rest hr hp hb

/-- How a holder can die: SIGKILL, or executing its `exit` (or running off the end of `Main`). -/
def dies (w : World) (i : Pid) : Action → Prop
  | .kill j => j = i
  | .step j | .fail j => j = i ∧ ((w.procs i).prog = [] ∨ ∃ c rest, (w.procs i).prog = .exit c :: rest)
  | .gc _ => False

/-- **The lock disappears with its holder.** After the holder exits or is killed, the lock file is
free; it stays free through any further actions that are not flock attempts on it; and the next
contender that attempts flock on it acquires it. -/
theorem lock_released_on_death (w0 : World) (h0 : Init w0) (as : List Action) (i : Pid) (a : Action)
    (hh : ((run as w0).procs i).holds = true) (hd : dies (run as w0) i a)
    (bs : List Action) (hquiet : noAttempt (w0.procs i).lockFile (exec (run as w0) a) bs)
    (j : Pid) (rest : List Step)
    (hlf : (w0.procs j).lockFile = (w0.procs i).lockFile)
    (hr : ((run bs (exec (run as w0) a)).procs j).st = .running)
    (hp : ((run bs (exec (run as w0) a)).procs j).prog = .flock :: rest) :
    (exec (run as w0) a).table (w0.procs i).lockFile = none ∧
    ((exec (run bs (exec (run as w0) a)) (.step j)).procs j).holds = true := by
  have inv := inv_run as w0 (inv_init w0 h0)
  have hrel := death_releases _ inv i hh
  rw [lockFile_run] at hrel
  have hfree : (exec (run as w0) a).table (w0.procs i).lockFile = none := by
    cases a with
    | kill k => simp only [dies] at hd; subst hd; exact hrel.1
    | step k => simp only [dies] at hd; obtain ⟨rfl, hprog⟩ := hd; exact hrel.2 false hprog
    | fail k => simp only [dies] at hd; obtain ⟨rfl, hprog⟩ := hd; exact hrel.2 true hprog
    | gc k => cases hd
  refine ⟨hfree, ?_⟩
  have hfree' := free_run bs _ _ hfree hquiet
  have hlj : ((run bs (exec (run as w0) a)).procs j).lockFile = (w0.procs i).lockFile := by
    have : exec (run as w0) a = run (as ++ [a]) w0 := by simp [run]
    rw [this, ← hlf, lockFile_run, lockFile_run]
  exact (acquire_free _ j rest hr hp (by rw [hlj]; exact hfree')).1

/-- **Same lock file for every spelling.** For a device name without `/`: the name itself, the path
of its code file in any directory (`policies/current/code/NAME`) and of its IPv6 code file
(`…/code/ipv6/NAME`) have the same `path.Base`, hence (`Spec.lockFile`) the same lock file, for
both front-ends. -/
theorem same_lock_file (name dir : String) (hne : name ≠ "") (hs : '/' ∉ name.toList) (f1 f2 f3 : Front) :
    Spec.lockFile ⟨f1, name⟩ = name ∧
    Spec.lockFile ⟨f2, dir ++ "/" ++ name⟩ = name ∧
    Spec.lockFile ⟨f3, dir ++ "/ipv6" ++ "/" ++ name⟩ = name :=
  ⟨base_plain name hne hs, base_join dir name hne hs, base_join (dir ++ "/ipv6") name hne hs⟩

/-! ### Non-vacuity: the hypotheses are satisfiable, on interesting schedules -/

/-- three invocations for one device (name, code path, IPv6 code path) and one for another device -/
def exSpecs : List Spec :=
  [⟨.doApprove, "dev"⟩, ⟨.drc, "policies/current/code/dev"⟩, ⟨.drc, "code/ipv6/dev"⟩, ⟨.doApprove, "other"⟩]

example : Init (mkWorld exSpecs) := init_mkWorld exSpecs
example : ((mkWorld exSpecs).procs 0).lockFile = ((mkWorld exSpecs).procs 1).lockFile ∧
    ((mkWorld exSpecs).procs 1).lockFile = ((mkWorld exSpecs).procs 2).lockFile ∧
    ((mkWorld exSpecs).procs 0).lockFile ≠ ((mkWorld exSpecs).procs 3).lockFile := by decide
example : "dev" ≠ "" ∧ '/' ∉ "dev".toList := by decide

/-- P0 runs up to the middle of its device session, P1 then runs to its end (loses), P3 (other
device) acquires in parallel, P0 is killed, P2 acquires. -/
def exSched : List Action :=
  (List.replicate 15 (.step 0)) ++ (List.replicate 9 (.step 1)) ++ (List.replicate 8 (.step 3)) ++
  [.kill 0] ++ (List.replicate 6 (.step 2))

set_option maxRecDepth 8000 in
example : ((run exSched (mkWorld exSpecs)).procs 1).lost = true ∧
    ((run exSched (mkWorld exSpecs)).procs 1).st = .exited 1 ∧
    ((run exSched (mkWorld exSpecs)).procs 0).st = .killed ∧
    ((run exSched (mkWorld exSpecs)).procs 2).holds = true ∧
    ((run exSched (mkWorld exSpecs)).procs 3).holds = true := by decide

/-- hypotheses of `lock_released_on_death` and `contender_fails_immediately` on that schedule -/
example : ((run (List.replicate 15 (.step 0)) (mkWorld exSpecs)).procs 0).holds = true ∧
    dies (run (List.replicate 15 (.step 0)) (mkWorld exSpecs)) 0 (.kill 0) := by
  constructor
  · decide
  · rfl
example : ((run (List.replicate 15 (.step 0) ++ List.replicate 5 (.step 1)) (mkWorld exSpecs)).procs 1).prog.head?
    = some .flock ∧
    (run (List.replicate 15 (.step 0) ++ List.replicate 5 (.step 1)) (mkWorld exSpecs)).table "dev" = some 0 := by
  decide

/-- hypotheses of `effects_require_lock`: the 14th step of `do-approve` is a protected one -/
example : (newEvents (run (List.replicate 13 (.step 0)) (mkWorld exSpecs)) (.step 0)).any
    (fun ev => ev.step.protected) = true := by decide

/-- hypotheses of `sessions_never_overlap` / `runs_never_interleave`: P0 has run to its end (history,
log, device, status written), P1 (other spelling, other front-end) then reaches its first protected
step: an earlier protected event of another pid for the same file is in the trace. -/
example :
    let w := run (List.replicate 23 (.step 0) ++ List.replicate 8 (.step 1)) (mkWorld exSpecs)
    (newEvents w (.step 1)).any (fun ev => ev.step.protected &&
      w.trace.any (fun ev' => ev'.step.protected && ev'.file == ev.file && ev'.pid != ev.pid)) = true := by
  decide

/-- hypotheses of `lock_released_on_death` with `bs = []`: P2 stands at its flock step when the
holder P0 is killed. -/
example :
    let w := run (List.replicate 15 (.step 0) ++ List.replicate 5 (.step 2)) (mkWorld exSpecs)
    (w.procs 0).holds = true ∧ (w.procs 2).st = .running ∧ (w.procs 2).prog.head? = some .flock ∧
    ((mkWorld exSpecs).procs 2).lockFile = ((mkWorld exSpecs).procs 0).lockFile := by
  decide
example (w : World) : noAttempt "dev" w [] := trivial

/-! ## Part B: the regenerated skeleton -/

open NA.Gen.LockSkel in
/-- `device.SetLock` is, call for call: lock directory `basedir/lock`, `os.Mkdir` of it (error
ignored), lock file `lockDir/path.Base(fname)`, `os.OpenFile(lockFile, O_CREATE|O_RDONLY)` with
early return on error, `syscall.Flock(fd of that file, LOCK_EX|LOCK_NB)`, on error a new error
"Approve in progress for …", and `return fh, err`. -/
theorem setlock_skeleton : setLockParams = ["fname", "cfg"] ∧ setLock = [
    ⟨"path.Join", ["cfg.BaseDir", "\"lock\""], ["lockDir"], []⟩,
    ⟨"os.Mkdir", ["lockDir", "0755"], [], []⟩,
    ⟨"path.Base", ["fname"], [], []⟩,
    ⟨"path.Join", ["lockDir", "path.Base(fname)"], ["lockFile"], []⟩,
    ⟨"os.OpenFile", ["lockFile", "os.O_CREATE | os.O_RDONLY", "0644"], ["fh", "err"], []⟩,
    ⟨"return", ["nil", "err"], [], ["if err != nil"]⟩,
    ⟨"fh.Fd", [], [], []⟩,
    ⟨"int", ["fh.Fd()"], [], []⟩,
    ⟨"syscall.Flock", ["int(fh.Fd())", "syscall.LOCK_EX | syscall.LOCK_NB"], ["err"], []⟩,
    ⟨"fmt.Errorf", ["\"Approve in progress for %s\"", "fname"], ["err"], ["if err != nil"]⟩,
    ⟨"return", ["fh", "err"], [], []⟩] := by
  decide

/-- all calls of `fn` in a site list, with their arguments and assigned variables -/
def callsOf (fn : String) (sites : List Site) : List (List String × List String) :=
  (sites.filter (·.fn = fn)).map fun s => (s.args, s.lhs)

open NA.Gen.LockSkel in
/-- The one `flock` call is exclusive and non-blocking, on the descriptor of the lock file, and its
error is kept. -/
theorem flock_flags_exclusive_nonblocking :
    callsOf "syscall.Flock" setLock = [(["int(fh.Fd())", "syscall.LOCK_EX | syscall.LOCK_NB"], ["err"])] := by
  decide

open NA.Gen.LockSkel in
/-- The lock file is `basedir/lock/` + `path.Base(first parameter)`, and that file is the one opened. -/
theorem lock_file_is_base_of_argument :
    setLockParams.head? = some "fname" ∧
    callsOf "path.Join" setLock =
      [(["cfg.BaseDir", "\"lock\""], ["lockDir"]), (["lockDir", "path.Base(fname)"], ["lockFile"])] ∧
    (callsOf "os.OpenFile" setLock).map (·.1.head?) = [some "lockFile"] := by
  decide

open NA.Gen.LockSkel in
/-- `device.ApproveOrCompare`: opens (rotates) the log file, then runs compare or approve, then closes
the connection — the in-lining used by `expand` for `.session`. -/
theorem approveOrCompare_skeleton :
    (approveOrCompare.filter (fun s => !(harmless.contains s.fn) && s.fn != "return")).map (·.fn) =
      ["errlog.SetStderrLog", "getRealDevice", "s.compare", "s.approve", "s.CloseConnection",
       "errlog.Abort", "errlog.HandleAbort"] := by
  decide

/-- abstraction of the regenerated `drc.Main`, one-argument mode -/
def drcSteps : List Step :=
  expand (stepsOf (selectCase "switch len(args)" "case 1" NA.Gen.LockSkel.drcMain))

/-- abstraction of the regenerated `doapprove.Main` -/
def doApproveSteps : List Step := expand (stepsOf NA.Gen.LockSkel.doapproveMain)

/-- The step list of the model of `drc` is what the source says today. -/
theorem drc_prog_matches_source : drcSteps = drcProg := by decide

/-- The step list of the model of `do-approve` is what the source says today. -/
theorem doapprove_prog_matches_source : doApproveSteps = doApproveProg := by decide

/-- `drc.Main`: the lock is taken, and its error checked, before the log file is opened or the device
is touched; the lock file is kept open by a `defer`; nothing unknown is called. -/
theorem lock_before_effects_drc : safe false false drcSteps = true := by decide

/-- `doapprove.Main`: the lock is taken, and its error checked, before history, log, device and
status are touched; the lock file is kept open by a `defer`; nothing unknown is called. -/
theorem lock_before_effects_doapprove : safe false false doApproveSteps = true := by decide

open NA.Gen.LockSkel in
/-- Both front-ends lock the device they then work on: `drc` passes the same `fname := args[0]` to
`SetLock` and `ApproveOrCompare`; `do-approve` locks `devName := args[1]` and works on
`codeFile := path.Join(dir, "code", devName)`, whose base is `devName` (`same_lock_file`). -/
theorem same_device_locked_and_approved :
    callsOf "device.SetLock" drcMain = [(["fname", "cfg"], ["lockFH", "err"])] ∧
    (callsOf "device.ApproveOrCompare" drcMain).map (·.1.getD 1 "") = ["fname"] ∧
    (drcMain.filter (·.lhs.contains "fname")).map (fun s => (s.fn, s.args)) = [(":=", ["args[0]"])] ∧
    callsOf "device.SetLock" doapproveMain = [(["devName", "cfg"], ["lockFH", "err"])] ∧
    (callsOf "device.ApproveOrCompare" doapproveMain).map (·.1.getD 1 "") = ["codeFile"] ∧
    (doapproveMain.filter (·.lhs.contains "codeFile")).map (fun s => (s.fn, s.args)) =
      [("path.Join", ["dir", "\"code\"", "devName"])] ∧
    (doapproveMain.filter (·.lhs.contains "devName")).map (fun s => (s.fn, s.args)) = [(":=", ["args[1]"])] := by
  decide

def obligations : List Lean.Name := [
  ``mutex, ``mutex_frontends, ``effects_require_lock, ``sessions_never_overlap, ``runs_never_interleave,
  ``loser_no_effects,
  ``contender_fails_immediately, ``lock_released_on_death, ``same_lock_file,
  ``setlock_skeleton, ``flock_flags_exclusive_nonblocking, ``lock_file_is_base_of_argument,
  ``approveOrCompare_skeleton, ``drc_prog_matches_source, ``doapprove_prog_matches_source,
  ``lock_before_effects_drc, ``lock_before_effects_doapprove, ``same_device_locked_and_approved,
  ``NA.Lock.inv_exec, ``NA.Lock.next_facts]

end NA.C12
