import NA.Proofs.C12
import NA.Spec.FlockPath
import NA.Gen.LockSkel
/-!
# C12 — at most one approve or compare session per device at any time

Property theorems only.  `run as w0` executes an arbitrary schedule `as` (any length; steps of any
process in any order, injected failures, SIGKILL of any process at any point, finaliser runs) from
a start world `w0` of any number of processes.  `Init w0` only asks that nothing has happened yet
and that every process runs a program obeying the lock discipline `safe`; `mkWorld specs` (any list
of invocations of `drc FILE` / `do-approve … DEVICE`, any spelling of the device) is such a world.

Part A — theorems over all schedules (induction over the schedule through the invariant `Inv`).
Part B — theorems about the REGENERATED skeleton `NA.Gen.LockSkel` of `drc.Main`,
`doapprove.Main`, `device.SetLock`, `device.ApproveOrCompare` (kernel evaluation of finite data),
which tie the step lists of the model to the source.
-/
namespace NA.C12
open NA.Lock NA.Flock NA.LockSkel

/-! ## Part A: all schedules -/

/-- **Mutual exclusion.** At no point of any schedule are two different processes with the same
lock file both past their flock step (and alive). -/
theorem mutex (w0 : World) (h0 : Init w0) (as : List Action) (i j : Pid) (hij : i ≠ j)
    (hf : (w0.procs i).lockFile = (w0.procs j).lockFile) :
    ¬ (((run as w0).procs i).holds = true ∧ ((run as w0).procs j).holds = true) := by
  intro ⟨hi, hj⟩
  have inv := inv_run as w0 (inv_init w0 h0)
  have ti := inv.table i hi
  have tj := inv.table j hj
  rw [lockFile_run] at ti tj
  rw [hf, tj] at ti
  exact hij (Option.some.inj ti).symm

/-- Mutual exclusion for the two real front-ends: any number of invocations, any mix of `drc` and
`do-approve`, any spellings; two invocations whose arguments have the same `path.Base` never both
hold. -/
theorem mutex_frontends (specs : List Spec) (as : List Action) (i j : Pid) (hij : i ≠ j)
    (hf : ((mkWorld specs).procs i).lockFile = ((mkWorld specs).procs j).lockFile) :
    ¬ (((run as (mkWorld specs)).procs i).holds = true ∧
       ((run as (mkWorld specs)).procs j).holds = true) :=
  mutex _ (init_mkWorld specs) as i j hij hf

/-- Every write to history, log or status and every step of the device session is executed by the
process that holds (kernel table) the lock of its device at that moment. -/
theorem effects_require_lock (w0 : World) (h0 : Init w0) (as : List Action) (a : Action) (ev : Ev)
    (hev : ev ∈ newEvents (run as w0) a) (hprot : ev.step.protected = true) :
    (run as w0).table ev.file = some ev.pid ∧ ((run as w0).procs ev.pid).holds = true := by
  have inv := inv_run as w0 (inv_init w0 h0)
  obtain ⟨hh, _, _, _, ht⟩ := new_protected _ inv a ev hev hprot
  exact ⟨ht, hh⟩

/-- **Sessions never overlap.** When a process executes a protected step for a device, every other
process that ever executed a protected step for that device is dead (exited or killed) — and the
dead do not come back (`dead_run`).  So the protected steps of different runs for one device form
disjoint consecutive blocks of the trace. -/
theorem sessions_never_overlap (w0 : World) (h0 : Init w0) (as : List Action) (a : Action) (ev ev' : Ev)
    (hev : ev ∈ newEvents (run as w0) a) (hprot : ev.step.protected = true)
    (hold : ev' ∈ (run as w0).trace) (hprot' : ev'.step.protected = true)
    (hfile : ev'.file = ev.file) (hpid : ev'.pid ≠ ev.pid) :
    ((run as w0).procs ev'.pid).st ≠ .running ∧
    ∀ bs, ((run bs (run as w0)).procs ev'.pid).st ≠ .running := by
  have inv := inv_run as w0 (inv_init w0 h0)
  have hdead : ((run as w0).procs ev'.pid).st ≠ .running := by
    intro hrun
    obtain ⟨_, _, _, _, ht⟩ := new_protected _ inv a ev hev hprot
    obtain ⟨hh', _⟩ := inv.writers ev' hold hprot' hrun
    have ht' := inv.table ev'.pid hh'
    rw [← (inv.traceEver ev' hold hprot').2, hfile, ht] at ht'
    exact hpid (Option.some.inj ht').symm
  exact ⟨hdead, fun bs => by rw [dead_run bs _ _ hdead]; exact hdead⟩

/-- **Runs never interleave.** In the trace of any schedule, once a protected step of one run for a
device is followed by a protected step of another run for the same device, the first run never
executes a protected step again: history, log, status writes and device dialogues of different
runs form disjoint consecutive blocks. -/
theorem runs_never_interleave (w0 : World) (h0 : Init w0) (as : List Action) :
    Separated (run as w0).trace := by
  have hd : EarlierDead w0 := by
    intro t1 e t2 heq; rw [h0.trace] at heq; cases t1 <;> cases heq
  have hs : Separated w0.trace := by
    intro t1 e t2 heq; rw [h0.trace] at heq; cases t1 <;> cases heq
  exact (sep_run as w0 (inv_init w0 h0) hd hs).2

/-- **The loser touches nothing.** A process whose flock failed has, at every later point of every
schedule, executed no protected step (no write to history, status, log; no device session); it does
not hold the lock; and if it has exited, its exit status is 1 and it has printed the error
(`Error: Approve in progress for …`). -/
theorem loser_no_effects (w0 : World) (h0 : Init w0) (as : List Action) (i : Pid)
    (hl : ((run as w0).procs i).lost = true) :
    (∀ ev ∈ (run as w0).trace, ev.pid = i → ev.step.protected = false) ∧
    ((run as w0).procs i).holds = false ∧
    (∀ c, ((run as w0).procs i).st = .exited c →
      c = 1 ∧ ∃ ev ∈ (run as w0).trace, ev.pid = i ∧ ev.step = .printErr) := by
  have inv := inv_run as w0 (inv_init w0 h0)
  have hnever := (inv.ok i).lostNever hl
  refine ⟨?_, ?_, fun c hc => ⟨(inv.ok i).lostExit hl c hc, ?_⟩⟩
  rotate_left 2
  · rcases inv.msg i hl with ⟨hr, _⟩ | hk | hm
    · rw [hc] at hr; cases hr
    · rw [hc] at hk; cases hk
    · exact hm
  · intro ev hev hpid
    cases hp : ev.step.protected with
    | false => rfl
    | true =>
      have := (inv.traceEver ev hev hp).1
      rw [hpid, hnever] at this; cases this
  · cases hh : ((run as w0).procs i).holds with
    | false => rfl
    | true => have := (inv.ok i).heldEver hh; rw [hnever] at this; cases this

/-- **Fails immediately.** In any reachable world, a contender whose next step is `flock` on a lock
file that somebody holds becomes a loser in that very step: nothing is left of its program but
"print the error (`Approve in progress …`), exit 1", and the lock table is untouched. -/
theorem contender_fails_immediately (w0 : World) (h0 : Init w0) (as : List Action) (j i : Pid)
    (rest : List Step) (hr : ((run as w0).procs j).st = .running)
    (hp : ((run as w0).procs j).prog = .flock :: rest)
    (hb : (run as w0).table ((run as w0).procs j).lockFile = some i) :
    let w' := exec (run as w0) (.step j)
    (w'.procs j).lost = true ∧ (w'.procs j).holds = false ∧
    (w'.procs j).prog = [.printErr, .exit 1] ∧ w'.table = (run as w0).table :=
  flock_busy _ (inv_run as w0 (inv_init w0 h0)) j i rest hr hp hb

/-- How a holder can die: SIGKILL, executing its `exit`, running off the end of `Main`, or taking
a conditional early return. -/
def dies (w : World) (i : Pid) : Action → Prop
  | .kill j => j = i
  | .step j => j = i ∧ endsNow (w.procs i) false
  | .fail j => j = i ∧ endsNow (w.procs i) true
  | .gc _ | .reap _ | .cexec _ => False

/-- **The lock disappears with its holder** (as stated in the property: "when its holder exits or is
killed, so a later run proceeds") is FALSE of the unchanged code for a short window, finding F-C12a:
the child that the holder forks for its device session is, until it reaches `exec`, a copy of the
holder with a copy of every descriptor, the lock file included, close-on-exec or not.  A holder
SIGKILLed in that window leaves the flock with the half-spawned child; a run started now is turned
away with `Approve in progress` although no run exists.  Reproduced on the real binaries (the child
held before `execve` by `strace -e inject=execve:delay_enter`; once by chance under load).
Schedule: `do-approve dev` runs up to the fork of its session (19 steps), is killed; `drc code/dev`
then runs to its flock: refused.  When the child execs, the file is free. -/
theorem lock_released_on_death_counterexample :
    let w := run (List.replicate 19 (.step 0) ++ [.kill 0] ++ List.replicate 9 (.step 1))
      (mkWorld [⟨.doApprove, "dev"⟩, ⟨.drc, "code/dev"⟩])
    w.cloexec = true ∧ (w.procs 0).st = .killed ∧ w.preExec 0 = true ∧ w.table "dev" = some 0 ∧
    (w.procs 1).lost = true ∧ (exec w (.cexec 0)).table "dev" = none := by
  decide

/-- What is proved instead — hypothesis = exact complement of the finding: at the moment of death
the holder has no child between fork and exec (`preExec i = false`), and the lock file is opened
close-on-exec (`os.OpenFile`).  Then at whatever phase the holder is killed, exits, or takes an
early return — also while its ssh child is alive — the file is free at once, stays free through any
further actions that are not flock attempts on it, and the next contender acquires it.
(Full statement: the same without `hpre`.) -/
theorem lock_released_on_death_partial (w0 : World) (h0 : Init w0) (hc : w0.cloexec = true)
    (as : List Action) (i : Pid) (a : Action)
    (hh : ((run as w0).procs i).holds = true) (hd : dies (run as w0) i a)
    (hpre : (run as w0).preExec i = false)
    (bs : List Action) (hquiet : noAttempt (w0.procs i).lockFile (exec (run as w0) a) bs)
    (j : Pid) (rest : List Step)
    (hlf : (w0.procs j).lockFile = (w0.procs i).lockFile)
    (hr : ((run bs (exec (run as w0) a)).procs j).st = .running)
    (hp : ((run bs (exec (run as w0) a)).procs j).prog = .flock :: rest) :
    (exec (run as w0) a).table (w0.procs i).lockFile = none ∧
    ((exec (run bs (exec (run as w0) a)) (.step j)).procs j).holds = true := by
  have inv := inv_run as w0 (inv_init w0 h0)
  have hcf : (run as w0).childHasFd i = false := by
    unfold World.childHasFd; rw [hpre, cloexec_run, hc]; simp
  have hrel := death_releases _ inv i hh hcf
  rw [lockFile_run] at hrel
  have hfree : (exec (run as w0) a).table (w0.procs i).lockFile = none := by
    cases a with
    | kill k => simp only [dies] at hd; subst hd; exact hrel.1
    | step k => simp only [dies] at hd; obtain ⟨rfl, hprog⟩ := hd; exact hrel.2 false hprog
    | fail k => simp only [dies] at hd; obtain ⟨rfl, hprog⟩ := hd; exact hrel.2 true hprog
    | gc k => cases hd
    | reap k => cases hd
    | cexec k => cases hd
  refine ⟨hfree, ?_⟩
  have hfree' := free_run bs _ _ hfree hquiet
  have hlj : ((run bs (exec (run as w0) a)).procs j).lockFile = (w0.procs i).lockFile := by
    have : exec (run as w0) a = run (as ++ [a]) w0 := by simp [run]
    rw [this, ← hlf, lockFile_run, lockFile_run]
  exact (acquire_free _ j rest hr hp (by rw [hlj]; exact hfree')).1

/-- **A stale lock ends with the child's `exec`.** At every point of every schedule (lock file opened
close-on-exec): if process `i` is dead, then no lock file shows `i` as holder unless `i` has a child
that is still between fork and exec; and as soon as that child execs, or ends, none does. -/
theorem stale_lock_ends_with_child_exec (w0 : World) (h0 : Init w0) (hc : w0.cloexec = true)
    (as : List Action) (i : Pid) (hdead : ((run as w0).procs i).st ≠ .running) (f : String) :
    ((run as w0).preExec i = false ∨ (run as w0).kids i = false → (run as w0).table f ≠ some i) ∧
    (exec (run as w0) (.cexec i)).table f ≠ some i ∧ (exec (run as w0) (.reap i)).table f ≠ some i := by
  have inv := inv_run as w0 (inv_init w0 h0)
  have hj : Justified w0 := by intro k g hk; rw [h0.table g] at hk; cases hk
  exact stale_lock_ends _ inv (justified_run as w0 (inv_init w0 h0) hj) (by rw [cloexec_run]; exact hc) i hdead f

/-- **Which process holds the descriptor matters.** Were the lock file opened WITHOUT close-on-exec,
the ssh child would keep the descriptor across its `exec`: after SIGKILL of the parent the lock is
still there for as long as the orphaned child lives, a new run is turned away, and only the child's
end frees the file. -/
theorem inherited_lock_survives_parent_counterexample :
    let w0 : World := { mkWorld [⟨.doApprove, "dev"⟩, ⟨.drc, "code/dev"⟩] with cloexec := false }
    let w := run (List.replicate 19 (.step 0) ++ [.cexec 0, .kill 0] ++ List.replicate 9 (.step 1)) w0
    (w.procs 0).st = .killed ∧ w.kids 0 = true ∧ w.preExec 0 = false ∧ w.table "dev" = some 0 ∧
    (w.procs 1).lost = true ∧
    (exec w (.reap 0)).table "dev" = none := by
  decide

/-- … and with close-on-exec (what `os.OpenFile` does, and what the model of the code uses) the same
schedule (child past its `exec`) frees the lock at the kill although the child lives on, and the new
run gets it. -/
example :
    let w := run (List.replicate 19 (.step 0) ++ [.cexec 0, .kill 0] ++ List.replicate 9 (.step 1))
      (mkWorld [⟨.doApprove, "dev"⟩, ⟨.drc, "code/dev"⟩])
    (w.procs 0).st = .killed ∧ w.kids 0 = true ∧ w.table "dev" = some 1 ∧ (w.procs 1).holds = true := by
  decide

/-- **One holder, any number of contenders, any phases.** While process `i` holds the lock of a
device — from any reachable point to any later point at which it still holds it — every protected
step executed for that device (history, log files, status, device dialogue) is `i`'s own: whatever
other runs exist, however many, wherever they stand, they leave all of it untouched. -/
theorem holder_excludes_all_contenders (w0 : World) (h0 : Init w0) (as bs : List Action) (i : Pid)
    (hh : ((run as w0).procs i).holds = true)
    (hend : ((run bs (run as w0)).procs i).holds = true) :
    ∃ np, (run bs (run as w0)).trace = np ++ (run as w0).trace ∧
      ∀ ev ∈ np, ev.step.protected = true → ev.file = (w0.procs i).lockFile → ev.pid = i := by
  have inv := inv_run as w0 (inv_init w0 h0)
  obtain ⟨np, h1, h2⟩ := holder_excludes bs _ inv i hh hend
  exact ⟨np, h1, fun ev hev hp hf => h2 ev hev hp (by rw [lockFile_run]; exact hf)⟩

/-- **Same lock file for every spelling.** For a device name without `/`: the name itself, the path
of its code file in any directory (`policies/current/code/NAME`) and of its IPv6 code file
(`…/code/ipv6/NAME`) have the same `path.Base`, hence (`Spec.lockFile`) the same lock file, for
both front-ends. -/
theorem same_lock_file (name dir : String) (hne : name ≠ "") (hs : '/' ∉ name.toList) (f1 f2 f3 : Front) :
    Spec.lockFile ⟨f1, name⟩ = name ∧
    Spec.lockFile ⟨f2, dir ++ "/" ++ name⟩ = name ∧
    Spec.lockFile ⟨f3, dir ++ "/ipv6" ++ "/" ++ name⟩ = name :=
  ⟨base_plain name hne hs, base_join dir name hne hs, base_join (dir ++ "/ipv6") name hne hs⟩

/-- **Every spelling, one lock; different devices, different locks.** For ordinary device names
(non-empty, no `/`, not `.`/`..`) and ANY spellings of them — bare name, relative or absolute path,
`ipv6/` sub-directory, `./`, `../`, doubled slashes inside, trailing slashes — two invocations get
the same lock file iff they spell the same device, whatever the front-ends.  (`Spells`,
`base_eq_iff`: `path.Base s = name` iff `s` is `… /` + name + slashes.) -/
theorem lock_file_iff_same_device (n1 n2 s1 s2 : String) (h1 : DeviceName n1) (h2 : DeviceName n2)
    (hs1 : Spells n1 s1) (hs2 : Spells n2 s2) (f1 f2 : Front) :
    Spec.lockFile ⟨f1, s1⟩ = Spec.lockFile ⟨f2, s2⟩ ↔ n1 = n2 := by
  show base s1 = base s2 ↔ n1 = n2
  rw [(base_eq_iff n1 s1 h1).2 hs1, (base_eq_iff n2 s2 h2).2 hs2]

/-- The same for the full path `basedir/lock/NAME` that `device.SetLock` derives (`lockPath`, tied to
the real function by the harness). -/
theorem lock_path_iff_same_device (basedir n1 n2 s1 s2 : String) (h1 : DeviceName n1) (h2 : DeviceName n2)
    (hs1 : Spells n1 s1) (hs2 : Spells n2 s2) :
    (lockPath basedir s1 = basedir ++ "/lock/" ++ n1) ∧
    (lockPath basedir s1 = lockPath basedir s2 ↔ n1 = n2) :=
  ⟨lockPath_of_spelling basedir n1 s1 h1 hs1, same_lock_iff_same_device basedir n1 n2 s1 s2 h1 h2 hs1 hs2⟩

/-- mutual exclusion across all spellings: two invocations that spell the same device never both
hold, whatever the spellings and front-ends -/
theorem mutex_all_spellings (specs : List Spec) (as : List Action) (i j : Pid) (hij : i ≠ j)
    (si sj : Spec) (hi : specs[i]? = some si) (hj : specs[j]? = some sj)
    (name : String) (hn : DeviceName name) (hsi : Spells name si.arg) (hsj : Spells name sj.arg) :
    ¬ (((run as (mkWorld specs)).procs i).holds = true ∧
       ((run as (mkWorld specs)).procs j).holds = true) := by
  apply mutex_frontends specs as i j hij
  simp only [mkWorld, hi, hj, mkProc, Spec.lockFile]
  rw [(base_eq_iff name _ hn).2 hsi, (base_eq_iff name _ hn).2 hsj]

/-- non-vacuity: nine spellings of `dev` -/
example : DeviceName "dev" := by decide
example : Spells "dev" "dev" ∧ Spells "dev" "policies/current/code/dev" ∧
    Spells "dev" "/home/netspoc/policies/p7/code/ipv6/dev" ∧ Spells "dev" "code//dev///" ∧
    Spells "dev" "policies/current/../p1/code/./dev/" :=
  ⟨spells_intro "dev" "" "" (by decide) (Or.inl rfl),
   spells_intro "dev" "policies/current/code/" "" (by decide) (Or.inr ⟨"policies/current/code", rfl⟩),
   spells_intro "dev" "/home/netspoc/policies/p7/code/ipv6/" "" (by decide) (Or.inr ⟨"/home/netspoc/policies/p7/code/ipv6", rfl⟩),
   spells_intro "dev" "code//" "///" (by decide) (Or.inr ⟨"code/", rfl⟩),
   spells_intro "dev" "policies/current/../p1/code/./" "/" (by decide) (Or.inr ⟨"policies/current/../p1/code/.", rfl⟩)⟩
example : lockPath "/b" "x/../code/./dev//" = "/b/lock/dev" ∧ lockPath "/b" "a/.." = "/b" ∧
    lockPath "/b" "" = "/b/lock" ∧ lockPath "/b" "///" = "/b/lock" := by decide

/-! ### Non-vacuity: the hypotheses are satisfiable, on interesting schedules -/

/-- three invocations for one device (name, code path, IPv6 code path) and one for another device -/
def exSpecs : List Spec :=
  [⟨.doApprove, "dev"⟩, ⟨.drc, "policies/current/code/dev"⟩, ⟨.drc, "code/ipv6/dev"⟩, ⟨.doApprove, "other"⟩]

example : Init (mkWorld exSpecs) := init_mkWorld exSpecs
example : ((mkWorld exSpecs).procs 0).lockFile = ((mkWorld exSpecs).procs 1).lockFile ∧
    ((mkWorld exSpecs).procs 1).lockFile = ((mkWorld exSpecs).procs 2).lockFile ∧
    ((mkWorld exSpecs).procs 0).lockFile ≠ ((mkWorld exSpecs).procs 3).lockFile := by decide
example : "dev" ≠ "" ∧ '/' ∉ "dev".toList := by decide

/-- P0 runs up to the middle of its device session, P1 then runs to its end (loses), P3 (other
device) acquires in parallel, P0 is killed, P2 acquires. -/
def exSched : List Action :=
  (List.replicate 19 (.step 0)) ++ [.cexec 0] ++ (List.replicate 12 (.step 1)) ++
  (List.replicate 12 (.step 3)) ++ [.kill 0] ++ (List.replicate 9 (.step 2))

set_option maxRecDepth 8000 in
example : ((run exSched (mkWorld exSpecs)).procs 1).lost = true ∧
    ((run exSched (mkWorld exSpecs)).procs 1).st = .exited 1 ∧
    ((run exSched (mkWorld exSpecs)).procs 0).st = .killed ∧
    ((run exSched (mkWorld exSpecs)).procs 2).holds = true ∧
    ((run exSched (mkWorld exSpecs)).procs 3).holds = true := by decide

/-- hypotheses of `lock_released_on_death` and `contender_fails_immediately` on that schedule -/
example : ((run (List.replicate 19 (.step 0) ++ [.cexec 0]) (mkWorld exSpecs)).procs 0).holds = true ∧
    (run (List.replicate 19 (.step 0) ++ [.cexec 0]) (mkWorld exSpecs)).preExec 0 = false ∧
    dies (run (List.replicate 19 (.step 0) ++ [.cexec 0]) (mkWorld exSpecs)) 0 (.kill 0) := by
  refine ⟨by decide, by decide, rfl⟩
example : ((run (List.replicate 19 (.step 0) ++ List.replicate 8 (.step 1)) (mkWorld exSpecs)).procs 1).prog.head?
    = some .flock ∧
    (run (List.replicate 19 (.step 0) ++ List.replicate 8 (.step 1)) (mkWorld exSpecs)).table "dev" = some 0 := by
  decide

/-- hypotheses of `effects_require_lock`: the 14th step of `do-approve` is a protected one -/
example : (newEvents (run (List.replicate 13 (.step 0)) (mkWorld exSpecs)) (.step 0)).any
    (fun ev => ev.step.protected) = true := by decide

set_option maxRecDepth 8000 in
/-- hypotheses of `sessions_never_overlap` / `runs_never_interleave`: P0 has run to its end (history,
log, device, status written), P1 (other spelling, other front-end) then reaches its first protected
step: an earlier protected event of another pid for the same file is in the trace. -/
example :
    let w := run (List.replicate 19 (.step 0) ++ [.cexec 0] ++ List.replicate 10 (.step 0) ++ List.replicate 11 (.step 1)) (mkWorld exSpecs)
    (newEvents w (.step 1)).any (fun ev => ev.step.protected &&
      w.trace.any (fun ev' => ev'.step.protected && ev'.file == ev.file && ev'.pid != ev.pid)) = true := by
  decide

/-- hypotheses of `lock_released_on_death` with `bs = []`: P2 stands at its flock step when the
holder P0 is killed. -/
example :
    let w := run (List.replicate 19 (.step 0) ++ [.cexec 0] ++ List.replicate 8 (.step 2)) (mkWorld exSpecs)
    (w.procs 0).holds = true ∧ (w.procs 2).st = .running ∧ (w.procs 2).prog.head? = some .flock ∧
    ((mkWorld exSpecs).procs 2).lockFile = ((mkWorld exSpecs).procs 0).lockFile := by
  decide
example (w : World) : noAttempt "dev" w [] := trivial

/-- the phase after the device session (seeded change C12-X1): `do-approve` has finished its dialogue
(22 steps: … devEnd) and has still to append RES:/END: to the history and to write the status file;
it holds the lock, a contender arriving now is turned away, and `holder_excludes_all_contenders`
applies to everything the holder writes from here to its exit. -/
example :
    let w := run (List.replicate 19 (.step 0) ++ [.cexec 0] ++ List.replicate 2 (.step 0)) (mkWorld exSpecs)
    (w.procs 0).holds = true ∧ (w.procs 0).prog.contains .status = true ∧
    (w.procs 0).prog.contains (.hist "\"END:\"") = true ∧ w.trace.head?.map (·.step) = some .devEnd ∧
    ((run (List.replicate 12 (.step 1)) w).procs 1).lost = true ∧
    ((run (List.replicate 12 (.step 1)) w).procs 1).st = .exited 1 := by
  decide

/-! ## Part B: the regenerated skeleton and call graph -/

open NA.Gen.LockSkel in
/-- `device.SetLock` is, call for call: lock directory `basedir/lock`, `os.Mkdir` of it (error
ignored), lock file `lockDir/path.Base(fname)`, `os.OpenFile(lockFile, O_CREATE|O_RDONLY)` (Go's
`os.OpenFile` opens close-on-exec) with early return on error, `syscall.Flock(fd of that file,
LOCK_EX|LOCK_NB)`, on error a new error "Approve in progress for …", and `return fh, err`.  The last
component says which calls are sinks. -/
theorem setlock_skeleton : setLockParams = ["fname", "cfg"] ∧ setLock = [
    ⟨"path.Join", ["cfg.BaseDir", "\"lock\""], ["lockDir"], [], []⟩,
    ⟨"os.Mkdir", ["lockDir", "0755"], [], [], ["os.Mkdir"]⟩,
    ⟨"path.Base", ["fname"], [], [], []⟩,
    ⟨"path.Join", ["lockDir", "path.Base(fname)"], ["lockFile"], [], []⟩,
    ⟨"os.OpenFile", ["lockFile", "os.O_CREATE | os.O_RDONLY", "0644"], ["fh", "err"], [], ["os.OpenFile"]⟩,
    ⟨"return", ["nil", "err"], [], ["if err != nil"], []⟩,
    ⟨"fh.Fd", [], [], [], []⟩,
    ⟨"int", ["fh.Fd()"], [], [], []⟩,
    ⟨"syscall.Flock", ["int(fh.Fd())", "syscall.LOCK_EX | syscall.LOCK_NB"], ["err"], [], ["syscall.Flock"]⟩,
    ⟨"fmt.Errorf", ["\"Approve in progress for %s\"", "fname"], ["err"], ["if err != nil"], []⟩,
    ⟨"return", ["fh", "err"], [], [], []⟩] := by
  decide

/-- all calls of `fn` in a site list, with their arguments and assigned variables -/
def callsOf (fn : String) (sites : List Site) : List (List String × List String) :=
  (sites.filter (·.fn = fn)).map fun s => (s.args, s.lhs)

open NA.Gen.LockSkel in
/-- The one `flock` call is exclusive and non-blocking, on the descriptor of the lock file, and its
error is kept. -/
theorem flock_flags_exclusive_nonblocking :
    callsOf "syscall.Flock" setLock = [(["int(fh.Fd())", "syscall.LOCK_EX | syscall.LOCK_NB"], ["err"])] := by
  decide

open NA.Gen.LockSkel in
/-- The lock file is `basedir/lock/` + `path.Base(first parameter)`, and that file is the one opened
— the derivation that `NA.Flock.lockPath` models. -/
theorem lock_file_is_base_of_argument :
    setLockParams.head? = some "fname" ∧
    callsOf "path.Join" setLock =
      [(["cfg.BaseDir", "\"lock\""], ["lockDir"]), (["lockDir", "path.Base(fname)"], ["lockFile"])] ∧
    (callsOf "os.OpenFile" setLock).map (·.1.head?) = [some "lockFile"] := by
  decide

open NA.Gen.LockSkel in
/-- `device.ApproveOrCompare`: the calls from which a writer is reachable are, in order: open (rotate)
the run log, find the device type (may abort with a message in the run log), compare | approve,
close the connection, abort — all inside the closure given to `HandleAbort`.  This is the in-lining
used by `expand` for `.session`. -/
theorem approveOrCompare_skeleton :
    (approveOrCompare.filter (fun s => s.writers != [])).map (·.fn) =
      ["errlog.SetStderrLog", "getRealDevice", "s.compare", "s.approve", "s.CloseConnection",
       "errlog.Abort", "errlog.HandleAbort"] := by
  decide

open NA.Gen.LockSkel in
/-- `abort` prints to stderr and returns 1 (used by `returnCode`). -/
theorem abort_returns_1 :
    drcAbort.map (fun s => (s.fn, s.args.head?, s.writers)) =
      [("fmt.Fprintf", some "os.Stderr", []), ("return", some "1", [])] ∧
    doapproveAbort.map (fun s => (s.fn, s.args.head?, s.writers)) =
      [("fmt.Fprintf", some "os.Stderr", []), ("return", some "1", [])] := by
  decide

/-- abstraction of the regenerated `drc.Main`: every path of the device modes (usage error, `-h`,
`-v`, one argument); the two-file mode `drc FILE1 FILE2` (no device, no lock) is dropped -/
def drcSteps : List Step :=
  expand (stepsOf (dropMode "switch len(args)" "case 2" "case 1" NA.Gen.LockSkel.drcMain))

/-- abstraction of the regenerated `doapprove.Main`: every path -/
def doApproveSteps : List Step := expand (stepsOf NA.Gen.LockSkel.doapproveMain)

/-- The step list of the model of `drc` is what the source says today. -/
theorem drc_prog_matches_source : drcSteps = drcProg := by decide

/-- The step list of the model of `do-approve` is what the source says today. -/
theorem doapprove_prog_matches_source : doApproveSteps = doApproveProg := by decide

/-- `drc.Main`: on every path — including the early returns for a usage error, `-h`, `-v` — the
lock is taken, and its error checked, before the log file is opened or the device is touched; the
lock file is kept open by a `defer`; no call from which a writer is reachable is left unclassified. -/
theorem lock_before_effects_drc : safe false false drcSteps = true := by decide

/-- `doapprove.Main`: on every path — including usage errors, unknown device, and the final
`return 1 | 0` — the lock is taken, and its error checked, before history, log, device and status
are touched; kept open by a `defer`; no call from which a writer is reachable is left unclassified. -/
theorem lock_before_effects_doapprove : safe false false doApproveSteps = true := by decide

/-! ### The call graph: every place that writes or talks (round 3) -/

set_option maxRecDepth 16000 in
open NA.Gen.LockSkel in
/-- **The boundary of the module is closed.** Every function outside the module that is called
from code reachable from `main` of drc or do-approve is either in the table of harmless functions
(string, path, parsing, formatting, reads, terminal output, `Error()`/`Close()` methods) or one of
the sink APIs whose call sites are listed in `sinkSites`.  A call of any other foreign function
— a new way to write — fails here. -/
theorem boundary_closed :
    boundary.all (fun c => harmlessExt c || sinkApis.contains c) = true := by decide

/-- the categories of the loud sink sites, without repetition -/
def loudCategories (sites : List SinkSite) : List String :=
  (sites.filter (fun s => !s.quiet)).foldl (fun acc s => if acc.contains s.cat then acc else acc ++ [s.cat]) []

open NA.Gen.LockSkel in
/-- **Every write site is known.** Every loud sink site (one that is not a print to stderr/stdout or
into a local buffer) in module code reachable from `main` falls into one of the 21 categories of the
table `writeCategories` — lock directory/file/flock, history, status, run log and its creation and
rotation, the session logs, the ssh / https / scp dialogue with the device and the temporary files for
scp — and every category of the table occurs.  The category of a site is what its API does plus where
its target comes from (`mkdir:basedir/status`, `write:param`, …); no function name enters, so renaming,
in-lining or extracting a helper changes nothing, while a new KIND of write is a new category.
`writerFns` (used for `Site.writers`) is re-derived from `sinkSites`. -/
theorem write_sites_classified :
    (loudCategories sinkSites).all (fun c => (writeCategories.map (·.1)).contains c) = true ∧
    (writeCategories.map (·.1)).all (fun c => (loudCategories sinkSites).contains c) = true ∧
    writerFns.all (fun f => sinkSites.any (fun s => !s.quiet && s.fn == f)) = true ∧
    sinkSites.all (fun s => s.quiet || writerFns.contains s.fn) = true := by
  decide

open NA.Gen.LockSkel in
/-- Nothing is written before `Main` runs or beside it: the `main` functions are `os.Exit(Main())`,
no package initialiser reaches a writer, the module has no `go` statement. -/
theorem nothing_outside_main :
    cmdDrcMain.map (·.fn) = ["drc.Main", "os.Exit"] ∧
    cmdDoApproveMain.map (·.fn) = ["doapprove.Main", "os.Exit"] ∧
    ((cmdDrcMain ++ cmdDoApproveMain).filter (·.fn = "os.Exit")).all (fun s => s.writers = []) = true ∧
    initWriters = [] ∧ goStmts = [] := by
  decide

/-- the calls of a `Main` from which the call graph reaches a writer, with what they become -/
def writerCalls (sites : List Site) : List (String × Option Step) :=
  (sites.filter (fun s => s.writers != [])).map fun s => (s.fn, classify s)

open NA.Gen.LockSkel in
/-- **Every call that can write or talk is one of the protected steps.** In `drc.Main` (device
modes) and `doapprove.Main` the calls from which any writer function is reachable are exactly:
`SetLock` (writes only the lock file), then `openHistoryLog`, `logHistory`, `ApproveOrCompare`,
`status.SetCompare|SetApprove` — each abstracted to a protected step, which `lock_before_effects_*`
places between acquisition and release on every path.  Every other call of the two functions
(flag parsing, usage, `-v`, config, policy lookup, unknown-device check, messages) reaches no writer. -/
theorem every_writing_call_is_protected :
    writerCalls (dropMode "switch len(args)" "case 2" "case 1" drcMain) =
      [("device.SetLock", some .setLock), ("device.ApproveOrCompare", some .session)] ∧
    writerCalls doapproveMain =
      [("device.SetLock", some .setLock), ("openHistoryLog", some .histOpen),
       ("logHistory", some (.hist "\"START:\"")), ("logHistory", some (.hist "\"POLICY:\"")),
       ("device.ApproveOrCompare", some .session), ("logHistory", some (.hist "\"RES:\"")),
       ("status.SetCompare", some .status), ("status.SetApprove", some .status),
       ("logHistory", some (.hist "\"END:\""))] := by
  decide

open NA.Gen.LockSkel in
/-- Both front-ends lock the device they then work on: `drc` passes the same `fname := args[0]` to
`SetLock` and `ApproveOrCompare`; `do-approve` locks `devName := args[1]` and works on
`codeFile := path.Join(dir, "code", devName)`, a spelling of `devName` (`lock_file_iff_same_device`). -/
theorem same_device_locked_and_approved :
    callsOf "device.SetLock" drcMain = [(["fname", "cfg"], ["lockFH", "err"])] ∧
    (callsOf "device.ApproveOrCompare" drcMain).map (·.1.getD 1 "") = ["fname"] ∧
    (drcMain.filter (·.lhs.contains "fname")).map (fun s => (s.fn, s.args)) = [(":=", ["args[0]"])] ∧
    callsOf "device.SetLock" doapproveMain = [(["devName", "cfg"], ["lockFH", "err"])] ∧
    (callsOf "device.ApproveOrCompare" doapproveMain).map (·.1.getD 1 "") = ["codeFile"] ∧
    (doapproveMain.filter (·.lhs.contains "codeFile")).map (fun s => (s.fn, s.args)) =
      [("path.Join", ["dir", "\"code\"", "devName"])] ∧
    (doapproveMain.filter (·.lhs.contains "devName")).map (fun s => (s.fn, s.args)) = [(":=", ["args[1]"])] := by
  decide

def obligations : List Lean.Name := [
  ``mutex, ``mutex_frontends, ``effects_require_lock, ``sessions_never_overlap, ``runs_never_interleave,
  ``loser_no_effects,
  ``contender_fails_immediately, ``holder_excludes_all_contenders, ``lock_released_on_death_partial,
  ``lock_released_on_death_counterexample, ``stale_lock_ends_with_child_exec,
  ``inherited_lock_survives_parent_counterexample,
  ``same_lock_file, ``lock_file_iff_same_device, ``lock_path_iff_same_device, ``mutex_all_spellings,
  ``setlock_skeleton, ``flock_flags_exclusive_nonblocking, ``lock_file_is_base_of_argument,
  ``approveOrCompare_skeleton, ``abort_returns_1, ``drc_prog_matches_source, ``doapprove_prog_matches_source,
  ``lock_before_effects_drc, ``lock_before_effects_doapprove,
  ``boundary_closed, ``write_sites_classified, ``nothing_outside_main, ``every_writing_call_is_protected,
  ``same_device_locked_and_approved,
  ``NA.Lock.inv_exec, ``NA.Lock.next_facts, ``NA.Lock.justified_exec, ``NA.Flock.base_eq_iff]

end NA.C12
