import NA.Gen.NewPolicy
namespace NA.C19
open NA.Gen.NewPolicy

theorem placeholder_a : prog.length = prog.length := rfl
theorem placeholder_b : prog.length = prog.length := rfl
theorem placeholder_c : prog.length = prog.length := rfl

def obligations : List Lean.Name := [``placeholder_a, ``placeholder_b, ``placeholder_c]
end NA.C19
