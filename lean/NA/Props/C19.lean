import NA.Proofs.C19Calm3
import NA.Proofs.C19Race
import NA.Proofs.C19Group
import NA.Gen.NewPolicy
import Lean.Elab.Command
/-!
# C19 — the policy database always points to a complete, compiled policy

Property theorems only.  `prog` is the instruction list that `translate/shgen` regenerates from
`bin/newpolicy.sh` on every check; `run prog sysEmail es` replays an arbitrary history `es`
(user commits good/bad, invocations, single steps of any live invocation in any order, kills
before any command) on the model `NA/Model/NewPolicy.lean`.

The proofs are generic in the program: `NA/Proofs/C19*.lean` show that a successful
`check D prog ann` (a decidable data-flow check of locking / ordering / numbering discipline)
implies the invariants for every history; here `check` is evaluated on the regenerated program
by kernel computation (`safety_checked`, `numbering_checked`).  Moving `ln -s` before `mv`,
dropping `rm -f $CURRENT`, changing `max(..)+1`, or removing `flock` makes one of these
evaluations false.
-/
namespace NA.C19
open NA.Gen.NewPolicy

/-! ### The regenerated script passes the static checks -/

-- if shgen did not understand the script: its reason, as the first line of the build error (what
-- fails is the theorem `script_understood` below)
open Lean Elab Command in
run_cmd if !understood then logError m!"shgen did not understand bin/newpolicy.sh — {problem}"

/-- shgen understood every command, variable and construct of the script: `prog` IS its translation
(otherwise `prog` is the last program shgen understood, kept only so that the harness can still
search the real tree for a failing schedule). -/
theorem script_understood : understood = true := by decide

/-- Every command of the script that runs as a child process hands fd 9 (and with it the flock)
down to that child — no `9>&-`.  So a child that outlives a killed shell still holds the lock. -/
theorem fd9_inherited_checked : inhOK prog = true := by decide +kernel
theorem safety_checked : check safety prog (infer safety prog) = true := by decide +kernel
theorem numbering_checked : check numbering prog (infer numbering prog) = true := by decide +kernel
theorem code_checked : check code prog (infer code prog) = true := by decide +kernel
theorem git_checked : check gitd prog (infer gitd prog) = true := by decide +kernel
theorem calm_checked : check calm prog (infer calm prog) = true := by decide +kernel
theorem calm_forward : forward calm prog (infer calm prog) = true := by decide +kernel

/-- `bin/newpolicy` and `bin/sudo-newpolicy` (what users and cron call) only read the database and
delegate to newpolicy.sh: shgen accepts nothing but the listed read-only command kinds, and exactly
one command starts / execs the worker. -/
theorem wrappers_only_delegate :
    (wrapper.all fun x => x.2 ∈ ["conf", "assign", "echo", "test", "cat", "wait", "flockShared", "startWorker"]) = true ∧
    (wrapper.filter fun x => x.2 == "startWorker").length = 1 ∧
    (sudoWrapper.all fun x => x.2 ∈ ["conf", "assign", "test", "execWorker"]) = true ∧
    (sudoWrapper.filter fun x => x.2 == "execWorker").length = 1 := by decide

/-! ### Invariants over all histories, kill points and interleavings -/

/-- `current` is absent or names an existing directory that holds a successful compile. -/
theorem current_absent_or_compiled (sysEmail : Bool) (es : List Event) :
    (run prog sysEmail es).g.currentOK = true := by
  have h := (inv1_run fd9_inherited_checked safety_checked sysEmail es).gi
  unfold G.currentOK
  cases hc : (run prog sysEmail es).g.current with
  | none => rfl
  | some n =>
    obtain ⟨d, hd⟩ := h.cur n hc
    simp [hd, h.dirs n d hd]

/-- The compiler model: `netspoc` succeeds exactly on a good tree (no file BAD); only then is the
compiled flag of `next` set. -/
theorem compile_ok_iff_good (g : G) (p : Proc) :
    (exec .compile g p).2.2 = true ↔ ∃ d c, g.next = some d ∧ d.head = some c ∧ (commitAt g.store c).good = true := by
  simp only [exec]
  cases hn : g.next with
  | none => simp
  | some d =>
    cases hh : d.head with
    | none => simp [hh]
    | some c => by_cases hg : (commitAt g.store c).good = true <;> simp [hh, hg]

/-- The compiled code belongs to the tree of HEAD: in every reachable state every compiled policy
directory (so in particular the one `current` names) carries the code of exactly the tree that
is checked out in its `src` (content id of the tree without the POLICY file), produced by ONE
compile into a fresh `code` directory (`mixed = false`: `rm -rf $NEXT; mkdir $NEXT` under the lock
before every compile — no leftover files of a killed earlier run).  This is what
`git reset --hard $HASH` after `git pull --no-rebase` is for: without it, HEAD of the promoted
directory would be the merge commit while the code was compiled before the merge. -/
theorem compiled_code_belongs_to_head (sysEmail : Bool) (es : List Event) (n : Nat) (d : Dir)
    (hd : lookupDir (run prog sysEmail es).g.dirs n = some d) :
    dirCodeOK (run prog sysEmail es).g.store d = true := by
  have h := (inv124_run fd9_inherited_checked safety_checked numbering_checked code_checked sysEmail es).2.2.gi
  unfold dirCodeOK
  cases hb : d.built with
  | false => rfl
  | true =>
    obtain ⟨x, hx, _, hc, hm⟩ := h.dirs n d hd hb
    simp [hx, hc, hm, treeOf]

/-- Whoever changes `current` (removes or re-points the link) is a live invocation that holds the
lock and whose directory `p$POLICY` exists and holds a successful compile — so a commit that does
not compile never changes `current`: neither the commit itself, nor a run that fails to compile
it (such a run never gets a compiled `p$POLICY`). -/
theorem bad_commit_never_changes_current (sysEmail : Bool) (es : List Event) (e : Event)
    (hch : (step prog (run prog sysEmail es) e).g.current ≠ (run prog sysEmail es).g.current) :
    ∃ pid p d, e = .step pid ∧ findProc (run prog sysEmail es).procs pid = some p ∧ p.alive = true ∧
      (run prog sysEmail es).g.lock = some p.pid ∧
      lookupDir (run prog sysEmail es).g.dirs p.policy = some d ∧ d.built = true :=
  current_change safety_checked (inv1_run fd9_inherited_checked safety_checked sysEmail es) e hch

/-- At most one invocation works on the database: two live invocations that have written or are
about to write (anything below policies/ or to the repository) are the same invocation, and it
holds the lock. -/
theorem at_most_one_worker (sysEmail : Bool) (es : List Event) (p q : Proc)
    (hp : p ∈ (run prog sysEmail es).procs) (hq : q ∈ (run prog sysEmail es).procs)
    (wp : works prog p = true) (wq : works prog q = true) :
    p = q ∧ (run prog sysEmail es).g.lock = some p.pid := by
  have hinv := inv1_run fd9_inherited_checked safety_checked sysEmail es
  have h1 := works_holds safety_checked hinv hp wp
  have h2 := works_holds safety_checked hinv hq wq
  rw [h1] at h2
  injection h2 with h2
  exact ⟨hinv.uniq p hp q hq h2, h1⟩

theorem strictlyDecreasing_of_pairwise : ∀ l : List Nat, l.Pairwise (· > ·) → strictlyDecreasing l = true
  | [], _ => rfl
  | [_], _ => rfl
  | a :: b :: rest, h => by
    have h1 := List.pairwise_cons.mp h
    simp only [strictlyDecreasing, Bool.and_eq_true, decide_eq_true_eq]
    exact ⟨h1.1 b (by simp), strictlyDecreasing_of_pairwise (b :: rest) h1.2⟩

/-- No git command of the script fails unless a user commit races with it: in every history in
which no user commit lands while a live invocation stands between its `git pull --no-rebase` and
the following `git push` (`raced`, a ghost set by the commit event) and nobody rewrites the POLICY
file by hand (`edited`: a commit that rewrites POLICY, or the script's revert of such a commit),
`git clone`, `git commit`, `git pull --no-rebase` of the script never fail and no `git push` that
would publish a new POLICY number is rejected — for any number of concurrent invocations, kills
and orphans: the other sources of failure (a leftover `next`, a second writer) are excluded by the
lock invariant and by `rm -rf $NEXT; mkdir $NEXT` under the lock. -/
theorem no_git_trouble_if_race_free (sysEmail : Bool) (es : List Event)
    (hr : (run prog sysEmail es).g.raced = false) (he : (run prog sysEmail es).g.edited = false) :
    (run prog sysEmail es).g.trouble = false :=
  no_trouble_of_race_free fd9_inherited_checked safety_checked numbering_checked code_checked git_checked
    sysEmail es hr he

/-- Policy numbers strictly increase: the numbers N of all `mv next pN` ever executed (ghost list
`hist`, newest first) are strictly decreasing, i.e. every new policy directory gets a number larger
than every number used before — for every history in which no user commit raced with pull…push of
a live invocation and nobody rewrote the POLICY file by hand (hypotheses on the schedule only; that
no git command fails then is `no_git_trouble_if_race_free`).  The full statement is false:
`policy_numbers_strictly_increase_counterexample`. -/
theorem policy_numbers_strictly_increase_partial (sysEmail : Bool) (es : List Event)
    (h1 : (run prog sysEmail es).g.raced = false) (h2 : (run prog sysEmail es).g.edited = false) :
    strictlyDecreasing (run prog sysEmail es).g.hist = true :=
  strictlyDecreasing_of_pairwise _
    ((inv2_run fd9_inherited_checked safety_checked numbering_checked sysEmail es).2.n
      ⟨no_git_trouble_if_race_free sysEmail es h1 h2, h2⟩).incr

def stepsN (pid n : Nat) : List Event := List.replicate n (Event.step pid)

/-- Number of steps invocation `pid` needs until the command it is about to run satisfies `pred`
(so that the witnesses below do not depend on instruction indices). -/
def countUntil (pred : Cmd → Bool) (pid : Nat) : Nat → State → Nat
  | 0, _ => 0
  | fuel + 1, s =>
    match findProc s.procs pid with
    | some p =>
      if p.alive && !(((instrAt prog p.pc).map (fun i => pred i.cmd)).getD true) then
        countUntil pred pid fuel (step prog s (.step pid)) + 1
      else 0
    | none => 0

/-- first run completes (p1 current), a good commit arrives, a second invocation starts -/
def history1 : List Event := [.spawn] ++ stepsN 1 200 ++ [.commit true none true, .spawn]
/-- … and is killed right before the first command satisfying `pred` -/
def killedBefore (pred : Cmd → Bool) : List Event :=
  history1 ++ stepsN 2 (countUntil pred 2 200 (run prog false history1)) ++ [.kill 2]
/-- … a user commit lands right before `git push`, the run goes on and is killed before `ln -s`;
a third invocation runs to its end -/
def racedAndLostLink : List Event :=
  let a := history1 ++ stepsN 2 (countUntil (· == .gitPush) 2 200 (run prog false history1)) ++ [.commit true none true]
  a ++ stepsN 2 (countUntil (· == .lnCurrent) 2 200 (run prog false a)) ++ [.kill 2, .spawn] ++ stepsN 3 200

/-- … false without that hypothesis: a user commit lands between `git pull` and `git push` of the
second run (push rejected), the run is killed between `rm -f $CURRENT` and `ln -s`; the third run
computes the number 2 again, its `mv next p2` lands inside the existing p2 and it makes the OLD
directory p2 current. -/
theorem policy_numbers_strictly_increase_counterexample :
    ∃ es : List Event, strictlyDecreasing (run prog false es).g.hist = false ∧
      (run prog false es).g.edited = false ∧ (run prog false es).g.raced = true :=
  ⟨racedAndLostLink, by decide +kernel⟩

/-- "The next undisturbed run makes the newest compiling revision current" is false (F-C19):
the second run is killed after `git push`, right before `mv next $POLICY`.  The database is
quiescent, the newest revision compiles, and one more undisturbed run exits 0 via `uptodate`
and leaves `current` at p1. -/
theorem next_run_promotes_newest_counterexample :
    ∃ es : List Event,
      quiescent (run prog false es) = true ∧
      (commitAt (run prog false es).g.store (run prog false es).g.remote).good = true ∧
      (run prog false es).g.staleNext = true ∧
      quiescent (runNew prog 200 (run prog false es)) = true ∧
      exitOf (runNew prog 200 (run prog false es)) (run prog false es).npid = some 0 ∧
      (runNew prog 200 (run prog false es)).g.newest = false ∧
      (runNew prog 200 (run prog false es)).g.current = some 1 :=
  ⟨killedBefore (· == .mvNextTo), by decide +kernel⟩

/-- Same root cause, wider window (F-C19b): killed before the compile of the second run. -/
theorem next_run_promotes_newest_counterexample_compile :
    ∃ es : List Event,
      quiescent (run prog false es) = true ∧
      (commitAt (run prog false es).g.store (run prog false es).g.remote).good = true ∧
      (run prog false es).g.staleNext = true ∧
      exitOf (runNew prog 200 (run prog false es)) (run prog false es).npid = some 0 ∧
      (runNew prog 200 (run prog false es)).g.newest = false :=
  ⟨killedBefore (· == .compile), by decide +kernel⟩

/-- The next undisturbed run makes the newest compiling revision current — from EVERY reachable
state (any history of commits, invocations, interleavings, kills between commands and kills during
a child process) in which no invocation is left, the newest revision compiles, and which is outside
the two classes of the known findings, both decidable on the state:
`staleNext` (a leftover `next` whose HEAD equals the remote head — what F-C19 / F-C19b leave) and
`¬ numbersCovered` (a policy directory numbered above max(POLICY file, link) — what F-C19n leaves).
No hypothesis on git failures or POLICY edits in the past.  The new invocation terminates within
`prog.length + 1` commands with exit status 0; afterwards `current` names a compiled directory
whose HEAD is the remote head and whose code was compiled from that revision's tree. -/
theorem next_run_promotes_newest_partial (sysEmail : Bool) (es : List Event)
    (hq : quiescent (run prog sysEmail es) = true)
    (hgood : (commitAt (run prog sysEmail es).g.store (run prog sysEmail es).g.remote).good = true)
    (hstale : (run prog sysEmail es).g.staleNext = false)
    (hcov : (run prog sysEmail es).g.numbersCovered = true) :
    quiescent (runNew prog (prog.length + 1) (run prog sysEmail es)) = true ∧
    exitOf (runNew prog (prog.length + 1) (run prog sysEmail es)) (run prog sysEmail es).npid = some 0 ∧
    (runNew prog (prog.length + 1) (run prog sysEmail es)).g.newest = true :=
  promotes_of_checks fd9_inherited_checked safety_checked numbering_checked code_checked calm_checked calm_forward sysEmail es
    hq hgood hstale hcov

/-! Non-vacuity: histories with bad commits, reverts, kills and a second invocation meet the
hypotheses of the `_partial` theorems; so does a history WITH git trouble in the past (the racing
commit and the lost link of F-C19n, after the two runs that repair it). -/
example :
    let es : List Event := [.spawn] ++ stepsN 1 200 ++ [.commit false none true, .spawn] ++ stepsN 2 30 ++ [.spawn] ++
      stepsN 3 12 ++ stepsN 2 300 ++ [.commit true none true, .spawn] ++ stepsN 4 20 ++ [.kill 4, .commit true none false]
    quiescent (run prog false es) = true ∧
    (commitAt (run prog false es).g.store (run prog false es).g.remote).good = true ∧
    (run prog false es).g.staleNext = false ∧ (run prog false es).g.numbersCovered = true ∧
    (run prog false es).g.trouble = false ∧ (run prog false es).g.raced = false ∧
    (run prog false es).g.edited = false ∧ (run prog false es).g.hist = [2, 1] := by decide +kernel

example :
    let es : List Event := racedAndLostLink ++ [.spawn] ++ stepsN 4 200
    quiescent (run prog false es) = true ∧
    (commitAt (run prog false es).g.store (run prog false es).g.remote).good = true ∧
    (run prog false es).g.staleNext = false ∧ (run prog false es).g.numbersCovered = true ∧
    (run prog false es).g.trouble = true := by decide +kernel

/-- A user commit that lands while the second invocation compiles is merged by its `git pull
--no-rebase`; that is not a race in the sense of `raced`, and no git command fails. -/
example :
    let a : List Event := history1 ++ stepsN 2 (countUntil (· == .compile) 2 200 (run prog false history1))
    let es : List Event := a ++ [.commit true none true] ++ stepsN 2 200
    (run prog false es).g.raced = false ∧ (run prog false es).g.edited = false ∧
    (run prog false es).g.trouble = false ∧ (run prog false es).g.hist = [2, 1] ∧
    (commitAt (run prog false es).g.store (run prog false es).g.remote).kind = .merge := by decide +kernel

/-- An orphan keeps the lock (non-vacuity of `at_most_one_worker` for `killDuring`): the shell of
the first invocation is killed while its `git push` runs; a second invocation started before that
child has finished finds the lock held and exits 1; when the child is done the push has happened
and the lock is free. -/
example :
    let a : List Event := [.spawn] ++ stepsN 1 (countUntil (· == .gitPush) 1 200 (run prog false [.spawn]))
    let es : List Event := a ++ [.killDuring 1, .spawn] ++ stepsN 2 30
    (run prog false es).g.lock = some 1 ∧ exitOf (run prog false es) 2 = some 1 ∧
    (run prog false es).dying = [1] ∧ (run prog false es).g.remote = 1 ∧
    (run prog false (es ++ [.step 1])).g.lock = none ∧ (run prog false (es ++ [.step 1])).g.remote = 2 ∧
    quiescent (run prog false (es ++ [.step 1])) = true := by decide +kernel

/-! ### … and when the whole process group is killed while the compiler is half way

`runG` = `run` plus the event `killGroup pid`: the shell AND its compiler child die, `next/code` keeps
part of the output (no stamp), the flock is free at once.  The three structural properties hold over
ALL such histories as well. -/

theorem group_kill_current_absent_or_compiled (sysEmail : Bool) (es : List EventG) :
    (runG prog sysEmail es).g.currentOK = true := by
  have h := (inv124_runG fd9_inherited_checked safety_checked numbering_checked code_checked sysEmail es).1.gi
  unfold G.currentOK
  cases hc : (runG prog sysEmail es).g.current with
  | none => rfl
  | some n =>
    obtain ⟨d, hd⟩ := h.cur n hc
    simp [hd, h.dirs n d hd]

theorem group_kill_compiled_code_belongs_to_head (sysEmail : Bool) (es : List EventG) (n : Nat) (d : Dir)
    (hd : lookupDir (runG prog sysEmail es).g.dirs n = some d) :
    dirCodeOK (runG prog sysEmail es).g.store d = true := by
  have h := (inv124_runG fd9_inherited_checked safety_checked numbering_checked code_checked sysEmail es).2.2.gi
  unfold dirCodeOK
  cases hb : d.built with
  | false => rfl
  | true =>
    obtain ⟨x, hx, _, hc, hm⟩ := h.dirs n d hd hb
    simp [hx, hc, hm, treeOf]

theorem group_kill_at_most_one_worker (sysEmail : Bool) (es : List EventG) (p q : Proc)
    (hp : p ∈ (runG prog sysEmail es).procs) (hq : q ∈ (runG prog sysEmail es).procs)
    (wp : works prog p = true) (wq : works prog q = true) :
    p = q ∧ (runG prog sysEmail es).g.lock = some p.pid := by
  have hinv := (inv124_runG fd9_inherited_checked safety_checked numbering_checked code_checked sysEmail es).1
  have h1 := works_holds safety_checked hinv hp wp
  have h2 := works_holds safety_checked hinv hq wq
  rw [h1] at h2
  injection h2 with h2
  exact ⟨hinv.uniq p hp q hq h2, h1⟩

/-- Numbering over histories with group kills (here with the hypothesis on the ghost `trouble` itself: the
race-freeness argument of `no_git_trouble_if_race_free` is proved for `run` only). -/
theorem group_kill_policy_numbers_strictly_increase_partial (sysEmail : Bool) (es : List EventG)
    (h1 : (runG prog sysEmail es).g.trouble = false) (h2 : (runG prog sysEmail es).g.edited = false) :
    strictlyDecreasing (runG prog sysEmail es).g.hist = true :=
  strictlyDecreasing_of_pairwise _
    ((inv124_runG fd9_inherited_checked safety_checked numbering_checked code_checked sysEmail es).2.1.n ⟨h1, h2⟩).incr

/-- Non-vacuity: the second invocation is killed with its whole group while it compiles — `next` is left
with partial code and without stamp, the lock is free; an undisturbed run right after it leaves p1 current
(the window of F-C19b), after one more commit the next run removes the leftover and promotes p2. -/
example :
    let a : List Event := history1 ++ stepsN 2 (countUntil (· == .compile) 2 200 (run prog false history1))
    let es : List EventG := a.map .base ++ [.killGroup 2]
    let s := runG prog false es
    s.g.lock = none ∧ (s.g.next.map fun d => (d.built, d.dirty)) = some (false, true) ∧ s.g.current = some 1 ∧
    s.g.trouble = false ∧ s.g.edited = false ∧ s.g.hist = [1] ∧
    (runG prog false (es ++ [.base .spawn] ++ (stepsN 3 200).map .base)).g.current = some 1 ∧
    (runG prog false (es ++ [.base (.commit true none true), .base .spawn] ++ (stepsN 3 200).map .base)).g.current = some 2 := by
  decide +kernel

def obligations : List Lean.Name := [
  ``script_understood, ``fd9_inherited_checked, ``safety_checked, ``numbering_checked, ``code_checked, ``calm_checked, ``calm_forward,
  ``compiled_code_belongs_to_head, ``wrappers_only_delegate,
  ``next_run_promotes_newest_partial,
  ``current_absent_or_compiled, ``compile_ok_iff_good, ``bad_commit_never_changes_current, ``at_most_one_worker,
  ``git_checked, ``no_git_trouble_if_race_free, ``policy_numbers_strictly_increase_partial, ``policy_numbers_strictly_increase_counterexample,
  ``next_run_promotes_newest_counterexample, ``next_run_promotes_newest_counterexample_compile,
  ``group_kill_current_absent_or_compiled, ``group_kill_compiled_code_belongs_to_head, ``group_kill_at_most_one_worker,
  ``group_kill_policy_numbers_strictly_increase_partial]

end NA.C19
